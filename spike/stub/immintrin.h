/* verification model of the x86 intrinsics used by carquet (subset for the spike) */
#ifndef VSTUB_IMMINTRIN_H
#define VSTUB_IMMINTRIN_H
#include <stdint.h>
#include <string.h>
typedef struct { uint8_t b[16]; } __m128i;
typedef struct { uint8_t b[32]; } __m256i;
static inline __m256i _mm256_loadu_si256(const __m256i* p) { __m256i r; memcpy(&r, p, 32); return r; }
static inline void _mm256_storeu_si256(__m256i* p, __m256i v) { memcpy(p, &v, 32); }
static inline uint32_t vs_get32(const uint8_t* b, int i) { uint32_t x; memcpy(&x, b + 4*i, 4); return x; }
static inline void vs_set32(uint8_t* b, int i, uint32_t x) { memcpy(b + 4*i, &x, 4); }
static inline __m256i _mm256_add_epi32(__m256i a, __m256i b) { __m256i r; for (int i = 0; i < 8; i++) vs_set32(r.b, i, vs_get32(a.b, i) + vs_get32(b.b, i)); return r; }
static inline __m128i _mm_add_epi32(__m128i a, __m128i b) { __m128i r; for (int i = 0; i < 4; i++) vs_set32(r.b, i, vs_get32(a.b, i) + vs_get32(b.b, i)); return r; }
static inline __m256i _mm256_set1_epi32(int x) { __m256i r; for (int i = 0; i < 8; i++) vs_set32(r.b, i, (uint32_t)x); return r; }
static inline __m128i _mm_set1_epi32(int x) { __m128i r; for (int i = 0; i < 4; i++) vs_set32(r.b, i, (uint32_t)x); return r; }
/* per-128-bit-lane byte shift left */
static inline __m256i vs_slli_si256(__m256i a, int n) { __m256i r; for (int l = 0; l < 2; l++) for (int i = 0; i < 16; i++) r.b[16*l+i] = (i >= n && n < 16) ? a.b[16*l+i-n] : 0; return r; }
#define _mm256_slli_si256(a, n) vs_slli_si256((a), (n))
static inline __m128i vs_extracti128(__m256i a, int k) { __m128i r; memcpy(r.b, a.b + 16*(k&1), 16); return r; }
#define _mm256_extracti128_si256(a, k) vs_extracti128((a), (k))
static inline __m256i vs_inserti128(__m256i a, __m128i v, int k) { memcpy(a.b + 16*(k&1), v.b, 16); return a; }
#define _mm256_inserti128_si256(a, v, k) vs_inserti128((a), (v), (k))
#define _mm_extract_epi32(a, k) ((int)vs_get32((a).b, (k)&3))
#define _mm256_extract_epi32(a, k) ((int)vs_get32((a).b, (k)&7))
#endif
