#include <assert.h>
#include <stdint.h>
#include <stdlib.h>
#include "encoding/rle.h"
#ifndef L
#define L 6
#endif
#ifndef M
#define M 12
#endif
#ifndef BW
#define BW 1
#endif
uint8_t nondet_u8(void); size_t nondet_size(void);
void harness_dec(void) {
  uint8_t enc[L]; uint32_t out[M];
  for (int i = 0; i < L; i++) enc[i] = nondet_u8();
  size_t len = nondet_size(); __CPROVER_assume(len <= L);
  int64_t got = carquet_rle_decode_all(enc, len, BW, out, M);
  assert(got >= 0 && got <= M);
}
