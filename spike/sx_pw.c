#include "symx.h"
#include <stdint.h>
#include <stdlib.h>
#include <string.h>
#include <carquet/carquet.h>
#include "reader/reader_internal.h"
typedef struct carquet_page_writer carquet_page_writer_t;
carquet_page_writer_t* carquet_page_writer_create(carquet_physical_type_t, carquet_encoding_t, carquet_compression_t, int16_t, int16_t, int32_t);
carquet_status_t carquet_page_writer_add_values(carquet_page_writer_t*, const void*, int64_t, const int16_t*, const int16_t*);
carquet_status_t carquet_page_writer_finalize(carquet_page_writer_t*, const uint8_t**, size_t*, int32_t*, int32_t*);
void carquet_page_writer_destroy(carquet_page_writer_t*);
carquet_status_t carquet_read_data_page_v1(carquet_column_reader_t*, const uint8_t*, size_t, const parquet_data_page_header_t*, void*, int64_t, int16_t*, int16_t*, int64_t*, carquet_error_t*);
#ifndef A
#define A 3
#endif
#ifndef B
#define B 3
#endif
void harness(void) {
  int16_t def[A+B]; int32_t vals[A+B];
  symx_make_symbolic(def, sizeof def, "def");
  symx_make_symbolic(vals, sizeof vals, "val");
  int nn = 0, na = 0;
  for (int i = 0; i < A+B; i++) { symx_assume(def[i] == 0 || def[i] == 1); if (def[i]) { nn++; if (i < A) na++; } }
  carquet_page_writer_t* w = carquet_page_writer_create(CARQUET_PHYSICAL_INT32, CARQUET_ENCODING_PLAIN, CARQUET_COMPRESSION_UNCOMPRESSED, 1, 0, 0);
  symx_assume(w != 0);
  carquet_status_t st = carquet_page_writer_add_values(w, vals, A, def, 0);
  symx_assert(st == CARQUET_OK, "add1 ok");
  st = carquet_page_writer_add_values(w, vals + na, B, def + A, 0);
  symx_assert(st == CARQUET_OK, "add2 ok");
  const uint8_t* page; size_t page_size; int32_t usz, csz;
  st = carquet_page_writer_finalize(w, &page, &page_size, &usz, &csz);
  symx_assert(st == CARQUET_OK, "finalize ok");
  const uint8_t* body = page + (page_size - (size_t)csz);
  carquet_column_reader_t r; memset(&r, 0, sizeof r);
  r.type = CARQUET_PHYSICAL_INT32; r.max_def_level = 1;
  parquet_data_page_header_t h; memset(&h, 0, sizeof h);
  h.num_values = A+B; h.encoding = CARQUET_ENCODING_PLAIN;
  int32_t ov[A+B]; int16_t od[A+B], orp[A+B]; int64_t got = 0; carquet_error_t err;
  st = carquet_read_data_page_v1(&r, body, (size_t)csz, &h, ov, A+B, od, orp, &got, &err);
  symx_assert(st == CARQUET_OK, "page decodes");
  symx_assert(got == A+B, "row count");
  int k = 0;
  for (int i = 0; i < A+B; i++) { symx_assert(od[i] == def[i], "def level round-trips"); }
  for (int i = 0; i < A+B; i++) if (def[i]) { symx_assert(ov[k] == vals[k], "value round-trips"); k++; }
  carquet_page_writer_destroy(w);
}
