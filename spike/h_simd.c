#include <assert.h>
#include <stdint.h>
#include <stddef.h>
#include <immintrin.h>
#ifndef N
#define N 17
#endif
void carquet_avx2_prefix_sum_i32(int32_t* values, int64_t count, int32_t initial) {
    int32_t sum = initial;
    int64_t i = 0;

    /* AVX2 prefix sum for 8 elements at a time */
    for (; i + 8 <= count; i += 8) {
        __m256i v = _mm256_loadu_si256((const __m256i*)(values + i));

        /* Partial prefix sums within the vector */
        /* Step 1: Add adjacent pairs */
        __m256i shifted1 = _mm256_slli_si256(v, 4);
        v = _mm256_add_epi32(v, shifted1);

        /* Step 2: Add pairs that are 2 apart */
        __m256i shifted2 = _mm256_slli_si256(v, 8);
        v = _mm256_add_epi32(v, shifted2);

        /* Step 3: Handle cross-lane (bit tricky with AVX2) */
        /* Extract lane 0's last value and add to all of lane 1 */
        __m128i lo = _mm256_extracti128_si256(v, 0);
        __m128i hi = _mm256_extracti128_si256(v, 1);

        int32_t lane0_sum = _mm_extract_epi32(lo, 3);
        __m128i lane0_broadcast = _mm_set1_epi32(lane0_sum);
        hi = _mm_add_epi32(hi, lane0_broadcast);

        v = _mm256_inserti128_si256(v, hi, 1);

        /* Add running sum */
        __m256i sums = _mm256_set1_epi32(sum);
        v = _mm256_add_epi32(v, sums);
        _mm256_storeu_si256((__m256i*)(values + i), v);

        /* Update running sum to last element */
        sum = _mm256_extract_epi32(v, 7);
    }

    /* Handle remaining values */
    for (; i < count; i++) {
        sum += values[i];
        values[i] = sum;
    }
}
int32_t nondet_i32(void); int64_t nondet_i64(void);
void harness_simd(void) {
  int64_t n = NN;
  int32_t a[N], b[N]; int32_t init = nondet_i32();
  for (int i = 0; i < N; i++) { a[i] = nondet_i32(); b[i] = a[i]; }
  int32_t *pa = __CPROVER_allocate(n * 4, 0);  /* exact-size buffer */
  for (int i = 0; i < N; i++) if (i < n) pa[i] = a[i];
  carquet_avx2_prefix_sum_i32(pa, n, init);
  uint32_t sum = (uint32_t)init;
  for (int i = 0; i < N; i++) if (i < n) { sum += (uint32_t)b[i]; assert((uint32_t)pa[i] == sum); }
}
