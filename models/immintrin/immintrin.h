/*
 * Verification model of the x86 SIMD intrinsics used by carquet (and their
 * close siblings), written as plain C11.
 *
 * Purpose: let the real carquet SIMD kernels (the files in src/simd/x86, encoding/rle.c)
 * be compiled by front ends that have no intrinsic support (CBMC's goto-cc) or
 * whose intrinsic lowering produces vector IR (clang), and then be executed
 * symbolically.  Put this directory FIRST on the include path:
 *
 *     -I/verif/models/immintrin
 *
 * Semantics follow the "Operation" pseudo-code of the Intel Intrinsics Guide /
 * Intel SDM instruction reference.  Every function is validated bit-for-bit
 * against the hardware by /verif/models/validate.sh.
 *
 * Style rules (for the symbolic engines):
 *   - vector types are structs wrapping a byte array, passed by value;
 *   - lanes are accessed with memcpy (no pointer type punning);
 *   - loops have literal constant trip counts; no recursion, no VLAs,
 *     no 128-bit integers, no inline asm, no compiler vector extensions;
 *   - no floating point arithmetic: float/double lanes are only ever moved as
 *     bit patterns (carquet performs no SIMD float arithmetic);
 *   - memory intrinsics touch exactly the bytes the hardware touches:
 *     masked-off lanes are neither read nor written;
 *   - no implementation-defined unsigned->signed conversions, no signed
 *     overflow, no out-of-range shifts (the model is clean under
 *     -fsanitize=undefined and CBMC's overflow/shift checks).
 *
 * Alignment: the model types have alignment 1.  The aligned load/store forms
 * (_mm_load_si128, ...) call VM_ALIGN_CHECK(p, n): under CBMC an assertion on the
 * pointer offset, a no-op elsewhere; a harness may define it before including this file.
 */
#ifndef VERIF_MODEL_IMMINTRIN_H
#define VERIF_MODEL_IMMINTRIN_H

#include <stdint.h>
#include <stddef.h>
#include <string.h>

#ifndef VM_ALIGN_CHECK
# ifdef VERIF_CBMC
/* under CBMC the aligned forms assert that the pointer's offset inside its object is a multiple of the vector alignment (object
 * bases are taken as sufficiently aligned): a kernel that uses an aligned load/store on a caller pointer fails for misaligned callers */
#  define VM_ALIGN_CHECK(p, n) __CPROVER_assert(__CPROVER_POINTER_OFFSET(p) % (n) == 0, "aligned vector load/store on a pointer whose offset is a multiple of the vector alignment")
# else
#  define VM_ALIGN_CHECK(p, n) ((void)(p))
# endif
#endif

/* ==========================================================================
 * Types
 * ========================================================================== */

typedef struct { uint8_t b[16]; } __m128i;
typedef struct { uint8_t b[32]; } __m256i;
typedef struct { uint8_t b[64]; } __m512i;
typedef struct { uint8_t b[16]; } __m128;
typedef struct { uint8_t b[32]; } __m256;
typedef struct { uint8_t b[64]; } __m512;
typedef struct { uint8_t b[16]; } __m128d;
typedef struct { uint8_t b[32]; } __m256d;
typedef struct { uint8_t b[64]; } __m512d;

/* the "unaligned" aliases of the GCC/clang headers */
typedef __m128i __m128i_u;
typedef __m256i __m256i_u;
typedef __m512i __m512i_u;
typedef __m128  __m128_u;
typedef __m256  __m256_u;
typedef __m512  __m512_u;
typedef __m128d __m128d_u;
typedef __m256d __m256d_u;
typedef __m512d __m512d_u;

typedef uint8_t  __mmask8;
typedef uint16_t __mmask16;
typedef uint32_t __mmask32;
typedef uint64_t __mmask64;

/* ==========================================================================
 * Lane accessors (memcpy based) and bit-pattern conversions
 * ========================================================================== */

static inline uint16_t vm_ld16(const uint8_t *p) { uint16_t x; memcpy(&x, p, 2); return x; }
static inline uint32_t vm_ld32(const uint8_t *p) { uint32_t x; memcpy(&x, p, 4); return x; }
static inline uint64_t vm_ld64(const uint8_t *p) { uint64_t x; memcpy(&x, p, 8); return x; }
static inline uint8_t  vm_ld8 (const uint8_t *p) { return *p; }
static inline void vm_st8 (uint8_t *p, uint8_t  x) { *p = x; }
static inline void vm_st16(uint8_t *p, uint16_t x) { memcpy(p, &x, 2); }
static inline void vm_st32(uint8_t *p, uint32_t x) { memcpy(p, &x, 4); }
static inline void vm_st64(uint8_t *p, uint64_t x) { memcpy(p, &x, 8); }

static inline int8_t  vm_lds8 (const uint8_t *p) { int8_t  x; memcpy(&x, p, 1); return x; }
static inline int16_t vm_lds16(const uint8_t *p) { int16_t x; memcpy(&x, p, 2); return x; }
static inline int32_t vm_lds32(const uint8_t *p) { int32_t x; memcpy(&x, p, 4); return x; }
static inline int64_t vm_lds64(const uint8_t *p) { int64_t x; memcpy(&x, p, 8); return x; }
static inline void vm_sts8 (uint8_t *p, int8_t  x) { memcpy(p, &x, 1); }
static inline void vm_sts16(uint8_t *p, int16_t x) { memcpy(p, &x, 2); }
static inline void vm_sts32(uint8_t *p, int32_t x) { memcpy(p, &x, 4); }
static inline void vm_sts64(uint8_t *p, int64_t x) { memcpy(p, &x, 8); }

/* same-width signed <-> unsigned reinterpretation without implementation-defined casts */
static inline int       vm_int_of_u32(uint32_t x) { int32_t r; memcpy(&r, &x, 4); return r; }
static inline long long vm_ll_of_u64(uint64_t x) { int64_t r; memcpy(&r, &x, 8); return r; }
static inline uint32_t  vm_u32_of_int(int x) { uint32_t r; memcpy(&r, &x, 4); return r; }
static inline uint64_t  vm_u64_of_ll(long long x) { uint64_t r; memcpy(&r, &x, 8); return r; }

#define VM_ONES8  0xFFu
#define VM_ONES16 0xFFFFu
#define VM_ONES32 0xFFFFFFFFu
#define VM_ONES64 0xFFFFFFFFFFFFFFFFull

/* logical / arithmetic shifts with the x86 "count too large" behaviour */
static inline uint16_t vm_shl16(uint16_t x, uint64_t n) { return n > 15 ? 0 : (uint16_t)(((uint32_t)x << n) & 0xFFFFu); }
static inline uint32_t vm_shl32(uint32_t x, uint64_t n) { return n > 31 ? 0 : x << n; }
static inline uint64_t vm_shl64(uint64_t x, uint64_t n) { return n > 63 ? 0 : x << n; }
static inline uint16_t vm_shr16(uint16_t x, uint64_t n) { return n > 15 ? 0 : (uint16_t)(x >> n); }
static inline uint32_t vm_shr32(uint32_t x, uint64_t n) { return n > 31 ? 0 : x >> n; }
static inline uint64_t vm_shr64(uint64_t x, uint64_t n) { return n > 63 ? 0 : x >> n; }
static inline uint16_t vm_sar16(uint16_t x, uint64_t n)
{ if (n > 15) n = 15; return (x & 0x8000u) ? (uint16_t)(((x >> n) | ~(0xFFFFu >> n)) & 0xFFFFu) : (uint16_t)(x >> n); }
static inline uint32_t vm_sar32(uint32_t x, uint64_t n)
{ if (n > 31) n = 31; return (x & 0x80000000u) ? ((x >> n) | ~(VM_ONES32 >> n)) : (x >> n); }
static inline uint64_t vm_sar64(uint64_t x, uint64_t n)
{ if (n > 63) n = 63; return (x >> 63) ? ((x >> n) | ~(VM_ONES64 >> n)) : (x >> n); }

/* saturating narrowing */
static inline int8_t   vm_sat_s16_s8 (int16_t x) { return x < -128 ? (int8_t)-128 : x > 127 ? (int8_t)127 : (int8_t)x; }
static inline uint8_t  vm_sat_s16_u8 (int16_t x) { return x < 0 ? (uint8_t)0 : x > 255 ? (uint8_t)255 : (uint8_t)x; }
static inline int16_t  vm_sat_s32_s16(int32_t x) { return x < -32768 ? (int16_t)-32768 : x > 32767 ? (int16_t)32767 : (int16_t)x; }
static inline uint16_t vm_sat_s32_u16(int32_t x) { return x < 0 ? (uint16_t)0 : x > 65535 ? (uint16_t)65535 : (uint16_t)x; }

/* scalar bit counting (loop based, no builtins) */
static inline unsigned vm_lzcnt32(uint32_t x) { unsigned n = 0; for (int i = 31; i >= 0; i--) { if ((x >> i) & 1u) break; n++; } return n; }
static inline unsigned vm_lzcnt64(uint64_t x) { unsigned n = 0; for (int i = 63; i >= 0; i--) { if ((x >> i) & 1u) break; n++; } return n; }
static inline unsigned vm_tzcnt32(uint32_t x) { unsigned n = 0; for (int i = 0; i < 32; i++) { if ((x >> i) & 1u) break; n++; } return n; }
static inline unsigned vm_tzcnt64(uint64_t x) { unsigned n = 0; for (int i = 0; i < 64; i++) { if ((x >> i) & 1u) break; n++; } return n; }
static inline unsigned vm_popcnt32(uint32_t x) { unsigned n = 0; for (int i = 0; i < 32; i++) n += (unsigned)((x >> i) & 1u); return n; }
static inline unsigned vm_popcnt64(uint64_t x) { unsigned n = 0; for (int i = 0; i < 64; i++) n += (unsigned)((x >> i) & 1u); return n; }

/* address of element `index` (sign-extended) of a gather/scatter: base + index*scale */
static inline const uint8_t *vm_gaddr(const void *base, int64_t index, int scale)
{ return (const uint8_t *)base + (ptrdiff_t)(index * (int64_t)scale); }
static inline uint8_t *vm_saddr(void *base, int64_t index, int scale)
{ return (uint8_t *)base + (ptrdiff_t)(index * (int64_t)scale); }

/* ==========================================================================
 * Generator macros for the regular lane-wise families.
 *   VT  vector type, NB its size in bytes, UT lane type,
 *   LD/ST lane accessors, EXPR expression over lanes x (from a) and y (from b).
 * Every expansion is a static inline function with one constant-bound loop.
 * ========================================================================== */

#define VM_BIN(NAME, VT, NB, UT, LD, ST, EXPR)                                   \
static inline VT NAME(VT a, VT b) { VT r;                                        \
    for (int i = 0; i < (NB); i += (int)sizeof(UT)) {                            \
        UT x = LD(a.b + i), y = LD(b.b + i); (void)x; (void)y;                   \
        ST(r.b + i, (EXPR)); }                                                   \
    return r; }

#define VM_UN(NAME, VT, NB, UT, LD, ST, EXPR)                                    \
static inline VT NAME(VT a) { VT r;                                              \
    for (int i = 0; i < (NB); i += (int)sizeof(UT)) {                            \
        UT x = LD(a.b + i); ST(r.b + i, (EXPR)); }                               \
    return r; }

/* lane-wise op with a scalar (immediate) shift count n */
#define VM_SHI(NAME, VT, NB, UT, LD, ST, FN)                                     \
static inline VT NAME(VT a, int imm) { VT r;                                     \
    uint64_t n = (uint64_t)vm_u32_of_int(imm);                                   \
    for (int i = 0; i < (NB); i += (int)sizeof(UT)) ST(r.b + i, FN(LD(a.b + i), n)); \
    return r; }

/* lane-wise op with a per-lane variable shift count */
#define VM_SHV(NAME, VT, NB, UT, LD, ST, FN)                                     \
static inline VT NAME(VT a, VT count) { VT r;                                    \
    for (int i = 0; i < (NB); i += (int)sizeof(UT)) ST(r.b + i, FN(LD(a.b + i), (uint64_t)LD(count.b + i))); \
    return r; }

/* compare into a k-mask: REL is an expression over lanes x, y */
#define VM_CMPK(NAME, VT, NB, MT, LT, LD, REL)                                   \
static inline MT NAME(VT a, VT b) { MT k = 0;                                    \
    for (int i = 0; i < (NB) / (int)sizeof(LT); i++) {                           \
        LT x = LD(a.b + i * (int)sizeof(LT)), y = LD(b.b + i * (int)sizeof(LT)); \
        if (REL) k = (MT)(k | ((MT)1 << i)); }                                   \
    return k; }

/* zero / sign extension of the low lanes of a narrower source vector */
#define VM_EXT(NAME, DT, ST_T, NL, SW, DW, LD, ST)                               \
static inline DT NAME(ST_T a) { DT r;                                            \
    for (int i = 0; i < (NL); i++) ST(r.b + i * (DW), LD(a.b + i * (SW)));       \
    return r; }

/* generic reinterpreting cast between same-size vector types */
#define VM_CAST(NAME, DT, ST_T, NB)                                              \
static inline DT NAME(ST_T a) { DT r; memcpy(r.b, a.b, (NB)); return r; }

/* per-128-bit-lane byte interleave (punpck*): LOHI = 0 low half, 8 high half */
#define VM_UNPACK(NAME, VT, NB, ES, LOHI)                                        \
static inline VT NAME(VT a, VT b) { VT r;                                        \
    for (int l = 0; l < (NB); l += 16)                                           \
        for (int i = 0; i < 8 / (ES); i++) {                                     \
            memcpy(r.b + l + (2 * i) * (ES),     a.b + l + (LOHI) + i * (ES), (ES)); \
            memcpy(r.b + l + (2 * i + 1) * (ES), b.b + l + (LOHI) + i * (ES), (ES)); } \
    return r; }

/* unmasked / masked (k-register) unaligned loads and stores of NL lanes of ES bytes.
 * Masked-off lanes are not accessed at all. */
#define VM_MASK_LDST(PFX, SFX, VT, MT, NL, ES)                                   \
static inline VT PFX##_mask_loadu_##SFX(VT src, MT k, const void *p) { VT r = src; \
    const uint8_t *q = (const uint8_t *)p;                                       \
    for (int i = 0; i < (NL); i++) if ((k >> i) & 1u) memcpy(r.b + i * (ES), q + i * (ES), (ES)); \
    return r; }                                                                  \
static inline VT PFX##_maskz_loadu_##SFX(MT k, const void *p) { VT r;            \
    const uint8_t *q = (const uint8_t *)p;                                       \
    for (int i = 0; i < (NL); i++) {                                             \
        if ((k >> i) & 1u) memcpy(r.b + i * (ES), q + i * (ES), (ES));           \
        else memset(r.b + i * (ES), 0, (ES)); }                                  \
    return r; }                                                                  \
static inline void PFX##_mask_storeu_##SFX(void *p, MT k, VT a) {                \
    uint8_t *q = (uint8_t *)p;                                                   \
    for (int i = 0; i < (NL); i++) if ((k >> i) & 1u) memcpy(q + i * (ES), a.b + i * (ES), (ES)); }

/* merge-masked / zero-masked forms of a unary or binary lane-wise op F */
#define VM_MASKED_BIN(PFX, OP, SFX, VT, MT, NL, ES)                              \
static inline VT PFX##_mask_##OP##_##SFX(VT src, MT k, VT a, VT b) { VT t = PFX##_##OP##_##SFX(a, b), r = src; \
    for (int i = 0; i < (NL); i++) if ((k >> i) & 1u) memcpy(r.b + i * (ES), t.b + i * (ES), (ES)); \
    return r; }                                                                  \
static inline VT PFX##_maskz_##OP##_##SFX(MT k, VT a, VT b) { VT t = PFX##_##OP##_##SFX(a, b), r; \
    for (int i = 0; i < (NL); i++) {                                             \
        if ((k >> i) & 1u) memcpy(r.b + i * (ES), t.b + i * (ES), (ES));         \
        else memset(r.b + i * (ES), 0, (ES)); }                                  \
    return r; }

/* ==========================================================================
 * SSE  (xmmintrin.h) -- only data movement; floats are bit patterns
 * ========================================================================== */

#define _MM_HINT_ET0 7
#define _MM_HINT_ET1 6
#define _MM_HINT_T0  3
#define _MM_HINT_T1  2
#define _MM_HINT_T2  1
#define _MM_HINT_NTA 0
#define _MM_SHUFFLE(z, y, x, w) (((z) << 6) | ((y) << 4) | ((x) << 2) | (w))

/* prefetch never faults and has no architectural effect: no-op */
static inline void _mm_prefetch(const void *p, int hint) { (void)p; (void)hint; }
static inline void _mm_sfence(void) { }
static inline void _mm_pause(void) { }

static inline __m128 _mm_setzero_ps(void) { __m128 r; memset(r.b, 0, 16); return r; }
static inline __m128 _mm_set_ps(float e3, float e2, float e1, float e0)
{ __m128 r; float v[4] = { e0, e1, e2, e3 }; memcpy(r.b, v, 16); return r; }
static inline __m128 _mm_setr_ps(float e0, float e1, float e2, float e3)
{ __m128 r; float v[4] = { e0, e1, e2, e3 }; memcpy(r.b, v, 16); return r; }
static inline __m128 _mm_set1_ps(float e)
{ __m128 r; for (int i = 0; i < 4; i++) memcpy(r.b + 4 * i, &e, 4); return r; }
static inline __m128 _mm_loadu_ps(const float *p) { __m128 r; memcpy(r.b, p, 16); return r; }
static inline __m128 _mm_load_ps(const float *p) { __m128 r; VM_ALIGN_CHECK(p, 16); memcpy(r.b, p, 16); return r; }
static inline void _mm_storeu_ps(float *p, __m128 a) { memcpy(p, a.b, 16); }
static inline void _mm_store_ps(float *p, __m128 a) { VM_ALIGN_CHECK(p, 16); memcpy(p, a.b, 16); }
static inline int _mm_movemask_ps(__m128 a)
{ int m = 0; for (int i = 0; i < 4; i++) m |= (a.b[4 * i + 3] >> 7) << i; return m; }

/* ==========================================================================
 * SSE2  (emmintrin.h)
 * ========================================================================== */

/* ---- loads / stores ---- */
static inline __m128i _mm_loadu_si128(const __m128i *p) { __m128i r; memcpy(r.b, p, 16); return r; }
static inline __m128i _mm_load_si128(const __m128i *p) { __m128i r; VM_ALIGN_CHECK(p, 16); memcpy(r.b, p, 16); return r; }
static inline __m128i _mm_loadl_epi64(const __m128i *p) { __m128i r; memcpy(r.b, p, 8); memset(r.b + 8, 0, 8); return r; }
static inline __m128i _mm_loadu_si64(const void *p) { __m128i r; memcpy(r.b, p, 8); memset(r.b + 8, 0, 8); return r; }
static inline __m128i _mm_loadu_si32(const void *p) { __m128i r; memcpy(r.b, p, 4); memset(r.b + 4, 0, 12); return r; }
static inline __m128i _mm_loadu_si16(const void *p) { __m128i r; memcpy(r.b, p, 2); memset(r.b + 2, 0, 14); return r; }
static inline void _mm_storeu_si128(__m128i *p, __m128i a) { memcpy(p, a.b, 16); }
static inline void _mm_store_si128(__m128i *p, __m128i a) { VM_ALIGN_CHECK(p, 16); memcpy(p, a.b, 16); }
static inline void _mm_storel_epi64(__m128i *p, __m128i a) { memcpy(p, a.b, 8); }
static inline void _mm_storeu_si64(void *p, __m128i a) { memcpy(p, a.b, 8); }
static inline void _mm_storeu_si32(void *p, __m128i a) { memcpy(p, a.b, 4); }
static inline void _mm_storeu_si16(void *p, __m128i a) { memcpy(p, a.b, 2); }
/* non-temporal store: same bytes as an aligned store */
static inline void _mm_stream_si128(__m128i *p, __m128i a) { VM_ALIGN_CHECK(p, 16); memcpy(p, a.b, 16); }

static inline __m128d _mm_setzero_pd(void) { __m128d r; memset(r.b, 0, 16); return r; }
static inline __m128d _mm_set_pd(double e1, double e0)
{ __m128d r; double v[2] = { e0, e1 }; memcpy(r.b, v, 16); return r; }
static inline __m128d _mm_setr_pd(double e0, double e1)
{ __m128d r; double v[2] = { e0, e1 }; memcpy(r.b, v, 16); return r; }
static inline __m128d _mm_set1_pd(double e)
{ __m128d r; for (int i = 0; i < 2; i++) memcpy(r.b + 8 * i, &e, 8); return r; }
static inline __m128d _mm_loadu_pd(const double *p) { __m128d r; memcpy(r.b, p, 16); return r; }
static inline __m128d _mm_load_pd(const double *p) { __m128d r; VM_ALIGN_CHECK(p, 16); memcpy(r.b, p, 16); return r; }
static inline void _mm_storeu_pd(double *p, __m128d a) { memcpy(p, a.b, 16); }
static inline void _mm_store_pd(double *p, __m128d a) { VM_ALIGN_CHECK(p, 16); memcpy(p, a.b, 16); }
static inline int _mm_movemask_pd(__m128d a)
{ int m = 0; for (int i = 0; i < 2; i++) m |= (a.b[8 * i + 7] >> 7) << i; return m; }

/* ---- casts (bit pattern preserving) ---- */
VM_CAST(_mm_castps_si128, __m128i, __m128,  16)
VM_CAST(_mm_castsi128_ps, __m128,  __m128i, 16)
VM_CAST(_mm_castpd_si128, __m128i, __m128d, 16)
VM_CAST(_mm_castsi128_pd, __m128d, __m128i, 16)
VM_CAST(_mm_castps_pd,    __m128d, __m128,  16)
VM_CAST(_mm_castpd_ps,    __m128,  __m128d, 16)

/* ---- set ---- */
static inline __m128i _mm_setzero_si128(void) { __m128i r; memset(r.b, 0, 16); return r; }
static inline __m128i _mm_set1_epi8(char x)       { __m128i r; for (int i = 0; i < 16; i++) memcpy(r.b + i, &x, 1); return r; }
static inline __m128i _mm_set1_epi16(short x)     { __m128i r; for (int i = 0; i < 8; i++) memcpy(r.b + 2 * i, &x, 2); return r; }
static inline __m128i _mm_set1_epi32(int x)       { __m128i r; for (int i = 0; i < 4; i++) memcpy(r.b + 4 * i, &x, 4); return r; }
static inline __m128i _mm_set1_epi64x(long long x){ __m128i r; for (int i = 0; i < 2; i++) memcpy(r.b + 8 * i, &x, 8); return r; }
static inline __m128i _mm_set_epi8(char e15, char e14, char e13, char e12, char e11, char e10, char e9, char e8, char e7, char e6, char e5, char e4, char e3, char e2, char e1, char e0)
{ __m128i r; char v[16] = { e0, e1, e2, e3, e4, e5, e6, e7, e8, e9, e10, e11, e12, e13, e14, e15 }; memcpy(r.b, v, 16); return r; }
static inline __m128i _mm_setr_epi8(char e0, char e1, char e2, char e3, char e4, char e5, char e6, char e7, char e8, char e9, char e10, char e11, char e12, char e13, char e14, char e15)
{ __m128i r; char v[16] = { e0, e1, e2, e3, e4, e5, e6, e7, e8, e9, e10, e11, e12, e13, e14, e15 }; memcpy(r.b, v, 16); return r; }
static inline __m128i _mm_set_epi16(short e7, short e6, short e5, short e4, short e3, short e2, short e1, short e0)
{ __m128i r; short v[8] = { e0, e1, e2, e3, e4, e5, e6, e7 }; memcpy(r.b, v, 16); return r; }
static inline __m128i _mm_setr_epi16(short e0, short e1, short e2, short e3, short e4, short e5, short e6, short e7)
{ __m128i r; short v[8] = { e0, e1, e2, e3, e4, e5, e6, e7 }; memcpy(r.b, v, 16); return r; }
static inline __m128i _mm_set_epi32(int e3, int e2, int e1, int e0)
{ __m128i r; int v[4] = { e0, e1, e2, e3 }; memcpy(r.b, v, 16); return r; }
static inline __m128i _mm_setr_epi32(int e0, int e1, int e2, int e3)
{ __m128i r; int v[4] = { e0, e1, e2, e3 }; memcpy(r.b, v, 16); return r; }
static inline __m128i _mm_set_epi64x(long long e1, long long e0)
{ __m128i r; long long v[2] = { e0, e1 }; memcpy(r.b, v, 16); return r; }

/* ---- scalar <-> vector moves ---- */
static inline __m128i _mm_cvtsi32_si128(int x) { __m128i r; memset(r.b, 0, 16); memcpy(r.b, &x, 4); return r; }
static inline __m128i _mm_cvtsi64_si128(long long x) { __m128i r; memset(r.b, 0, 16); memcpy(r.b, &x, 8); return r; }
static inline int _mm_cvtsi128_si32(__m128i a) { int x; memcpy(&x, a.b, 4); return x; }
static inline long long _mm_cvtsi128_si64(__m128i a) { long long x; memcpy(&x, a.b, 8); return x; }
static inline __m128i _mm_move_epi64(__m128i a) { __m128i r; memcpy(r.b, a.b, 8); memset(r.b + 8, 0, 8); return r; }

/* ---- integer arithmetic ---- */
VM_BIN(_mm_add_epi8,  __m128i, 16, uint8_t,  vm_ld8,  vm_st8,  (uint8_t)((x + y) & 0xFF))
VM_BIN(_mm_add_epi16, __m128i, 16, uint16_t, vm_ld16, vm_st16, (uint16_t)((x + y) & 0xFFFF))
VM_BIN(_mm_add_epi32, __m128i, 16, uint32_t, vm_ld32, vm_st32, x + y)
VM_BIN(_mm_add_epi64, __m128i, 16, uint64_t, vm_ld64, vm_st64, x + y)
VM_BIN(_mm_sub_epi8,  __m128i, 16, uint8_t,  vm_ld8,  vm_st8,  (uint8_t)((x + 0x100 - y) & 0xFF))
VM_BIN(_mm_sub_epi16, __m128i, 16, uint16_t, vm_ld16, vm_st16, (uint16_t)((x + 0x10000 - y) & 0xFFFF))
VM_BIN(_mm_sub_epi32, __m128i, 16, uint32_t, vm_ld32, vm_st32, x - y)
VM_BIN(_mm_sub_epi64, __m128i, 16, uint64_t, vm_ld64, vm_st64, x - y)
VM_BIN(_mm_adds_epu8, __m128i, 16, uint8_t,  vm_ld8,  vm_st8,  (uint8_t)(x + y > 255 ? 255 : x + y))
VM_BIN(_mm_subs_epu8, __m128i, 16, uint8_t,  vm_ld8,  vm_st8,  (uint8_t)(x > y ? x - y : 0))
VM_BIN(_mm_mullo_epi16, __m128i, 16, uint16_t, vm_ld16, vm_st16, (uint16_t)(((uint32_t)x * (uint32_t)y) & 0xFFFFu))
VM_BIN(_mm_mulhi_epu16, __m128i, 16, uint16_t, vm_ld16, vm_st16, (uint16_t)(((uint32_t)x * (uint32_t)y) >> 16))
VM_BIN(_mm_avg_epu8,  __m128i, 16, uint8_t,  vm_ld8,  vm_st8,  (uint8_t)((x + y + 1) >> 1))
/* unsigned 32x32->64 multiply of the even dword lanes */
static inline __m128i _mm_mul_epu32(__m128i a, __m128i b) { __m128i r;
    for (int i = 0; i < 2; i++) vm_st64(r.b + 8 * i, (uint64_t)vm_ld32(a.b + 8 * i) * (uint64_t)vm_ld32(b.b + 8 * i));
    return r; }
/* signed 16x16 multiply, add adjacent pairs into 32-bit lanes (wraps only for all -32768) */
static inline __m128i _mm_madd_epi16(__m128i a, __m128i b) { __m128i r;
    for (int i = 0; i < 4; i++) {
        int64_t p0 = (int64_t)vm_lds16(a.b + 4 * i) * (int64_t)vm_lds16(b.b + 4 * i);
        int64_t p1 = (int64_t)vm_lds16(a.b + 4 * i + 2) * (int64_t)vm_lds16(b.b + 4 * i + 2);
        vm_st32(r.b + 4 * i, (uint32_t)(vm_u64_of_ll(p0 + p1) & 0xFFFFFFFFu)); }
    return r; }
/* sum of absolute byte differences per 64-bit half */
static inline __m128i _mm_sad_epu8(__m128i a, __m128i b) { __m128i r;
    for (int h = 0; h < 2; h++) { uint64_t s = 0;
        for (int i = 0; i < 8; i++) { uint8_t x = a.b[8 * h + i], y = b.b[8 * h + i]; s += (uint64_t)(x > y ? x - y : y - x); }
        vm_st64(r.b + 8 * h, s); }
    return r; }

/* ---- logic ---- */
VM_BIN(_mm_and_si128,    __m128i, 16, uint64_t, vm_ld64, vm_st64, x & y)
VM_BIN(_mm_or_si128,     __m128i, 16, uint64_t, vm_ld64, vm_st64, x | y)
VM_BIN(_mm_xor_si128,    __m128i, 16, uint64_t, vm_ld64, vm_st64, x ^ y)
VM_BIN(_mm_andnot_si128, __m128i, 16, uint64_t, vm_ld64, vm_st64, ~x & y)

/* ---- compares (all-ones / all-zeros lanes) ---- */
VM_BIN(_mm_cmpeq_epi8,  __m128i, 16, uint8_t,  vm_ld8,  vm_st8,  (uint8_t)(x == y ? VM_ONES8 : 0u))
VM_BIN(_mm_cmpeq_epi16, __m128i, 16, uint16_t, vm_ld16, vm_st16, (uint16_t)(x == y ? VM_ONES16 : 0u))
VM_BIN(_mm_cmpeq_epi32, __m128i, 16, uint32_t, vm_ld32, vm_st32, (x == y ? VM_ONES32 : 0u))
VM_BIN(_mm_cmpgt_epi8,  __m128i, 16, int8_t,  vm_lds8,  vm_st8,  (uint8_t)(x > y ? VM_ONES8 : 0u))
VM_BIN(_mm_cmpgt_epi16, __m128i, 16, int16_t, vm_lds16, vm_st16, (uint16_t)(x > y ? VM_ONES16 : 0u))
VM_BIN(_mm_cmpgt_epi32, __m128i, 16, int32_t, vm_lds32, vm_st32, (x > y ? VM_ONES32 : 0u))
VM_BIN(_mm_cmplt_epi8,  __m128i, 16, int8_t,  vm_lds8,  vm_st8,  (uint8_t)(x < y ? VM_ONES8 : 0u))
VM_BIN(_mm_cmplt_epi16, __m128i, 16, int16_t, vm_lds16, vm_st16, (uint16_t)(x < y ? VM_ONES16 : 0u))
VM_BIN(_mm_cmplt_epi32, __m128i, 16, int32_t, vm_lds32, vm_st32, (x < y ? VM_ONES32 : 0u))

/* ---- min / max ---- */
VM_BIN(_mm_min_epu8,  __m128i, 16, uint8_t, vm_ld8,   vm_st8,   (x < y ? x : y))
VM_BIN(_mm_max_epu8,  __m128i, 16, uint8_t, vm_ld8,   vm_st8,   (x > y ? x : y))
VM_BIN(_mm_min_epi16, __m128i, 16, int16_t, vm_lds16, vm_sts16, (x < y ? x : y))
VM_BIN(_mm_max_epi16, __m128i, 16, int16_t, vm_lds16, vm_sts16, (x > y ? x : y))

/* ---- shifts by immediate (counts above the lane width give 0 / sign fill) ---- */
VM_SHI(_mm_slli_epi16, __m128i, 16, uint16_t, vm_ld16, vm_st16, vm_shl16)
VM_SHI(_mm_slli_epi32, __m128i, 16, uint32_t, vm_ld32, vm_st32, vm_shl32)
VM_SHI(_mm_slli_epi64, __m128i, 16, uint64_t, vm_ld64, vm_st64, vm_shl64)
VM_SHI(_mm_srli_epi16, __m128i, 16, uint16_t, vm_ld16, vm_st16, vm_shr16)
VM_SHI(_mm_srli_epi32, __m128i, 16, uint32_t, vm_ld32, vm_st32, vm_shr32)
VM_SHI(_mm_srli_epi64, __m128i, 16, uint64_t, vm_ld64, vm_st64, vm_shr64)
VM_SHI(_mm_srai_epi16, __m128i, 16, uint16_t, vm_ld16, vm_st16, vm_sar16)
VM_SHI(_mm_srai_epi32, __m128i, 16, uint32_t, vm_ld32, vm_st32, vm_sar32)
/* shifts by the low 64 bits of a vector count */
static inline __m128i _mm_sll_epi32(__m128i a, __m128i count) { __m128i r; uint64_t n = vm_ld64(count.b);
    for (int i = 0; i < 16; i += 4) vm_st32(r.b + i, vm_shl32(vm_ld32(a.b + i), n));
    return r; }
static inline __m128i _mm_srl_epi32(__m128i a, __m128i count) { __m128i r; uint64_t n = vm_ld64(count.b);
    for (int i = 0; i < 16; i += 4) vm_st32(r.b + i, vm_shr32(vm_ld32(a.b + i), n));
    return r; }
static inline __m128i _mm_sll_epi64(__m128i a, __m128i count) { __m128i r; uint64_t n = vm_ld64(count.b);
    for (int i = 0; i < 16; i += 8) vm_st64(r.b + i, vm_shl64(vm_ld64(a.b + i), n));
    return r; }
static inline __m128i _mm_srl_epi64(__m128i a, __m128i count) { __m128i r; uint64_t n = vm_ld64(count.b);
    for (int i = 0; i < 16; i += 8) vm_st64(r.b + i, vm_shr64(vm_ld64(a.b + i), n));
    return r; }

/* whole-register byte shifts; imm is taken modulo 256, >15 gives zero */
static inline __m128i _mm_slli_si128(__m128i a, int imm) { __m128i r; int n = imm & 0xFF;
    for (int i = 0; i < 16; i++) r.b[i] = (n <= 15 && i >= n) ? a.b[i - n] : (uint8_t)0;
    return r; }
static inline __m128i _mm_srli_si128(__m128i a, int imm) { __m128i r; int n = imm & 0xFF;
    for (int i = 0; i < 16; i++) r.b[i] = (n <= 15 && i + n < 16) ? a.b[i + n] : (uint8_t)0;
    return r; }
static inline __m128i _mm_bslli_si128(__m128i a, int imm) { return _mm_slli_si128(a, imm); }
static inline __m128i _mm_bsrli_si128(__m128i a, int imm) { return _mm_srli_si128(a, imm); }

/* ---- pack (saturating narrow; a -> low half, b -> high half) ---- */
static inline __m128i _mm_packs_epi16(__m128i a, __m128i b) { __m128i r;
    for (int i = 0; i < 8; i++) { vm_sts8(r.b + i, vm_sat_s16_s8(vm_lds16(a.b + 2 * i))); vm_sts8(r.b + 8 + i, vm_sat_s16_s8(vm_lds16(b.b + 2 * i))); }
    return r; }
static inline __m128i _mm_packus_epi16(__m128i a, __m128i b) { __m128i r;
    for (int i = 0; i < 8; i++) { r.b[i] = vm_sat_s16_u8(vm_lds16(a.b + 2 * i)); r.b[8 + i] = vm_sat_s16_u8(vm_lds16(b.b + 2 * i)); }
    return r; }
static inline __m128i _mm_packs_epi32(__m128i a, __m128i b) { __m128i r;
    for (int i = 0; i < 4; i++) { vm_sts16(r.b + 2 * i, vm_sat_s32_s16(vm_lds32(a.b + 4 * i))); vm_sts16(r.b + 8 + 2 * i, vm_sat_s32_s16(vm_lds32(b.b + 4 * i))); }
    return r; }

/* ---- unpack (interleave) ---- */
VM_UNPACK(_mm_unpacklo_epi8,  __m128i, 16, 1, 0)
VM_UNPACK(_mm_unpackhi_epi8,  __m128i, 16, 1, 8)
VM_UNPACK(_mm_unpacklo_epi16, __m128i, 16, 2, 0)
VM_UNPACK(_mm_unpackhi_epi16, __m128i, 16, 2, 8)
VM_UNPACK(_mm_unpacklo_epi32, __m128i, 16, 4, 0)
VM_UNPACK(_mm_unpackhi_epi32, __m128i, 16, 4, 8)
VM_UNPACK(_mm_unpacklo_epi64, __m128i, 16, 8, 0)
VM_UNPACK(_mm_unpackhi_epi64, __m128i, 16, 8, 8)

/* ---- shuffles ---- */
static inline __m128i _mm_shuffle_epi32(__m128i a, int imm) { __m128i r;
    for (int i = 0; i < 4; i++) memcpy(r.b + 4 * i, a.b + 4 * ((imm >> (2 * i)) & 3), 4);
    return r; }
static inline __m128i _mm_shufflelo_epi16(__m128i a, int imm) { __m128i r = a;
    for (int i = 0; i < 4; i++) memcpy(r.b + 2 * i, a.b + 2 * ((imm >> (2 * i)) & 3), 2);
    return r; }
static inline __m128i _mm_shufflehi_epi16(__m128i a, int imm) { __m128i r = a;
    for (int i = 0; i < 4; i++) memcpy(r.b + 8 + 2 * i, a.b + 8 + 2 * ((imm >> (2 * i)) & 3), 2);
    return r; }

/* ---- misc ---- */
static inline int _mm_movemask_epi8(__m128i a)
{ int m = 0; for (int i = 0; i < 16; i++) m |= (a.b[i] >> 7) << i; return m; }
static inline int _mm_extract_epi16(__m128i a, int imm) { return (int)vm_ld16(a.b + 2 * (imm & 7)); }
static inline __m128i _mm_insert_epi16(__m128i a, int x, int imm)
{ uint16_t v = (uint16_t)(vm_u32_of_int(x) & 0xFFFFu); vm_st16(a.b + 2 * (imm & 7), v); return a; }
static inline void _mm_lfence(void) { }
static inline void _mm_mfence(void) { }

/* ==========================================================================
 * SSE3  (pmmintrin.h)
 * ========================================================================== */
static inline __m128i _mm_lddqu_si128(const __m128i *p) { __m128i r; memcpy(r.b, p, 16); return r; }

/* ==========================================================================
 * SSSE3  (tmmintrin.h)
 * ========================================================================== */

/* byte shuffle: index bit 7 set -> 0, else a[index & 15] */
static inline __m128i _mm_shuffle_epi8(__m128i a, __m128i idx) { __m128i r;
    for (int i = 0; i < 16; i++) r.b[i] = (idx.b[i] & 0x80) ? (uint8_t)0 : a.b[idx.b[i] & 0x0F];
    return r; }
/* (a:b) >> imm*8, low 16 bytes */
static inline __m128i _mm_alignr_epi8(__m128i a, __m128i b, int imm) { __m128i r; int n = imm & 0xFF;
    for (int i = 0; i < 16; i++) { int j = i + n; r.b[i] = j < 16 ? b.b[j] : j < 32 ? a.b[j - 16] : (uint8_t)0; }
    return r; }
VM_UN(_mm_abs_epi8,  __m128i, 16, uint8_t,  vm_ld8,  vm_st8,  (uint8_t)((x & 0x80u) ? ((0x100u - x) & 0xFFu) : x))
VM_UN(_mm_abs_epi16, __m128i, 16, uint16_t, vm_ld16, vm_st16, (uint16_t)((x & 0x8000u) ? ((0x10000u - x) & 0xFFFFu) : x))
VM_UN(_mm_abs_epi32, __m128i, 16, uint32_t, vm_ld32, vm_st32, ((x & 0x80000000u) ? (0u - x) : x))
/* unsigned bytes of a times signed bytes of b, adjacent pairs added with signed saturation */
static inline __m128i _mm_maddubs_epi16(__m128i a, __m128i b) { __m128i r;
    for (int i = 0; i < 8; i++) {
        int32_t s = (int32_t)a.b[2 * i] * (int32_t)vm_lds8(b.b + 2 * i) + (int32_t)a.b[2 * i + 1] * (int32_t)vm_lds8(b.b + 2 * i + 1);
        vm_sts16(r.b + 2 * i, vm_sat_s32_s16(s)); }
    return r; }

/* ==========================================================================
 * SSE4.1  (smmintrin.h)
 * ========================================================================== */

static inline int _mm_extract_epi8(__m128i a, int imm) { return (int)a.b[imm & 15]; }
static inline int _mm_extract_epi32(__m128i a, int imm) { return vm_lds32(a.b + 4 * (imm & 3)); }
static inline long long _mm_extract_epi64(__m128i a, int imm) { return vm_lds64(a.b + 8 * (imm & 1)); }
static inline __m128i _mm_insert_epi8(__m128i a, int x, int imm) { a.b[imm & 15] = (uint8_t)(vm_u32_of_int(x) & 0xFFu); return a; }
static inline __m128i _mm_insert_epi32(__m128i a, int x, int imm) { memcpy(a.b + 4 * (imm & 3), &x, 4); return a; }
static inline __m128i _mm_insert_epi64(__m128i a, long long x, int imm) { memcpy(a.b + 8 * (imm & 1), &x, 8); return a; }

VM_EXT(_mm_cvtepu8_epi16,  __m128i, __m128i, 8, 1, 2, vm_ld8,  vm_st16)
VM_EXT(_mm_cvtepu8_epi32,  __m128i, __m128i, 4, 1, 4, vm_ld8,  vm_st32)
VM_EXT(_mm_cvtepu8_epi64,  __m128i, __m128i, 2, 1, 8, vm_ld8,  vm_st64)
VM_EXT(_mm_cvtepu16_epi32, __m128i, __m128i, 4, 2, 4, vm_ld16, vm_st32)
VM_EXT(_mm_cvtepu16_epi64, __m128i, __m128i, 2, 2, 8, vm_ld16, vm_st64)
VM_EXT(_mm_cvtepu32_epi64, __m128i, __m128i, 2, 4, 8, vm_ld32, vm_st64)
VM_EXT(_mm_cvtepi8_epi16,  __m128i, __m128i, 8, 1, 2, vm_lds8,  vm_sts16)
VM_EXT(_mm_cvtepi8_epi32,  __m128i, __m128i, 4, 1, 4, vm_lds8,  vm_sts32)
VM_EXT(_mm_cvtepi16_epi32, __m128i, __m128i, 4, 2, 4, vm_lds16, vm_sts32)
VM_EXT(_mm_cvtepi32_epi64, __m128i, __m128i, 2, 4, 8, vm_lds32, vm_sts64)

static inline __m128i _mm_blendv_epi8(__m128i a, __m128i b, __m128i mask) { __m128i r;
    for (int i = 0; i < 16; i++) r.b[i] = (mask.b[i] & 0x80) ? b.b[i] : a.b[i];
    return r; }
static inline __m128i _mm_blend_epi16(__m128i a, __m128i b, int imm) { __m128i r;
    for (int i = 0; i < 8; i++) memcpy(r.b + 2 * i, ((imm >> i) & 1) ? b.b + 2 * i : a.b + 2 * i, 2);
    return r; }

VM_BIN(_mm_min_epi8,  __m128i, 16, int8_t,   vm_lds8,  vm_sts8,  (x < y ? x : y))
VM_BIN(_mm_max_epi8,  __m128i, 16, int8_t,   vm_lds8,  vm_sts8,  (x > y ? x : y))
VM_BIN(_mm_min_epu16, __m128i, 16, uint16_t, vm_ld16,  vm_st16,  (x < y ? x : y))
VM_BIN(_mm_max_epu16, __m128i, 16, uint16_t, vm_ld16,  vm_st16,  (x > y ? x : y))
VM_BIN(_mm_min_epi32, __m128i, 16, int32_t,  vm_lds32, vm_sts32, (x < y ? x : y))
VM_BIN(_mm_max_epi32, __m128i, 16, int32_t,  vm_lds32, vm_sts32, (x > y ? x : y))
VM_BIN(_mm_min_epu32, __m128i, 16, uint32_t, vm_ld32,  vm_st32,  (x < y ? x : y))
VM_BIN(_mm_max_epu32, __m128i, 16, uint32_t, vm_ld32,  vm_st32,  (x > y ? x : y))
VM_BIN(_mm_mullo_epi32, __m128i, 16, uint32_t, vm_ld32, vm_st32, x * y)
VM_BIN(_mm_cmpeq_epi64, __m128i, 16, uint64_t, vm_ld64, vm_st64, (x == y ? VM_ONES64 : 0ull))
static inline __m128i _mm_packus_epi32(__m128i a, __m128i b) { __m128i r;
    for (int i = 0; i < 4; i++) { vm_st16(r.b + 2 * i, vm_sat_s32_u16(vm_lds32(a.b + 4 * i))); vm_st16(r.b + 8 + 2 * i, vm_sat_s32_u16(vm_lds32(b.b + 4 * i))); }
    return r; }
static inline int _mm_testz_si128(__m128i a, __m128i b)
{ int z = 1; for (int i = 0; i < 16; i++) if (a.b[i] & b.b[i]) z = 0; return z; }
static inline int _mm_testc_si128(__m128i a, __m128i b)
{ int c = 1; for (int i = 0; i < 16; i++) if ((uint8_t)(~a.b[i] & 0xFF) & b.b[i]) c = 0; return c; }
static inline __m128i _mm_stream_load_si128(__m128i *p) { __m128i r; VM_ALIGN_CHECK(p, 16); memcpy(r.b, p, 16); return r; }

/* ==========================================================================
 * SSE4.2  (nmmintrin.h) + POPCNT
 * ========================================================================== */

VM_BIN(_mm_cmpgt_epi64, __m128i, 16, int64_t, vm_lds64, vm_st64, (x > y ? VM_ONES64 : 0ull))

/* CRC32C (Castagnoli, reflected polynomial 0x82F63B78), one bit at a time */
static inline uint32_t vm_crc32c_bits(uint32_t crc, uint64_t v, int nbits) {
    for (int i = 0; i < nbits; i++) {
        uint32_t bit = (crc ^ (uint32_t)((v >> i) & 1u)) & 1u;
        crc = (crc >> 1) ^ (bit ? 0x82F63B78u : 0u);
    }
    return crc; }
static inline unsigned int _mm_crc32_u8(unsigned int crc, unsigned char v)   { return vm_crc32c_bits(crc, v, 8); }
static inline unsigned int _mm_crc32_u16(unsigned int crc, unsigned short v) { return vm_crc32c_bits(crc, v, 16); }
static inline unsigned int _mm_crc32_u32(unsigned int crc, unsigned int v)   { return vm_crc32c_bits(crc, v, 32); }
static inline unsigned long long _mm_crc32_u64(unsigned long long crc, unsigned long long v)
{ return (unsigned long long)vm_crc32c_bits((uint32_t)(crc & 0xFFFFFFFFu), v, 64); }

static inline int _mm_popcnt_u32(unsigned int x) { return (int)vm_popcnt32(x); }
static inline long long _mm_popcnt_u64(unsigned long long x) { return (long long)vm_popcnt64(x); }

/* ==========================================================================
 * AVX  (avxintrin.h) -- integer/data-movement subset
 * ========================================================================== */

static inline __m256i _mm256_loadu_si256(const __m256i *p) { __m256i r; memcpy(r.b, p, 32); return r; }
static inline __m256i _mm256_load_si256(const __m256i *p) { __m256i r; VM_ALIGN_CHECK(p, 32); memcpy(r.b, p, 32); return r; }
static inline __m256i _mm256_lddqu_si256(const __m256i *p) { __m256i r; memcpy(r.b, p, 32); return r; }
static inline void _mm256_storeu_si256(__m256i *p, __m256i a) { memcpy(p, a.b, 32); }
static inline void _mm256_store_si256(__m256i *p, __m256i a) { VM_ALIGN_CHECK(p, 32); memcpy(p, a.b, 32); }
static inline void _mm256_stream_si256(__m256i *p, __m256i a) { VM_ALIGN_CHECK(p, 32); memcpy(p, a.b, 32); }
static inline __m256  _mm256_loadu_ps(const float *p)  { __m256 r;  memcpy(r.b, p, 32); return r; }
static inline __m256d _mm256_loadu_pd(const double *p) { __m256d r; memcpy(r.b, p, 32); return r; }
static inline void _mm256_storeu_ps(float *p, __m256 a)   { memcpy(p, a.b, 32); }
static inline void _mm256_storeu_pd(double *p, __m256d a) { memcpy(p, a.b, 32); }
static inline __m256  _mm256_setzero_ps(void) { __m256 r;  memset(r.b, 0, 32); return r; }
static inline __m256d _mm256_setzero_pd(void) { __m256d r; memset(r.b, 0, 32); return r; }
static inline void _mm256_zeroupper(void) { }
static inline void _mm256_zeroall(void) { }

VM_CAST(_mm256_castps_si256, __m256i, __m256,  32)
VM_CAST(_mm256_castsi256_ps, __m256,  __m256i, 32)
VM_CAST(_mm256_castpd_si256, __m256i, __m256d, 32)
VM_CAST(_mm256_castsi256_pd, __m256d, __m256i, 32)
static inline __m128i _mm256_castsi256_si128(__m256i a) { __m128i r; memcpy(r.b, a.b, 16); return r; }
/* DEVIATION: the hardware leaves the upper 128 bits undefined; the model zeroes them */
static inline __m256i _mm256_castsi128_si256(__m128i a) { __m256i r; memcpy(r.b, a.b, 16); memset(r.b + 16, 0, 16); return r; }
static inline __m256i _mm256_zextsi128_si256(__m128i a) { __m256i r; memcpy(r.b, a.b, 16); memset(r.b + 16, 0, 16); return r; }

static inline __m256i _mm256_setzero_si256(void) { __m256i r; memset(r.b, 0, 32); return r; }
static inline __m256i _mm256_set1_epi8(char x)        { __m256i r; for (int i = 0; i < 32; i++) memcpy(r.b + i, &x, 1); return r; }
static inline __m256i _mm256_set1_epi16(short x)      { __m256i r; for (int i = 0; i < 16; i++) memcpy(r.b + 2 * i, &x, 2); return r; }
static inline __m256i _mm256_set1_epi32(int x)        { __m256i r; for (int i = 0; i < 8; i++) memcpy(r.b + 4 * i, &x, 4); return r; }
static inline __m256i _mm256_set1_epi64x(long long x) { __m256i r; for (int i = 0; i < 4; i++) memcpy(r.b + 8 * i, &x, 8); return r; }
static inline __m256i _mm256_set_epi8(char e31, char e30, char e29, char e28, char e27, char e26, char e25, char e24, char e23, char e22, char e21, char e20, char e19, char e18, char e17, char e16, char e15, char e14, char e13, char e12, char e11, char e10, char e9, char e8, char e7, char e6, char e5, char e4, char e3, char e2, char e1, char e0)
{ __m256i r; char v[32] = { e0, e1, e2, e3, e4, e5, e6, e7, e8, e9, e10, e11, e12, e13, e14, e15, e16, e17, e18, e19, e20, e21, e22, e23, e24, e25, e26, e27, e28, e29, e30, e31 }; memcpy(r.b, v, 32); return r; }
static inline __m256i _mm256_setr_epi8(char e0, char e1, char e2, char e3, char e4, char e5, char e6, char e7, char e8, char e9, char e10, char e11, char e12, char e13, char e14, char e15, char e16, char e17, char e18, char e19, char e20, char e21, char e22, char e23, char e24, char e25, char e26, char e27, char e28, char e29, char e30, char e31)
{ __m256i r; char v[32] = { e0, e1, e2, e3, e4, e5, e6, e7, e8, e9, e10, e11, e12, e13, e14, e15, e16, e17, e18, e19, e20, e21, e22, e23, e24, e25, e26, e27, e28, e29, e30, e31 }; memcpy(r.b, v, 32); return r; }
static inline __m256i _mm256_set_epi16(short e15, short e14, short e13, short e12, short e11, short e10, short e9, short e8, short e7, short e6, short e5, short e4, short e3, short e2, short e1, short e0)
{ __m256i r; short v[16] = { e0, e1, e2, e3, e4, e5, e6, e7, e8, e9, e10, e11, e12, e13, e14, e15 }; memcpy(r.b, v, 32); return r; }
static inline __m256i _mm256_set_epi32(int e7, int e6, int e5, int e4, int e3, int e2, int e1, int e0)
{ __m256i r; int v[8] = { e0, e1, e2, e3, e4, e5, e6, e7 }; memcpy(r.b, v, 32); return r; }
static inline __m256i _mm256_setr_epi32(int e0, int e1, int e2, int e3, int e4, int e5, int e6, int e7)
{ __m256i r; int v[8] = { e0, e1, e2, e3, e4, e5, e6, e7 }; memcpy(r.b, v, 32); return r; }
static inline __m256i _mm256_set_epi64x(long long e3, long long e2, long long e1, long long e0)
{ __m256i r; long long v[4] = { e0, e1, e2, e3 }; memcpy(r.b, v, 32); return r; }
static inline __m256i _mm256_setr_epi64x(long long e0, long long e1, long long e2, long long e3)
{ __m256i r; long long v[4] = { e0, e1, e2, e3 }; memcpy(r.b, v, 32); return r; }
static inline __m256i _mm256_set_m128i(__m128i hi, __m128i lo) { __m256i r; memcpy(r.b, lo.b, 16); memcpy(r.b + 16, hi.b, 16); return r; }
static inline __m256i _mm256_setr_m128i(__m128i lo, __m128i hi) { __m256i r; memcpy(r.b, lo.b, 16); memcpy(r.b + 16, hi.b, 16); return r; }

static inline __m128i _mm256_extractf128_si256(__m256i a, int imm) { __m128i r; memcpy(r.b, a.b + 16 * (imm & 1), 16); return r; }
static inline __m256i _mm256_insertf128_si256(__m256i a, __m128i b, int imm) { memcpy(a.b + 16 * (imm & 1), b.b, 16); return a; }
static inline int _mm256_extract_epi8(__m256i a, int imm)  { return (int)a.b[imm & 31]; }
static inline int _mm256_extract_epi16(__m256i a, int imm) { return (int)vm_ld16(a.b + 2 * (imm & 15)); }
static inline int _mm256_extract_epi32(__m256i a, int imm) { return vm_lds32(a.b + 4 * (imm & 7)); }
static inline long long _mm256_extract_epi64(__m256i a, int imm) { return vm_lds64(a.b + 8 * (imm & 3)); }
static inline __m256i _mm256_insert_epi32(__m256i a, int x, int imm) { memcpy(a.b + 4 * (imm & 7), &x, 4); return a; }
static inline __m256i _mm256_insert_epi64(__m256i a, long long x, int imm) { memcpy(a.b + 8 * (imm & 3), &x, 8); return a; }
static inline int _mm256_testz_si256(__m256i a, __m256i b)
{ int z = 1; for (int i = 0; i < 32; i++) if (a.b[i] & b.b[i]) z = 0; return z; }
static inline int _mm256_movemask_ps(__m256 a)
{ int m = 0; for (int i = 0; i < 8; i++) m |= (a.b[4 * i + 3] >> 7) << i; return m; }

/* ==========================================================================
 * AVX2  (avx2intrin.h)
 * ========================================================================== */

/* ---- arithmetic / logic / compare / min / max (lane-wise) ---- */
VM_BIN(_mm256_add_epi8,  __m256i, 32, uint8_t,  vm_ld8,  vm_st8,  (uint8_t)((x + y) & 0xFF))
VM_BIN(_mm256_add_epi16, __m256i, 32, uint16_t, vm_ld16, vm_st16, (uint16_t)((x + y) & 0xFFFF))
VM_BIN(_mm256_add_epi32, __m256i, 32, uint32_t, vm_ld32, vm_st32, x + y)
VM_BIN(_mm256_add_epi64, __m256i, 32, uint64_t, vm_ld64, vm_st64, x + y)
VM_BIN(_mm256_sub_epi8,  __m256i, 32, uint8_t,  vm_ld8,  vm_st8,  (uint8_t)((x + 0x100 - y) & 0xFF))
VM_BIN(_mm256_sub_epi16, __m256i, 32, uint16_t, vm_ld16, vm_st16, (uint16_t)((x + 0x10000 - y) & 0xFFFF))
VM_BIN(_mm256_sub_epi32, __m256i, 32, uint32_t, vm_ld32, vm_st32, x - y)
VM_BIN(_mm256_sub_epi64, __m256i, 32, uint64_t, vm_ld64, vm_st64, x - y)
VM_BIN(_mm256_mullo_epi16, __m256i, 32, uint16_t, vm_ld16, vm_st16, (uint16_t)(((uint32_t)x * (uint32_t)y) & 0xFFFFu))
VM_BIN(_mm256_mullo_epi32, __m256i, 32, uint32_t, vm_ld32, vm_st32, x * y)
static inline __m256i _mm256_mul_epu32(__m256i a, __m256i b) { __m256i r;
    for (int i = 0; i < 4; i++) vm_st64(r.b + 8 * i, (uint64_t)vm_ld32(a.b + 8 * i) * (uint64_t)vm_ld32(b.b + 8 * i));
    return r; }
static inline __m256i _mm256_madd_epi16(__m256i a, __m256i b) { __m256i r;
    for (int i = 0; i < 8; i++) {
        int64_t p0 = (int64_t)vm_lds16(a.b + 4 * i) * (int64_t)vm_lds16(b.b + 4 * i);
        int64_t p1 = (int64_t)vm_lds16(a.b + 4 * i + 2) * (int64_t)vm_lds16(b.b + 4 * i + 2);
        vm_st32(r.b + 4 * i, (uint32_t)(vm_u64_of_ll(p0 + p1) & 0xFFFFFFFFu)); }
    return r; }
static inline __m256i _mm256_sad_epu8(__m256i a, __m256i b) { __m256i r;
    for (int h = 0; h < 4; h++) { uint64_t s = 0;
        for (int i = 0; i < 8; i++) { uint8_t x = a.b[8 * h + i], y = b.b[8 * h + i]; s += (uint64_t)(x > y ? x - y : y - x); }
        vm_st64(r.b + 8 * h, s); }
    return r; }

VM_BIN(_mm256_and_si256,    __m256i, 32, uint64_t, vm_ld64, vm_st64, x & y)
VM_BIN(_mm256_or_si256,     __m256i, 32, uint64_t, vm_ld64, vm_st64, x | y)
VM_BIN(_mm256_xor_si256,    __m256i, 32, uint64_t, vm_ld64, vm_st64, x ^ y)
VM_BIN(_mm256_andnot_si256, __m256i, 32, uint64_t, vm_ld64, vm_st64, ~x & y)

VM_BIN(_mm256_cmpeq_epi8,  __m256i, 32, uint8_t,  vm_ld8,  vm_st8,  (uint8_t)(x == y ? VM_ONES8 : 0u))
VM_BIN(_mm256_cmpeq_epi16, __m256i, 32, uint16_t, vm_ld16, vm_st16, (uint16_t)(x == y ? VM_ONES16 : 0u))
VM_BIN(_mm256_cmpeq_epi32, __m256i, 32, uint32_t, vm_ld32, vm_st32, (x == y ? VM_ONES32 : 0u))
VM_BIN(_mm256_cmpeq_epi64, __m256i, 32, uint64_t, vm_ld64, vm_st64, (x == y ? VM_ONES64 : 0ull))
VM_BIN(_mm256_cmpgt_epi8,  __m256i, 32, int8_t,  vm_lds8,  vm_st8,  (uint8_t)(x > y ? VM_ONES8 : 0u))
VM_BIN(_mm256_cmpgt_epi16, __m256i, 32, int16_t, vm_lds16, vm_st16, (uint16_t)(x > y ? VM_ONES16 : 0u))
VM_BIN(_mm256_cmpgt_epi32, __m256i, 32, int32_t, vm_lds32, vm_st32, (x > y ? VM_ONES32 : 0u))
VM_BIN(_mm256_cmpgt_epi64, __m256i, 32, int64_t, vm_lds64, vm_st64, (x > y ? VM_ONES64 : 0ull))

VM_BIN(_mm256_min_epu8,  __m256i, 32, uint8_t,  vm_ld8,   vm_st8,   (x < y ? x : y))
VM_BIN(_mm256_max_epu8,  __m256i, 32, uint8_t,  vm_ld8,   vm_st8,   (x > y ? x : y))
VM_BIN(_mm256_min_epi16, __m256i, 32, int16_t,  vm_lds16, vm_sts16, (x < y ? x : y))
VM_BIN(_mm256_max_epi16, __m256i, 32, int16_t,  vm_lds16, vm_sts16, (x > y ? x : y))
VM_BIN(_mm256_min_epi32, __m256i, 32, int32_t,  vm_lds32, vm_sts32, (x < y ? x : y))
VM_BIN(_mm256_max_epi32, __m256i, 32, int32_t,  vm_lds32, vm_sts32, (x > y ? x : y))
VM_BIN(_mm256_min_epu32, __m256i, 32, uint32_t, vm_ld32,  vm_st32,  (x < y ? x : y))
VM_BIN(_mm256_max_epu32, __m256i, 32, uint32_t, vm_ld32,  vm_st32,  (x > y ? x : y))
VM_UN(_mm256_abs_epi32, __m256i, 32, uint32_t, vm_ld32, vm_st32, ((x & 0x80000000u) ? (0u - x) : x))

/* ---- shifts ---- */
VM_SHI(_mm256_slli_epi16, __m256i, 32, uint16_t, vm_ld16, vm_st16, vm_shl16)
VM_SHI(_mm256_slli_epi32, __m256i, 32, uint32_t, vm_ld32, vm_st32, vm_shl32)
VM_SHI(_mm256_slli_epi64, __m256i, 32, uint64_t, vm_ld64, vm_st64, vm_shl64)
VM_SHI(_mm256_srli_epi16, __m256i, 32, uint16_t, vm_ld16, vm_st16, vm_shr16)
VM_SHI(_mm256_srli_epi32, __m256i, 32, uint32_t, vm_ld32, vm_st32, vm_shr32)
VM_SHI(_mm256_srli_epi64, __m256i, 32, uint64_t, vm_ld64, vm_st64, vm_shr64)
VM_SHI(_mm256_srai_epi16, __m256i, 32, uint16_t, vm_ld16, vm_st16, vm_sar16)
VM_SHI(_mm256_srai_epi32, __m256i, 32, uint32_t, vm_ld32, vm_st32, vm_sar32)
VM_SHV(_mm_sllv_epi32,    __m128i, 16, uint32_t, vm_ld32, vm_st32, vm_shl32)
VM_SHV(_mm_srlv_epi32,    __m128i, 16, uint32_t, vm_ld32, vm_st32, vm_shr32)
VM_SHV(_mm_sllv_epi64,    __m128i, 16, uint64_t, vm_ld64, vm_st64, vm_shl64)
VM_SHV(_mm_srlv_epi64,    __m128i, 16, uint64_t, vm_ld64, vm_st64, vm_shr64)
VM_SHV(_mm256_sllv_epi32, __m256i, 32, uint32_t, vm_ld32, vm_st32, vm_shl32)
VM_SHV(_mm256_srlv_epi32, __m256i, 32, uint32_t, vm_ld32, vm_st32, vm_shr32)
VM_SHV(_mm256_srav_epi32, __m256i, 32, uint32_t, vm_ld32, vm_st32, vm_sar32)
VM_SHV(_mm256_sllv_epi64, __m256i, 32, uint64_t, vm_ld64, vm_st64, vm_shl64)
VM_SHV(_mm256_srlv_epi64, __m256i, 32, uint64_t, vm_ld64, vm_st64, vm_shr64)
/* byte shifts act independently on each 128-bit lane */
static inline __m256i _mm256_slli_si256(__m256i a, int imm) { __m256i r; int n = imm & 0xFF;
    for (int l = 0; l < 32; l += 16)
        for (int i = 0; i < 16; i++) r.b[l + i] = (n <= 15 && i >= n) ? a.b[l + i - n] : (uint8_t)0;
    return r; }
static inline __m256i _mm256_srli_si256(__m256i a, int imm) { __m256i r; int n = imm & 0xFF;
    for (int l = 0; l < 32; l += 16)
        for (int i = 0; i < 16; i++) r.b[l + i] = (n <= 15 && i + n < 16) ? a.b[l + i + n] : (uint8_t)0;
    return r; }
static inline __m256i _mm256_bslli_epi128(__m256i a, int imm) { return _mm256_slli_si256(a, imm); }
static inline __m256i _mm256_bsrli_epi128(__m256i a, int imm) { return _mm256_srli_si256(a, imm); }

/* ---- shuffles / permutes ---- */
static inline __m256i _mm256_shuffle_epi8(__m256i a, __m256i idx) { __m256i r;
    for (int l = 0; l < 32; l += 16)
        for (int i = 0; i < 16; i++) r.b[l + i] = (idx.b[l + i] & 0x80) ? (uint8_t)0 : a.b[l + (idx.b[l + i] & 0x0F)];
    return r; }
static inline __m256i _mm256_shuffle_epi32(__m256i a, int imm) { __m256i r;
    for (int l = 0; l < 32; l += 16)
        for (int i = 0; i < 4; i++) memcpy(r.b + l + 4 * i, a.b + l + 4 * ((imm >> (2 * i)) & 3), 4);
    return r; }
static inline __m256i _mm256_alignr_epi8(__m256i a, __m256i b, int imm) { __m256i r; int n = imm & 0xFF;
    for (int l = 0; l < 32; l += 16)
        for (int i = 0; i < 16; i++) { int j = i + n; r.b[l + i] = j < 16 ? b.b[l + j] : j < 32 ? a.b[l + j - 16] : (uint8_t)0; }
    return r; }
static inline __m256i _mm256_permute4x64_epi64(__m256i a, int imm) { __m256i r;
    for (int i = 0; i < 4; i++) memcpy(r.b + 8 * i, a.b + 8 * ((imm >> (2 * i)) & 3), 8);
    return r; }
static inline __m256i _mm256_permutevar8x32_epi32(__m256i a, __m256i idx) { __m256i r;
    for (int i = 0; i < 8; i++) memcpy(r.b + 4 * i, a.b + 4 * (vm_ld32(idx.b + 4 * i) & 7u), 4);
    return r; }
static inline __m256i _mm256_permute2x128_si256(__m256i a, __m256i b, int imm) { __m256i r;
    for (int h = 0; h < 2; h++) {
        int c = (imm >> (4 * h)) & 0xF;
        if (c & 8) memset(r.b + 16 * h, 0, 16);
        else memcpy(r.b + 16 * h, ((c & 2) ? b.b : a.b) + 16 * (c & 1), 16); }
    return r; }
static inline __m256i _mm256_broadcastsi128_si256(__m128i a) { __m256i r; memcpy(r.b, a.b, 16); memcpy(r.b + 16, a.b, 16); return r; }
static inline __m256i _mm256_broadcastb_epi8(__m128i a)  { __m256i r; for (int i = 0; i < 32; i++) r.b[i] = a.b[0]; return r; }
static inline __m256i _mm256_broadcastw_epi16(__m128i a) { __m256i r; for (int i = 0; i < 16; i++) memcpy(r.b + 2 * i, a.b, 2); return r; }
static inline __m256i _mm256_broadcastd_epi32(__m128i a) { __m256i r; for (int i = 0; i < 8; i++) memcpy(r.b + 4 * i, a.b, 4); return r; }
static inline __m256i _mm256_broadcastq_epi64(__m128i a) { __m256i r; for (int i = 0; i < 4; i++) memcpy(r.b + 8 * i, a.b, 8); return r; }
static inline __m256i _mm256_blendv_epi8(__m256i a, __m256i b, __m256i mask) { __m256i r;
    for (int i = 0; i < 32; i++) r.b[i] = (mask.b[i] & 0x80) ? b.b[i] : a.b[i];
    return r; }
static inline __m256i _mm256_blend_epi32(__m256i a, __m256i b, int imm) { __m256i r;
    for (int i = 0; i < 8; i++) memcpy(r.b + 4 * i, ((imm >> i) & 1) ? b.b + 4 * i : a.b + 4 * i, 4);
    return r; }
static inline __m128i _mm256_extracti128_si256(__m256i a, int imm) { __m128i r; memcpy(r.b, a.b + 16 * (imm & 1), 16); return r; }
static inline __m256i _mm256_inserti128_si256(__m256i a, __m128i b, int imm) { memcpy(a.b + 16 * (imm & 1), b.b, 16); return a; }

/* ---- pack / unpack (per 128-bit lane) ---- */
static inline __m256i _mm256_packs_epi16(__m256i a, __m256i b) { __m256i r;
    for (int l = 0; l < 32; l += 16)
        for (int i = 0; i < 8; i++) { vm_sts8(r.b + l + i, vm_sat_s16_s8(vm_lds16(a.b + l + 2 * i))); vm_sts8(r.b + l + 8 + i, vm_sat_s16_s8(vm_lds16(b.b + l + 2 * i))); }
    return r; }
static inline __m256i _mm256_packus_epi16(__m256i a, __m256i b) { __m256i r;
    for (int l = 0; l < 32; l += 16)
        for (int i = 0; i < 8; i++) { r.b[l + i] = vm_sat_s16_u8(vm_lds16(a.b + l + 2 * i)); r.b[l + 8 + i] = vm_sat_s16_u8(vm_lds16(b.b + l + 2 * i)); }
    return r; }
static inline __m256i _mm256_packs_epi32(__m256i a, __m256i b) { __m256i r;
    for (int l = 0; l < 32; l += 16)
        for (int i = 0; i < 4; i++) { vm_sts16(r.b + l + 2 * i, vm_sat_s32_s16(vm_lds32(a.b + l + 4 * i))); vm_sts16(r.b + l + 8 + 2 * i, vm_sat_s32_s16(vm_lds32(b.b + l + 4 * i))); }
    return r; }
static inline __m256i _mm256_packus_epi32(__m256i a, __m256i b) { __m256i r;
    for (int l = 0; l < 32; l += 16)
        for (int i = 0; i < 4; i++) { vm_st16(r.b + l + 2 * i, vm_sat_s32_u16(vm_lds32(a.b + l + 4 * i))); vm_st16(r.b + l + 8 + 2 * i, vm_sat_s32_u16(vm_lds32(b.b + l + 4 * i))); }
    return r; }
VM_UNPACK(_mm256_unpacklo_epi8,  __m256i, 32, 1, 0)
VM_UNPACK(_mm256_unpackhi_epi8,  __m256i, 32, 1, 8)
VM_UNPACK(_mm256_unpacklo_epi16, __m256i, 32, 2, 0)
VM_UNPACK(_mm256_unpackhi_epi16, __m256i, 32, 2, 8)
VM_UNPACK(_mm256_unpacklo_epi32, __m256i, 32, 4, 0)
VM_UNPACK(_mm256_unpackhi_epi32, __m256i, 32, 4, 8)
VM_UNPACK(_mm256_unpacklo_epi64, __m256i, 32, 8, 0)
VM_UNPACK(_mm256_unpackhi_epi64, __m256i, 32, 8, 8)

/* ---- widening conversions ---- */
VM_EXT(_mm256_cvtepu8_epi16,  __m256i, __m128i, 16, 1, 2, vm_ld8,  vm_st16)
VM_EXT(_mm256_cvtepu8_epi32,  __m256i, __m128i, 8,  1, 4, vm_ld8,  vm_st32)
VM_EXT(_mm256_cvtepu8_epi64,  __m256i, __m128i, 4,  1, 8, vm_ld8,  vm_st64)
VM_EXT(_mm256_cvtepu16_epi32, __m256i, __m128i, 8,  2, 4, vm_ld16, vm_st32)
VM_EXT(_mm256_cvtepu16_epi64, __m256i, __m128i, 4,  2, 8, vm_ld16, vm_st64)
VM_EXT(_mm256_cvtepu32_epi64, __m256i, __m128i, 4,  4, 8, vm_ld32, vm_st64)
VM_EXT(_mm256_cvtepi8_epi16,  __m256i, __m128i, 16, 1, 2, vm_lds8,  vm_sts16)
VM_EXT(_mm256_cvtepi8_epi32,  __m256i, __m128i, 8,  1, 4, vm_lds8,  vm_sts32)
VM_EXT(_mm256_cvtepi16_epi32, __m256i, __m128i, 8,  2, 4, vm_lds16, vm_sts32)
VM_EXT(_mm256_cvtepi32_epi64, __m256i, __m128i, 4,  4, 8, vm_lds32, vm_sts64)

static inline int _mm256_movemask_epi8(__m256i a)
{ uint32_t m = 0; for (int i = 0; i < 32; i++) m |= (uint32_t)(a.b[i] >> 7) << i; return vm_int_of_u32(m); }

/* ---- AVX2 masked loads / stores: lane selected by the MSB of the mask lane;
 *      unselected lanes are not accessed (loads give 0) ---- */
#define VM_VMASK_LDST(PFX, SFX, VT, PT, NL, ES)                                  \
static inline VT PFX##_maskload_##SFX(const PT *p, VT mask) { VT r;              \
    const uint8_t *q = (const uint8_t *)p;                                       \
    for (int i = 0; i < (NL); i++) {                                             \
        if (mask.b[i * (ES) + (ES) - 1] & 0x80) memcpy(r.b + i * (ES), q + i * (ES), (ES)); \
        else memset(r.b + i * (ES), 0, (ES)); }                                  \
    return r; }                                                                  \
static inline void PFX##_maskstore_##SFX(PT *p, VT mask, VT a) {                 \
    uint8_t *q = (uint8_t *)p;                                                   \
    for (int i = 0; i < (NL); i++)                                               \
        if (mask.b[i * (ES) + (ES) - 1] & 0x80) memcpy(q + i * (ES), a.b + i * (ES), (ES)); }
VM_VMASK_LDST(_mm,    epi32, __m128i, int,       4, 4)
VM_VMASK_LDST(_mm,    epi64, __m128i, long long, 2, 8)
VM_VMASK_LDST(_mm256, epi32, __m256i, int,       8, 4)
VM_VMASK_LDST(_mm256, epi64, __m256i, long long, 4, 8)

/* ---- gathers: lane i reads ES bytes at base + sign_extend(index[i]) * scale.
 *      NL lanes, IS = index size in bytes, ES = element size in bytes.
 *      The masked form reads only lanes whose mask MSB is set. ---- */
#define VM_GATHER(NAME, MNAME, VT, IT, PT, NL, IS, ILD, ES)                      \
static inline VT NAME(const PT *base, IT vindex, int scale) { VT r;              \
    for (int i = 0; i < (NL); i++)                                               \
        memcpy(r.b + i * (ES), vm_gaddr(base, (int64_t)ILD(vindex.b + i * (IS)), scale), (ES)); \
    return r; }                                                                  \
static inline VT MNAME(VT src, const PT *base, IT vindex, VT mask, int scale) { VT r = src; \
    for (int i = 0; i < (NL); i++)                                               \
        if (mask.b[i * (ES) + (ES) - 1] & 0x80)                                  \
            memcpy(r.b + i * (ES), vm_gaddr(base, (int64_t)ILD(vindex.b + i * (IS)), scale), (ES)); \
    return r; }
VM_GATHER(_mm_i32gather_epi32,    _mm_mask_i32gather_epi32,    __m128i, __m128i, int,       4, 4, vm_lds32, 4)
VM_GATHER(_mm256_i32gather_epi32, _mm256_mask_i32gather_epi32, __m256i, __m256i, int,       8, 4, vm_lds32, 4)
VM_GATHER(_mm_i32gather_epi64,    _mm_mask_i32gather_epi64,    __m128i, __m128i, long long, 2, 4, vm_lds32, 8)
VM_GATHER(_mm256_i32gather_epi64, _mm256_mask_i32gather_epi64, __m256i, __m128i, long long, 4, 4, vm_lds32, 8)
VM_GATHER(_mm256_i64gather_epi64, _mm256_mask_i64gather_epi64, __m256i, __m256i, long long, 4, 8, vm_lds64, 8)

/* ==========================================================================
 * BMI1 / BMI2 / LZCNT scalar intrinsics
 * ========================================================================== */

static inline unsigned int       _lzcnt_u32(unsigned int x)       { return vm_lzcnt32(x); }
static inline unsigned long long _lzcnt_u64(unsigned long long x) { return vm_lzcnt64(x); }
static inline unsigned int       _tzcnt_u32(unsigned int x)       { return vm_tzcnt32(x); }
static inline unsigned long long _tzcnt_u64(unsigned long long x) { return vm_tzcnt64(x); }
static inline unsigned int       _blsr_u32(unsigned int x)        { return x & (x - 1u); }
static inline unsigned long long _blsr_u64(unsigned long long x)  { return x & (x - 1ull); }
static inline unsigned int       _blsi_u32(unsigned int x)        { return x & (0u - x); }
static inline unsigned long long _blsi_u64(unsigned long long x)  { return x & (0ull - x); }
static inline unsigned int       _blsmsk_u32(unsigned int x)      { return x ^ (x - 1u); }
static inline unsigned long long _blsmsk_u64(unsigned long long x){ return x ^ (x - 1ull); }
static inline unsigned int       _andn_u32(unsigned int a, unsigned int b) { return ~a & b; }
static inline unsigned long long _andn_u64(unsigned long long a, unsigned long long b) { return ~a & b; }
static inline unsigned int _bextr_u32(unsigned int a, unsigned int start, unsigned int len)
{ start &= 0xFFu; len &= 0xFFu; uint32_t t = vm_shr32(a, start); return len >= 32 ? t : t & ((1u << len) - 1u); }
static inline unsigned long long _bextr_u64(unsigned long long a, unsigned int start, unsigned int len)
{ start &= 0xFFu; len &= 0xFFu; uint64_t t = vm_shr64(a, start); return len >= 64 ? t : t & ((1ull << len) - 1ull); }
static inline unsigned int _bzhi_u32(unsigned int a, unsigned int index)
{ index &= 0xFFu; return index >= 32 ? a : a & ((1u << index) - 1u); }
static inline unsigned long long _bzhi_u64(unsigned long long a, unsigned int index)
{ index &= 0xFFu; return index >= 64 ? a : a & ((1ull << index) - 1ull); }
/* parallel bit extract / deposit */
static inline unsigned int _pext_u32(unsigned int a, unsigned int mask)
{ uint32_t r = 0; int k = 0; for (int i = 0; i < 32; i++) if ((mask >> i) & 1u) { r |= ((a >> i) & 1u) << k; k++; } return r; }
static inline unsigned long long _pext_u64(unsigned long long a, unsigned long long mask)
{ uint64_t r = 0; int k = 0; for (int i = 0; i < 64; i++) if ((mask >> i) & 1u) { r |= ((a >> i) & 1ull) << k; k++; } return r; }
static inline unsigned int _pdep_u32(unsigned int a, unsigned int mask)
{ uint32_t r = 0; int k = 0; for (int i = 0; i < 32; i++) if ((mask >> i) & 1u) { r |= ((a >> k) & 1u) << i; k++; } return r; }
static inline unsigned long long _pdep_u64(unsigned long long a, unsigned long long mask)
{ uint64_t r = 0; int k = 0; for (int i = 0; i < 64; i++) if ((mask >> i) & 1u) { r |= ((a >> k) & 1ull) << i; k++; } return r; }

/* XGETBV: the value is supplied by the verification harness (nondeterministic) */
unsigned long long verif_xgetbv(unsigned int index);
static inline unsigned long long _xgetbv(unsigned int index) { return verif_xgetbv(index); }

/* ==========================================================================
 * AVX-512F  (avx512fintrin.h)
 * ========================================================================== */

/* ---- k-mask helpers ---- */
static inline __mmask16 _mm512_int2mask(int m) { return (__mmask16)(vm_u32_of_int(m) & 0xFFFFu); }
static inline int       _mm512_mask2int(__mmask16 k) { return (int)k; }
static inline __mmask16 _mm512_kand(__mmask16 a, __mmask16 b)  { return (__mmask16)(a & b); }
static inline __mmask16 _mm512_kor(__mmask16 a, __mmask16 b)   { return (__mmask16)(a | b); }
static inline __mmask16 _mm512_kxor(__mmask16 a, __mmask16 b)  { return (__mmask16)(a ^ b); }
static inline __mmask16 _mm512_kandn(__mmask16 a, __mmask16 b) { return (__mmask16)(~a & b & 0xFFFF); }
static inline __mmask16 _mm512_knot(__mmask16 a)               { return (__mmask16)(~a & 0xFFFF); }
static inline __mmask16 _kand_mask16(__mmask16 a, __mmask16 b) { return (__mmask16)(a & b); }
static inline __mmask16 _kor_mask16(__mmask16 a, __mmask16 b)  { return (__mmask16)(a | b); }
static inline __mmask16 _kxor_mask16(__mmask16 a, __mmask16 b) { return (__mmask16)(a ^ b); }
static inline __mmask16 _knot_mask16(__mmask16 a)              { return (__mmask16)(~a & 0xFFFF); }
static inline unsigned int _cvtmask16_u32(__mmask16 k) { return k; }
static inline __mmask16 _cvtu32_mask16(unsigned int x) { return (__mmask16)(x & 0xFFFFu); }

/* ---- loads / stores ---- */
static inline __m512i _mm512_loadu_si512(const void *p) { __m512i r; memcpy(r.b, p, 64); return r; }
static inline __m512i _mm512_load_si512(const void *p) { __m512i r; VM_ALIGN_CHECK(p, 64); memcpy(r.b, p, 64); return r; }
static inline void _mm512_storeu_si512(void *p, __m512i a) { memcpy(p, a.b, 64); }
static inline void _mm512_store_si512(void *p, __m512i a) { VM_ALIGN_CHECK(p, 64); memcpy(p, a.b, 64); }
static inline void _mm512_stream_si512(__m512i *p, __m512i a) { VM_ALIGN_CHECK(p, 64); memcpy(p, a.b, 64); }
static inline __m512i _mm512_loadu_epi32(const void *p) { __m512i r; memcpy(r.b, p, 64); return r; }
static inline __m512i _mm512_loadu_epi64(const void *p) { __m512i r; memcpy(r.b, p, 64); return r; }
static inline void _mm512_storeu_epi32(void *p, __m512i a) { memcpy(p, a.b, 64); }
static inline void _mm512_storeu_epi64(void *p, __m512i a) { memcpy(p, a.b, 64); }
static inline __m512  _mm512_loadu_ps(const void *p) { __m512 r;  memcpy(r.b, p, 64); return r; }
static inline __m512d _mm512_loadu_pd(const void *p) { __m512d r; memcpy(r.b, p, 64); return r; }
static inline void _mm512_storeu_ps(void *p, __m512 a)  { memcpy(p, a.b, 64); }
static inline void _mm512_storeu_pd(void *p, __m512d a) { memcpy(p, a.b, 64); }
VM_MASK_LDST(_mm512, epi32, __m512i, __mmask16, 16, 4)
VM_MASK_LDST(_mm512, epi64, __m512i, __mmask8,  8,  8)

/* ---- casts / set ---- */
VM_CAST(_mm512_castps_si512, __m512i, __m512,  64)
VM_CAST(_mm512_castsi512_ps, __m512,  __m512i, 64)
VM_CAST(_mm512_castpd_si512, __m512i, __m512d, 64)
VM_CAST(_mm512_castsi512_pd, __m512d, __m512i, 64)
static inline __m128i _mm512_castsi512_si128(__m512i a) { __m128i r; memcpy(r.b, a.b, 16); return r; }
static inline __m256i _mm512_castsi512_si256(__m512i a) { __m256i r; memcpy(r.b, a.b, 32); return r; }
/* DEVIATION: upper bits are architecturally undefined; the model zeroes them */
static inline __m512i _mm512_castsi128_si512(__m128i a) { __m512i r; memset(r.b, 0, 64); memcpy(r.b, a.b, 16); return r; }
static inline __m512i _mm512_castsi256_si512(__m256i a) { __m512i r; memset(r.b, 0, 64); memcpy(r.b, a.b, 32); return r; }
static inline __m512i _mm512_zextsi128_si512(__m128i a) { __m512i r; memset(r.b, 0, 64); memcpy(r.b, a.b, 16); return r; }
static inline __m512i _mm512_zextsi256_si512(__m256i a) { __m512i r; memset(r.b, 0, 64); memcpy(r.b, a.b, 32); return r; }

static inline __m512i _mm512_setzero_si512(void) { __m512i r; memset(r.b, 0, 64); return r; }
static inline __m512i _mm512_setzero_epi32(void) { __m512i r; memset(r.b, 0, 64); return r; }
static inline __m512i _mm512_set1_epi8(char x)       { __m512i r; for (int i = 0; i < 64; i++) memcpy(r.b + i, &x, 1); return r; }
static inline __m512i _mm512_set1_epi16(short x)     { __m512i r; for (int i = 0; i < 32; i++) memcpy(r.b + 2 * i, &x, 2); return r; }
static inline __m512i _mm512_set1_epi32(int x)       { __m512i r; for (int i = 0; i < 16; i++) memcpy(r.b + 4 * i, &x, 4); return r; }
static inline __m512i _mm512_set1_epi64(long long x) { __m512i r; for (int i = 0; i < 8; i++) memcpy(r.b + 8 * i, &x, 8); return r; }
static inline __m512i _mm512_set_epi8(char e63, char e62, char e61, char e60, char e59, char e58, char e57, char e56, char e55, char e54, char e53, char e52, char e51, char e50, char e49, char e48, char e47, char e46, char e45, char e44, char e43, char e42, char e41, char e40, char e39, char e38, char e37, char e36, char e35, char e34, char e33, char e32, char e31, char e30, char e29, char e28, char e27, char e26, char e25, char e24, char e23, char e22, char e21, char e20, char e19, char e18, char e17, char e16, char e15, char e14, char e13, char e12, char e11, char e10, char e9, char e8, char e7, char e6, char e5, char e4, char e3, char e2, char e1, char e0)
{ __m512i r; char v[64] = { e0, e1, e2, e3, e4, e5, e6, e7, e8, e9, e10, e11, e12, e13, e14, e15, e16, e17, e18, e19, e20, e21, e22, e23, e24, e25, e26, e27, e28, e29, e30, e31, e32, e33, e34, e35, e36, e37, e38, e39, e40, e41, e42, e43, e44, e45, e46, e47, e48, e49, e50, e51, e52, e53, e54, e55, e56, e57, e58, e59, e60, e61, e62, e63 }; memcpy(r.b, v, 64); return r; }
static inline __m512i _mm512_set_epi32(int e15, int e14, int e13, int e12, int e11, int e10, int e9, int e8, int e7, int e6, int e5, int e4, int e3, int e2, int e1, int e0)
{ __m512i r; int v[16] = { e0, e1, e2, e3, e4, e5, e6, e7, e8, e9, e10, e11, e12, e13, e14, e15 }; memcpy(r.b, v, 64); return r; }
static inline __m512i _mm512_setr_epi32(int e0, int e1, int e2, int e3, int e4, int e5, int e6, int e7, int e8, int e9, int e10, int e11, int e12, int e13, int e14, int e15)
{ __m512i r; int v[16] = { e0, e1, e2, e3, e4, e5, e6, e7, e8, e9, e10, e11, e12, e13, e14, e15 }; memcpy(r.b, v, 64); return r; }
static inline __m512i _mm512_set_epi64(long long e7, long long e6, long long e5, long long e4, long long e3, long long e2, long long e1, long long e0)
{ __m512i r; long long v[8] = { e0, e1, e2, e3, e4, e5, e6, e7 }; memcpy(r.b, v, 64); return r; }
static inline __m512i _mm512_setr_epi64(long long e0, long long e1, long long e2, long long e3, long long e4, long long e5, long long e6, long long e7)
{ __m512i r; long long v[8] = { e0, e1, e2, e3, e4, e5, e6, e7 }; memcpy(r.b, v, 64); return r; }
static inline __m512i _mm512_maskz_set1_epi32(__mmask16 k, int x) { __m512i r;
    for (int i = 0; i < 16; i++) { if ((k >> i) & 1u) memcpy(r.b + 4 * i, &x, 4); else memset(r.b + 4 * i, 0, 4); } return r; }
static inline __m512i _mm512_maskz_set1_epi64(__mmask8 k, long long x) { __m512i r;
    for (int i = 0; i < 8; i++) { if ((k >> i) & 1u) memcpy(r.b + 8 * i, &x, 8); else memset(r.b + 8 * i, 0, 8); } return r; }
static inline __m512i _mm512_mask_set1_epi32(__m512i src, __mmask16 k, int x) { __m512i r = src;
    for (int i = 0; i < 16; i++) if ((k >> i) & 1u) memcpy(r.b + 4 * i, &x, 4);
    return r; }
static inline __m512i _mm512_broadcast_i32x4(__m128i a) { __m512i r; for (int l = 0; l < 64; l += 16) memcpy(r.b + l, a.b, 16); return r; }
static inline __m512i _mm512_broadcast_i64x4(__m256i a) { __m512i r; memcpy(r.b, a.b, 32); memcpy(r.b + 32, a.b, 32); return r; }
static inline __m512i _mm512_broadcastd_epi32(__m128i a) { __m512i r; for (int i = 0; i < 16; i++) memcpy(r.b + 4 * i, a.b, 4); return r; }
static inline __m512i _mm512_broadcastq_epi64(__m128i a) { __m512i r; for (int i = 0; i < 8; i++) memcpy(r.b + 8 * i, a.b, 8); return r; }

/* ---- lane-wise arithmetic / logic ---- */
VM_BIN(_mm512_add_epi32, __m512i, 64, uint32_t, vm_ld32, vm_st32, x + y)
VM_BIN(_mm512_add_epi64, __m512i, 64, uint64_t, vm_ld64, vm_st64, x + y)
VM_BIN(_mm512_sub_epi32, __m512i, 64, uint32_t, vm_ld32, vm_st32, x - y)
VM_BIN(_mm512_sub_epi64, __m512i, 64, uint64_t, vm_ld64, vm_st64, x - y)
VM_BIN(_mm512_mullo_epi32, __m512i, 64, uint32_t, vm_ld32, vm_st32, x * y)
static inline __m512i _mm512_mul_epu32(__m512i a, __m512i b) { __m512i r;
    for (int i = 0; i < 8; i++) vm_st64(r.b + 8 * i, (uint64_t)vm_ld32(a.b + 8 * i) * (uint64_t)vm_ld32(b.b + 8 * i));
    return r; }
VM_BIN(_mm512_and_si512,    __m512i, 64, uint64_t, vm_ld64, vm_st64, x & y)
VM_BIN(_mm512_or_si512,     __m512i, 64, uint64_t, vm_ld64, vm_st64, x | y)
VM_BIN(_mm512_xor_si512,    __m512i, 64, uint64_t, vm_ld64, vm_st64, x ^ y)
VM_BIN(_mm512_andnot_si512, __m512i, 64, uint64_t, vm_ld64, vm_st64, ~x & y)
VM_BIN(_mm512_and_epi32,    __m512i, 64, uint32_t, vm_ld32, vm_st32, x & y)
VM_BIN(_mm512_or_epi32,     __m512i, 64, uint32_t, vm_ld32, vm_st32, x | y)
VM_BIN(_mm512_xor_epi32,    __m512i, 64, uint32_t, vm_ld32, vm_st32, x ^ y)
VM_BIN(_mm512_and_epi64,    __m512i, 64, uint64_t, vm_ld64, vm_st64, x & y)
VM_BIN(_mm512_or_epi64,     __m512i, 64, uint64_t, vm_ld64, vm_st64, x | y)
VM_BIN(_mm512_xor_epi64,    __m512i, 64, uint64_t, vm_ld64, vm_st64, x ^ y)
VM_BIN(_mm512_min_epi32, __m512i, 64, int32_t,  vm_lds32, vm_sts32, (x < y ? x : y))
VM_BIN(_mm512_max_epi32, __m512i, 64, int32_t,  vm_lds32, vm_sts32, (x > y ? x : y))
VM_BIN(_mm512_min_epu32, __m512i, 64, uint32_t, vm_ld32,  vm_st32,  (x < y ? x : y))
VM_BIN(_mm512_max_epu32, __m512i, 64, uint32_t, vm_ld32,  vm_st32,  (x > y ? x : y))
VM_BIN(_mm512_min_epi64, __m512i, 64, int64_t,  vm_lds64, vm_sts64, (x < y ? x : y))
VM_BIN(_mm512_max_epi64, __m512i, 64, int64_t,  vm_lds64, vm_sts64, (x > y ? x : y))
VM_BIN(_mm512_min_epu64, __m512i, 64, uint64_t, vm_ld64,  vm_st64,  (x < y ? x : y))
VM_BIN(_mm512_max_epu64, __m512i, 64, uint64_t, vm_ld64,  vm_st64,  (x > y ? x : y))
VM_MASKED_BIN(_mm512, add, epi32, __m512i, __mmask16, 16, 4)
VM_MASKED_BIN(_mm512, add, epi64, __m512i, __mmask8,  8,  8)
VM_MASKED_BIN(_mm512, sub, epi32, __m512i, __mmask16, 16, 4)
VM_MASKED_BIN(_mm512, sub, epi64, __m512i, __mmask8,  8,  8)

/* ---- shifts ---- */
VM_SHI(_mm512_slli_epi32, __m512i, 64, uint32_t, vm_ld32, vm_st32, vm_shl32)
VM_SHI(_mm512_slli_epi64, __m512i, 64, uint64_t, vm_ld64, vm_st64, vm_shl64)
VM_SHI(_mm512_srli_epi32, __m512i, 64, uint32_t, vm_ld32, vm_st32, vm_shr32)
VM_SHI(_mm512_srli_epi64, __m512i, 64, uint64_t, vm_ld64, vm_st64, vm_shr64)
VM_SHI(_mm512_srai_epi32, __m512i, 64, uint32_t, vm_ld32, vm_st32, vm_sar32)
VM_SHI(_mm512_srai_epi64, __m512i, 64, uint64_t, vm_ld64, vm_st64, vm_sar64)
VM_SHV(_mm512_sllv_epi32, __m512i, 64, uint32_t, vm_ld32, vm_st32, vm_shl32)
VM_SHV(_mm512_srlv_epi32, __m512i, 64, uint32_t, vm_ld32, vm_st32, vm_shr32)
VM_SHV(_mm512_srav_epi32, __m512i, 64, uint32_t, vm_ld32, vm_st32, vm_sar32)
VM_SHV(_mm512_sllv_epi64, __m512i, 64, uint64_t, vm_ld64, vm_st64, vm_shl64)
VM_SHV(_mm512_srlv_epi64, __m512i, 64, uint64_t, vm_ld64, vm_st64, vm_shr64)

/* ---- compares into k-masks ---- */
VM_CMPK(_mm512_cmpeq_epi32_mask,  __m512i, 64, __mmask16, int32_t,  vm_lds32, x == y)
VM_CMPK(_mm512_cmpneq_epi32_mask, __m512i, 64, __mmask16, int32_t,  vm_lds32, x != y)
VM_CMPK(_mm512_cmplt_epi32_mask,  __m512i, 64, __mmask16, int32_t,  vm_lds32, x <  y)
VM_CMPK(_mm512_cmple_epi32_mask,  __m512i, 64, __mmask16, int32_t,  vm_lds32, x <= y)
VM_CMPK(_mm512_cmpgt_epi32_mask,  __m512i, 64, __mmask16, int32_t,  vm_lds32, x >  y)
VM_CMPK(_mm512_cmpge_epi32_mask,  __m512i, 64, __mmask16, int32_t,  vm_lds32, x >= y)
VM_CMPK(_mm512_cmplt_epu32_mask,  __m512i, 64, __mmask16, uint32_t, vm_ld32,  x <  y)
VM_CMPK(_mm512_cmple_epu32_mask,  __m512i, 64, __mmask16, uint32_t, vm_ld32,  x <= y)
VM_CMPK(_mm512_cmpgt_epu32_mask,  __m512i, 64, __mmask16, uint32_t, vm_ld32,  x >  y)
VM_CMPK(_mm512_cmpge_epu32_mask,  __m512i, 64, __mmask16, uint32_t, vm_ld32,  x >= y)
VM_CMPK(_mm512_cmpeq_epi64_mask,  __m512i, 64, __mmask8,  int64_t,  vm_lds64, x == y)
VM_CMPK(_mm512_cmpneq_epi64_mask, __m512i, 64, __mmask8,  int64_t,  vm_lds64, x != y)
VM_CMPK(_mm512_cmplt_epi64_mask,  __m512i, 64, __mmask8,  int64_t,  vm_lds64, x <  y)
VM_CMPK(_mm512_cmpgt_epi64_mask,  __m512i, 64, __mmask8,  int64_t,  vm_lds64, x >  y)
VM_CMPK(_mm512_test_epi32_mask,   __m512i, 64, __mmask16, uint32_t, vm_ld32,  (x & y) != 0)
VM_CMPK(_mm512_test_epi64_mask,   __m512i, 64, __mmask8,  uint64_t, vm_ld64,  (x & y) != 0)
VM_CMPK(_mm512_testn_epi32_mask,  __m512i, 64, __mmask16, uint32_t, vm_ld32,  (x & y) == 0)
#define _MM_CMPINT_EQ    0
#define _MM_CMPINT_LT    1
#define _MM_CMPINT_LE    2
#define _MM_CMPINT_FALSE 3
#define _MM_CMPINT_NE    4
#define _MM_CMPINT_NLT   5
#define _MM_CMPINT_GE    5
#define _MM_CMPINT_NLE   6
#define _MM_CMPINT_GT    6
#define _MM_CMPINT_TRUE  7
static inline int vm_cmpint(int lt, int eq, int imm) {
    switch (imm & 7) {
    case 0: return eq;        case 1: return lt;         case 2: return lt || eq;  case 3: return 0;
    case 4: return !eq;       case 5: return !lt;        case 6: return !lt && !eq; default: return 1; } }
static inline __mmask16 _mm512_cmp_epi32_mask(__m512i a, __m512i b, int imm) { __mmask16 k = 0;
    for (int i = 0; i < 16; i++) { int32_t x = vm_lds32(a.b + 4 * i), y = vm_lds32(b.b + 4 * i);
        if (vm_cmpint(x < y, x == y, imm)) k = (__mmask16)(k | (1u << i)); }
    return k; }
static inline __mmask16 _mm512_cmp_epu32_mask(__m512i a, __m512i b, int imm) { __mmask16 k = 0;
    for (int i = 0; i < 16; i++) { uint32_t x = vm_ld32(a.b + 4 * i), y = vm_ld32(b.b + 4 * i);
        if (vm_cmpint(x < y, x == y, imm)) k = (__mmask16)(k | (1u << i)); }
    return k; }

/* ---- blends / masked moves ---- */
static inline __m512i _mm512_mask_blend_epi32(__mmask16 k, __m512i a, __m512i b) { __m512i r;
    for (int i = 0; i < 16; i++) memcpy(r.b + 4 * i, ((k >> i) & 1u) ? b.b + 4 * i : a.b + 4 * i, 4);
    return r; }
static inline __m512i _mm512_mask_blend_epi64(__mmask8 k, __m512i a, __m512i b) { __m512i r;
    for (int i = 0; i < 8; i++) memcpy(r.b + 8 * i, ((k >> i) & 1u) ? b.b + 8 * i : a.b + 8 * i, 8);
    return r; }
static inline __m512i _mm512_mask_mov_epi32(__m512i src, __mmask16 k, __m512i a) { return _mm512_mask_blend_epi32(k, src, a); }
static inline __m512i _mm512_mask_mov_epi64(__m512i src, __mmask8 k, __m512i a)  { return _mm512_mask_blend_epi64(k, src, a); }
static inline __m512i _mm512_maskz_mov_epi32(__mmask16 k, __m512i a) { return _mm512_mask_blend_epi32(k, _mm512_setzero_si512(), a); }
static inline __m512i _mm512_maskz_mov_epi64(__mmask8 k, __m512i a)  { return _mm512_mask_blend_epi64(k, _mm512_setzero_si512(), a); }

/* ---- element rotation across the whole register: (a:b) >> imm elements ---- */
static inline __m512i _mm512_alignr_epi32(__m512i a, __m512i b, int imm) { __m512i r; int n = imm & 15;
    for (int i = 0; i < 16; i++) { int j = i + n; memcpy(r.b + 4 * i, j < 16 ? b.b + 4 * j : a.b + 4 * (j - 16), 4); }
    return r; }
static inline __m512i _mm512_alignr_epi64(__m512i a, __m512i b, int imm) { __m512i r; int n = imm & 7;
    for (int i = 0; i < 8; i++) { int j = i + n; memcpy(r.b + 8 * i, j < 8 ? b.b + 8 * j : a.b + 8 * (j - 8), 8); }
    return r; }
static inline __m512i _mm512_maskz_alignr_epi32(__mmask16 k, __m512i a, __m512i b, int imm)
{ return _mm512_maskz_mov_epi32(k, _mm512_alignr_epi32(a, b, imm)); }
static inline __m512i _mm512_maskz_alignr_epi64(__mmask8 k, __m512i a, __m512i b, int imm)
{ return _mm512_maskz_mov_epi64(k, _mm512_alignr_epi64(a, b, imm)); }
static inline __m512i _mm512_mask_alignr_epi32(__m512i src, __mmask16 k, __m512i a, __m512i b, int imm)
{ return _mm512_mask_mov_epi32(src, k, _mm512_alignr_epi32(a, b, imm)); }
static inline __m512i _mm512_mask_alignr_epi64(__m512i src, __mmask8 k, __m512i a, __m512i b, int imm)
{ return _mm512_mask_mov_epi64(src, k, _mm512_alignr_epi64(a, b, imm)); }

/* ---- permutes / shuffles ---- */
static inline __m512i _mm512_permutexvar_epi32(__m512i idx, __m512i a) { __m512i r;
    for (int i = 0; i < 16; i++) memcpy(r.b + 4 * i, a.b + 4 * (vm_ld32(idx.b + 4 * i) & 15u), 4);
    return r; }
static inline __m512i _mm512_permutexvar_epi64(__m512i idx, __m512i a) { __m512i r;
    for (int i = 0; i < 8; i++) memcpy(r.b + 8 * i, a.b + 8 * (vm_ld64(idx.b + 8 * i) & 7u), 8);
    return r; }
static inline __m512i _mm512_permutex2var_epi32(__m512i a, __m512i idx, __m512i b) { __m512i r;
    for (int i = 0; i < 16; i++) { uint32_t j = vm_ld32(idx.b + 4 * i); memcpy(r.b + 4 * i, ((j & 16u) ? b.b : a.b) + 4 * (j & 15u), 4); }
    return r; }
static inline __m512i _mm512_permutex2var_epi64(__m512i a, __m512i idx, __m512i b) { __m512i r;
    for (int i = 0; i < 8; i++) { uint64_t j = vm_ld64(idx.b + 8 * i); memcpy(r.b + 8 * i, ((j & 8u) ? b.b : a.b) + 8 * (j & 7u), 8); }
    return r; }
static inline __m512i _mm512_shuffle_epi32(__m512i a, int imm) { __m512i r;
    for (int l = 0; l < 64; l += 16)
        for (int i = 0; i < 4; i++) memcpy(r.b + l + 4 * i, a.b + l + 4 * ((imm >> (2 * i)) & 3), 4);
    return r; }
static inline __m512i _mm512_shuffle_i32x4(__m512i a, __m512i b, int imm) { __m512i r;
    memcpy(r.b,      a.b + 16 * (imm & 3), 16);        memcpy(r.b + 16, a.b + 16 * ((imm >> 2) & 3), 16);
    memcpy(r.b + 32, b.b + 16 * ((imm >> 4) & 3), 16); memcpy(r.b + 48, b.b + 16 * ((imm >> 6) & 3), 16);
    return r; }
VM_UNPACK(_mm512_unpacklo_epi32, __m512i, 64, 4, 0)
VM_UNPACK(_mm512_unpackhi_epi32, __m512i, 64, 4, 8)
VM_UNPACK(_mm512_unpacklo_epi64, __m512i, 64, 8, 0)
VM_UNPACK(_mm512_unpackhi_epi64, __m512i, 64, 8, 8)

/* ---- lane extraction / insertion ---- */
static inline __m128i _mm512_extracti32x4_epi32(__m512i a, int imm) { __m128i r; memcpy(r.b, a.b + 16 * (imm & 3), 16); return r; }
static inline __m256i _mm512_extracti64x4_epi64(__m512i a, int imm) { __m256i r; memcpy(r.b, a.b + 32 * (imm & 1), 32); return r; }
static inline __m512i _mm512_inserti32x4(__m512i a, __m128i b, int imm) { memcpy(a.b + 16 * (imm & 3), b.b, 16); return a; }
static inline __m512i _mm512_inserti64x4(__m512i a, __m256i b, int imm) { memcpy(a.b + 32 * (imm & 1), b.b, 32); return a; }

/* ---- widening / truncating conversions ---- */
VM_EXT(_mm512_cvtepu8_epi32,  __m512i, __m128i, 16, 1, 4, vm_ld8,  vm_st32)
VM_EXT(_mm512_cvtepu8_epi64,  __m512i, __m128i, 8,  1, 8, vm_ld8,  vm_st64)
VM_EXT(_mm512_cvtepu16_epi32, __m512i, __m256i, 16, 2, 4, vm_ld16, vm_st32)
VM_EXT(_mm512_cvtepu16_epi64, __m512i, __m128i, 8,  2, 8, vm_ld16, vm_st64)
VM_EXT(_mm512_cvtepu32_epi64, __m512i, __m256i, 8,  4, 8, vm_ld32, vm_st64)
VM_EXT(_mm512_cvtepi8_epi32,  __m512i, __m128i, 16, 1, 4, vm_lds8,  vm_sts32)
VM_EXT(_mm512_cvtepi16_epi32, __m512i, __m256i, 16, 2, 4, vm_lds16, vm_sts32)
VM_EXT(_mm512_cvtepi32_epi64, __m512i, __m256i, 8,  4, 8, vm_lds32, vm_sts64)
/* truncation: keep the low bytes of each lane */
static inline __m128i _mm512_cvtepi32_epi8(__m512i a)  { __m128i r; for (int i = 0; i < 16; i++) r.b[i] = a.b[4 * i]; return r; }
static inline __m256i _mm512_cvtepi32_epi16(__m512i a) { __m256i r; for (int i = 0; i < 16; i++) memcpy(r.b + 2 * i, a.b + 4 * i, 2); return r; }
static inline __m256i _mm512_cvtepi64_epi32(__m512i a) { __m256i r; for (int i = 0; i < 8; i++) memcpy(r.b + 4 * i, a.b + 8 * i, 4); return r; }

/* ---- compress (pack the selected lanes to the bottom) ---- */
static inline __m512i _mm512_maskz_compress_epi32(__mmask16 k, __m512i a) { __m512i r; int n = 0; memset(r.b, 0, 64);
    for (int i = 0; i < 16; i++) if ((k >> i) & 1u) { memcpy(r.b + 4 * n, a.b + 4 * i, 4); n++; }
    return r; }
static inline __m512i _mm512_maskz_compress_epi64(__mmask8 k, __m512i a) { __m512i r; int n = 0; memset(r.b, 0, 64);
    for (int i = 0; i < 8; i++) if ((k >> i) & 1u) { memcpy(r.b + 8 * n, a.b + 8 * i, 8); n++; }
    return r; }
/* writes exactly popcount(k) contiguous elements */
static inline void _mm512_mask_compressstoreu_epi32(void *p, __mmask16 k, __m512i a) { uint8_t *q = (uint8_t *)p; int n = 0;
    for (int i = 0; i < 16; i++) if ((k >> i) & 1u) { memcpy(q + 4 * n, a.b + 4 * i, 4); n++; } }
static inline void _mm512_mask_compressstoreu_epi64(void *p, __mmask8 k, __m512i a) { uint8_t *q = (uint8_t *)p; int n = 0;
    for (int i = 0; i < 8; i++) if ((k >> i) & 1u) { memcpy(q + 8 * n, a.b + 8 * i, 8); n++; } }

/* ---- horizontal reductions ---- */
static inline int _mm512_reduce_add_epi32(__m512i a)
{ uint32_t s = 0; for (int i = 0; i < 16; i++) s += vm_ld32(a.b + 4 * i); return vm_int_of_u32(s); }
static inline long long _mm512_reduce_add_epi64(__m512i a)
{ uint64_t s = 0; for (int i = 0; i < 8; i++) s += vm_ld64(a.b + 8 * i); return vm_ll_of_u64(s); }

/* ---- gathers / scatters: lane i accesses ES bytes at base + sign_extend(index[i]) * scale;
 *      masked-off lanes are not accessed; scatters write lanes in increasing
 *      order so the highest lane wins on overlap, as in hardware ---- */
#define VM_GATHER512(SFX, IT, MT, NL, IS, ILD, ES)                               \
static inline __m512i _mm512_##SFX(IT vindex, const void *base, int scale) { __m512i r; \
    for (int i = 0; i < (NL); i++)                                               \
        memcpy(r.b + i * (ES), vm_gaddr(base, (int64_t)ILD(vindex.b + i * (IS)), scale), (ES)); \
    return r; }                                                                  \
static inline __m512i _mm512_mask_##SFX(__m512i src, MT k, IT vindex, const void *base, int scale) { __m512i r = src; \
    for (int i = 0; i < (NL); i++)                                               \
        if ((k >> i) & 1u)                                                       \
            memcpy(r.b + i * (ES), vm_gaddr(base, (int64_t)ILD(vindex.b + i * (IS)), scale), (ES)); \
    return r; }
VM_GATHER512(i32gather_epi32, __m512i, __mmask16, 16, 4, vm_lds32, 4)
VM_GATHER512(i32gather_epi64, __m256i, __mmask8,  8,  4, vm_lds32, 8)
VM_GATHER512(i64gather_epi64, __m512i, __mmask8,  8,  8, vm_lds64, 8)
#define VM_SCATTER512(SFX, IT, MT, NL, IS, ILD, ES)                              \
static inline void _mm512_##SFX(void *base, IT vindex, __m512i a, int scale) {   \
    for (int i = 0; i < (NL); i++)                                               \
        memcpy(vm_saddr(base, (int64_t)ILD(vindex.b + i * (IS)), scale), a.b + i * (ES), (ES)); } \
static inline void _mm512_mask_##SFX(void *base, MT k, IT vindex, __m512i a, int scale) { \
    for (int i = 0; i < (NL); i++)                                               \
        if ((k >> i) & 1u)                                                       \
            memcpy(vm_saddr(base, (int64_t)ILD(vindex.b + i * (IS)), scale), a.b + i * (ES), (ES)); }
VM_SCATTER512(i32scatter_epi32, __m512i, __mmask16, 16, 4, vm_lds32, 4)
VM_SCATTER512(i32scatter_epi64, __m256i, __mmask8,  8,  4, vm_lds32, 8)
VM_SCATTER512(i64scatter_epi64, __m512i, __mmask8,  8,  8, vm_lds64, 8)

/* ==========================================================================
 * AVX-512CD
 * ========================================================================== */

/* lane i gets a bit j (j < i) for every earlier lane holding the same value */
static inline __m512i _mm512_conflict_epi32(__m512i a) { __m512i r;
    for (int i = 0; i < 16; i++) { uint32_t m = 0;
        for (int j = 0; j < 16; j++) if (j < i && vm_ld32(a.b + 4 * j) == vm_ld32(a.b + 4 * i)) m |= 1u << j;
        vm_st32(r.b + 4 * i, m); }
    return r; }
static inline __m512i _mm512_conflict_epi64(__m512i a) { __m512i r;
    for (int i = 0; i < 8; i++) { uint64_t m = 0;
        for (int j = 0; j < 8; j++) if (j < i && vm_ld64(a.b + 8 * j) == vm_ld64(a.b + 8 * i)) m |= 1ull << j;
        vm_st64(r.b + 8 * i, m); }
    return r; }
VM_UN(_mm512_lzcnt_epi32, __m512i, 64, uint32_t, vm_ld32, vm_st32, vm_lzcnt32(x))
VM_UN(_mm512_lzcnt_epi64, __m512i, 64, uint64_t, vm_ld64, vm_st64, (uint64_t)vm_lzcnt64(x))

/* ==========================================================================
 * AVX-512DQ
 * ========================================================================== */

VM_BIN(_mm512_mullo_epi64, __m512i, 64, uint64_t, vm_ld64, vm_st64, x * y)
static inline __mmask16 _mm512_movepi32_mask(__m512i a)
{ __mmask16 k = 0; for (int i = 0; i < 16; i++) k = (__mmask16)(k | ((unsigned)(a.b[4 * i + 3] >> 7) << i)); return k; }
static inline __mmask8 _mm512_movepi64_mask(__m512i a)
{ __mmask8 k = 0; for (int i = 0; i < 8; i++) k = (__mmask8)(k | ((unsigned)(a.b[8 * i + 7] >> 7) << i)); return k; }
static inline __m512i _mm512_movm_epi32(__mmask16 k) { __m512i r; for (int i = 0; i < 16; i++) memset(r.b + 4 * i, ((k >> i) & 1u) ? 0xFF : 0, 4); return r; }
static inline __m512i _mm512_movm_epi64(__mmask8 k)  { __m512i r; for (int i = 0; i < 8; i++) memset(r.b + 8 * i, ((k >> i) & 1u) ? 0xFF : 0, 8); return r; }
static inline __m128i _mm512_extracti64x2_epi64(__m512i a, int imm) { __m128i r; memcpy(r.b, a.b + 16 * (imm & 3), 16); return r; }
static inline __m256i _mm512_extracti32x8_epi32(__m512i a, int imm) { __m256i r; memcpy(r.b, a.b + 32 * (imm & 1), 32); return r; }
static inline __mmask8 _kand_mask8(__mmask8 a, __mmask8 b) { return (__mmask8)(a & b); }
static inline __mmask8 _kor_mask8(__mmask8 a, __mmask8 b)  { return (__mmask8)(a | b); }
static inline __mmask8 _knot_mask8(__mmask8 a)             { return (__mmask8)(~a & 0xFF); }
static inline unsigned int _cvtmask8_u32(__mmask8 k) { return k; }
static inline __mmask8 _cvtu32_mask8(unsigned int x) { return (__mmask8)(x & 0xFFu); }

/* ==========================================================================
 * AVX-512BW
 * ========================================================================== */

static inline __mmask32 _kand_mask32(__mmask32 a, __mmask32 b) { return a & b; }
static inline __mmask32 _kor_mask32(__mmask32 a, __mmask32 b)  { return a | b; }
static inline __mmask32 _kxor_mask32(__mmask32 a, __mmask32 b) { return a ^ b; }
static inline __mmask32 _knot_mask32(__mmask32 a)              { return ~a; }
static inline __mmask64 _kand_mask64(__mmask64 a, __mmask64 b) { return a & b; }
static inline __mmask64 _kor_mask64(__mmask64 a, __mmask64 b)  { return a | b; }
static inline __mmask64 _kxor_mask64(__mmask64 a, __mmask64 b) { return a ^ b; }
static inline __mmask64 _knot_mask64(__mmask64 a)              { return ~a; }
static inline unsigned int       _cvtmask32_u32(__mmask32 k) { return k; }
static inline __mmask32          _cvtu32_mask32(unsigned int x) { return x; }
static inline unsigned long long _cvtmask64_u64(__mmask64 k) { return k; }
static inline __mmask64          _cvtu64_mask64(unsigned long long x) { return x; }

VM_MASK_LDST(_mm512, epi8,  __m512i, __mmask64, 64, 1)
VM_MASK_LDST(_mm512, epi16, __m512i, __mmask32, 32, 2)

VM_BIN(_mm512_add_epi8,  __m512i, 64, uint8_t,  vm_ld8,  vm_st8,  (uint8_t)((x + y) & 0xFF))
VM_BIN(_mm512_add_epi16, __m512i, 64, uint16_t, vm_ld16, vm_st16, (uint16_t)((x + y) & 0xFFFF))
VM_BIN(_mm512_sub_epi8,  __m512i, 64, uint8_t,  vm_ld8,  vm_st8,  (uint8_t)((x + 0x100 - y) & 0xFF))
VM_BIN(_mm512_sub_epi16, __m512i, 64, uint16_t, vm_ld16, vm_st16, (uint16_t)((x + 0x10000 - y) & 0xFFFF))
VM_BIN(_mm512_mullo_epi16, __m512i, 64, uint16_t, vm_ld16, vm_st16, (uint16_t)(((uint32_t)x * (uint32_t)y) & 0xFFFFu))
VM_BIN(_mm512_min_epu8,  __m512i, 64, uint8_t,  vm_ld8,  vm_st8,  (x < y ? x : y))
VM_BIN(_mm512_max_epu8,  __m512i, 64, uint8_t,  vm_ld8,  vm_st8,  (x > y ? x : y))
VM_BIN(_mm512_min_epu16, __m512i, 64, uint16_t, vm_ld16, vm_st16, (x < y ? x : y))
VM_BIN(_mm512_max_epu16, __m512i, 64, uint16_t, vm_ld16, vm_st16, (x > y ? x : y))
VM_SHI(_mm512_slli_epi16, __m512i, 64, uint16_t, vm_ld16, vm_st16, vm_shl16)
VM_SHI(_mm512_srli_epi16, __m512i, 64, uint16_t, vm_ld16, vm_st16, vm_shr16)
VM_SHI(_mm512_srai_epi16, __m512i, 64, uint16_t, vm_ld16, vm_st16, vm_sar16)

VM_CMPK(_mm512_cmpeq_epi8_mask,   __m512i, 64, __mmask64, int8_t,   vm_lds8,  x == y)
VM_CMPK(_mm512_cmpneq_epi8_mask,  __m512i, 64, __mmask64, int8_t,   vm_lds8,  x != y)
VM_CMPK(_mm512_cmplt_epi8_mask,   __m512i, 64, __mmask64, int8_t,   vm_lds8,  x <  y)
VM_CMPK(_mm512_cmpgt_epi8_mask,   __m512i, 64, __mmask64, int8_t,   vm_lds8,  x >  y)
VM_CMPK(_mm512_cmplt_epu8_mask,   __m512i, 64, __mmask64, uint8_t,  vm_ld8,   x <  y)
VM_CMPK(_mm512_cmpgt_epu8_mask,   __m512i, 64, __mmask64, uint8_t,  vm_ld8,   x >  y)
VM_CMPK(_mm512_cmpeq_epi16_mask,  __m512i, 64, __mmask32, int16_t,  vm_lds16, x == y)
VM_CMPK(_mm512_cmpneq_epi16_mask, __m512i, 64, __mmask32, int16_t,  vm_lds16, x != y)
VM_CMPK(_mm512_cmpgt_epi16_mask,  __m512i, 64, __mmask32, int16_t,  vm_lds16, x >  y)
VM_CMPK(_mm512_test_epi8_mask,    __m512i, 64, __mmask64, uint8_t,  vm_ld8,   (x & y) != 0)
VM_CMPK(_mm512_testn_epi8_mask,   __m512i, 64, __mmask64, uint8_t,  vm_ld8,   (x & y) == 0)
VM_CMPK(_mm512_test_epi16_mask,   __m512i, 64, __mmask32, uint16_t, vm_ld16,  (x & y) != 0)

static inline __mmask64 _mm512_movepi8_mask(__m512i a)
{ __mmask64 k = 0; for (int i = 0; i < 64; i++) k |= (__mmask64)(a.b[i] >> 7) << i; return k; }
static inline __mmask32 _mm512_movepi16_mask(__m512i a)
{ __mmask32 k = 0; for (int i = 0; i < 32; i++) k |= (__mmask32)(a.b[2 * i + 1] >> 7) << i; return k; }
static inline __m512i _mm512_movm_epi8(__mmask64 k)  { __m512i r; for (int i = 0; i < 64; i++) r.b[i] = ((k >> i) & 1u) ? (uint8_t)0xFF : (uint8_t)0; return r; }
static inline __m512i _mm512_movm_epi16(__mmask32 k) { __m512i r; for (int i = 0; i < 32; i++) memset(r.b + 2 * i, ((k >> i) & 1u) ? 0xFF : 0, 2); return r; }
static inline __m512i _mm512_maskz_set1_epi8(__mmask64 k, char x) { __m512i r;
    for (int i = 0; i < 64; i++) { if ((k >> i) & 1u) memcpy(r.b + i, &x, 1); else r.b[i] = 0; } return r; }
static inline __m512i _mm512_mask_set1_epi8(__m512i src, __mmask64 k, char x) { __m512i r = src;
    for (int i = 0; i < 64; i++) if ((k >> i) & 1u) memcpy(r.b + i, &x, 1);
    return r; }
static inline __m512i _mm512_maskz_set1_epi16(__mmask32 k, short x) { __m512i r;
    for (int i = 0; i < 32; i++) { if ((k >> i) & 1u) memcpy(r.b + 2 * i, &x, 2); else memset(r.b + 2 * i, 0, 2); } return r; }
static inline __m512i _mm512_mask_blend_epi8(__mmask64 k, __m512i a, __m512i b) { __m512i r;
    for (int i = 0; i < 64; i++) r.b[i] = ((k >> i) & 1u) ? b.b[i] : a.b[i];
    return r; }
static inline __m512i _mm512_mask_blend_epi16(__mmask32 k, __m512i a, __m512i b) { __m512i r;
    for (int i = 0; i < 32; i++) memcpy(r.b + 2 * i, ((k >> i) & 1u) ? b.b + 2 * i : a.b + 2 * i, 2);
    return r; }
static inline __m512i _mm512_mask_mov_epi8(__m512i src, __mmask64 k, __m512i a) { return _mm512_mask_blend_epi8(k, src, a); }
static inline __m512i _mm512_maskz_mov_epi8(__mmask64 k, __m512i a) { return _mm512_mask_blend_epi8(k, _mm512_setzero_si512(), a); }
VM_MASKED_BIN(_mm512, add, epi8,  __m512i, __mmask64, 64, 1)
VM_MASKED_BIN(_mm512, add, epi16, __m512i, __mmask32, 32, 2)

static inline __m512i _mm512_shuffle_epi8(__m512i a, __m512i idx) { __m512i r;
    for (int l = 0; l < 64; l += 16)
        for (int i = 0; i < 16; i++) r.b[l + i] = (idx.b[l + i] & 0x80) ? (uint8_t)0 : a.b[l + (idx.b[l + i] & 0x0F)];
    return r; }
static inline __m512i _mm512_alignr_epi8(__m512i a, __m512i b, int imm) { __m512i r; int n = imm & 0xFF;
    for (int l = 0; l < 64; l += 16)
        for (int i = 0; i < 16; i++) { int j = i + n; r.b[l + i] = j < 16 ? b.b[l + j] : j < 32 ? a.b[l + j - 16] : (uint8_t)0; }
    return r; }
static inline __m512i _mm512_bslli_epi128(__m512i a, int imm) { __m512i r; int n = imm & 0xFF;
    for (int l = 0; l < 64; l += 16)
        for (int i = 0; i < 16; i++) r.b[l + i] = (n <= 15 && i >= n) ? a.b[l + i - n] : (uint8_t)0;
    return r; }
static inline __m512i _mm512_bsrli_epi128(__m512i a, int imm) { __m512i r; int n = imm & 0xFF;
    for (int l = 0; l < 64; l += 16)
        for (int i = 0; i < 16; i++) r.b[l + i] = (n <= 15 && i + n < 16) ? a.b[l + i + n] : (uint8_t)0;
    return r; }
static inline __m512i _mm512_permutexvar_epi16(__m512i idx, __m512i a) { __m512i r;
    for (int i = 0; i < 32; i++) memcpy(r.b + 2 * i, a.b + 2 * (vm_ld16(idx.b + 2 * i) & 31u), 2);
    return r; }
VM_UNPACK(_mm512_unpacklo_epi8,  __m512i, 64, 1, 0)
VM_UNPACK(_mm512_unpackhi_epi8,  __m512i, 64, 1, 8)
VM_UNPACK(_mm512_unpacklo_epi16, __m512i, 64, 2, 0)
VM_UNPACK(_mm512_unpackhi_epi16, __m512i, 64, 2, 8)
static inline __m512i _mm512_packs_epi16(__m512i a, __m512i b) { __m512i r;
    for (int l = 0; l < 64; l += 16)
        for (int i = 0; i < 8; i++) { vm_sts8(r.b + l + i, vm_sat_s16_s8(vm_lds16(a.b + l + 2 * i))); vm_sts8(r.b + l + 8 + i, vm_sat_s16_s8(vm_lds16(b.b + l + 2 * i))); }
    return r; }
static inline __m512i _mm512_packus_epi16(__m512i a, __m512i b) { __m512i r;
    for (int l = 0; l < 64; l += 16)
        for (int i = 0; i < 8; i++) { r.b[l + i] = vm_sat_s16_u8(vm_lds16(a.b + l + 2 * i)); r.b[l + 8 + i] = vm_sat_s16_u8(vm_lds16(b.b + l + 2 * i)); }
    return r; }
static inline __m512i _mm512_packs_epi32(__m512i a, __m512i b) { __m512i r;
    for (int l = 0; l < 64; l += 16)
        for (int i = 0; i < 4; i++) { vm_sts16(r.b + l + 2 * i, vm_sat_s32_s16(vm_lds32(a.b + l + 4 * i))); vm_sts16(r.b + l + 8 + 2 * i, vm_sat_s32_s16(vm_lds32(b.b + l + 4 * i))); }
    return r; }
static inline __m512i _mm512_packus_epi32(__m512i a, __m512i b) { __m512i r;
    for (int l = 0; l < 64; l += 16)
        for (int i = 0; i < 4; i++) { vm_st16(r.b + l + 2 * i, vm_sat_s32_u16(vm_lds32(a.b + l + 4 * i))); vm_st16(r.b + l + 8 + 2 * i, vm_sat_s32_u16(vm_lds32(b.b + l + 4 * i))); }
    return r; }
VM_EXT(_mm512_cvtepu8_epi16, __m512i, __m256i, 32, 1, 2, vm_ld8,  vm_st16)
VM_EXT(_mm512_cvtepi8_epi16, __m512i, __m256i, 32, 1, 2, vm_lds8, vm_sts16)
static inline __m256i _mm512_cvtepi16_epi8(__m512i a) { __m256i r; for (int i = 0; i < 32; i++) r.b[i] = a.b[2 * i]; return r; }
static inline __m512i _mm512_broadcastb_epi8(__m128i a)  { __m512i r; for (int i = 0; i < 64; i++) r.b[i] = a.b[0]; return r; }
static inline __m512i _mm512_broadcastw_epi16(__m128i a) { __m512i r; for (int i = 0; i < 32; i++) memcpy(r.b + 2 * i, a.b, 2); return r; }

/* ==========================================================================
 * AVX-512VL (+F/BW): 128/256-bit masked loads, stores and compares
 * ========================================================================== */

VM_MASK_LDST(_mm,    epi8,  __m128i, __mmask16, 16, 1)
VM_MASK_LDST(_mm,    epi16, __m128i, __mmask8,  8,  2)
VM_MASK_LDST(_mm,    epi32, __m128i, __mmask8,  4,  4)
VM_MASK_LDST(_mm,    epi64, __m128i, __mmask8,  2,  8)
VM_MASK_LDST(_mm256, epi8,  __m256i, __mmask32, 32, 1)
VM_MASK_LDST(_mm256, epi16, __m256i, __mmask16, 16, 2)
VM_MASK_LDST(_mm256, epi32, __m256i, __mmask8,  8,  4)
VM_MASK_LDST(_mm256, epi64, __m256i, __mmask8,  4,  8)
VM_CMPK(_mm_cmpeq_epi8_mask,     __m128i, 16, __mmask16, int8_t,  vm_lds8,  x == y)
VM_CMPK(_mm_cmpeq_epi32_mask,    __m128i, 16, __mmask8,  int32_t, vm_lds32, x == y)
VM_CMPK(_mm256_cmpeq_epi8_mask,  __m256i, 32, __mmask32, int8_t,  vm_lds8,  x == y)
VM_CMPK(_mm256_cmpeq_epi32_mask, __m256i, 32, __mmask8,  int32_t, vm_lds32, x == y)
VM_CMPK(_mm256_cmpneq_epi32_mask,__m256i, 32, __mmask8,  int32_t, vm_lds32, x != y)
VM_CMPK(_mm256_cmpgt_epi32_mask, __m256i, 32, __mmask8,  int32_t, vm_lds32, x >  y)
VM_CMPK(_mm256_test_epi8_mask,   __m256i, 32, __mmask32, uint8_t, vm_ld8,   (x & y) != 0)
VM_CMPK(_mm_test_epi8_mask,      __m128i, 16, __mmask16, uint8_t, vm_ld8,   (x & y) != 0)
static inline __mmask32 _mm256_movepi8_mask(__m256i a)
{ __mmask32 k = 0; for (int i = 0; i < 32; i++) k |= (__mmask32)(a.b[i] >> 7) << i; return k; }
static inline __mmask16 _mm_movepi8_mask(__m128i a)
{ __mmask16 k = 0; for (int i = 0; i < 16; i++) k = (__mmask16)(k | ((unsigned)(a.b[i] >> 7) << i)); return k; }
static inline __m256i _mm256_permutexvar_epi32(__m256i idx, __m256i a) { __m256i r;
    for (int i = 0; i < 8; i++) memcpy(r.b + 4 * i, a.b + 4 * (vm_ld32(idx.b + 4 * i) & 7u), 4);
    return r; }
static inline __m128i _mm256_cvtepi32_epi8(__m256i a)  { __m128i r; memset(r.b, 0, 16); for (int i = 0; i < 8; i++) r.b[i] = a.b[4 * i]; return r; }
static inline __m128i _mm256_cvtepi32_epi16(__m256i a) { __m128i r; for (int i = 0; i < 8; i++) memcpy(r.b + 2 * i, a.b + 4 * i, 2); return r; }
static inline __m256i _mm256_maskz_mov_epi32(__mmask8 k, __m256i a) { __m256i r;
    for (int i = 0; i < 8; i++) { if ((k >> i) & 1u) memcpy(r.b + 4 * i, a.b + 4 * i, 4); else memset(r.b + 4 * i, 0, 4); } return r; }
static inline __m256i _mm256_mask_blend_epi32(__mmask8 k, __m256i a, __m256i b) { __m256i r;
    for (int i = 0; i < 8; i++) memcpy(r.b + 4 * i, ((k >> i) & 1u) ? b.b + 4 * i : a.b + 4 * i, 4);
    return r; }

/* ==========================================================================
 * AVX-512VBMI
 * ========================================================================== */

static inline __m512i _mm512_permutexvar_epi8(__m512i idx, __m512i a) { __m512i r;
    for (int i = 0; i < 64; i++) r.b[i] = a.b[idx.b[i] & 63];
    return r; }
static inline __m512i _mm512_permutex2var_epi8(__m512i a, __m512i idx, __m512i b) { __m512i r;
    for (int i = 0; i < 64; i++) r.b[i] = (idx.b[i] & 64) ? b.b[idx.b[i] & 63] : a.b[idx.b[i] & 63];
    return r; }
static inline __m256i _mm256_permutexvar_epi8(__m256i idx, __m256i a) { __m256i r;
    for (int i = 0; i < 32; i++) r.b[i] = a.b[idx.b[i] & 31];
    return r; }

#endif /* VERIF_MODEL_IMMINTRIN_H */
