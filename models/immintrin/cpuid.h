/*
 * Verification model of GCC/clang <cpuid.h>.
 *
 * The CPUID instruction is replaced by calls to an external function that the
 * verification harness defines (normally returning a nondeterministic value),
 * so that carquet's feature detection (src/simd/detect.c) sees arbitrary
 * feature bits.  reg: 0 = EAX, 1 = EBX, 2 = ECX, 3 = EDX.
 *
 * Hardware CPUID is a function of (leaf, subleaf); a harness that needs this
 * must make verif_cpuid_reg deterministic in its arguments.
 *
 * __get_cpuid / __get_cpuid_count follow the GCC implementation: they first
 * query the maximum supported leaf (__get_cpuid_max) and return 0, leaving the
 * outputs untouched, when the requested leaf is not supported.
 */
#ifndef VERIF_MODEL_CPUID_H
#define VERIF_MODEL_CPUID_H

#include <string.h>

unsigned verif_cpuid_reg(unsigned leaf, unsigned subleaf, int reg);

/* feature bits used by the usual detection code (leaf 1 ECX / EDX, leaf 7 EBX / ECX) */
#define bit_SSE3        (1u << 0)
#define bit_PCLMUL      (1u << 1)
#define bit_SSSE3       (1u << 9)
#define bit_FMA         (1u << 12)
#define bit_SSE4_1      (1u << 19)
#define bit_SSE4_2      (1u << 20)
#define bit_MOVBE       (1u << 22)
#define bit_POPCNT      (1u << 23)
#define bit_AES         (1u << 25)
#define bit_XSAVE       (1u << 26)
#define bit_OSXSAVE     (1u << 27)
#define bit_AVX         (1u << 28)
#define bit_F16C        (1u << 29)
#define bit_SSE         (1u << 25)
#define bit_SSE2        (1u << 26)
#define bit_BMI         (1u << 3)
#define bit_AVX2        (1u << 5)
#define bit_BMI2        (1u << 8)
#define bit_AVX512F     (1u << 16)
#define bit_AVX512DQ    (1u << 17)
#define bit_AVX512CD    (1u << 28)
#define bit_AVX512BW    (1u << 30)
#define bit_AVX512VL    (1u << 31)
#define bit_AVX512VBMI  (1u << 1)

#define __cpuid(level, a, b, c, d)                                             \
    do { (a) = verif_cpuid_reg((unsigned)(level), 0u, 0);                      \
         (b) = verif_cpuid_reg((unsigned)(level), 0u, 1);                      \
         (c) = verif_cpuid_reg((unsigned)(level), 0u, 2);                      \
         (d) = verif_cpuid_reg((unsigned)(level), 0u, 3); } while (0)

#define __cpuid_count(level, count, a, b, c, d)                                \
    do { (a) = verif_cpuid_reg((unsigned)(level), (unsigned)(count), 0);       \
         (b) = verif_cpuid_reg((unsigned)(level), (unsigned)(count), 1);       \
         (c) = verif_cpuid_reg((unsigned)(level), (unsigned)(count), 2);       \
         (d) = verif_cpuid_reg((unsigned)(level), (unsigned)(count), 3); } while (0)

/* highest supported leaf of the basic (ext = 0) or extended (ext = 0x80000000) range */
static inline unsigned int __get_cpuid_max(unsigned int ext, unsigned int *sig)
{
    unsigned int eax, ebx, ecx, edx;
    __cpuid(ext, eax, ebx, ecx, edx);
    (void)ecx; (void)edx;
    if (sig) *sig = ebx;
    return eax;
}

static inline int __get_cpuid(unsigned int leaf, unsigned int *eax, unsigned int *ebx,
                              unsigned int *ecx, unsigned int *edx)
{
    unsigned int ext = leaf & 0x80000000u;
    unsigned int maxlevel = __get_cpuid_max(ext, 0);
    if (maxlevel == 0 || maxlevel < leaf) return 0;
    __cpuid(leaf, *eax, *ebx, *ecx, *edx);
    return 1;
}

static inline int __get_cpuid_count(unsigned int leaf, unsigned int subleaf,
                                    unsigned int *eax, unsigned int *ebx,
                                    unsigned int *ecx, unsigned int *edx)
{
    unsigned int ext = leaf & 0x80000000u;
    unsigned int maxlevel = __get_cpuid_max(ext, 0);
    if (maxlevel == 0 || maxlevel < leaf) return 0;
    __cpuid_count(leaf, subleaf, *eax, *ebx, *ecx, *edx);
    return 1;
}

/* MSVC-style interface, also offered by GCC >= 11 */
static inline void __cpuidex(int cpu_info[4], int leaf, int subleaf)
{
    unsigned int r[4];
    unsigned int l, s;
    memcpy(&l, &leaf, sizeof l); memcpy(&s, &subleaf, sizeof s);
    __cpuid_count(l, s, r[0], r[1], r[2], r[3]);
    memcpy(cpu_info, r, sizeof r);
}

#endif /* VERIF_MODEL_CPUID_H */
