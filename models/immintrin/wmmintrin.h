/* verification model: forwards to the plain-C intrinsic model (see immintrin.h) */
#include "immintrin.h"
