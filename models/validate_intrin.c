/*
 * Hardware validation of the plain-C intrinsic model in immintrin/immintrin.h.
 *
 * This one source file is compiled three times by validate.sh:
 *
 *   -DVI_REAL    against the compiler's real <immintrin.h> (gcc -O1 -march=native):
 *                defines   void real_<intrinsic>(in, out, imm, mem)
 *   -DVI_MODEL   against the model (-I models/immintrin, no -m flags, -O0):
 *                defines   void model_<intrinsic>(in, out, imm, mem)
 *   -DVI_DRIVER  the driver: table of all wrappers, operand generation, comparison.
 *
 * The wrappers themselves are the E(...) lines of validate_entries.inc (one per
 * intrinsic; generated from the model's prototypes by gen_entries.py).  The two
 * wrapper TUs share no vector types: operands travel as raw bytes.
 *
 *   in   4 operand slots of 64 bytes (vector operands, scalars, k-masks, index vectors)
 *   out  128 result bytes (pre-filled with 0xCC by the driver)
 *   imm  the immediate operand (the wrapper switches over every legal value)
 *   mem  the pointer operand of loads / stores / gathers / scatters; it points
 *        into an arena of one page that is fenced by two PROT_NONE guard pages
 *
 * For memory intrinsics the driver places `mem` so that the bytes that the
 * hardware may NOT touch (beyond the vector, masked-off head/tail lanes, gather
 * lanes that are masked off) fall into a guard page: a model that reads or
 * writes one byte too many faults, which is reported as a MISMATCH.  After a
 * store the whole arena is compared, so bytes that must stay untouched are
 * checked too.
 */
#define _GNU_SOURCE
#include <stdint.h>
#include <stddef.h>
#include <string.h>

typedef void (*vi_fn)(const uint8_t *in, uint8_t *out, int imm, uint8_t *mem);

/* kinds of entries (how the driver prepares `mem` and what it compares) */
enum {
    K_PURE,      /* no memory operand */
    K_LOAD,      /* reads  nl bytes at mem (alignment `align`) */
    K_STORE,     /* writes nl bytes at mem */
    K_KMLOAD,    /* k-masked load : nl lanes of es bytes, k in slot mslot */
    K_KMSTORE,   /* k-masked store */
    K_VMLOAD,    /* vector-masked load (MSB of each lane of slot mslot) */
    K_VMSTORE,   /* vector-masked store */
    K_GATHER,    /* nl lanes of es bytes, indices of `is` bytes in slot islot, imm = scale;
                    mkind 0 unmasked, 1 k-mask in mslot, 2 vector mask in mslot */
    K_SCATTER,
    K_CSTORE,    /* compress-store: writes popcount(k) * es contiguous bytes */
    K_ANYPTR     /* pointer is never dereferenced (prefetch) */
};
struct vi_kind { int k, nl, es, mslot, islot, is, mkind, align; };

#define KPURE                          { K_PURE,    0, 0, 0, 0, 0, 0, 1 }
#define KLOAD(n, al)                   { K_LOAD,    n, 1, 0, 0, 0, 0, al }
#define KSTORE(n, al)                  { K_STORE,   n, 1, 0, 0, 0, 0, al }
#define KKMLOAD(nl, es, ms)            { K_KMLOAD,  nl, es, ms, 0, 0, 1, 1 }
#define KKMSTORE(nl, es, ms)           { K_KMSTORE, nl, es, ms, 0, 0, 1, 1 }
#define KVMLOAD(nl, es, ms)            { K_VMLOAD,  nl, es, ms, 0, 0, 2, 1 }
#define KVMSTORE(nl, es, ms)           { K_VMSTORE, nl, es, ms, 0, 0, 2, 1 }
#define KGATHER(nl, es, isl, is, mk, ms)  { K_GATHER,  nl, es, ms, isl, is, mk, 1 }
#define KSCATTER(nl, es, isl, is, mk, ms) { K_SCATTER, nl, es, ms, isl, is, mk, 1 }
#define KCSTORE(nl, es, ms)            { K_CSTORE,  nl, es, ms, 0, 0, 1, 1 }
#define KANYPTR                        { K_ANYPTR,  0, 0, 0, 0, 0, 0, 1 }

/* ========================================================================= */
#if defined(VI_REAL) || defined(VI_MODEL)
/* ========================================================================= */

#include <immintrin.h>
#include <cpuid.h>

#ifdef VI_REAL
#  ifdef VERIF_MODEL_IMMINTRIN_H
#    error "the real TU picked up the model header"
#  endif
#  define E(name, lo, hi, kind, ...) WRAPPER(real_##name, __VA_ARGS__)
#else
#  ifndef VERIF_MODEL_IMMINTRIN_H
#    error "the model TU did not pick up the model header (missing -I models/immintrin?)"
#  endif
#  if defined(_IMMINTRIN_H_INCLUDED) || defined(_EMMINTRIN_H_INCLUDED) || defined(_XMMINTRIN_H_INCLUDED) || defined(__IMMINTRIN_H) || defined(_CPUID_H_INCLUDED)
#    error "the model TU pulled in a system intrinsic header"
#  endif
#  define E(name, lo, hi, kind, ...) WRAPPER(model_##name, __VA_ARGS__)
/* the model's cpuid.h calls this hook; here it is the real CPUID instruction so
 * that the control flow of __get_cpuid* can be compared with GCC's <cpuid.h> */
unsigned verif_cpuid_reg(unsigned leaf, unsigned subleaf, int reg)
{
    unsigned r[4];
    __asm__ volatile("cpuid" : "=a"(r[0]), "=b"(r[1]), "=c"(r[2]), "=d"(r[3]) : "0"(leaf), "2"(subleaf));
    return r[reg & 3];
}
unsigned long long verif_xgetbv(unsigned index)
{
    unsigned lo, hi;
    __asm__ volatile("xgetbv" : "=a"(lo), "=d"(hi) : "c"(index));
    return ((unsigned long long)hi << 32) | lo;
}
#endif

/* operand slots */
#define A (in)
#define B (in + 64)
#define C (in + 128)
#define D (in + 192)

/* byte-buffer <-> value helpers (the only place where vector types meet bytes) */
#define DEF_LDST(T, n)                                                         \
static inline T ld_##n(const uint8_t *p) { T v; memcpy(&v, p, sizeof v); return v; } \
static inline void st_##n(uint8_t *p, T v) { memcpy(p, &v, sizeof v); }
DEF_LDST(__m128i, m128i) DEF_LDST(__m256i, m256i) DEF_LDST(__m512i, m512i)
DEF_LDST(__m128,  m128)  DEF_LDST(__m256,  m256)  DEF_LDST(__m512,  m512)
DEF_LDST(__m128d, m128d) DEF_LDST(__m256d, m256d) DEF_LDST(__m512d, m512d)
DEF_LDST(char, char) DEF_LDST(short, short) DEF_LDST(int, int) DEF_LDST(long long, llong)
DEF_LDST(unsigned char, uchar) DEF_LDST(unsigned short, ushort)
DEF_LDST(unsigned int, uint) DEF_LDST(unsigned long long, ullong)
DEF_LDST(float, float) DEF_LDST(double, double)
DEF_LDST(__mmask8, mmask8) DEF_LDST(__mmask16, mmask16) DEF_LDST(__mmask32, mmask32) DEF_LDST(__mmask64, mmask64)
/* scalar results are widened to 64 bits */
#define st_sres(p, v) st_llong((p), (long long)(v))
#define st_ures(p, v) st_ullong((p), (unsigned long long)(v))
/* element j of an array of scalars in slot A (for the many-argument _mm*_set_* forms) */
#define EL(n, T, j) ld_##n(in + (j) * sizeof(T))

/* case-list builders: Rn(M, f, b) expands M(f, b+0) ... M(f, b+n-1) */
#define R1(M, f, b)   M(f, (b))
#define R2(M, f, b)   R1(M, f, b) R1(M, f, (b) + 1)
#define R4(M, f, b)   R2(M, f, b) R2(M, f, (b) + 2)
#define R8(M, f, b)   R4(M, f, b) R4(M, f, (b) + 4)
#define R16(M, f, b)  R8(M, f, b) R8(M, f, (b) + 8)
#define R32(M, f, b)  R16(M, f, b) R16(M, f, (b) + 16)
#define R64(M, f, b)  R32(M, f, b) R32(M, f, (b) + 32)
#define R128(M, f, b) R64(M, f, b) R64(M, f, (b) + 64)
#define R256(M, f, b) R128(M, f, b) R128(M, f, (b) + 128)

/* In E(), `name` is only ever pasted / stringized, never macro-expanded (GCC
 * defines some intrinsics, e.g. _kand_mask16, as macro aliases of others) */
#define WRAPPER(fn, ...)                                                       \
void fn(const uint8_t *in, uint8_t *out, int imm, uint8_t *mem);               \
void fn(const uint8_t *in, uint8_t *out, int imm, uint8_t *mem)                \
{ (void)in; (void)out; (void)imm; (void)mem; __VA_ARGS__ }

#include "validate_entries.inc"

/* ========================================================================= */
#elif defined(VI_DRIVER)
/* ========================================================================= */

#include <stdio.h>
#include <stdlib.h>
#include <signal.h>
#include <setjmp.h>
#include <sched.h>
#include <sys/mman.h>
#include <unistd.h>

#define E(name, lo, hi, kind, ...)                                             \
    void real_##name(const uint8_t *, uint8_t *, int, uint8_t *);              \
    void model_##name(const uint8_t *, uint8_t *, int, uint8_t *);
#include "validate_entries.inc"
#undef E

struct vi_entry { const char *name; vi_fn real, model; int lo, hi; struct vi_kind kd; };
static const struct vi_entry entries[] = {
#define E(name, lo, hi, kind, ...) { #name, real_##name, model_##name, lo, hi, kind },
#include "validate_entries.inc"
#undef E
};
#define N_ENTRIES ((int)(sizeof entries / sizeof entries[0]))

#define PAGE   4096
#define IN_SZ  256
#define OUT_SZ 128

static uint8_t *arena;                 /* PAGE accessible bytes, guard pages on both sides */
static uint8_t baseline[PAGE];         /* arena contents before every call */
static uint64_t rng_state;

static uint64_t rnd(void)
{   /* xorshift64* */
    rng_state ^= rng_state >> 12; rng_state ^= rng_state << 25; rng_state ^= rng_state >> 27;
    return rng_state * 0x2545F4914F6CDD1DULL;
}
static uint32_t rnd_below(uint32_t n) { return n ? (uint32_t)(rnd() % n) : 0; }

static sigjmp_buf fault_jmp;
static volatile sig_atomic_t fault_armed;
static void on_fault(int sig)
{
    if (fault_armed) siglongjmp(fault_jmp, sig);
    signal(sig, SIG_DFL); raise(sig);
}

/* ---- operand generation ------------------------------------------------ */

#define N_PATTERNS 16
static void fill_pattern(uint8_t *slot, int pat)
{
    static const uint8_t byte_pat[7][2] = { {0x00,0x00}, {0xFF,0xFF}, {0x80,0x80}, {0x7F,0x7F}, {0xAA,0xAA}, {0x55,0x55}, {0x00,0xFF} };
    if (pat < 7) { for (int i = 0; i < 64; i++) slot[i] = byte_pat[pat][i & 1]; return; }
    memset(slot, 0, 64);
    switch (pat) {
    case 7:  for (int i = 0; i < 32; i++) slot[2 * i + 1] = 0x80; break;                      /* int16 min */
    case 8:  for (int i = 0; i < 32; i++) { slot[2 * i] = 0xFF; slot[2 * i + 1] = 0x7F; } break; /* int16 max */
    case 9:  for (int i = 0; i < 16; i++) slot[4 * i + 3] = 0x80; break;                      /* int32 min */
    case 10: memset(slot, 0xFF, 64); for (int i = 0; i < 16; i++) slot[4 * i + 3] = 0x7F; break; /* int32 max */
    case 11: for (int i = 0; i < 8; i++) slot[8 * i + 7] = 0x80; break;                       /* int64 min */
    case 12: memset(slot, 0xFF, 64); for (int i = 0; i < 8; i++) slot[8 * i + 7] = 0x7F; break;  /* int64 max */
    case 13: memset(slot, 0x01, 64); break;
    case 14: for (int i = 0; i < 64; i++) slot[i] = (uint8_t)i; break;                        /* identity byte index */
    default: for (int i = 0; i < 16; i++) slot[4 * i] = (uint8_t)i; break;                    /* identity dword index */
    }
}

static void fill_random(uint8_t *in)
{
    static const uint8_t special[8] = { 0x00, 0x01, 0x7F, 0x80, 0xFF, 0x0F, 0x10, 0xFE };
    int style = (int)rnd_below(10);
    for (int i = 0; i < IN_SZ; i++) in[i] = (uint8_t)rnd();
    switch (style) {
    case 0: case 1: case 2: break;                                           /* uniformly random bytes */
    case 3: for (int i = 0; i < IN_SZ; i++) in[i] = special[rnd_below(8)]; break;
    case 4: for (int i = 0; i < IN_SZ; i++) in[i] = (uint8_t)rnd_below(72); break;   /* small bytes: indices, counts */
    case 5: memset(in, 0, IN_SZ);                                            /* small 32-bit lanes (shift counts) */
            for (int i = 0; i < IN_SZ; i += 4) in[i] = (uint8_t)rnd_below(72);
            break;
    case 6: memset(in, 0, IN_SZ);                                            /* small 64-bit lanes */
            for (int i = 0; i < IN_SZ; i += 8) in[i] = (uint8_t)rnd_below(72);
            break;
    case 7: memset(in, 0, IN_SZ);                                            /* sparse */
            for (int i = 0; i < 12; i++) in[rnd_below(IN_SZ)] = (uint8_t)rnd();
            break;
    case 8: {                                                                /* lanes drawn from a small pool (duplicates) */
            uint64_t pool[3] = { rnd(), rnd(), rnd() };
            int w = 1 << rnd_below(4);                                       /* lane width 1,2,4,8 */
            for (int i = 0; i < IN_SZ; i += w) memcpy(in + i, &pool[rnd_below(3)], (size_t)w);
            break; }
    default:                                                                 /* second operand nearly equal to the first */
            memcpy(in + 64, in, 64); memcpy(in + 128, in, 64);
            for (int i = 0; i < 6; i++) in[64 + rnd_below(128)] ^= (uint8_t)(1u << rnd_below(8));
            break;
    }
}

/* choose the mask of a masked memory operation: half of the time a prefix /
 * suffix / degenerate mask (the shapes used for loop tails), else random */
static uint64_t pick_mask(int nl)
{
    uint64_t all = nl >= 64 ? ~0ULL : ((1ULL << nl) - 1);
    uint64_t junk = nl >= 64 ? 0 : (rnd() & ~all);          /* bits above the lane count are ignored by hardware */
    uint64_t m;
    switch (rnd_below(8)) {
    case 0: case 1: case 2: { uint32_t n = rnd_below((uint32_t)nl + 1); m = n >= 64 ? ~0ULL : ((1ULL << n) - 1); break; }
    case 3: { uint32_t n = rnd_below((uint32_t)nl + 1); m = n >= 64 ? 0 : (all & ~((1ULL << n) - 1)); break; }
    case 4: m = (rnd() & 1) ? 0 : all; break;
    case 5: m = 1ULL << rnd_below((uint32_t)nl); break;
    default: m = rnd() & all; break;
    }
    return (m & all) | junk;
}

static uint64_t get_mask(const struct vi_kind *kd, const uint8_t *in)
{
    uint64_t m = 0;
    if (kd->mkind == 0) return kd->nl >= 64 ? ~0ULL : ((1ULL << kd->nl) - 1);
    if (kd->mkind == 1) { memcpy(&m, in + 64 * kd->mslot, 8); }
    else for (int i = 0; i < kd->nl; i++) if (in[64 * kd->mslot + i * kd->es + kd->es - 1] & 0x80) m |= 1ULL << i;
    return kd->nl >= 64 ? m : (m & ((1ULL << kd->nl) - 1));
}

static void set_mask(const struct vi_kind *kd, uint8_t *in, uint64_t m)
{
    if (kd->mkind == 1) memcpy(in + 64 * kd->mslot, &m, 8);
    else if (kd->mkind == 2)
        for (int i = 0; i < kd->nl; i++) {
            uint8_t *p = &in[64 * kd->mslot + i * kd->es + kd->es - 1];
            *p = (uint8_t)((*p & 0x7F) | (((m >> i) & 1) ? 0x80 : 0));
        }
}

/* a pointer that faults when dereferenced */
static uint8_t *wild_pointer(void)
{
    switch (rnd_below(3)) {
    case 0:  return arena + PAGE + 64 + rnd_below(1024);    /* inside the trailing guard page */
    case 1:  return arena - 2048 + rnd_below(1024);         /* inside the leading guard page */
    default: return (uint8_t *)(uintptr_t)(64 + rnd_below(1024));
    }
}

/* place a window of `n` accessible bytes: flush with the end of the arena, with
 * its start, or anywhere (respecting the alignment) */
static long place_window(long n, int align, int mode)
{
    long off;
    if (mode == 0) off = PAGE - n;
    else if (mode == 1) off = 0;
    else off = (long)rnd_below((uint32_t)(PAGE - n + 1));
    return off - (off % align);
}

/* decide `mem` for this trial; may rewrite the mask / index operands in `in` */
static uint8_t *prepare_mem(const struct vi_entry *e, uint8_t *in, int imm, int mode)
{
    const struct vi_kind *kd = &e->kd;
    switch (kd->k) {
    case K_PURE: return arena;
    case K_ANYPTR: return mode == 2 ? arena + rnd_below(PAGE) : wild_pointer();
    case K_LOAD: case K_STORE:
        return arena + place_window(kd->nl, kd->align, mode);
    case K_KMLOAD: case K_KMSTORE: case K_VMLOAD: case K_VMSTORE: {
        set_mask(kd, in, pick_mask(kd->nl));
        uint64_t m = get_mask(kd, in);
        if (!m) return wild_pointer();
        int lo = 0, hi = kd->nl - 1;
        while (!((m >> lo) & 1)) lo++;
        while (!((m >> hi) & 1)) hi--;
        long first = (long)lo * kd->es, n = (long)(hi + 1) * kd->es - first;
        return arena + place_window(n, 1, mode) - first; }
    case K_CSTORE: {
        set_mask(kd, in, pick_mask(kd->nl));
        uint64_t m = get_mask(kd, in);
        long n = 0; for (int i = 0; i < kd->nl; i++) n += (long)((m >> i) & 1) * kd->es;
        if (!n) return wild_pointer();
        return arena + place_window(n, 1, mode); }
    case K_GATHER: case K_SCATTER: {
        int scale = imm;
        if (kd->mkind) set_mask(kd, in, pick_mask(kd->nl));
        uint64_t m = get_mask(kd, in);
        long boff = mode == 0 ? PAGE : mode == 1 ? 0 : (long)rnd_below(PAGE + 1);   /* base relative to the arena */
        long lo = -(boff / scale), hi = (PAGE - kd->es - boff) / scale;              /* legal index range */
        if (boff + hi * scale + kd->es > PAGE) hi--;
        int dup = rnd_below(4) == 0;                                                 /* force colliding lanes */
        long pool[2] = { lo + (long)rnd_below((uint32_t)(hi - lo + 1)), lo + (long)rnd_below((uint32_t)(hi - lo + 1)) };
        for (int i = 0; i < kd->nl; i++) {
            if (!((m >> i) & 1)) continue;                                           /* masked-off lanes keep wild indices */
            long idx;
            switch (rnd_below(4)) {
            case 0:  idx = rnd_below(2) ? lo : hi; break;                            /* touch the arena edges */
            default: idx = lo + (long)rnd_below((uint32_t)(hi - lo + 1)); break;
            }
            if (dup) idx = pool[rnd_below(2)];
            if (kd->is == 4) { int32_t v = (int32_t)idx; memcpy(in + 64 * kd->islot + 4 * i, &v, 4); }
            else             { int64_t v = (int64_t)idx; memcpy(in + 64 * kd->islot + 8 * i, &v, 8); }
        }
        return arena + boff; }
    }
    return arena;
}

/* ---- one comparison ---------------------------------------------------- */

static int is_store_kind(int k) { return k == K_STORE || k == K_KMSTORE || k == K_VMSTORE || k == K_SCATTER || k == K_CSTORE; }

static char fail_msg[512];

static int call_guarded(vi_fn f, const uint8_t *in, uint8_t *out, int imm, uint8_t *mem)
{
    int sig;
    fault_armed = 1;
    if ((sig = sigsetjmp(fault_jmp, 1)) != 0) { fault_armed = 0; return sig; }
    f(in, out, imm, mem);
    fault_armed = 0;
    return 0;
}

/* returns 0 when real and model agree */
static int compare_once(const struct vi_entry *e, const uint8_t *in, int imm, uint8_t *mem, const char *what, long trial)
{
    static uint8_t out_r[OUT_SZ], out_m[OUT_SZ], snap_r[PAGE];
    int store = is_store_kind(e->kd.k), sr, sm;

    memcpy(arena, baseline, PAGE); memset(out_r, 0xCC, OUT_SZ);
    sr = call_guarded(e->real, in, out_r, imm, mem);
    if (store) memcpy(snap_r, arena, PAGE);
    memcpy(arena, baseline, PAGE); memset(out_m, 0xCC, OUT_SZ);
    sm = call_guarded(e->model, in, out_m, imm, mem);

    if (sr || sm) {
        snprintf(fail_msg, sizeof fail_msg, "imm=%d %s #%ld: %s%s%s (mem=arena%+ld)", imm, what, trial,
                 sr ? "REAL faulted " : "", sm ? "MODEL faulted (touches bytes the hardware does not)" : "",
                 sr && sm ? " [test generator bug?]" : "", (long)(mem - arena));
        return 1;
    }
    for (int i = 0; i < OUT_SZ; i++)
        if (out_r[i] != out_m[i]) {
            int n = 0;
            n += snprintf(fail_msg + n, sizeof fail_msg - (size_t)n, "imm=%d %s #%ld: result byte %d real=%02x model=%02x; in=", imm, what, trial, i, out_r[i], out_m[i]);
            for (int j = 0; j < 160 && n < (int)sizeof fail_msg - 4; j++) n += snprintf(fail_msg + n, sizeof fail_msg - (size_t)n, "%02x%s", in[j], (j & 63) == 63 ? "|" : "");
            return 1;
        }
    if (store)
        for (int i = 0; i < PAGE; i++)
            if (snap_r[i] != arena[i]) {
                snprintf(fail_msg, sizeof fail_msg, "imm=%d %s #%ld: memory byte mem%+ld real=%02x model=%02x (before: %02x)", imm, what, trial,
                         (long)(arena + i - mem), snap_r[i], arena[i], baseline[i]);
                return 1;
            }
    return 0;
}

static int check_entry(const struct vi_entry *e, long n_random, long *n_cases)
{
    static const int scales[4] = { 1, 2, 4, 8 };
    uint8_t in[IN_SZ];
    int is_gs = e->kd.k == K_GATHER || e->kd.k == K_SCATTER;
    int n_imm = is_gs ? 4 : (e->hi >= e->lo ? e->hi - e->lo + 1 : 1);
    long per_imm = n_random / n_imm; if (per_imm < 200) per_imm = 200;

    for (int ii = 0; ii < n_imm; ii++) {
        int imm = is_gs ? scales[ii] : (e->hi >= e->lo ? e->lo + ii : 0);
        /* boundary operands */
        if (e->kd.k == K_PURE) {
            int nc = n_imm > 1 ? 1 : 4;
            for (int pa = 0; pa < N_PATTERNS; pa++) for (int pb = 0; pb < N_PATTERNS; pb++) for (int c = 0; c < nc; c++) {
                fill_pattern(in, pa); fill_pattern(in + 64, pb);
                fill_pattern(in + 128, (pa + pb + 5 * c) % N_PATTERNS); fill_pattern(in + 192, (pb + 3 * c + 1) % N_PATTERNS);
                (*n_cases)++;
                if (compare_once(e, in, imm, arena, "boundary", (long)(pa * 256 + pb * 16 + c))) return 1;
            }
        }
        /* pseudo-random operands (for memory kinds: three placements of the accessed window) */
        for (long t = 0; t < per_imm; t++) {
            fill_random(in);
            uint8_t *mem = prepare_mem(e, in, imm, (int)(t % 3));
            (*n_cases)++;
            if (compare_once(e, in, imm, mem, "random", t)) return 1;
        }
    }
    return 0;
}

int main(int argc, char **argv)
{
    const char *seed_env = getenv("VERIF_SEED");
    uint64_t seed = seed_env ? strtoull(seed_env, NULL, 0) : 0x5EEDCA29E7ULL;
    long n_random = 2000, n_cases = 0;
    int mismatches = 0, validated = 0;
    const char *only = argc > 1 ? argv[1] : NULL;

    /* CPUID leaf 1/0xB report the id of the executing core: stay on one core */
    cpu_set_t cs; CPU_ZERO(&cs);
    if (sched_getaffinity(0, sizeof cs, &cs) == 0)
        for (int c = 0; c < CPU_SETSIZE; c++) if (CPU_ISSET(c, &cs)) { cpu_set_t one; CPU_ZERO(&one); CPU_SET(c, &one); sched_setaffinity(0, sizeof one, &one); break; }

    uint8_t *map = mmap(NULL, 3 * PAGE, PROT_READ | PROT_WRITE, MAP_PRIVATE | MAP_ANONYMOUS, -1, 0);
    if (map == MAP_FAILED) { perror("mmap"); return 2; }
    if (mprotect(map, PAGE, PROT_NONE) || mprotect(map + 2 * PAGE, PAGE, PROT_NONE)) { perror("mprotect"); return 2; }
    arena = map + PAGE;

    struct sigaction sa; memset(&sa, 0, sizeof sa); sa.sa_handler = on_fault; sigemptyset(&sa.sa_mask); sa.sa_flags = SA_NODEFER;
    sigaction(SIGSEGV, &sa, NULL); sigaction(SIGBUS, &sa, NULL);

    for (int i = 0; i < N_ENTRIES; i++) {
        const struct vi_entry *e = &entries[i];
        if (only && strcmp(only, e->name) != 0) continue;
        /* per-intrinsic seed: results do not depend on the order / selection of entries */
        rng_state = seed ^ (0x9E3779B97F4A7C15ULL * (uint64_t)(i + 1)); if (!rng_state) rng_state = 1;
        for (int j = 0; j < PAGE; j++) baseline[j] = (uint8_t)rnd();
        validated++;
        if (check_entry(e, n_random, &n_cases)) { mismatches++; printf("MISMATCH %s %s\n", e->name, fail_msg); }
        else printf("OK %s\n", e->name);
    }
    printf("seed: 0x%llx, cases compared: %ld\n", (unsigned long long)seed, n_cases);
    printf("intrinsics validated: %d, mismatches: %d\n", validated, mismatches);
    return mismatches ? 1 : 0;
}

#else
#error "compile with -DVI_REAL, -DVI_MODEL or -DVI_DRIVER (see validate.sh)"
#endif
