#!/usr/bin/env python3
"""Generate validate_entries.inc from the prototypes of the intrinsic model.

usage: gen_entries.py > validate_entries.inc      (run from /verif/models)

Every `static inline` function of immintrin/immintrin.h whose name does not
start with `vm_` gets one line

    E(name, imm_lo, imm_hi, KIND, body)

where `body` calls the intrinsic with operands taken from the 64-byte slots
A, B, C, D of the input buffer and stores the result into `out` (see
validate_intrin.c).  The same line is compiled against the real <immintrin.h>
and against the model, so a prototype that deviates from the real header makes
the real TU fail to compile.

Only the tables below are hand-written: immediate ranges and the description of
the memory behaviour (what the hardware may touch) of loads/stores/gathers.
"""
import re, subprocess, sys, os

HERE = os.path.dirname(os.path.abspath(__file__))
MODEL_INC = os.environ.get("VERIF_MODEL_INC") or os.path.join(HERE, "immintrin")
src = subprocess.run(["gcc", "-E", "-P", "-I", MODEL_INC, "-x", "c", "-"],
                     input="#include <immintrin.h>\n", capture_output=True, text=True, check=True).stdout

VEC = {"__m128i": "m128i", "__m256i": "m256i", "__m512i": "m512i", "__m128": "m128", "__m256": "m256",
       "__m512": "m512", "__m128d": "m128d", "__m256d": "m256d", "__m512d": "m512d"}
SCALAR = {"char": "char", "short": "short", "int": "int", "long long": "llong", "unsigned char": "uchar",
          "unsigned short": "ushort", "unsigned int": "uint", "unsigned long long": "ullong",
          "float": "float", "double": "double", "__mmask8": "mmask8", "__mmask16": "mmask16",
          "__mmask32": "mmask32", "__mmask64": "mmask64"}
SIZEOF = {"char": 1, "short": 2, "int": 4, "long long": 8, "float": 4, "double": 8}
UNSIGNED_RET = {"unsigned int", "unsigned long long", "__mmask8", "__mmask16", "__mmask32", "__mmask64"}
VBYTES = {"m128i": 16, "m256i": 32, "m512i": 64, "m128": 16, "m256": 32, "m512": 64, "m128d": 16, "m256d": 32, "m512d": 64}

# functions that are not hardware-comparable: the nondeterministic hook
SKIP = {"_xgetbv"}
# hand-written bodies (arguments that must be literal constants)
OVERRIDE = {"_mm_prefetch": "_mm_prefetch((const char *)mem, _MM_HINT_T0); _mm_prefetch((const char *)mem, _MM_HINT_NTA);"}

# ---- immediate ranges (inclusive) -------------------------------------------------
def imm_range(name):
    if re.search(r"_(b?s[lr]li_si(128|256)|bs[lr]li_epi128|alignr_epi8)$", name): return (0, 31)   # gcc: imm*8 must fit 8 bits
    if re.search(r"_s(ll|rl|ra)i_epi(16|32|64)$", name): return (0, 71)
    if re.search(r"_(shuffle_epi32|shufflelo_epi16|shufflehi_epi16|permute4x64_epi64|permute2x128_si256|shuffle_i32x4|blend_epi16|blend_epi32)$", name): return (0, 255)
    if re.search(r"alignr_epi32$", name): return (0, 31)
    if re.search(r"alignr_epi64$", name): return (0, 15)
    if re.search(r"_cmp_ep[iu]32_mask$", name): return (0, 7)
    m = re.search(r"^_mm(256)?_(extract|insert)_epi(8|16|32|64)$", name)
    if m: return (0, (32 if m.group(1) else 16) // (int(m.group(3)) // 8) - 1)
    if re.search(r"^_mm256_(extract|insert)[if]128_si256$", name): return (0, 1)
    if re.search(r"^_mm512_(extracti32x4_epi32|extracti64x2_epi64|inserti32x4)$", name): return (0, 3)
    if re.search(r"^_mm512_(extracti64x4_epi64|extracti32x8_epi32|inserti64x4)$", name): return (0, 1)
    raise SystemExit("no immediate range for " + name)

def cases(lo, hi):
    """decompose [lo, hi] into the power-of-two Rn() case-list macros"""
    out, b, n = [], lo, hi - lo + 1
    for p in (256, 128, 64, 32, 16, 8, 4, 2, 1):
        while n >= p:
            out.append((p, b)); b += p; n -= p
    return out

# ---- memory behaviour ---------------------------------------------------------------
def mem_kind(name, params, slot_of):
    """KIND macro text for a function with a pointer parameter"""
    def bits(s): return int(s) // 8
    if name == "_mm_prefetch": return "KANYPTR"
    m = re.search(r"^_mm(256|512)?_(mask|maskz)_loadu_epi(8|16|32|64)$", name)
    if m:
        w = {None: 16, "256": 32, "512": 64}[m.group(1)]; es = bits(m.group(3))
        return "KKMLOAD(%d, %d, %d)" % (w // es, es, slot_of["k"])
    m = re.search(r"^_mm(256|512)?_mask_storeu_epi(8|16|32|64)$", name)
    if m:
        w = {None: 16, "256": 32, "512": 64}[m.group(1)]; es = bits(m.group(2))
        return "KKMSTORE(%d, %d, %d)" % (w // es, es, slot_of["k"])
    m = re.search(r"^_mm(256)?_mask(load|store)_epi(32|64)$", name)
    if m:
        w = 32 if m.group(1) else 16; es = bits(m.group(3))
        return "KVM%s(%d, %d, %d)" % (m.group(2).upper(), w // es, es, slot_of["mask"])
    m = re.search(r"^_mm512_mask_compressstoreu_epi(32|64)$", name)
    if m:
        es = bits(m.group(1)); return "KCSTORE(%d, %d, %d)" % (64 // es, es, slot_of["k"])
    m = re.search(r"^_mm(256|512)?_(mask_)?i(32|64)(gather|scatter)_epi(32|64)$", name)
    if m:
        w = {None: 16, "256": 32, "512": 64}[m.group(1)]
        isz, es = bits(m.group(3)), bits(m.group(5))
        nl = w // max(isz, es)
        if m.group(2): mk, ms = (1, slot_of["k"]) if "k" in slot_of else (2, slot_of["mask"])
        else: mk, ms = 0, 0
        return "K%s(%d, %d, %d, %d, %d, %d)" % (m.group(4).upper(), nl, es, slot_of["vindex"], isz, mk, ms)
    # plain loads / stores: number of bytes and required alignment
    plain = {"_mm_loadl_epi64": 8, "_mm_loadu_si64": 8, "_mm_loadu_si32": 4, "_mm_loadu_si16": 2,
             "_mm_storel_epi64": 8, "_mm_storeu_si64": 8, "_mm_storeu_si32": 4, "_mm_storeu_si16": 2}
    if name in plain: n = plain[name]
    else:
        m = re.search(r"^_mm(256|512)?_", name); n = {None: 16, "256": 32, "512": 64}[m.group(1)]
    aligned = re.search(r"_(load|store|stream|stream_load)_(si|ps|pd)", name) is not None
    is_store = re.search(r"_(store|storeu|storel|stream)_(si|ps|pd|epi)", name) is not None
    if not re.search(r"(load|store|stream|lddqu)", name): raise SystemExit("unclassified memory intrinsic " + name)
    return "K%s(%d, %d)" % ("STORE" if is_store else "LOAD", n, n if aligned else 1)

# ---- parse prototypes -----------------------------------------------------------------
protos = re.findall(r"static inline\s+([A-Za-z_][\w \*]*?)\s*\b(_\w+)\s*\(([^)]*)\)\s*\{", src)
seen, lines = set(), []
for ret, name, plist in protos:
    if name in seen or name in SKIP or name.startswith("__"): continue
    seen.add(name)
    ret = " ".join(ret.split())
    params = []
    if plist.strip() != "void":
        for p in plist.split(","):
            p = " ".join(p.split())
            m = re.match(r"^(.*?)(\w+)$", p)
            params.append((m.group(1).strip(), m.group(2)))

    scal = [t for t, _ in params]
    many_scalars = len(params) > 4 and len(set(scal)) == 1 and scal[0] in SIZEOF
    args, slot, slot_of, has_imm, has_ptr = [], 0, {}, False, False
    for j, (t, n) in enumerate(params):
        if many_scalars:
            args.append("EL(%s, %s, %d)" % (SCALAR[t], t, j))
        elif "*" in t:
            args.append("(%s)mem" % t); has_ptr = True
        elif t == "int" and n in ("imm", "scale"):
            args.append("(i)"); has_imm = True
        elif t in VEC:
            args.append("ld_%s(%s)" % (VEC[t], "ABCD"[slot])); slot_of[n] = slot; slot += 1
        elif t in SCALAR:
            args.append("ld_%s(%s)" % (SCALAR[t], "ABCD"[slot])); slot_of[n] = slot; slot += 1
        else:
            raise SystemExit("unknown parameter type %r in %s" % (t, name))
    if slot > 4: raise SystemExit("too many operands in " + name)

    call = "%s(%s)" % ("f" if has_imm else name, ", ".join(args))
    if name in OVERRIDE: stmt = OVERRIDE[name]
    elif ret == "void": stmt = call + ";"
    elif name in ("_mm256_castsi128_si256",):          # upper half undefined in hardware: compare the low 128 bits only
        stmt = "{ uint8_t t[32]; st_m256i(t, %s); memcpy(out, t, 16); }" % call
    elif name in ("_mm512_castsi128_si512", "_mm512_castsi256_si512"):
        keep = 16 if "128" in name else 32
        stmt = "{ uint8_t t[64]; st_m512i(t, %s); memcpy(out, t, %d); }" % (call, keep)
    elif ret in VEC: stmt = "st_%s(out, %s);" % (VEC[ret], call)
    elif ret in UNSIGNED_RET: stmt = "st_ures(out, %s);" % call
    else: stmt = "st_sres(out, %s);" % call

    kind = mem_kind(name, params, slot_of) if has_ptr else "KPURE"
    if has_imm:
        is_gs = kind.startswith("KGATHER") or kind.startswith("KSCATTER")
        lo, hi = (1, 8) if is_gs else imm_range(name)
        mname = "C_" + name
        lines.append("#define %s(f, i) case (i): %s break;" % (mname, stmt))
        if is_gs: cl = " ".join("R1(%s, %s, %d)" % (mname, name, s) for s in (1, 2, 4, 8))
        else: cl = " ".join("R%d(%s, %s, %d)" % (p, mname, name, b) for p, b in cases(lo, hi))
        lines.append("E(%s, %d, %d, %s, switch (imm) { %s default: break; })" % (name, lo, hi, kind, cl))
    else:
        lines.append("E(%s, 0, -1, %s, %s)" % (name, kind, stmt))

print("/* GENERATED by gen_entries.py from immintrin/immintrin.h -- do not edit by hand.")
print(" * %d intrinsics; see validate_intrin.c for the meaning of E(name, imm_lo, imm_hi, KIND, body). */" % len(seen))
print("\n".join(lines))
print("""
/* ---- <cpuid.h>: hand-written entries.  The model's verif_cpuid_reg hook executes the real
 *      CPUID instruction in the model TU, so these compare the control flow (max-leaf check,
 *      outputs left untouched on failure) of the model against GCC's <cpuid.h>. ---- */
#define CPUID_LEAF(i) ((unsigned)((i) == 0 ? 0u : (i) == 1 ? 1u : (i) == 2 ? 7u : (i) == 3 ? 0xDu : (i) == 4 ? 0x80000000u : (i) == 5 ? 0x80000001u : (i) == 6 ? 0x7FFFFFFFu : 0x8FFFFFFFu))
/* GCC's __cpuid / __get_cpuid leave ECX (the sub-leaf) unspecified; the model passes sub-leaf 0.
 * They are therefore compared only on leaves whose result does not depend on ECX. */
#define CPUID_LEAF_NOSUB(i) ((unsigned)((i) == 0 ? 0u : (i) == 1 ? 1u : (i) == 2 ? 0x80000000u : (i) == 3 ? 0x80000001u : (i) == 4 ? 0x80000002u : (i) == 5 ? 0x7FFFFFFFu : (i) == 6 ? 0x8FFFFFFFu : 0x80000004u))
E(__get_cpuid, 0, 7, KPURE, { unsigned r[4] = { 0xAAAAAAAAu, 0xBBBBBBBBu, 0xCCCCCCCCu, 0xDDDDDDDDu }; int ok = __get_cpuid(CPUID_LEAF_NOSUB(imm), &r[0], &r[1], &r[2], &r[3]); memcpy(out, r, 16); st_sres(out + 16, ok); })
E(__get_cpuid_count, 0, 7, KPURE, { unsigned r[4] = { 0xAAAAAAAAu, 0xBBBBBBBBu, 0xCCCCCCCCu, 0xDDDDDDDDu }; int ok = __get_cpuid_count(CPUID_LEAF(imm), (unsigned)(in[0] & 1), &r[0], &r[1], &r[2], &r[3]); memcpy(out, r, 16); st_sres(out + 16, ok); })
E(__get_cpuid_max, 0, 1, KPURE, { unsigned sig = 0x55555555u; unsigned mx = __get_cpuid_max(imm ? 0x80000000u : 0u, (in[0] & 1) ? &sig : (unsigned *)0); st_ures(out, mx); st_ures(out + 8, sig); })
E(__cpuid, 0, 7, KPURE, { unsigned a, b, c, d; __cpuid(CPUID_LEAF_NOSUB(imm & 3), a, b, c, d); st_ures(out, a); st_ures(out + 8, b); st_ures(out + 16, c); st_ures(out + 24, d); })
E(__cpuidex, 0, 3, KPURE, { int r[4] = { 1, 2, 3, 4 }; __cpuidex(r, (imm & 2) ? 7 : 0xD, imm & 1); memcpy(out, r, 16); })
E(__cpuid_count, 0, 3, KPURE, { unsigned a, b, c, d; __cpuid_count(7, imm & 1, a, b, c, d); st_ures(out, a); st_ures(out + 8, b); st_ures(out + 16, c); st_ures(out + 24, d); })""")
