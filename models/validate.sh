#!/bin/sh
# Hardware validation of the plain-C intrinsic model (immintrin/immintrin.h, cpuid.h).
#
#   ./validate.sh              validate every modelled intrinsic
#   ./validate.sh _mm_add_epi32   validate a single one
#   VERIF_SEED=123 ./validate.sh  other pseudo-random operands (default seed is fixed)
#
# Prints one line per intrinsic (OK <name> / MISMATCH <name> ...), then
# "intrinsics validated: N, mismatches: M"; exit status 0 iff M == 0 and every
# function of the model header has a validation entry.
set -eu

HERE=$(cd "$(dirname "$0")" && pwd)
MODEL_INC=${VERIF_MODEL_INC:-"$HERE/immintrin"}   # override only to test the validator itself (mutation runs)
CC=${CC:-gcc}
TMP=$(mktemp -d "${TMPDIR:-/tmp}/verif-intrin.XXXXXX")
trap 'rm -rf "$TMP"' EXIT INT TERM

# The host must implement everything the real TU uses.
for f in sse4_2 avx2 bmi1 bmi2 abm avx512f avx512bw avx512vl avx512cd avx512dq avx512vbmi; do
    grep -qw "$f" /proc/cpuinfo || { echo "validate.sh: host CPU lacks $f" >&2; exit 2; }
done

# 1. The entry list must be in sync with the model header (regenerate with gen_entries.py).
VERIF_MODEL_INC="$MODEL_INC" python3 "$HERE/gen_entries.py" > "$TMP/entries.inc"
if ! cmp -s "$TMP/entries.inc" "$HERE/validate_entries.inc"; then
    echo "validate.sh: validate_entries.inc is stale; run: python3 gen_entries.py > validate_entries.inc" >&2
    exit 2
fi

# 1b. Every intrinsic that carquet uses must have an entry (skipped when the sources are absent).
CARQUET_SRC=${CARQUET_SRC:-/repo/src}
if [ -d "$CARQUET_SRC" ]; then
    used=$(grep -rhoE '\b(_mm(256|512)?_[a-zA-Z0-9_]+|_(pext|pdep|lzcnt|tzcnt|bzhi|blsr|blsi|andn|bextr)_u(32|64)|__get_cpuid(_count|_max)?|__cpuid(_count)?|_xgetbv)\b' \
               --include='*.c' --include='*.h' --exclude-dir=arm "$CARQUET_SRC" | sort -u)
    n_used=0; n_missing=0
    for n in $used; do
        n_used=$((n_used + 1))
        grep -q "^E($n," "$HERE/validate_entries.inc" || { echo "NOT MODELLED (used by carquet): $n"; n_missing=$((n_missing + 1)); }
    done
    echo "carquet intrinsics: $n_used used, $n_missing without a validated model"
    [ "$n_missing" -eq 0 ] || exit 2
fi

# 2. The model TU must not see any system intrinsic header.
deps=$($CC -M -DVI_MODEL -I"$MODEL_INC" "$HERE/validate_intrin.c")
if echo "$deps" | tr ' ' '\n' | grep -E '(intrin|cpuid)\.h' | grep -v "^$MODEL_INC/" | grep -q .; then
    echo "validate.sh: the model TU includes a system intrinsic header:" >&2
    echo "$deps" | tr ' ' '\n' | grep -E '(intrin|cpuid)\.h' | grep -v "^$MODEL_INC/" >&2
    exit 2
fi

# 3. Build: real wrappers (hardware), model wrappers (plain C, no -m flags, -O0 so that
#    every load/store the model performs is really executed), driver.
WARN="-Wall -Wextra -Werror=incompatible-pointer-types -Werror=implicit-function-declaration"
$CC -std=gnu11 -O1 -march=native $WARN -DVI_REAL -c "$HERE/validate_intrin.c" -o "$TMP/real.o" & p1=$!
$CC -std=gnu11 -O0 $WARN -DVI_MODEL -I"$MODEL_INC" -c "$HERE/validate_intrin.c" -o "$TMP/model.o" & p2=$!
$CC -std=gnu11 -O1 $WARN -DVI_DRIVER -c "$HERE/validate_intrin.c" -o "$TMP/driver.o" & p3=$!
wait $p1; wait $p2; wait $p3
$CC "$TMP/real.o" "$TMP/model.o" "$TMP/driver.o" -o "$TMP/validate"

# 4. Run.
"$TMP/validate" "$@"
