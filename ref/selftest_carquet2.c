/* selftest_carquet2.c - carquet sanity cross-check, part 2: PLAIN, RLE hybrid,
 * DELTA_LENGTH_BYTE_ARRAY, DELTA_BYTE_ARRAY.  NOTEs only, see part 1. */
#include "selftest_common.h"

#ifdef HAVE_CARQUET

#include <carquet/error.h>
#include <carquet/types.h>
#include "core/buffer.h"
#include "encoding/rle.h"
#include "encoding/plain.h"

extern carquet_status_t carquet_delta_length_encode(const carquet_byte_array_t*, int32_t, carquet_buffer_t*);
extern carquet_status_t carquet_delta_length_decode(const uint8_t*, size_t, carquet_byte_array_t*, int32_t, size_t*);
extern carquet_status_t carquet_delta_strings_encode(const carquet_byte_array_t*, int32_t, carquet_buffer_t*);
extern carquet_status_t carquet_delta_strings_decode(const uint8_t*, size_t, carquet_byte_array_t*, int32_t,
                                                     uint8_t*, size_t, size_t*);

#define MAXN 300

static uint32_t mask32(int bw)
{
    return bw >= 32 ? 0xFFFFFFFFu : ((1u << bw) - 1u);
}

static void cq_plain(void)
{
    static uint8_t raw[MAXN * 16];
    static uint8_t a[MAXN * 20 + 64];
    static uint8_t out[MAXN * 16];
    static ref_span_t sp[MAXN];
    static carquet_byte_array_t ba[MAXN];
    static carquet_byte_array_t bo[MAXN];
    int c;
    for (c = 0; c < 3000; c++) {
        size_t n = 1 + st_below(MAXN);
        size_t la = 0;
        size_t i;
        int which = c % 6;
        carquet_buffer_t buf;
        carquet_status_t st = CARQUET_OK;
        int64_t got = 0;
        const char* name = "";
        st_fill(raw, n * 16);
        carquet_buffer_init(&buf);
        switch (which) {
        case 0:
            name = "BOOLEAN";
            for (i = 0; i < n; i++) raw[i] &= 1;
            CHECK(ref_plain_encode_bool(raw, n, a, sizeof a, &la) == 0, "enc");
            st = carquet_encode_plain_boolean(raw, (int64_t)n, &buf);
            got = carquet_decode_plain_boolean(a, la, out, (int64_t)n);
            if (got != (int64_t)la || memcmp(out, raw, n) != 0) st_note("plain BOOLEAN: ref-encode -> carquet-decode != input", "n=%zu got=%lld", n, (long long)got);
            break;
        case 1:
            name = "INT32";
            CHECK(ref_plain_encode_u32((const uint32_t*)(const void*)raw, n, a, sizeof a, &la) == 0, "enc");
            st = carquet_encode_plain_int32((const int32_t*)(const void*)raw, (int64_t)n, &buf);
            got = carquet_decode_plain_int32(a, la, (int32_t*)(void*)out, (int64_t)n);
            if (got != (int64_t)la || memcmp(out, raw, n * 4) != 0) st_note("plain INT32: ref-encode -> carquet-decode != input", "n=%zu got=%lld", n, (long long)got);
            break;
        case 2:
            name = "INT64";
            CHECK(ref_plain_encode_u64((const uint64_t*)(const void*)raw, n, a, sizeof a, &la) == 0, "enc");
            st = carquet_encode_plain_int64((const int64_t*)(const void*)raw, (int64_t)n, &buf);
            got = carquet_decode_plain_int64(a, la, (int64_t*)(void*)out, (int64_t)n);
            if (got != (int64_t)la || memcmp(out, raw, n * 8) != 0) st_note("plain INT64: ref-encode -> carquet-decode != input", "n=%zu got=%lld", n, (long long)got);
            break;
        case 3:
            name = "INT96";
            CHECK(ref_plain_encode_int96((const uint32_t*)(const void*)raw, n, a, sizeof a, &la) == 0, "enc");
            st = carquet_encode_plain_int96((const carquet_int96_t*)(const void*)raw, (int64_t)n, &buf);
            got = carquet_decode_plain_int96(a, la, (carquet_int96_t*)(void*)out, (int64_t)n);
            if (got != (int64_t)la || memcmp(out, raw, n * 12) != 0) st_note("plain INT96: ref-encode -> carquet-decode != input", "n=%zu got=%lld", n, (long long)got);
            break;
        case 4: {
            int32_t w = 1 + (int32_t)st_below(16);
            name = "FIXED_LEN_BYTE_ARRAY";
            CHECK(ref_plain_encode_flba(raw, n, (size_t)w, a, sizeof a, &la) == 0, "enc");
            st = carquet_encode_plain_fixed_byte_array(raw, (int64_t)n, w, &buf);
            got = carquet_decode_plain_fixed_byte_array(a, la, out, (int64_t)n, w);
            if (got != (int64_t)la || memcmp(out, raw, n * (size_t)w) != 0) st_note("plain FLBA: ref-encode -> carquet-decode != input", "n=%zu w=%d got=%lld", n, (int)w, (long long)got);
            break;
        }
        default: {
            int same = 1;
            name = "BYTE_ARRAY";
            for (i = 0; i < n; i++) {
                sp[i].len = st_below(4) == 0 ? 0 : st_below(16);
                sp[i].off = st_below((uint32_t)(n * 16 - sp[i].len + 1));
                ba[i].data = raw + sp[i].off;
                ba[i].length = (int32_t)sp[i].len;
            }
            CHECK(ref_plain_encode_byte_array(raw, n * 16, sp, n, a, sizeof a, &la) == 0, "enc");
            st = carquet_encode_plain_byte_array(ba, (int64_t)n, &buf);
            got = carquet_decode_plain_byte_array(a, la, bo, (int64_t)n);
            for (i = 0; i < n && got > 0; i++) {
                if (bo[i].length != ba[i].length || memcmp(bo[i].data, ba[i].data, (size_t)ba[i].length) != 0) same = 0;
            }
            if (got != (int64_t)la || !same) st_note("plain BYTE_ARRAY: ref-encode -> carquet-decode != input", "n=%zu got=%lld", n, (long long)got);
            break;
        }
        }
        if (st != CARQUET_OK || buf.size != la || memcmp(buf.data, a, la) != 0) {
            char topic[120];
            snprintf(topic, sizeof topic, "plain %s: carquet encode != reference bytes", name);
            st_note(topic, "n=%zu status=%d len=%zu want=%zu", n, (int)st, buf.size, la);
        }
        carquet_buffer_destroy(&buf);
    }
}

static size_t gen_runs(uint32_t* v, size_t maxn, int bw, int aligned)
{
    size_t n = 1 + st_below((uint32_t)maxn);
    size_t i = 0;
    while (i < n) {
        uint32_t kind = st_below(3);
        size_t len = aligned ? 8 * (1 + st_below(4)) : 1 + st_below(kind == 0 ? 40 : 12);
        uint32_t val = (uint32_t)st_rnd() & mask32(bw);
        size_t j;
        if (len > n - i) len = n - i;
        for (j = 0; j < len; j++) v[i + j] = (kind == 2) ? ((uint32_t)st_rnd() & mask32(bw)) : val;
        i += len;
    }
    return n;
}

/* Does a maximal run of >= 8 equal values start while a bit-packed group is
 * only partly filled?  Groups restart after every such run, so positions are
 * counted from the end of the previous long run.  (This is the situation in
 * which carquet's encoder pads the pending group with zeros in mid-stream.) */
static int has_unaligned_long_run(const uint32_t* v, size_t n)
{
    size_t i = 0;
    size_t base = 0;
    while (i < n) {
        size_t r = 1;
        while (i + r < n && v[i + r] == v[i]) r++;
        if (r >= 8) {
            if (((i - base) % 8) != 0) return 1;
            base = i + r;
        }
        i += r;
    }
    return 0;
}

static void cq_rle(void)
{
    static uint32_t v[MAXN];
    static uint32_t o[MAXN + 64];
    static int16_t lv[MAXN];
    static uint16_t ulv[MAXN];
    static uint8_t enc[MAXN * 5 + 64];
    static uint8_t layout[64];
    char topic[200];
    int c;
    for (c = 0; c < 6000; c++) {
        int bw = 1 + (int)st_below(c % 3 == 0 ? 32 : 8);
        int aligned = (c % 4 == 0);
        size_t n = gen_runs(v, MAXN, bw, aligned);
        size_t len = 0;
        size_t used = 0;
        size_t i;
        int rc;
        int64_t got;
        carquet_buffer_t buf;
        carquet_status_t st;

        /* carquet encode -> reference decode */
        carquet_buffer_init(&buf);
        st = carquet_rle_encode_all(v, (int64_t)n, bw, &buf);
        if (st != CARQUET_OK) {
            st_note("rle: carquet_rle_encode_all fails", "n=%zu bw=%d status=%d", n, bw, (int)st);
        } else {
            rc = ref_rle_hybrid_decode(buf.data, buf.size, bw, o, n, &used);
            if (rc != 0 || memcmp(o, v, n * 4) != 0) {
                snprintf(topic, sizeof topic, "rle: carquet-encode -> ref-decode != input (%s)",
                         has_unaligned_long_run(v, n) ? "input has a run >= 8 starting inside a bit-packed group"
                                                      : "runs >= 8 only at multiples of 8");
                st_note(topic, "n=%zu bw=%d ref rc=%d", n, bw, rc);
            } else if (used != buf.size) {
                st_note("rle: carquet encoder emits trailing bytes beyond the n values", "n=%zu bw=%d size=%zu used=%zu", n, bw, buf.size, used);
            }
        }
        carquet_buffer_destroy(&buf);

        /* reference encode (greedy and random layouts) -> carquet decode */
        rc = ref_rle_hybrid_encode_simple(v, n, bw, enc, sizeof enc, &len);
        CHECK(rc == 0, "ref rle enc");
        memset(o, 0xA5, sizeof o);
        got = carquet_rle_decode_all(enc, len, bw, o, (int64_t)n);
        if (got != (int64_t)n || memcmp(o, v, n * 4) != 0) {
            st_note("rle: ref-encode(simple) -> carquet-decode != input", "n=%zu bw=%d got=%lld", n, bw, (long long)got);
        }
        {
            /* one RLE directive for each maximal run >= 3, rest bit-packed in
             * multiples of 8: exercises short RLE runs and multi-group runs */
            size_t cur = 0;
            size_t l = 0;
            while (cur < n && l + 2 < sizeof layout) {
                size_t r = 1;
                while (cur + r < n && v[cur + r] == v[cur] && r < 127) r++;
                if (r >= 3 && st_below(3) != 0) {
                    layout[l++] = (uint8_t)(0x80 | r);
                    cur += r;
                } else if (n - cur >= 8) {
                    size_t k = 8 * (1 + st_below(3));
                    if (k > n - cur) k = 8;
                    layout[l++] = (uint8_t)k;
                    cur += k;
                } else {
                    break;
                }
            }
            rc = ref_rle_hybrid_encode_layout(v, n, bw, layout, l, enc, sizeof enc, &len);
            CHECK(rc == 0, "ref rle layout enc rc %d", rc);
            memset(o, 0xA5, sizeof o);
            got = carquet_rle_decode_all(enc, len, bw, o, (int64_t)n);
            if (got != (int64_t)n || memcmp(o, v, n * 4) != 0) {
                st_note("rle: ref-encode(layout) -> carquet-decode != input", "n=%zu bw=%d got=%lld", n, bw, (long long)got);
            }
        }

        /* length-prefixed levels */
        if (bw <= 8) {
            size_t cons = 0;
            for (i = 0; i < n; i++) ulv[i] = (uint16_t)v[i];
            rc = ref_levels_v1_encode_simple(ulv, n, bw, enc, sizeof enc, &len);
            CHECK(rc == 0, "ref levels enc");
            memset(lv, 0x5A, sizeof lv);
            got = carquet_rle_decode_levels_prefixed(enc, len, bw, lv, (int64_t)n, &cons);
            rc = (got == (int64_t)n);
            for (i = 0; rc && i < n; i++) if ((uint16_t)lv[i] != ulv[i]) rc = 0;
            if (!rc) {
                st_note("levels v1: ref-encode -> carquet_rle_decode_levels_prefixed != input", "n=%zu bw=%d got=%lld", n, bw, (long long)got);
            } else if (cons != len) {
                st_note("levels v1: carquet bytes_consumed != 4 + length", "len=%zu consumed=%zu", len, cons);
            }
        }
    }
}

static void cq_delta_ba(void)
{
    enum { N = 120 };
    static uint8_t data[N * 40];
    static uint8_t enc[N * 40 + 4096];
    static uint8_t arena[N * 40];
    static uint8_t work[N * 40 + 64];
    static ref_span_t sp[N];
    static ref_span_t so[N];
    static int32_t scratch[2 * N];
    static carquet_byte_array_t ba[N];
    static carquet_byte_array_t bo[N];
    int c;
    for (c = 0; c < 3000; c++) {
        size_t n = 1 + st_below(c % 8 == 0 ? N : 30);
        size_t pos = 0;
        size_t i;
        size_t len = 0;
        size_t cnt = 0;
        size_t au = 0;
        size_t used = 0;
        size_t cons = 0;
        int rc;
        int same;
        carquet_buffer_t buf;
        carquet_status_t st;
        for (i = 0; i < n; i++) {
            size_t keep = 0;
            size_t fresh = st_below(4) == 0 ? 0 : st_below(12);
            size_t j;
            if (i > 0 && st_below(3) != 0) keep = st_below(sp[i - 1].len + 1);
            if (keep + fresh > 38) fresh = 38 - keep > 38 ? 0 : 38 - keep;
            for (j = 0; j < keep; j++) data[pos + j] = data[sp[i - 1].off + j];
            for (j = 0; j < fresh; j++) data[pos + keep + j] = (uint8_t)('a' + st_below(3));
            sp[i].off = (uint32_t)pos;
            sp[i].len = (uint32_t)(keep + fresh);
            ba[i].data = data + pos;
            ba[i].length = (int32_t)sp[i].len;
            pos += keep + fresh;
        }

        /* DELTA_LENGTH_BYTE_ARRAY */
        carquet_buffer_init(&buf);
        st = carquet_delta_length_encode(ba, (int32_t)n, &buf);
        if (st != CARQUET_OK) {
            st_note("delta_length: carquet encoder fails", "n=%zu status=%d", n, (int)st);
        } else {
            rc = ref_delta_length_decode(buf.data, buf.size, scratch, 2 * N, arena, sizeof arena, so, N, &cnt, &au, &used);
            same = rc == 0 && cnt == n;
            for (i = 0; same && i < n; i++) {
                if (so[i].len != sp[i].len || memcmp(arena + so[i].off, data + sp[i].off, sp[i].len) != 0) same = 0;
            }
            if (!same) st_note("delta_length: carquet-encode -> ref-decode != input", "n=%zu ref rc=%d", n, rc);
            else if (used != buf.size) st_note("delta_length: carquet encoder emits bytes the spec decoder does not consume", "size=%zu used=%zu", buf.size, used);
        }
        carquet_buffer_destroy(&buf);
        rc = ref_delta_length_encode(data, pos, sp, n, 128, 4, scratch, 2 * N, enc, sizeof enc, &len);
        CHECK(rc == 0, "ref dlba enc");
        st = carquet_delta_length_decode(enc, len, bo, (int32_t)n, &cons);
        same = st == CARQUET_OK;
        for (i = 0; same && i < n; i++) {
            if (bo[i].length != ba[i].length || memcmp(bo[i].data, ba[i].data, (size_t)ba[i].length) != 0) same = 0;
        }
        if (!same) st_note("delta_length: ref-encode -> carquet-decode != input", "n=%zu status=%d", n, (int)st);
        else if (cons != len) st_note("delta_length: carquet decoder bytes_consumed != stream length", "len=%zu consumed=%zu", len, cons);

        /* DELTA_BYTE_ARRAY */
        carquet_buffer_init(&buf);
        st = carquet_delta_strings_encode(ba, (int32_t)n, &buf);
        if (st != CARQUET_OK) {
            st_note("delta_byte_array: carquet encoder fails", "n=%zu status=%d", n, (int)st);
        } else {
            rc = ref_delta_byte_array_decode(buf.data, buf.size, scratch, 2 * N, arena, sizeof arena, so, N, &cnt, &au, &used);
            same = rc == 0 && cnt == n;
            for (i = 0; same && i < n; i++) {
                if (so[i].len != sp[i].len || memcmp(arena + so[i].off, data + sp[i].off, sp[i].len) != 0) same = 0;
            }
            if (!same) st_note("delta_byte_array: carquet-encode -> ref-decode != input", "n=%zu ref rc=%d", n, rc);
            else if (used != buf.size) st_note("delta_byte_array: carquet encoder emits bytes the spec decoder does not consume", "size=%zu used=%zu", buf.size, used);
        }
        carquet_buffer_destroy(&buf);
        rc = ref_delta_byte_array_encode(data, pos, sp, n, NULL, 128, 4, scratch, 2 * N, enc, sizeof enc, &len);
        CHECK(rc == 0, "ref dba enc");
        st = carquet_delta_strings_decode(enc, len, bo, (int32_t)n, work, sizeof work, &cons);
        same = st == CARQUET_OK;
        for (i = 0; same && i < n; i++) {
            if (bo[i].length != ba[i].length || (ba[i].length > 0 && memcmp(bo[i].data, ba[i].data, (size_t)ba[i].length) != 0)) same = 0;
        }
        if (!same) st_note("delta_byte_array: ref-encode -> carquet-decode != input", "n=%zu status=%d", n, (int)st);
        else if (cons != len) st_note("delta_byte_array: carquet decoder bytes_consumed != stream length", "len=%zu consumed=%zu", len, cons);
    }
}

void st_carquet_encodings(void)
{
    cq_plain();
    cq_rle();
    cq_delta_ba();
}

#else

void st_carquet_encodings(void)
{
}

#endif
