/*
 * ref_parquet_read.c - reference Parquet file reader / validator
 * (see ref_parquet_read.h).  Written from the parquet-format documents.
 */
#include "ref_parquet_read.h"
#include <string.h>

/* ================================================================== */
/* small helpers                                                       */
/* ================================================================== */

static uint32_t ref_pq_le32(const uint8_t* p)
{
    return (uint32_t)p[0] | ((uint32_t)p[1] << 8) | ((uint32_t)p[2] << 16) | ((uint32_t)p[3] << 24);
}

static uint64_t ref_pq_le64(const uint8_t* p)
{
    return (uint64_t)ref_pq_le32(p) | ((uint64_t)ref_pq_le32(p + 4) << 32);
}

static int ref_pq_is_magic(const uint8_t* p)
{
    return p[0] == 'P' && p[1] == 'A' && p[2] == 'R' && p[3] == '1';
}

int ref_pq_level_bit_width(int max_level)
{
    int bw = 0;
    int v = max_level;
    int i;
    for (i = 0; i < 16; i++) {
        if (v <= 0) break;
        bw += 1;
        v >>= 1;
    }
    return bw;
}

void ref_pq_open_opts_default(ref_pq_open_opts* o)
{
    o->require_tiling = 0;
    o->crc_hard = 1;
    o->usize_hard = 0;
    o->no_decompress = 0;
    o->lz4_tag_as_raw = 0;
}

/* ================================================================== */
/* schema                                                              */
/* ================================================================== */

int ref_pq_analyze_schema(const ref_schema_element* schema, int32_t n_schema,
                          int16_t* parent, int16_t* leaf_of_schema,
                          int16_t* schema_of_leaf, uint8_t* leaf_max_def,
                          uint8_t* leaf_max_rep, int32_t* n_leaves)
{
    int32_t remaining[REF_MAX_SCHEMA_DEPTH + 1];   /* children still expected, per open group */
    int16_t open_idx[REF_MAX_SCHEMA_DEPTH + 1];    /* schema index of each open group         */
    uint8_t open_def[REF_MAX_SCHEMA_DEPTH + 1];    /* levels accumulated down to that group   */
    uint8_t open_rep[REF_MAX_SCHEMA_DEPTH + 1];
    int sp;
    int32_t i, nl = 0;
    int k;

    *n_leaves = 0;
    if (n_schema <= 0) return REF_ERR_PQ_SCHEMA_EMPTY;
    if (n_schema > REF_MAX_SCHEMA) return REF_ERR_META_CAPACITY;

    /* R07 root */
    if ((schema[0].present & REF_BIT(REF_SE_TYPE)) != 0) return REF_ERR_PQ_SCHEMA_ROOT;
    if ((schema[0].present & REF_BIT(REF_SE_NUM_CHILDREN)) == 0) return REF_ERR_PQ_SCHEMA_ROOT;
    if (schema[0].num_children < 0) return REF_ERR_PQ_SCHEMA_ROOT;
    parent[0] = -1;
    leaf_of_schema[0] = -1;
    remaining[0] = schema[0].num_children;
    open_idx[0] = 0;
    open_def[0] = 0;
    open_rep[0] = 0;
    sp = 1;

    for (i = 1; i < n_schema; i++) {
        const ref_schema_element* e = &schema[i];
        int has_type = (e->present & REF_BIT(REF_SE_TYPE)) != 0;
        int has_nc = (e->present & REF_BIT(REF_SE_NUM_CHILDREN)) != 0;
        uint8_t d, rp;

        /* close the groups that have received all their children */
        for (k = 0; k <= REF_MAX_SCHEMA_DEPTH; k++) {
            if (sp == 0) break;
            if (remaining[sp - 1] != 0) break;
            sp -= 1;
        }
        if (sp == 0) return REF_ERR_PQ_SCHEMA_TREE;     /* element outside the tree */
        parent[i] = open_idx[sp - 1];
        remaining[sp - 1] -= 1;
        leaf_of_schema[i] = -1;

        /* R10 repetition */
        if ((e->present & REF_BIT(REF_SE_REPETITION_TYPE)) == 0) return REF_ERR_PQ_SCHEMA_REPETITION;
        if (e->repetition_type < 0 || e->repetition_type > 2) return REF_ERR_PQ_SCHEMA_REPETITION;
        d = open_def[sp - 1];
        rp = open_rep[sp - 1];
        if (e->repetition_type != REF_REP_REQUIRED) d = (uint8_t)(d + 1);
        if (e->repetition_type == REF_REP_REPEATED) rp = (uint8_t)(rp + 1);

        if (has_type) {
            /* leaf: R09 no children, R11 type */
            if (has_nc && e->num_children != 0) return REF_ERR_PQ_SCHEMA_NODE;
            if (e->type < 0 || e->type > 7) return REF_ERR_PQ_SCHEMA_TYPE;
            if (e->type == REF_TYPE_FIXED_LEN_BYTE_ARRAY) {
                if ((e->present & REF_BIT(REF_SE_TYPE_LENGTH)) == 0) return REF_ERR_PQ_SCHEMA_TYPE;
                if (e->type_length <= 0) return REF_ERR_PQ_SCHEMA_TYPE;
            }
            if (nl >= REF_MAX_COLUMNS) return REF_ERR_PQ_TOO_MANY_LEAVES;
            leaf_of_schema[i] = (int16_t)nl;
            schema_of_leaf[nl] = (int16_t)i;
            leaf_max_def[nl] = d;
            leaf_max_rep[nl] = rp;
            nl += 1;
        } else {
            /* group: R09 at least one child */
            if (!has_nc || e->num_children < 1) return REF_ERR_PQ_SCHEMA_NODE;
            if (sp > REF_MAX_SCHEMA_DEPTH) return REF_ERR_PQ_SCHEMA_DEPTH;
            remaining[sp] = e->num_children;
            open_idx[sp] = (int16_t)i;
            open_def[sp] = d;
            open_rep[sp] = rp;
            sp += 1;
        }
    }
    /* every group must be complete */
    for (k = 0; k <= REF_MAX_SCHEMA_DEPTH; k++) {
        if (sp == 0) break;
        if (remaining[sp - 1] != 0) break;
        sp -= 1;
    }
    if (sp != 0) return REF_ERR_PQ_SCHEMA_TREE;
    *n_leaves = nl;
    return REF_OK;
}

int ref_pq_leaf_schema_index(const ref_pq_file* f, int leaf)
{
    if (leaf < 0 || leaf >= f->n_leaves) return -1;
    return f->schema_of_leaf[leaf];
}

int ref_pq_schema_leaf_index(const ref_pq_file* f, int schema_idx)
{
    if (schema_idx < 0 || schema_idx >= f->meta.n_schema) return -1;
    return f->leaf_of_schema[schema_idx];
}

int ref_pq_leaf_levels(const ref_pq_file* f, int leaf, int* max_def, int* max_rep)
{
    int idx, k, d = 0, r = 0;
    if (leaf < 0 || leaf >= f->n_leaves) return REF_ERR_PQ_ARG;
    idx = f->schema_of_leaf[leaf];
    /* walk up to (not including) the root */
    for (k = 0; k <= REF_MAX_SCHEMA_DEPTH + 1; k++) {
        int rep_t;
        if (idx <= 0) break;
        rep_t = f->meta.schema[idx].repetition_type;
        if (rep_t == REF_REP_OPTIONAL || rep_t == REF_REP_REPEATED) d += 1;
        if (rep_t == REF_REP_REPEATED) r += 1;
        idx = f->parent[idx];
    }
    *max_def = d;
    *max_rep = r;
    return REF_OK;
}

/* R15: path_in_schema of a chunk == names on the path root(excluded)..leaf */
static int ref_pq_check_path(const ref_pq_file* f, int leaf, const ref_column_meta* cm)
{
    int16_t chain[REF_MAX_SCHEMA_DEPTH + 2];
    int n = 0, k, idx;
    ref_cmp_ctx c;
    c.abuf = f->data; c.alen = f->len;
    c.bbuf = f->data; c.blen = f->len;
    idx = f->schema_of_leaf[leaf];
    for (k = 0; k <= REF_MAX_SCHEMA_DEPTH + 1; k++) {
        if (idx <= 0) break;
        chain[n] = (int16_t)idx;
        n += 1;
        idx = f->parent[idx];
    }
    if (cm->n_path != n) return REF_ERR_PQ_CHUNK_PATH;
    for (k = 0; k < n; k++) {
        const ref_schema_element* e = &f->meta.schema[chain[n - 1 - k]];
        if (!ref_span_equal(&c, e->name, cm->path[k])) return REF_ERR_PQ_CHUNK_PATH;
    }
    return REF_OK;
}

/* ================================================================== */
/* decompression                                                       */
/* ================================================================== */

/* the codec actually applied to the bytes */
static int32_t ref_pq_effective_codec(const ref_pq_file* f, int32_t codec)
{
    if (codec == REF_CODEC_LZ4 && f->lz4_tag_as_raw) return REF_CODEC_LZ4_RAW;
    return codec;
}

static int ref_pq_codec_check(int32_t codec)
{
    if (codec < 0 || codec > 7) return REF_ERR_PQ_CODEC_INVALID;
    if (codec == REF_CODEC_UNCOMPRESSED || codec == REF_CODEC_SNAPPY || codec == REF_CODEC_LZ4_RAW)
        return REF_OK;
    return REF_ERR_PQ_CODEC_UNSUPPORTED;
}

/* Decompress in[0..in_len) which must yield exactly `expect` bytes.
 * out has room for `expect` bytes. */
static int ref_pq_decompress(int32_t codec, const uint8_t* in, size_t in_len,
                             uint8_t* out, size_t expect)
{
    size_t n = 0;
    int rc;
    if (in_len == 0 && expect == 0) return REF_OK;      /* nothing stored for nothing */
    if (codec == REF_CODEC_SNAPPY) {
        rc = ref_snappy_decode(in, in_len, out, expect, &n);
    } else if (codec == REF_CODEC_LZ4_RAW) {
        rc = ref_lz4_block_decode(in, in_len, out, expect, &n, 0);
    } else {
        return REF_ERR_PQ_CODEC_UNSUPPORTED;
    }
    if (rc == REF_ERR_CAPACITY) return REF_ERR_PQ_PAGE_USIZE;   /* would produce more than declared */
    if (rc < 0) return REF_ERR_PQ_DECOMPRESS;
    if (n != expect) return REF_ERR_PQ_PAGE_USIZE;
    return REF_OK;
}

/* Produce the uncompressed body of page p of a chunk with the given codec.
 * *body points either into the file (stored uncompressed) or into scratch
 * (REF_MAX_PAGE_BYTES bytes).  For v2 pages the level bytes are copied in
 * front of the decompressed values, so that *body is always the logical
 * uncompressed page of uncomp_size bytes. */
static int ref_pq_page_body(const ref_pq_file* f, const ref_pq_page* p, int32_t codec,
                            uint8_t* scratch, const uint8_t** body)
{
    const uint8_t* stored = f->data + p->body_off;
    if (p->type == REF_PAGE_DATA_V2) {
        uint32_t lv = (uint32_t)p->v2_def_len + (uint32_t)p->v2_rep_len;
        if (codec == REF_CODEC_UNCOMPRESSED || !p->v2_is_compressed) {
            if (p->comp_size != p->uncomp_size) return REF_ERR_PQ_PAGE_USIZE;
            *body = stored;
            return REF_OK;
        }
        if (p->uncomp_size > REF_MAX_PAGE_BYTES) return REF_ERR_PQ_CAPACITY;
        if (lv != 0) memcpy(scratch, stored, lv);
        REF_TRY(ref_pq_decompress(codec, stored + lv, (size_t)(p->comp_size - lv),
                                  scratch + lv, (size_t)(p->uncomp_size - lv)));
        *body = scratch;
        return REF_OK;
    }
    if (codec == REF_CODEC_UNCOMPRESSED) {
        if (p->comp_size != p->uncomp_size) return REF_ERR_PQ_PAGE_USIZE;
        *body = stored;
        return REF_OK;
    }
    if (p->uncomp_size > REF_MAX_PAGE_BYTES) return REF_ERR_PQ_CAPACITY;
    REF_TRY(ref_pq_decompress(codec, stored, (size_t)p->comp_size, scratch, (size_t)p->uncomp_size));
    *body = scratch;
    return REF_OK;
}

/* ================================================================== */
/* walking one column chunk                                            */
/* ================================================================== */

static int ref_pq_enc_listed(const ref_column_meta* cm, int32_t enc)
{
    int32_t i;
    for (i = 0; i < cm->n_encodings && i < REF_MAX_ENCODINGS; i++) {
        if (cm->encodings[i] == enc) return 1;
    }
    return 0;
}

static int ref_pq_walk_chunk(ref_pq_file* f, const ref_pq_open_opts* o, int rg, int col)
{
    const ref_row_group* g = &f->meta.row_groups[rg];
    const ref_column_chunk* cc = &g->columns[col];
    const ref_column_meta* cm = &cc->meta;
    ref_pq_chunk* ck = &f->chunk[rg][col];
    uint8_t scratch[REF_MAX_PAGE_BYTES];
    int has_dict_off;
    int64_t start64, end64;
    uint32_t pos;
    int64_t sum_values = 0;
    int64_t sum_usize_hdr = 0, sum_usize = 0;
    int first_data_seen = 0;
    int levels_used = (f->leaf_max_def[col] != 0) || (f->leaf_max_rep[col] != 0);
    int k;

    f->err_column = col;
    f->err_page = -1;
    memset(ck, 0, sizeof(*ck));
    ck->crc_all_ok = 1;
    ck->encodings_listed = 1;

    if (cc->present & REF_BIT(REF_CC_FILE_PATH)) return REF_ERR_PQ_EXTERNAL_FILE;
    if ((cc->present & REF_BIT(REF_CC_META_DATA)) == 0) return REF_ERR_PQ_CHUNK_NO_META;
    if (cm->type != f->meta.schema[f->schema_of_leaf[col]].type) return REF_ERR_PQ_CHUNK_TYPE;
    REF_TRY(ref_pq_check_path(f, col, cm));
    REF_TRY(ref_pq_codec_check(ref_pq_effective_codec(f, cm->codec)));
    if (cm->num_values < 0) return REF_ERR_PQ_NEGATIVE_COUNT;

    /* R16 / R17: byte range */
    if (cm->total_compressed_size < 0 || cm->total_uncompressed_size < 0) return REF_ERR_PQ_CHUNK_RANGE;
    if (cm->data_page_offset < 4) return REF_ERR_PQ_CHUNK_RANGE;
    has_dict_off = (cm->present & REF_BIT(REF_CM_DICTIONARY_PAGE_OFFSET)) != 0 &&
                   cm->dictionary_page_offset != 0;   /* 0 = "no dictionary" of some legacy writers */
    start64 = cm->data_page_offset;
    if (has_dict_off) {
        if (cm->dictionary_page_offset < 4) return REF_ERR_PQ_CHUNK_RANGE;
        if (cm->dictionary_page_offset >= cm->data_page_offset) return REF_ERR_PQ_CHUNK_OFFSETS;
        start64 = cm->dictionary_page_offset;
    }
    if (start64 > (int64_t)f->footer_start) return REF_ERR_PQ_CHUNK_RANGE;
    if (cm->total_compressed_size > (int64_t)f->footer_start - start64) return REF_ERR_PQ_CHUNK_RANGE;
    end64 = start64 + cm->total_compressed_size;
    if (cm->data_page_offset > end64) return REF_ERR_PQ_CHUNK_OFFSETS;
    if (cm->data_page_offset == end64 && cm->total_compressed_size != 0) return REF_ERR_PQ_CHUNK_OFFSETS;
    ck->start = (uint32_t)start64;
    ck->end = (uint32_t)end64;

    /* walk the pages */
    pos = ck->start;
    for (k = 0; k <= REF_MAX_PAGES; k++) {
        ref_tc_reader r;
        ref_page_header ph;
        ref_pq_page* p;
        int rc;
        if (pos == ck->end) break;
        if (k == REF_MAX_PAGES) return REF_ERR_PQ_CAPACITY;
        f->err_page = k;
        p = &ck->pages[k];
        /* the header must lie inside the chunk */
        ref_tc_reader_init(&r, f->data, (size_t)ck->end, (size_t)pos);
        rc = ref_parse_page_header(&r, &ph);
        if (rc == REF_ERR_TC_EOF) return REF_ERR_PQ_PAGE_OVERRUN;
        if (rc < 0) return rc;
        if (ph.uncompressed_page_size < 0 || ph.compressed_page_size < 0) return REF_ERR_PQ_PAGE_SIZES;
        p->hdr_off = pos;
        p->hdr_len = (uint32_t)(r.pos - (size_t)pos);
        p->body_off = (uint32_t)r.pos;
        p->comp_size = (uint32_t)ph.compressed_page_size;
        p->uncomp_size = (uint32_t)ph.uncompressed_page_size;
        p->hdr_unknown = ph.n_unknown;
        if ((uint64_t)p->comp_size > (uint64_t)(ck->end - p->body_off)) return REF_ERR_PQ_PAGE_OVERRUN;

        /* R24 page type and matching sub-header */
        if (ph.type == REF_PAGE_DATA) {
            if ((ph.present & REF_BIT(REF_PH_DATA_PAGE_HEADER)) == 0) return REF_ERR_PQ_PAGE_TYPE;
            p->num_values = ph.data.num_values;
            p->encoding = ph.data.encoding;
            p->def_encoding = ph.data.definition_level_encoding;
            p->rep_encoding = ph.data.repetition_level_encoding;
            p->has_stats = (ph.data.present & REF_BIT(5)) != 0;
            p->hdr_unknown = (uint16_t)(p->hdr_unknown + ph.data.n_unknown);
        } else if (ph.type == REF_PAGE_DICTIONARY) {
            if ((ph.present & REF_BIT(REF_PH_DICTIONARY_PAGE_HEADER)) == 0) return REF_ERR_PQ_PAGE_TYPE;
            p->num_values = ph.dict.num_values;
            p->encoding = ph.dict.encoding;
            p->hdr_unknown = (uint16_t)(p->hdr_unknown + ph.dict.n_unknown);
        } else if (ph.type == REF_PAGE_DATA_V2) {
            if ((ph.present & REF_BIT(REF_PH_DATA_PAGE_HEADER_V2)) == 0) return REF_ERR_PQ_PAGE_TYPE;
            p->num_values = ph.data_v2.num_values;
            p->encoding = ph.data_v2.encoding;
            p->v2_num_nulls = ph.data_v2.num_nulls;
            p->v2_num_rows = ph.data_v2.num_rows;
            p->v2_def_len = ph.data_v2.definition_levels_byte_length;
            p->v2_rep_len = ph.data_v2.repetition_levels_byte_length;
            p->v2_is_compressed = (uint8_t)ref_dph2_is_compressed(&ph.data_v2);
            p->has_stats = (ph.data_v2.present & REF_BIT(8)) != 0;
            p->hdr_unknown = (uint16_t)(p->hdr_unknown + ph.data_v2.n_unknown);
        } else {
            return REF_ERR_PQ_PAGE_TYPE;
        }
        p->type = (uint8_t)ph.type;
        if (p->num_values < 0) return REF_ERR_PQ_NEGATIVE_COUNT;

        /* R25 dictionary page position */
        if (p->type == REF_PAGE_DICTIONARY) {
            if (k != 0) return REF_ERR_PQ_DICT_POSITION;
            ck->has_dict = 1;
        } else {
            if (k == 0 && has_dict_off) return REF_ERR_PQ_DICT_POSITION;  /* offset announced, page absent */
            if (!first_data_seen) {
                first_data_seen = 1;
                /* R17: with a dictionary_page_offset, data_page_offset must be the first data page */
                if (has_dict_off && (int64_t)p->hdr_off != cm->data_page_offset)
                    return REF_ERR_PQ_CHUNK_OFFSETS;
            }
            sum_values += p->num_values;
        }

        /* R37 v2 level lengths */
        if (p->type == REF_PAGE_DATA_V2) {
            if (p->v2_def_len < 0 || p->v2_rep_len < 0) return REF_ERR_PQ_V2_LENGTHS;
            if ((uint64_t)p->v2_def_len + (uint64_t)p->v2_rep_len > (uint64_t)p->comp_size)
                return REF_ERR_PQ_V2_LENGTHS;
            if ((uint64_t)p->v2_def_len + (uint64_t)p->v2_rep_len > (uint64_t)p->uncomp_size)
                return REF_ERR_PQ_V2_LENGTHS;
            if (p->v2_num_nulls < 0 || p->v2_num_rows < 0) return REF_ERR_PQ_NEGATIVE_COUNT;
        }

        /* R29 crc over the stored bytes of the page body */
        if (ph.present & REF_BIT(REF_PH_CRC)) {
            uint32_t c = ref_crc32_ieee(f->data + p->body_off, (size_t)p->comp_size);
            p->has_crc = 1;
            p->crc = (uint32_t)ph.crc;
            p->crc_ok = (c == p->crc) ? 1 : 0;
            if (!p->crc_ok) {
                ck->crc_all_ok = 0;
                if (o->crc_hard) return REF_ERR_PQ_CRC;
            }
        }

        /* R31 / R32 sizes */
        if (cm->codec == REF_CODEC_UNCOMPRESSED || !o->no_decompress) {
            const uint8_t* body;
            REF_TRY(ref_pq_page_body(f, p, ref_pq_effective_codec(f, cm->codec), scratch, &body));
        }

        /* soft: encodings listed */
        if (!ref_pq_enc_listed(cm, p->encoding)) ck->encodings_listed = 0;
        if (p->type == REF_PAGE_DATA && levels_used && !ref_pq_enc_listed(cm, REF_ENC_RLE))
            ck->encodings_listed = 0;

        sum_usize_hdr += (int64_t)p->hdr_len + (int64_t)p->uncomp_size;
        sum_usize += (int64_t)p->uncomp_size;
        pos = p->body_off + p->comp_size;
        ck->n_pages = k + 1;
    }
    f->err_page = -1;

    /* R26 */
    if (sum_values != cm->num_values) return REF_ERR_PQ_NUM_VALUES;
    /* R30 */
    ck->usize_spec = sum_usize_hdr;
    ck->usize_matches_spec = (sum_usize_hdr == cm->total_uncompressed_size) ? 1 : 0;
    ck->usize_without_headers = (sum_usize == cm->total_uncompressed_size) ? 1 : 0;
    if (!ck->usize_matches_spec && o->usize_hard) return REF_ERR_PQ_CHUNK_USIZE;
    /* R27 flat column */
    if (f->leaf_max_rep[col] == 0 && cm->num_values != g->num_rows) return REF_ERR_PQ_ROWS;
    return REF_OK;
}

/* ================================================================== */
/* open                                                                */
/* ================================================================== */

int ref_pq_open_ex(const uint8_t* file, size_t len, const ref_pq_open_opts* opts,
                   ref_pq_file* f)
{
    ref_pq_open_opts o;
    ref_tc_reader r;
    uint32_t flen;
    int32_t rg, col;
    int64_t rows = 0;

    if (opts != NULL) o = *opts; else ref_pq_open_opts_default(&o);
    memset(f, 0, sizeof(*f));
    f->data = file;
    f->len = len;
    f->err_row_group = -1;
    f->err_column = -1;
    f->err_page = -1;
    f->lz4_tag_as_raw = o.lz4_tag_as_raw;

    /* R01..R04 container */
    if (len < 12) return REF_ERR_PQ_TOO_SHORT;
    if (len > 0x7fffffffu) return REF_ERR_PQ_ARG;          /* offsets are kept in 32 bits */
    if (!ref_pq_is_magic(file)) return REF_ERR_PQ_MAGIC_HEAD;
    if (!ref_pq_is_magic(file + len - 4)) return REF_ERR_PQ_MAGIC_TAIL;
    flen = ref_pq_le32(file + len - 8);
    if (flen == 0 || (uint64_t)flen > (uint64_t)(len - 12)) return REF_ERR_PQ_FOOTER_LEN;
    f->footer_len = flen;
    f->footer_start = (uint32_t)(len - 8 - (size_t)flen);

    /* footer (Thrift / required-field errors pass through) */
    ref_tc_reader_init(&r, file, len - 8, (size_t)f->footer_start);
    REF_TRY(ref_parse_file_meta(&r, &f->meta));
    if (r.pos != len - 8) return REF_ERR_PQ_FOOTER_TRAILING;      /* R05 */

    /* R06..R11 schema */
    REF_TRY(ref_pq_analyze_schema(f->meta.schema, f->meta.n_schema, f->parent,
                                  f->leaf_of_schema, f->schema_of_leaf, f->leaf_max_def,
                                  f->leaf_max_rep, &f->n_leaves));

    if (f->meta.num_rows < 0) return REF_ERR_PQ_NEGATIVE_COUNT;
    f->rg_total_byte_size_ok = 1;
    f->rg_total_byte_size_is_field_sum = 1;
    f->rg_total_byte_size_is_compressed = 1;
    for (rg = 0; rg < f->meta.n_row_groups; rg++) {
        const ref_row_group* g = &f->meta.row_groups[rg];
        int64_t usum = 0, uspec = 0, csum = 0;
        f->err_row_group = rg;
        f->err_column = -1;
        if (g->n_columns != f->n_leaves) return REF_ERR_PQ_RG_COLUMNS;      /* R12 */
        if (g->num_rows < 0) return REF_ERR_PQ_NEGATIVE_COUNT;
        for (col = 0; col < g->n_columns; col++) {
            REF_TRY(ref_pq_walk_chunk(f, &o, rg, col));
            usum += g->columns[col].meta.total_uncompressed_size;
            csum += g->columns[col].meta.total_compressed_size;
            uspec += f->chunk[rg][col].usize_spec;
        }
        if (uspec != g->total_byte_size) f->rg_total_byte_size_ok = 0;
        if (usum != g->total_byte_size) f->rg_total_byte_size_is_field_sum = 0;
        if (csum != g->total_byte_size) f->rg_total_byte_size_is_compressed = 0;
        rows += g->num_rows;
    }
    f->err_column = -1;

    /* R18 pairwise overlap, R19 tiling in metadata order */
    {
        uint32_t expect = 4;
        int tiles = 1;
        int32_t rg2, col2;
        for (rg = 0; rg < f->meta.n_row_groups; rg++) {
            for (col = 0; col < f->n_leaves; col++) {
                const ref_pq_chunk* a = &f->chunk[rg][col];
                if (a->start != expect) tiles = 0;
                expect = a->end;
                f->err_row_group = rg;
                f->err_column = col;
                for (rg2 = 0; rg2 <= rg; rg2++) {
                    for (col2 = 0; col2 < f->n_leaves; col2++) {
                        const ref_pq_chunk* b = &f->chunk[rg2][col2];
                        if (rg2 == rg && col2 >= col) break;
                        if (a->start < b->end && b->start < a->end) return REF_ERR_PQ_CHUNK_OVERLAP;
                    }
                }
            }
        }
        if (expect != f->footer_start) tiles = 0;
        f->tiles_exactly = (uint8_t)tiles;
        f->err_row_group = -1;
        f->err_column = -1;
        if (!tiles && o.require_tiling) return REF_ERR_PQ_TILING;
    }

    /* R28 */
    if (rows != f->meta.num_rows) return REF_ERR_PQ_FILE_ROWS;
    return REF_OK;
}

int ref_pq_open(const uint8_t* file, size_t len, ref_pq_file* out)
{
    return ref_pq_open_ex(file, len, NULL, out);
}

/* ================================================================== */
/* column decoding                                                     */
/* ================================================================== */

static int ref_pq_arena_put(ref_pq_column_data* out, const uint8_t* p, uint32_t n, ref_span_t* sp)
{
    if (n > out->arena_cap - out->arena_used) return REF_ERR_PQ_CAPACITY;
    if (n != 0) memcpy(out->arena + out->arena_used, p, n);
    sp->off = out->arena_used;
    sp->len = n;
    out->arena_used += n;
    return REF_OK;
}

/* PLAIN-decode `count` values of the column's type from in[0..in_len) into
 * val[]/span[] starting at index 0.  *consumed = bytes used. */
static int ref_pq_plain(ref_pq_column_data* out, const uint8_t* in, size_t in_len,
                        uint32_t count, uint64_t* val, ref_span_t* span, size_t* consumed)
{
    size_t pos = 0;
    uint32_t i;
    int32_t t = out->type;
    for (i = 0; i < count; i++) {
        val[i] = 0;
        span[i].off = 0;
        span[i].len = 0;
        if (t == REF_TYPE_BOOLEAN) {
            size_t byte = (size_t)(i >> 3);
            if (byte >= in_len) return REF_ERR_PQ_VALUES;
            val[i] = (uint64_t)((in[byte] >> (i & 7u)) & 1u);
        } else if (t == REF_TYPE_INT32 || t == REF_TYPE_FLOAT) {
            if (in_len - pos < 4) return REF_ERR_PQ_VALUES;
            val[i] = (uint64_t)ref_pq_le32(in + pos);
            pos += 4;
        } else if (t == REF_TYPE_INT64 || t == REF_TYPE_DOUBLE) {
            if (in_len - pos < 8) return REF_ERR_PQ_VALUES;
            val[i] = ref_pq_le64(in + pos);
            pos += 8;
        } else if (t == REF_TYPE_INT96) {
            if (in_len - pos < 12) return REF_ERR_PQ_VALUES;
            REF_TRY(ref_pq_arena_put(out, in + pos, 12, &span[i]));
            pos += 12;
        } else if (t == REF_TYPE_FIXED_LEN_BYTE_ARRAY) {
            uint32_t w = (uint32_t)out->type_length;
            if (in_len - pos < (size_t)w) return REF_ERR_PQ_VALUES;
            REF_TRY(ref_pq_arena_put(out, in + pos, w, &span[i]));
            pos += (size_t)w;
        } else { /* BYTE_ARRAY */
            uint32_t n;
            if (in_len - pos < 4) return REF_ERR_PQ_VALUES;
            n = ref_pq_le32(in + pos);
            pos += 4;
            if ((size_t)n > in_len - pos) return REF_ERR_PQ_VALUES;
            REF_TRY(ref_pq_arena_put(out, in + pos, n, &span[i]));
            pos += (size_t)n;
        }
    }
    if (t == REF_TYPE_BOOLEAN) pos = ((size_t)count + 7u) >> 3;
    *consumed = pos;
    return REF_OK;
}

/* hybrid-decode `count` levels of max level `max_level` from in[0..in_len) */
static int ref_pq_levels(const uint8_t* in, size_t in_len, int max_level, uint32_t count,
                         uint16_t* dst)
{
    uint32_t tmp[REF_MAX_VALUES];
    size_t used = 0;
    uint32_t i;
    int bw = ref_pq_level_bit_width(max_level);
    if (count > REF_MAX_VALUES) return REF_ERR_PQ_CAPACITY;
    if (ref_rle_hybrid_decode(in, in_len, bw, tmp, (size_t)count, &used) < 0) return REF_ERR_PQ_LEVELS;
    for (i = 0; i < count; i++) {
        if (tmp[i] > (uint32_t)max_level) return REF_ERR_PQ_LEVELS;
        dst[i] = (uint16_t)tmp[i];
    }
    return REF_OK;
}

int ref_pq_read_column(const ref_pq_file* f, int row_group, int column, ref_pq_column_data* out)
{
    uint8_t scratch[REF_MAX_PAGE_BYTES];
    uint32_t idx[REF_MAX_VALUES];
    const ref_pq_chunk* ck;
    const ref_column_meta* cm;
    const ref_schema_element* leaf;
    uint8_t* arena;
    uint32_t arena_cap;
    int md = 0, mr = 0;
    int32_t k;

    if (row_group < 0 || row_group >= f->meta.n_row_groups) return REF_ERR_PQ_ARG;
    if (column < 0 || column >= f->n_leaves) return REF_ERR_PQ_ARG;
    arena = out->arena;
    arena_cap = out->arena_cap;
    memset(out, 0, sizeof(*out));
    out->arena = arena;
    out->arena_cap = (arena != NULL) ? arena_cap : 0;

    ck = &f->chunk[row_group][column];
    cm = &f->meta.row_groups[row_group].columns[column].meta;
    leaf = &f->meta.schema[f->schema_of_leaf[column]];
    REF_TRY(ref_pq_leaf_levels(f, column, &md, &mr));
    out->type = leaf->type;
    out->type_length = (leaf->type == REF_TYPE_FIXED_LEN_BYTE_ARRAY) ? leaf->type_length : 0;
    out->max_def = md;
    out->max_rep = mr;

    for (k = 0; k < ck->n_pages; k++) {
        const ref_pq_page* p = &ck->pages[k];
        const uint8_t* body;
        size_t blen = (size_t)p->uncomp_size;
        size_t pos = 0;
        uint32_t nlev = (uint32_t)p->num_values;
        uint32_t base = out->n_levels;
        uint32_t nonnull = 0, nrows = 0, i;
        size_t used = 0;

        REF_TRY(ref_pq_page_body(f, p, ref_pq_effective_codec(f, cm->codec), scratch, &body));

        if (p->type == REF_PAGE_DICTIONARY) {
            /* R33: dictionary pages are PLAIN (tag PLAIN or legacy PLAIN_DICTIONARY) */
            if (p->encoding != REF_ENC_PLAIN && p->encoding != REF_ENC_PLAIN_DICTIONARY)
                return REF_ERR_PQ_ENCODING;
            if (out->type == REF_TYPE_BOOLEAN) return REF_ERR_PQ_ENCODING;
            if (nlev > REF_MAX_DICT) return REF_ERR_PQ_CAPACITY;
            REF_TRY(ref_pq_plain(out, body, blen, nlev, out->dict_val, out->dict_span, &used));
            out->n_dict = nlev;
            continue;
        }

        if (nlev > REF_MAX_VALUES - base) return REF_ERR_PQ_CAPACITY;

        /* ---- levels ---- */
        if (p->type == REF_PAGE_DATA) {
            if (mr > 0) {
                uint32_t l;
                if (p->rep_encoding != REF_ENC_RLE) return REF_ERR_PQ_ENCODING;
                if (blen - pos < 4) return REF_ERR_PQ_LEVELS;
                l = ref_pq_le32(body + pos);
                pos += 4;
                if ((size_t)l > blen - pos) return REF_ERR_PQ_LEVELS;
                REF_TRY(ref_pq_levels(body + pos, (size_t)l, mr, nlev, out->rep + base));
                pos += (size_t)l;
            }
            if (md > 0) {
                uint32_t l;
                if (p->def_encoding != REF_ENC_RLE) return REF_ERR_PQ_ENCODING;
                if (blen - pos < 4) return REF_ERR_PQ_LEVELS;
                l = ref_pq_le32(body + pos);
                pos += 4;
                if ((size_t)l > blen - pos) return REF_ERR_PQ_LEVELS;
                REF_TRY(ref_pq_levels(body + pos, (size_t)l, md, nlev, out->def + base));
                pos += (size_t)l;
            }
        } else { /* DATA_PAGE_V2: rep bytes, def bytes, no length prefix, never compressed */
            size_t rl = (size_t)p->v2_rep_len, dl = (size_t)p->v2_def_len;
            if (rl + dl > blen) return REF_ERR_PQ_V2_LENGTHS;
            if (mr > 0) REF_TRY(ref_pq_levels(body, rl, mr, nlev, out->rep + base));
            else if (rl != 0) return REF_ERR_PQ_V2_LENGTHS;
            if (md > 0) REF_TRY(ref_pq_levels(body + rl, dl, md, nlev, out->def + base));
            else if (dl != 0) return REF_ERR_PQ_V2_LENGTHS;
            pos = rl + dl;
        }
        for (i = 0; i < nlev; i++) {
            if (out->def[base + i] == (uint16_t)md) nonnull += 1;
            if (out->rep[base + i] == 0) nrows += 1;
        }
        /* the first entry of a chunk starts a row */
        if (base == 0 && nlev != 0 && out->rep[0] != 0) return REF_ERR_PQ_LEVELS;
        if (p->type == REF_PAGE_DATA_V2) {
            if ((uint32_t)p->v2_num_nulls != nlev - nonnull) return REF_ERR_PQ_V2_COUNTS;
            if ((uint32_t)p->v2_num_rows != nrows) return REF_ERR_PQ_V2_COUNTS;
            if (nlev != 0 && out->rep[base] != 0) return REF_ERR_PQ_V2_COUNTS;  /* v2 pages start on a row */
        }

        /* ---- values ---- */
        if (p->encoding == REF_ENC_PLAIN) {
            REF_TRY(ref_pq_plain(out, body + pos, blen - pos, nonnull,
                                 out->val + out->n_values, out->span + out->n_values, &used));
        } else if (p->encoding == REF_ENC_PLAIN_DICTIONARY || p->encoding == REF_ENC_RLE_DICTIONARY) {
            if (out->type == REF_TYPE_BOOLEAN) return REF_ERR_PQ_ENCODING;
            if (!ck->has_dict) return REF_ERR_PQ_DICT_INDEX;
            if (nonnull != 0) {
                int bw;
                if (blen - pos < 1) return REF_ERR_PQ_VALUES;
                bw = (int)body[pos];
                pos += 1;
                if (bw > 32) return REF_ERR_PQ_DICT_INDEX;
                if (ref_rle_hybrid_decode(body + pos, blen - pos, bw, idx, (size_t)nonnull, &used) < 0)
                    return REF_ERR_PQ_VALUES;
                for (i = 0; i < nonnull; i++) {
                    if (idx[i] >= out->n_dict) return REF_ERR_PQ_DICT_INDEX;
                    out->val[out->n_values + i] = out->dict_val[idx[i]];
                    out->span[out->n_values + i] = out->dict_span[idx[i]];
                }
            }
        } else {
            return REF_ERR_PQ_ENCODING;
        }
        out->n_levels += nlev;
        out->n_values += nonnull;
        out->n_rows += nrows;
    }
    /* R27 for repeated columns */
    if ((int64_t)out->n_rows != f->meta.row_groups[row_group].num_rows) return REF_ERR_PQ_ROWS;
    return REF_OK;
}
