/*
 * ref_parquet_meta.h - reference model of the parquet.thrift structures that
 * matter for reading/writing files (FileMetaData tree and PageHeader tree),
 * with parsers, writers and field-wise comparison.  Written from
 * apache/parquet-format `src/main/thrift/parquet.thrift`; field ids are the
 * ones of that file.  Shares no code with carquet.
 *
 * Conventions
 *  - every struct has `present`: bit i set <=> field id i occurred (parse) /
 *    is to be emitted (write).  This holds for REQUIRED fields too: a writer
 *    call with a required bit cleared produces a (deliberately) invalid
 *    struct; the parser returns REF_ERR_META_REQUIRED for it.
 *  - strings / binaries are ref_span_t (off,len) into the buffer that was
 *    parsed (parse) or into the caller's pool (write).
 *  - enums are kept as the raw i32; range checks are the file reader's job.
 *  - `n_unknown` counts unknown fields skipped directly inside that struct.
 */
#ifndef REF_PARQUET_META_H
#define REF_PARQUET_META_H

#include "ref_thrift.h"

/* ---- capacities (compile-time overridable) ---- */
#ifndef REF_MAX_SCHEMA
#define REF_MAX_SCHEMA 24
#endif
#ifndef REF_MAX_ROW_GROUPS
#define REF_MAX_ROW_GROUPS 4
#endif
#ifndef REF_MAX_COLUMNS
#define REF_MAX_COLUMNS 8
#endif
#ifndef REF_MAX_KV
#define REF_MAX_KV 4
#endif
#ifndef REF_MAX_ENCODINGS
#define REF_MAX_ENCODINGS 8
#endif
#ifndef REF_MAX_PATH
#define REF_MAX_PATH 6
#endif
#ifndef REF_MAX_ENCODING_STATS
#define REF_MAX_ENCODING_STATS 8
#endif
#ifndef REF_MAX_SORTING
#define REF_MAX_SORTING 4
#endif
#ifndef REF_MAX_INJECT
#define REF_MAX_INJECT 3
#endif

/* ---- error codes -20..-29 ---- */
#define REF_ERR_META_WIRE_TYPE  (-20)  /* known field id with a different wire type   */
#define REF_ERR_META_ELEM_TYPE  (-21)  /* list of a known field has wrong element type */
#define REF_ERR_META_REQUIRED   (-22)  /* a `required` field is missing                */
#define REF_ERR_META_DUP        (-23)  /* the same known field id occurs twice         */
#define REF_ERR_META_CAPACITY   (-24)  /* list longer than the REF_MAX_* table         */
#define REF_ERR_META_UNION      (-25)  /* union (LogicalType, ColumnOrder) with more than one member */
#define REF_ERR_META_POOL       (-26)  /* write: span outside the string pool          */

#define REF_BIT(id) ((uint32_t)1u << (id))

/* ---- parquet.thrift enums (values as in the IDL) ---- */
#define REF_TYPE_BOOLEAN 0
#define REF_TYPE_INT32 1
#define REF_TYPE_INT64 2
#define REF_TYPE_INT96 3
#define REF_TYPE_FLOAT 4
#define REF_TYPE_DOUBLE 5
#define REF_TYPE_BYTE_ARRAY 6
#define REF_TYPE_FIXED_LEN_BYTE_ARRAY 7

#define REF_REP_REQUIRED 0
#define REF_REP_OPTIONAL 1
#define REF_REP_REPEATED 2

#define REF_ENC_PLAIN 0
#define REF_ENC_PLAIN_DICTIONARY 2
#define REF_ENC_RLE 3
#define REF_ENC_BIT_PACKED 4
#define REF_ENC_DELTA_BINARY_PACKED 5
#define REF_ENC_DELTA_LENGTH_BYTE_ARRAY 6
#define REF_ENC_DELTA_BYTE_ARRAY 7
#define REF_ENC_RLE_DICTIONARY 8
#define REF_ENC_BYTE_STREAM_SPLIT 9

#define REF_CODEC_UNCOMPRESSED 0
#define REF_CODEC_SNAPPY 1
#define REF_CODEC_GZIP 2
#define REF_CODEC_LZO 3
#define REF_CODEC_BROTLI 4
#define REF_CODEC_LZ4 5
#define REF_CODEC_ZSTD 6
#define REF_CODEC_LZ4_RAW 7

#define REF_PAGE_DATA 0
#define REF_PAGE_INDEX 1
#define REF_PAGE_DICTIONARY 2
#define REF_PAGE_DATA_V2 3

/* ---- Statistics ---- */
#define REF_ST_MAX 1
#define REF_ST_MIN 2
#define REF_ST_NULL_COUNT 3
#define REF_ST_DISTINCT_COUNT 4
#define REF_ST_MAX_VALUE 5
#define REF_ST_MIN_VALUE 6
#define REF_ST_IS_MAX_VALUE_EXACT 7
#define REF_ST_IS_MIN_VALUE_EXACT 8
typedef struct ref_statistics {
    uint32_t   present;
    uint16_t   n_unknown;
    uint8_t    is_max_value_exact;   /* 7 */
    uint8_t    is_min_value_exact;   /* 8 */
    ref_span_t max;                  /* 1 (deprecated) */
    ref_span_t min;                  /* 2 (deprecated) */
    int64_t    null_count;           /* 3 */
    int64_t    distinct_count;       /* 4 */
    ref_span_t max_value;            /* 5 */
    ref_span_t min_value;            /* 6 */
} ref_statistics;

/* ---- SchemaElement ---- */
#define REF_SE_TYPE 1
#define REF_SE_TYPE_LENGTH 2
#define REF_SE_REPETITION_TYPE 3
#define REF_SE_NAME 4              /* required */
#define REF_SE_NUM_CHILDREN 5
#define REF_SE_CONVERTED_TYPE 6
#define REF_SE_SCALE 7
#define REF_SE_PRECISION 8
#define REF_SE_FIELD_ID 9
#define REF_SE_LOGICAL_TYPE 10
typedef struct ref_schema_element {
    uint32_t   present;
    uint16_t   n_unknown;
    int16_t    logical_kind;    /* field id of the LogicalType union member that is set
                                   (1 STRING .. 15 FLOAT16 ...), 0 = none              */
    int32_t    type;
    int32_t    type_length;
    int32_t    repetition_type;
    ref_span_t name;
    int32_t    num_children;
    int32_t    converted_type;
    int32_t    scale;
    int32_t    precision;
    int32_t    field_id;
    ref_span_t logical_raw;     /* the encoded LogicalType struct, stop byte included.
                                   write: len 0 => `{ logical_kind: {} }` is emitted     */
} ref_schema_element;

/* ---- KeyValue ---- */
#define REF_KV_KEY 1               /* required */
#define REF_KV_VALUE 2
typedef struct ref_key_value {
    uint32_t   present;
    uint16_t   n_unknown;
    ref_span_t key;
    ref_span_t value;
} ref_key_value;

/* ---- SortingColumn (all required) ---- */
typedef struct ref_sorting_column {
    uint32_t present;
    uint16_t n_unknown;
    uint8_t  descending;   /* 2 */
    uint8_t  nulls_first;  /* 3 */
    int32_t  column_idx;   /* 1 */
} ref_sorting_column;

/* ---- PageEncodingStats (all required) ---- */
typedef struct ref_page_encoding_stats {
    uint32_t present;
    uint16_t n_unknown;
    int32_t  page_type;    /* 1 */
    int32_t  encoding;     /* 2 */
    int32_t  count;        /* 3 */
} ref_page_encoding_stats;

/* ---- ColumnMetaData ---- */
#define REF_CM_TYPE 1                      /* required */
#define REF_CM_ENCODINGS 2                 /* required */
#define REF_CM_PATH_IN_SCHEMA 3            /* required */
#define REF_CM_CODEC 4                     /* required */
#define REF_CM_NUM_VALUES 5                /* required */
#define REF_CM_TOTAL_UNCOMPRESSED_SIZE 6   /* required */
#define REF_CM_TOTAL_COMPRESSED_SIZE 7     /* required */
#define REF_CM_KEY_VALUE_METADATA 8
#define REF_CM_DATA_PAGE_OFFSET 9          /* required */
#define REF_CM_INDEX_PAGE_OFFSET 10
#define REF_CM_DICTIONARY_PAGE_OFFSET 11
#define REF_CM_STATISTICS 12
#define REF_CM_ENCODING_STATS 13
#define REF_CM_BLOOM_FILTER_OFFSET 14
#define REF_CM_BLOOM_FILTER_LENGTH 15
#define REF_CM_REQUIRED_MASK (REF_BIT(1)|REF_BIT(2)|REF_BIT(3)|REF_BIT(4)|REF_BIT(5)|REF_BIT(6)|REF_BIT(7)|REF_BIT(9))
typedef struct ref_column_meta {
    uint32_t   present;
    uint16_t   n_unknown;          /* ids >= 16 (size_statistics, ...) land here */
    int32_t    type;
    int32_t    n_encodings;
    int32_t    encodings[REF_MAX_ENCODINGS];
    int32_t    n_path;
    ref_span_t path[REF_MAX_PATH];
    int32_t    codec;
    int64_t    num_values;
    int64_t    total_uncompressed_size;
    int64_t    total_compressed_size;
    int32_t    n_kv;
    ref_key_value kv[REF_MAX_KV];
    int64_t    data_page_offset;
    int64_t    index_page_offset;
    int64_t    dictionary_page_offset;
    ref_statistics statistics;
    int32_t    n_encoding_stats;
    ref_page_encoding_stats encoding_stats[REF_MAX_ENCODING_STATS];
    int64_t    bloom_filter_offset;
    int32_t    bloom_filter_length;
} ref_column_meta;

/* ---- ColumnChunk ---- */
#define REF_CC_FILE_PATH 1
#define REF_CC_FILE_OFFSET 2               /* required */
#define REF_CC_META_DATA 3
#define REF_CC_OFFSET_INDEX_OFFSET 4
#define REF_CC_OFFSET_INDEX_LENGTH 5
#define REF_CC_COLUMN_INDEX_OFFSET 6
#define REF_CC_COLUMN_INDEX_LENGTH 7
typedef struct ref_column_chunk {
    uint32_t   present;
    uint16_t   n_unknown;          /* ids 8, 9 (encryption) land here */
    ref_span_t file_path;
    int64_t    file_offset;
    ref_column_meta meta;
    int64_t    offset_index_offset;
    int32_t    offset_index_length;
    int64_t    column_index_offset;
    int32_t    column_index_length;
} ref_column_chunk;

/* ---- RowGroup ---- */
#define REF_RG_COLUMNS 1                   /* required */
#define REF_RG_TOTAL_BYTE_SIZE 2           /* required */
#define REF_RG_NUM_ROWS 3                  /* required */
#define REF_RG_SORTING_COLUMNS 4
#define REF_RG_FILE_OFFSET 5
#define REF_RG_TOTAL_COMPRESSED_SIZE 6
#define REF_RG_ORDINAL 7
typedef struct ref_row_group {
    uint32_t   present;
    uint16_t   n_unknown;
    int16_t    ordinal;
    int32_t    n_columns;
    ref_column_chunk columns[REF_MAX_COLUMNS];
    int64_t    total_byte_size;
    int64_t    num_rows;
    int32_t    n_sorting;
    ref_sorting_column sorting[REF_MAX_SORTING];
    int64_t    file_offset;
    int64_t    total_compressed_size;
} ref_row_group;

/* ---- FileMetaData ---- */
#define REF_FM_VERSION 1                   /* required */
#define REF_FM_SCHEMA 2                    /* required */
#define REF_FM_NUM_ROWS 3                  /* required */
#define REF_FM_ROW_GROUPS 4                /* required */
#define REF_FM_KEY_VALUE_METADATA 5
#define REF_FM_CREATED_BY 6
#define REF_FM_COLUMN_ORDERS 7
typedef struct ref_file_meta {
    uint32_t   present;
    uint16_t   n_unknown;          /* ids 8, 9 (encryption) land here */
    int32_t    version;
    int32_t    n_schema;
    ref_schema_element schema[REF_MAX_SCHEMA];
    int64_t    num_rows;
    int32_t    n_row_groups;
    ref_row_group row_groups[REF_MAX_ROW_GROUPS];
    int32_t    n_kv;
    ref_key_value kv[REF_MAX_KV];
    ref_span_t created_by;
    int32_t    n_column_orders;
    int16_t    column_order_kind[REF_MAX_COLUMNS];  /* union member id (1 = TYPE_ORDER), 0 = none */
} ref_file_meta;

/* ---- page headers ---- */
typedef struct ref_data_page_header {       /* 1..4 required */
    uint32_t present;
    uint16_t n_unknown;
    int32_t  num_values;                    /* 1 */
    int32_t  encoding;                      /* 2 */
    int32_t  definition_level_encoding;     /* 3 */
    int32_t  repetition_level_encoding;     /* 4 */
    ref_statistics statistics;              /* 5 */
} ref_data_page_header;

typedef struct ref_dict_page_header {       /* 1, 2 required */
    uint32_t present;
    uint16_t n_unknown;
    uint8_t  is_sorted;                     /* 3 */
    int32_t  num_values;                    /* 1 */
    int32_t  encoding;                      /* 2 */
} ref_dict_page_header;

typedef struct ref_data_page_header_v2 {    /* 1..6 required */
    uint32_t present;
    uint16_t n_unknown;
    uint8_t  is_compressed;                 /* 7; absent => default true (see ref_dph2_is_compressed) */
    int32_t  num_values;                    /* 1 */
    int32_t  num_nulls;                     /* 2 */
    int32_t  num_rows;                      /* 3 */
    int32_t  encoding;                      /* 4 */
    int32_t  definition_levels_byte_length; /* 5 */
    int32_t  repetition_levels_byte_length; /* 6 */
    ref_statistics statistics;              /* 8 */
} ref_data_page_header_v2;

#define REF_PH_TYPE 1                      /* required */
#define REF_PH_UNCOMPRESSED_PAGE_SIZE 2    /* required */
#define REF_PH_COMPRESSED_PAGE_SIZE 3      /* required */
#define REF_PH_CRC 4
#define REF_PH_DATA_PAGE_HEADER 5
#define REF_PH_INDEX_PAGE_HEADER 6
#define REF_PH_DICTIONARY_PAGE_HEADER 7
#define REF_PH_DATA_PAGE_HEADER_V2 8
typedef struct ref_page_header {
    uint32_t present;
    uint16_t n_unknown;
    int32_t  type;
    int32_t  uncompressed_page_size;
    int32_t  compressed_page_size;
    int32_t  crc;
    ref_data_page_header    data;
    ref_dict_page_header    dict;
    ref_data_page_header_v2 data_v2;
    /* index_page_header (6) is an empty struct: presence bit only */
} ref_page_header;

/* ------------------------------------------------------------------ */
/* parsing: the reader is positioned on the first byte of the struct,  */
/* on success it is just behind the stop byte.  Spans are offsets into */
/* r->buf.                                                             */
/* ------------------------------------------------------------------ */
int ref_parse_statistics        (ref_tc_reader* r, ref_statistics* out);
int ref_parse_schema_element    (ref_tc_reader* r, ref_schema_element* out);
int ref_parse_key_value         (ref_tc_reader* r, ref_key_value* out);
int ref_parse_sorting_column    (ref_tc_reader* r, ref_sorting_column* out);
int ref_parse_page_encoding_stats(ref_tc_reader* r, ref_page_encoding_stats* out);
int ref_parse_column_meta       (ref_tc_reader* r, ref_column_meta* out);
int ref_parse_column_chunk      (ref_tc_reader* r, ref_column_chunk* out);
int ref_parse_row_group         (ref_tc_reader* r, ref_row_group* out);
int ref_parse_file_meta         (ref_tc_reader* r, ref_file_meta* out);
int ref_parse_data_page_header  (ref_tc_reader* r, ref_data_page_header* out);
int ref_parse_dict_page_header  (ref_tc_reader* r, ref_dict_page_header* out);
int ref_parse_data_page_header_v2(ref_tc_reader* r, ref_data_page_header_v2* out);
int ref_parse_page_header       (ref_tc_reader* r, ref_page_header* out);

/* DataPageHeaderV2.is_compressed with its IDL default */
int ref_dph2_is_compressed(const ref_data_page_header_v2* h);

/* ------------------------------------------------------------------ */
/* writing                                                             */
/* ------------------------------------------------------------------ */
#define REF_INJ_BEFORE 0   /* right before the header of known field `anchor_id` (if that field is written) */
#define REF_INJ_AFTER  1   /* right after the value of known field `anchor_id` (if written)               */
#define REF_INJ_END    2   /* right before the stop byte                                                  */
#define REF_INJ_BEGIN  3   /* as the very first field of the struct                                        */

typedef struct ref_inject {
    int16_t field_id;     /* id of the injected (unknown) field: > known ids, in a gap, or negative */
    int16_t anchor_id;
    uint8_t where;        /* REF_INJ_*                                        */
    uint8_t wire_type;    /* REF_TC_BOOL_TRUE .. REF_TC_STRUCT (REF_TC_UUID)   */
    uint8_t variant;      /* shape/value selector of ref_tc_write_sample       */
    uint8_t force_long;   /* long-form header even when the delta is 1..15     */
} ref_inject;

typedef struct ref_struct_wopts {
    uint32_t   long_form_mask;   /* bit id: write known field `id` with a long-form header */
    uint8_t    long_list_size;   /* every list in this struct kind uses 0xF? + varint size */
    uint8_t    n_inject;
    ref_inject inject[REF_MAX_INJECT];
} ref_struct_wopts;

enum ref_struct_kind {
    REF_SK_FILE_META = 0,
    REF_SK_SCHEMA_ELEMENT,
    REF_SK_ROW_GROUP,
    REF_SK_COLUMN_CHUNK,
    REF_SK_COLUMN_META,
    REF_SK_STATISTICS,
    REF_SK_KEY_VALUE,
    REF_SK_SORTING_COLUMN,
    REF_SK_PAGE_ENCODING_STATS,
    REF_SK_PAGE_HEADER,
    REF_SK_DATA_PAGE_HEADER,
    REF_SK_DICT_PAGE_HEADER,
    REF_SK_DATA_PAGE_HEADER_V2,
    REF_SK_COUNT
};

/* options apply to every instance of a struct kind */
typedef struct ref_meta_wopts {
    ref_struct_wopts sk[REF_SK_COUNT];
} ref_meta_wopts;

typedef struct ref_meta_writer {
    ref_tc_writer         w;
    const uint8_t*        pool;       /* strings referenced by spans        */
    size_t                pool_len;
    const ref_meta_wopts* opts;       /* NULL = canonical encoding          */
} ref_meta_writer;

void ref_meta_writer_init(ref_meta_writer* mw, uint8_t* out, size_t cap, size_t pos,
                          const uint8_t* pool, size_t pool_len,
                          const ref_meta_wopts* opts);

int ref_write_statistics        (ref_meta_writer* mw, const ref_statistics* v);
int ref_write_schema_element    (ref_meta_writer* mw, const ref_schema_element* v);
int ref_write_key_value         (ref_meta_writer* mw, const ref_key_value* v);
int ref_write_sorting_column    (ref_meta_writer* mw, const ref_sorting_column* v);
int ref_write_page_encoding_stats(ref_meta_writer* mw, const ref_page_encoding_stats* v);
int ref_write_column_meta       (ref_meta_writer* mw, const ref_column_meta* v);
int ref_write_column_chunk      (ref_meta_writer* mw, const ref_column_chunk* v);
int ref_write_row_group         (ref_meta_writer* mw, const ref_row_group* v);
int ref_write_file_meta         (ref_meta_writer* mw, const ref_file_meta* v);
int ref_write_data_page_header  (ref_meta_writer* mw, const ref_data_page_header* v);
int ref_write_dict_page_header  (ref_meta_writer* mw, const ref_dict_page_header* v);
int ref_write_data_page_header_v2(ref_meta_writer* mw, const ref_data_page_header_v2* v);
int ref_write_page_header       (ref_meta_writer* mw, const ref_page_header* v);

/* ------------------------------------------------------------------ */
/* field-wise comparison (1 = equal, 0 = different).  Compares presence */
/* masks, every present scalar, list lengths and the *contents* of      */
/* spans (a's spans index abuf[0..alen), b's index bbuf[0..blen)).      */
/* n_unknown is not compared.                                           */
/* ------------------------------------------------------------------ */
typedef struct ref_cmp_ctx {
    const uint8_t* abuf; size_t alen;
    const uint8_t* bbuf; size_t blen;
} ref_cmp_ctx;

int ref_span_equal          (const ref_cmp_ctx* c, ref_span_t a, ref_span_t b);
int ref_statistics_equal    (const ref_cmp_ctx* c, const ref_statistics* a, const ref_statistics* b);
int ref_schema_element_equal(const ref_cmp_ctx* c, const ref_schema_element* a, const ref_schema_element* b);
int ref_key_value_equal     (const ref_cmp_ctx* c, const ref_key_value* a, const ref_key_value* b);
int ref_column_meta_equal   (const ref_cmp_ctx* c, const ref_column_meta* a, const ref_column_meta* b);
int ref_column_chunk_equal  (const ref_cmp_ctx* c, const ref_column_chunk* a, const ref_column_chunk* b);
int ref_row_group_equal     (const ref_cmp_ctx* c, const ref_row_group* a, const ref_row_group* b);
int ref_file_meta_equal     (const ref_cmp_ctx* c, const ref_file_meta* a, const ref_file_meta* b);
int ref_page_header_equal   (const ref_cmp_ctx* c, const ref_page_header* a, const ref_page_header* b);

#endif /* REF_PARQUET_META_H */
