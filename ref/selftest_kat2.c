/* selftest_kat2.c - hand-made Snappy / LZ4 streams covering every tag kind,
 * hash check values, SBBF vectors. */
#include "selftest_common.h"

static void expect_dec(int line, int rc, const uint8_t* got, size_t got_len,
                       const char* want)
{
    size_t wl = strlen(want);
    CHECK(rc == 0 && got_len == wl && memcmp(got, want, wl) == 0,
          "line %d: rc %d len %zu want len %zu", line, rc, got_len, wl);
}

static void kat_snappy(void)
{
    uint8_t out[1024];
    uint8_t big[1024];
    size_t n = 0;
    int rc;
    uint32_t ul = 0;
    size_t hl = 0;
    size_t i;

#define SN(want, ...)                                                        \
    do {                                                                     \
        const uint8_t s_[] = {__VA_ARGS__};                                  \
        n = 0;                                                               \
        rc = ref_snappy_decode(s_, sizeof s_, out, sizeof out, &n);          \
        expect_dec(__LINE__, rc, out, n, want);                              \
    } while (0)
#define SN_ERR(err, ...)                                                     \
    do {                                                                     \
        const uint8_t s_[] = {__VA_ARGS__};                                  \
        rc = ref_snappy_decode(s_, sizeof s_, out, sizeof out, &n);          \
        CHECK(rc == (err), "line %d: rc %d want %d", __LINE__, rc, (err));   \
    } while (0)

    SN("", 0x00);
    SN("hello", 0x05, 0x10, 'h', 'e', 'l', 'l', 'o');                 /* literal, length in tag */
    SN("hello", 0x05, 0xF0, 0x04, 'h', 'e', 'l', 'l', 'o');           /* 1 length byte  */
    SN("hello", 0x05, 0xF4, 0x04, 0x00, 'h', 'e', 'l', 'l', 'o');     /* 2 length bytes */
    SN("hello", 0x05, 0xF8, 0x04, 0x00, 0x00, 'h', 'e', 'l', 'l', 'o');
    SN("hello", 0x05, 0xFC, 0x04, 0x00, 0x00, 0x00, 'h', 'e', 'l', 'l', 'o');
    SN("hello", 0x85, 0x00, 0x10, 'h', 'e', 'l', 'l', 'o');           /* non-minimal preamble */
    SN("abcdabcd", 0x08, 0x0C, 'a', 'b', 'c', 'd', 0x01, 0x04);       /* copy-1 len 4 off 4 */
    SN("abcdabcdabcdabc", 0x0F, 0x0C, 'a', 'b', 'c', 'd', 0x1D, 0x04);/* copy-1 len 11, overlapping */
    SN("abcdabcdab", 0x0A, 0x0C, 'a', 'b', 'c', 'd', 0x16, 0x04, 0x00); /* copy-2 len 6 */
    SN("abcdabcdab", 0x0A, 0x0C, 'a', 'b', 'c', 'd', 0x17, 0x04, 0x00, 0x00, 0x00); /* copy-4 len 6 */
    SN("aaaaaaaaaaa", 0x0B, 0x00, 'a', 0x26, 0x01, 0x00);             /* copy-2 len 10 off 1: run */
    SN("abcab", 0x05, 0x08, 'a', 'b', 'c', 0x06, 0x03, 0x00);         /* copy-2 len 2 (< 4) */
    SN("xyx", 0x03, 0x04, 'x', 'y', 0x02, 0x02, 0x00);                /* copy-2 len 1 */

    /* copy-1 with offset bits in the tag: 300 bytes, then copy len 5 offset 300
     * = tag 0b001_001_01 = 0x25, low byte 0x2C; and a 64-byte copy-2 */
    {
        uint8_t s[400];
        size_t p = 0;
        s[p++] = 0xF1; s[p++] = 0x02;                     /* 369 = 300 + 5 + 64 */
        s[p++] = 0xF4; s[p++] = 0x2B; s[p++] = 0x01;      /* literal, 300 bytes */
        for (i = 0; i < 300; i++) {
            big[i] = (uint8_t)(i * 13 + 1);
            s[p++] = big[i];
        }
        s[p++] = 0x25; s[p++] = 0x2C;
        s[p++] = 0xFE; s[p++] = 0x31; s[p++] = 0x01;      /* copy-2 len 64 off 305 */
        rc = ref_snappy_decode(s, p, out, sizeof out, &n);
        CHECK(rc == 0 && n == 369 && memcmp(out, big, 300) == 0 && memcmp(out + 300, big, 5) == 0 &&
              memcmp(out + 305, big, 64) == 0, "copy-1 offset 300: rc %d n %zu", rc, n);
        rc = ref_snappy_decode(s, p, out, 368, &n);
        CHECK(rc == REF_ERR_CAPACITY, "cap: rc %d", rc);
        CHECK(ref_snappy_uncompressed_length(s, p, &ul, &hl) == 0 && ul == 369 && hl == 2, "uncompressed_length");
    }

    SN_ERR(REF_ERR_CORRUPT, 0x08, 0x0C, 'a', 'b', 'c', 'd', 0x01, 0x00);        /* offset 0 */
    SN_ERR(REF_ERR_CORRUPT, 0x08, 0x0C, 'a', 'b', 'c', 'd', 0x01, 0x05);        /* offset > produced */
    SN_ERR(REF_ERR_CORRUPT, 0x04, 0x01, 0x01);                                  /* copy with nothing produced */
    SN_ERR(REF_ERR_CORRUPT, 0x07, 0x0C, 'a', 'b', 'c', 'd', 0x01, 0x04);        /* produces more than declared */
    SN_ERR(REF_ERR_CORRUPT, 0x04, 0x10, 'h', 'e', 'l', 'l', 'o');               /* literal longer than declared */
    SN_ERR(REF_ERR_CORRUPT, 0x09, 0x0C, 'a', 'b', 'c', 'd', 0x01, 0x04);        /* produces less than declared */
    SN_ERR(REF_ERR_CORRUPT, 0x01);                                              /* nothing produced */
    SN_ERR(REF_ERR_TRUNCATED, 0x05, 0x10, 'h', 'e', 'l', 'l');                  /* literal bytes missing */
    SN_ERR(REF_ERR_TRUNCATED, 0x05, 0xF4, 0x04);                                /* length bytes missing */
    SN_ERR(REF_ERR_TRUNCATED, 0x08, 0x0C, 'a', 'b', 'c', 'd', 0x01);            /* copy-1 offset byte missing */
    SN_ERR(REF_ERR_TRUNCATED, 0x08, 0x0C, 'a', 'b', 'c', 'd', 0x0E, 0x04);      /* copy-2 offset cut */
    SN_ERR(REF_ERR_TRUNCATED, 0x08, 0x0C, 'a', 'b', 'c', 'd', 0x0F, 0x04, 0, 0);/* copy-4 offset cut */
    SN_ERR(REF_ERR_CORRUPT, 0x80, 0x80, 0x80, 0x80, 0x10);                      /* preamble > 32 bits */
    SN_ERR(REF_ERR_CORRUPT, 0x80, 0x80, 0x80, 0x80, 0x80, 0x00);                /* preamble 6 bytes */
    SN_ERR(REF_ERR_TRUNCATED, 0x80);                                            /* preamble cut */
    SN_ERR(REF_ERR_CAPACITY, 0xFF, 0xFF, 0xFF, 0xFF, 0x0F, 0x00, 'a');          /* 4 GiB declared */
    rc = ref_snappy_decode(NULL, 0, out, sizeof out, &n);
    CHECK(rc == REF_ERR_TRUNCATED, "empty input: rc %d", rc);

    /* encoders: exact bytes */
    {
        uint8_t enc[64];
        uint8_t exp[64];
        size_t el = 0;
        size_t xl = 0;
        const ref_snappy_elem_t sc[] = {
            {REF_SNAPPY_LITERAL, REF_FORM_AUTO, 4, 0},
            {REF_SNAPPY_COPY1, 0, 4, 4},
            {REF_SNAPPY_COPY2, 0, 6, 4},
            {REF_SNAPPY_COPY4, 0, 1, 14},
            {REF_SNAPPY_LITERAL, 2, 1, 0},
        };
        const uint8_t want[] = {0x10, 0x0C, 'a', 'b', 'c', 'd', 0x01, 0x04, 0x16, 0x04, 0x00,
                                0x03, 0x0E, 0x00, 0x00, 0x00, 0xF4, 0x00, 0x00, 'z'};
        const ref_snappy_elem_t bad1[] = {{REF_SNAPPY_LITERAL, 0, 4, 0}, {REF_SNAPPY_COPY1, 0, 3, 1}};
        const ref_snappy_elem_t bad2[] = {{REF_SNAPPY_LITERAL, 0, 4, 0}, {REF_SNAPPY_COPY2, 0, 65, 1}};
        const ref_snappy_elem_t bad3[] = {{REF_SNAPPY_LITERAL, 0, 4, 0}, {REF_SNAPPY_COPY2, 0, 4, 5}};
        const ref_snappy_elem_t bad4[] = {{REF_SNAPPY_LITERAL, 0, 61, 0}};
        const ref_snappy_elem_t bad5[] = {{REF_SNAPPY_LITERAL, 0, 0, 0}};
        const ref_snappy_elem_t bad6[] = {{REF_SNAPPY_LITERAL, 0, 6, 0}};
        const ref_snappy_elem_t bad7[] = {{REF_SNAPPY_LITERAL, 0, 4, 0}, {REF_SNAPPY_COPY1, 0, 12, 1}};
        rc = ref_snappy_encode_script(sc, 5, (const uint8_t*)"abcdz", 5, enc, sizeof enc, &el, exp, sizeof exp, &xl);
        CHECK(rc == 0 && el == sizeof want && memcmp(enc, want, sizeof want) == 0, "script bytes rc %d el %zu", rc, el);
        CHECK(xl == 16 && memcmp(exp, "abcdabcdabcdabaz", 16) == 0, "script expect");
        rc = ref_snappy_decode(enc, el, out, sizeof out, &n);
        expect_dec(__LINE__, rc, out, n, "abcdabcdabcdabaz");
#define BAD(s, k) CHECK(ref_snappy_encode_script(s, k, (const uint8_t*)"abcdz", 5, enc, sizeof enc, &el, exp, sizeof exp, &xl) == REF_ERR_ARG, #s)
        BAD(bad1, 2); BAD(bad2, 2); BAD(bad3, 2); BAD(bad4, 1); BAD(bad5, 1); BAD(bad6, 1); BAD(bad7, 2);
#undef BAD
        rc = ref_snappy_encode_literal_only((const uint8_t*)"hello", 5, 0, enc, sizeof enc, &el);
        CHECK(rc == 0 && el == 7 && memcmp(enc, "\x05\x10hello", 7) == 0, "lit form 0");
        rc = ref_snappy_encode_literal_only((const uint8_t*)"hello", 5, 3, enc, sizeof enc, &el);
        CHECK(rc == 0 && el == 10 && memcmp(enc, "\x05\xF8\x04\x00\x00hello", 10) == 0, "lit form 3");
        rc = ref_snappy_encode_literal_only(NULL, 0, 1, enc, sizeof enc, &el);
        CHECK(rc == 0 && el == 1 && enc[0] == 0, "lit empty");
        rc = ref_snappy_encode_literal_only((const uint8_t*)"hello", 5, 5, enc, sizeof enc, &el);
        CHECK(rc == REF_ERR_ARG, "lit form 5");
        rc = ref_snappy_encode_literal_only((const uint8_t*)"hello", 5, 0, enc, 6, &el);
        CHECK(rc == REF_ERR_CAPACITY, "lit cap");
    }
#undef SN
#undef SN_ERR
}

static void kat_lz4(void)
{
    uint8_t out[1024];
    uint8_t s[600];
    size_t n = 0;
    size_t p;
    size_t i;
    int rc;

#define LZ(flag, want, ...)                                                  \
    do {                                                                     \
        const uint8_t s_[] = {__VA_ARGS__};                                  \
        n = 0;                                                               \
        rc = ref_lz4_block_decode(s_, sizeof s_, out, sizeof out, &n, flag); \
        expect_dec(__LINE__, rc, out, n, want);                              \
    } while (0)
#define LZ_ERR(flag, err, ...)                                               \
    do {                                                                     \
        const uint8_t s_[] = {__VA_ARGS__};                                  \
        rc = ref_lz4_block_decode(s_, sizeof s_, out, sizeof out, &n, flag); \
        CHECK(rc == (err), "line %d: rc %d want %d", __LINE__, rc, (err));   \
    } while (0)

    LZ(1, "", 0x00);
    LZ(1, "hello", 0x50, 'h', 'e', 'l', 'l', 'o');
    LZ(1, "hi", 0x2F, 'h', 'i');     /* match nibble of the last token is ignored */
    /* literals "abcd", match offset 4 length 8, last literals "efghi" */
    LZ(1, "abcdabcdabcdefghi", 0x44, 'a', 'b', 'c', 'd', 0x04, 0x00, 0x50, 'e', 'f', 'g', 'h', 'i');
    /* minimum legal tail: match of 7 starts at 4, total 16 -> exactly 12 before the end */
    LZ(1, "abcdabcdabcefghi", 0x43, 'a', 'b', 'c', 'd', 0x04, 0x00, 0x50, 'e', 'f', 'g', 'h', 'i');
    /* same with match of 6: starts 11 before the end */
    LZ(0, "abcdabcdabefghi", 0x42, 'a', 'b', 'c', 'd', 0x04, 0x00, 0x50, 'e', 'f', 'g', 'h', 'i');
    LZ_ERR(1, REF_ERR_ENDRULE, 0x42, 'a', 'b', 'c', 'd', 0x04, 0x00, 0x50, 'e', 'f', 'g', 'h', 'i');
    /* only 4 trailing literals */
    LZ(0, "abcdabcdabcdefgh", 0x44, 'a', 'b', 'c', 'd', 0x04, 0x00, 0x40, 'e', 'f', 'g', 'h');
    LZ_ERR(1, REF_ERR_ENDRULE, 0x44, 'a', 'b', 'c', 'd', 0x04, 0x00, 0x40, 'e', 'f', 'g', 'h');
    /* no trailing literals at all: the last sequence is an empty token */
    LZ(0, "abcdabcd", 0x40, 'a', 'b', 'c', 'd', 0x04, 0x00, 0x00);
    /* a match with no literals before it (second sequence) */
    LZ(0, "abcdabcdabcd", 0x40, 'a', 'b', 'c', 'd', 0x04, 0x00, 0x00, 0x08, 0x00, 0x00);
    /* overlapping match, offset 1 */
    LZ(0, "aaaaaaaaaaaXYZWV", 0x16, 'a', 0x01, 0x00, 0x50, 'X', 'Y', 'Z', 'W', 'V');

    LZ_ERR(0, REF_ERR_CORRUPT, 0x44, 'a', 'b', 'c', 'd', 0x00, 0x00, 0x50, 'e', 'f', 'g', 'h', 'i'); /* offset 0 */
    LZ_ERR(0, REF_ERR_CORRUPT, 0x44, 'a', 'b', 'c', 'd', 0x05, 0x00, 0x50, 'e', 'f', 'g', 'h', 'i'); /* offset 5 > 4 */
    LZ_ERR(0, REF_ERR_CORRUPT, 0x00, 0x01, 0x00, 0x00);                    /* match with nothing produced */
    LZ_ERR(0, REF_ERR_TRUNCATED, 0x44, 'a', 'b', 'c', 'd', 0x04, 0x00);    /* ends after a match */
    LZ_ERR(0, REF_ERR_TRUNCATED, 0x44, 'a', 'b', 'c', 'd', 0x04);          /* offset cut */
    LZ_ERR(0, REF_ERR_TRUNCATED, 0x50, 'h', 'e', 'l', 'l');                /* literals cut */
    LZ_ERR(0, REF_ERR_TRUNCATED, 0xF0);                                    /* literal length cut */
    LZ_ERR(0, REF_ERR_TRUNCATED, 0xF0, 0xFF);                              /* 255 must be continued */
    LZ_ERR(0, REF_ERR_TRUNCATED, 0x4F, 'a', 'b', 'c', 'd', 0x04, 0x00);    /* match length cut */
    rc = ref_lz4_block_decode(NULL, 0, out, sizeof out, &n, 0);
    CHECK(rc == REF_ERR_TRUNCATED, "empty block: rc %d", rc);
    {
        const uint8_t t[] = {0x44, 'a', 'b', 'c', 'd', 0x04, 0x00, 0x50, 'e', 'f', 'g', 'h', 'i'};
        rc = ref_lz4_block_decode(t, sizeof t, out, 16, &n, 0);
        CHECK(rc == REF_ERR_CAPACITY, "cap in last literals: rc %d", rc);
        rc = ref_lz4_block_decode(t, sizeof t, out, 11, &n, 0);
        CHECK(rc == REF_ERR_CAPACITY, "cap in match: rc %d", rc);
        rc = ref_lz4_block_decode(t, sizeof t, out, 3, &n, 0);
        CHECK(rc == REF_ERR_CAPACITY, "cap in literals: rc %d", rc);
        rc = ref_lz4_block_decode(t, sizeof t, out, 17, &n, 1);
        CHECK(rc == 0 && n == 17, "exact cap: rc %d", rc);
    }

    /* extended literal length: 15 -> F0 00; 270 -> F0 FF 00; 273 -> F0 FF 03 */
    for (i = 0; i < 3; i++) {
        static const size_t lens[3] = {15, 270, 273};
        size_t L = lens[i];
        size_t k;
        size_t el = 0;
        uint8_t enc[600];
        p = 0;
        s[p++] = 0xF0;
        if (L >= 270) s[p++] = 0xFF;
        s[p++] = (uint8_t)(L - 15 - (L >= 270 ? 255 : 0));
        for (k = 0; k < L; k++) s[p++] = (uint8_t)(k * 7);
        rc = ref_lz4_block_decode(s, p, out, sizeof out, &n, 1);
        CHECK(rc == 0 && n == L && memcmp(out, s + p - L, L) == 0, "ext literal %zu: rc %d n %zu", L, rc, n);
        rc = ref_lz4_encode_literal_only(s + p - L, L, enc, sizeof enc, &el);
        CHECK(rc == 0 && el == p && memcmp(enc, s, p) == 0, "literal_only %zu", L);
    }
    /* extended match length: 'a', offset 1, length 4+15+255+10 = 284 */
    {
        const uint8_t t[] = {0x1F, 'a', 0x01, 0x00, 0xFF, 0x0A, 0x50, 'v', 'w', 'x', 'y', 'z'};
        int ok = 1;
        rc = ref_lz4_block_decode(t, sizeof t, out, sizeof out, &n, 1);
        for (i = 0; i < 285; i++) if (out[i] != 'a') ok = 0;
        CHECK(rc == 0 && n == 290 && ok && memcmp(out + 285, "vwxyz", 5) == 0, "ext match: rc %d n %zu", rc, n);
    }
    /* script encoder: exact bytes */
    {
        const ref_lz4_seq_t sq[] = {{4, 8, 4}, {0, 19, 1}, {5, 0, 0}};
        const uint8_t want[] = {0x44, 'a', 'b', 'c', 'd', 0x04, 0x00, 0x0F, 0x01, 0x00, 0x00,
                                0x50, 'e', 'f', 'g', 'h', 'i'};
        const ref_lz4_seq_t b1[] = {{4, 3, 4}, {5, 0, 0}};
        const ref_lz4_seq_t b2[] = {{4, 8, 5}, {5, 0, 0}};
        const ref_lz4_seq_t b3[] = {{4, 8, 0}, {5, 0, 0}};
        const ref_lz4_seq_t b4[] = {{4, 8, 4}};
        const ref_lz4_seq_t b5[] = {{4, 0, 0}, {5, 0, 0}};
        uint8_t enc[64];
        uint8_t exp[64];
        size_t el = 0;
        size_t xl = 0;
        rc = ref_lz4_encode_script(sq, 3, (const uint8_t*)"abcdefghi", 9, enc, sizeof enc, &el, exp, sizeof exp, &xl);
        CHECK(rc == 0 && el == sizeof want && memcmp(enc, want, sizeof want) == 0, "lz4 script bytes rc %d el %zu", rc, el);
        {
            /* "abcd" + "abcdabcd" + 19 x 'd' + "efghi" */
            int ok = (xl == 36) && memcmp(exp, "abcdabcdabcd", 12) == 0 && memcmp(exp + 31, "efghi", 5) == 0;
            for (i = 12; i < 31; i++) if (exp[i] != 'd') ok = 0;
            CHECK(ok, "lz4 script expect %zu", xl);
        }
        rc = ref_lz4_block_decode(enc, el, out, sizeof out, &n, 1);
        CHECK(rc == 0 && n == 36 && memcmp(out, exp, 36) == 0, "lz4 script dec");
#define BAD(q, k) CHECK(ref_lz4_encode_script(q, k, (const uint8_t*)"abcdefghi", 9, enc, sizeof enc, &el, exp, sizeof exp, &xl) == REF_ERR_ARG, #q)
        BAD(b1, 2); BAD(b2, 2); BAD(b3, 2); BAD(b4, 1); BAD(b5, 2);
        CHECK(ref_lz4_encode_script(sq, 0, NULL, 0, enc, sizeof enc, &el, exp, sizeof exp, &xl) == REF_ERR_ARG, "no sequence");
#undef BAD
    }
#undef LZ
#undef LZ_ERR
}

/* XXH64 of buf[i] = i*7+3, lengths 0..40, seeds 0 and 0x9E3779B1 (values
 * produced by the upstream libxxhash 0.8.1 and pasted here; row 0 is the pair
 * published in the xxHash sanity checks). */
static const uint64_t xxh_vectors[41][2] = {
    {0xEF46DB3751D8E999ull, 0xAC75FDA2929B17EFull},
    {0x1F25C8D0BC1F4BB6ull, 0x79CF94F5ACE37FE1ull},
    {0xF5BEDEC232706303ull, 0x457EE044E8334447ull},
    {0x31D2363F52E564C9ull, 0x96D2A5E583DDD738ull},
    {0x9BB64B7D66EE9FDAull, 0x4A862FBB4B73776Eull},
    {0xC7608EFDDB7051FEull, 0xF6CA02179471D4A8ull},
    {0x61436FB28D5CE4C4ull, 0x4A49F736ADDC330Dull},
    {0x9A7B149959CE60D8ull, 0xDDC5CF71D37A6368ull},
    {0xDAB99D95C6F90092ull, 0xC6E75E2CBD8E07EEull},
    {0x170BB6BF975B4C02ull, 0x3A3E0F8CE693F786ull},
    {0xBD7277D7E2D8A98Cull, 0x38734EE9290FFA19ull},
    {0x7A52CC9457CF1A1Full, 0xAA0D75A182501622ull},
    {0xD52E407833AF5133ull, 0x79B0B158FAB0E5D6ull},
    {0xF78B031308F5BFC8ull, 0x216C46017DCB24E2ull},
    {0xC7F1D4D0ACFA5A14ull, 0x51341A138B098941ull},
    {0x1B47CB8243CC8E32ull, 0x8120A1EDA8AC77DAull},
    {0x434850232B787BE2ull, 0x17F387CE30885DE5ull},
    {0x1EFA7025F1B97A7Aull, 0x8FD41ADE58736837ull},
    {0x28791D24C4CF5E78ull, 0xC1C9AFDC996AF635ull},
    {0x3E91F7C3171250D0ull, 0x017DB0BE8FBAB403ull},
    {0x18AE385ADA6B00CBull, 0x83C6020F907609D1ull},
    {0xC075185602AF71EBull, 0x9EB4997A0482BB4Dull},
    {0xB2CEB44AA258FF36ull, 0xDF144AD08F76D7C3ull},
    {0x36A34F92FB0205C0ull, 0x674F68E1A94E07C9ull},
    {0xC47C71BD4694FF81ull, 0x2A5F7B1EF4E9909Cull},
    {0xB13F23E884186902ull, 0xD0A7896EDBFB0E73ull},
    {0x76A5852D6E1CAB15ull, 0xE2C637A30200564Full},
    {0x9AB0B90755292FC8ull, 0xFA583AFE1413FEBFull},
    {0x729299F92FF25C75ull, 0xFAFB0E6E543144A9ull},
    {0x6CD01834BE7D2537ull, 0x88D72934AA6F990Dull},
    {0x4BDD83B2B139424Full, 0x3C1BFFB21B8B91C5ull},
    {0xA2AA5F33CC4A6119ull, 0x381822F33376D6B6ull},
    {0x23C3C17EF790FD97ull, 0x9ABD315470AC276Aull},
    {0x50A7CFC7BA588784ull, 0x72CDD3262F467933ull},
    {0xC3E49B08A6AAD624ull, 0x57F5E7209F8D643Full},
    {0xA5B3456011D2913Bull, 0xB66E0D492B7BAF1Bull},
    {0xC0B52B0DCC5E3F7Full, 0x97F112C724BD7596ull},
    {0xE32EF63802F5A3FDull, 0x40817834D64099C5ull},
    {0xA4696F18F9ACCE05ull, 0x9562AB8A74AC699Full},
    {0x880BBEEA606E4B37ull, 0x78438FF58483CB1Full},
    {0xB620306B253D76B6ull, 0x6968E03BE1951FDAull},
};

void st_kat_hashes(void)
{
    uint8_t buf[64];
    uint32_t m[8];
    size_t i;
    const uint8_t* nine = (const uint8_t*)"123456789";

    /* CRC-32 check value (ITU-T V.42 / every CRC catalogue) */
    CHECK(ref_crc32_ieee(nine, 9) == 0xCBF43926u, "crc32 check %08X", ref_crc32_ieee(nine, 9));
    CHECK(ref_crc32_ieee(nine, 0) == 0, "crc32 empty");
    CHECK(ref_crc32_ieee((const uint8_t*)"a", 1) == 0xE8B7BE43u, "crc32 a");
    CHECK(ref_crc32_ieee((const uint8_t*)"The quick brown fox jumps over the lazy dog", 43) == 0x414FA339u, "crc32 fox");
    CHECK(ref_crc32_ieee_update(ref_crc32_ieee_update(0, nine, 4), nine + 4, 5) == 0xCBF43926u, "crc32 chained");
    /* CRC-32C: RFC 3720 B.4 */
    CHECK(ref_crc32c(nine, 9) == 0xE3069283u, "crc32c check");
    memset(buf, 0, 32);
    CHECK(ref_crc32c(buf, 32) == 0x8A9136AAu, "crc32c zeros");
    memset(buf, 0xFF, 32);
    CHECK(ref_crc32c(buf, 32) == 0x62A8AB43u, "crc32c ones");
    for (i = 0; i < 32; i++) buf[i] = (uint8_t)i;
    CHECK(ref_crc32c(buf, 32) == 0x46DD794Eu, "crc32c incrementing");
    for (i = 0; i < 32; i++) buf[i] = (uint8_t)(31 - i);
    CHECK(ref_crc32c(buf, 32) == 0x113FDB5Cu, "crc32c decrementing");
    CHECK(ref_crc32c_update(ref_crc32c_update(0, nine, 1), nine + 1, 8) == 0xE3069283u, "crc32c chained");

    /* XXH64 */
    for (i = 0; i < 64; i++) buf[i] = (uint8_t)(i * 7 + 3);
    for (i = 0; i <= 40; i++) {
        CHECK(ref_xxh64(buf, i, 0) == xxh_vectors[i][0], "xxh64 len %zu seed 0", i);
        CHECK(ref_xxh64(buf, i, 0x9E3779B1ull) == xxh_vectors[i][1], "xxh64 len %zu seeded", i);
    }

    /* SBBF: BloomFilter.md salt constants; mask bit = (x * salt) >> 27 */
    ref_sbbf_mask(0xABCDEF0100000000ull, m);
    for (i = 0; i < 8; i++) CHECK(m[i] == 1u, "mask(x=0) word %zu", i);
    ref_sbbf_mask(0x1234567800000001ull, m);
    {
        /* x = 1 -> y = salt; top five bits of 47b6137b 44974d91 8824ad5b
         * a2b7289d 705495c7 2df1424b 9efc4947 5c6bfb31 */
        static const int bit[8] = {8, 8, 17, 20, 14, 5, 19, 11};
        for (i = 0; i < 8; i++) CHECK(m[i] == (1u << bit[i]), "mask(x=1) word %zu: %08X", i, m[i]);
    }
    {
        /* the eight constants of BloomFilter.md typed a second time, and the
         * mask recomputed with 64-bit arithmetic: catches a typo in either copy */
        static const uint64_t salt2[8] = {0x47b6137bull, 0x44974d91ull, 0x8824ad5bull, 0xa2b7289dull,
                                          0x705495c7ull, 0x2df1424bull, 0x9efc4947ull, 0x5c6bfb31ull};
        int t;
        for (t = 0; t < 2000; t++) {
            uint64_t h = st_rnd();
            uint64_t x = h & 0xFFFFFFFFull;
            int same = 1;
            ref_sbbf_mask(h, m);
            for (i = 0; i < 8; i++) {
                uint64_t y = (x * salt2[i]) % 4294967296ull;
                if (m[i] != (1u << (unsigned)(y / 134217728ull))) same = 0;
            }
            CHECK(same, "sbbf mask vs 64-bit recomputation, x=%08llx", (unsigned long long)x);
        }
    }
    CHECK(ref_sbbf_block_index(0xFFFFFFFF00000000ull, 10) == 9, "index top");
    CHECK(ref_sbbf_block_index(0x8000000000000000ull, 10) == 5, "index mid");
    CHECK(ref_sbbf_block_index(0x00000003FFFFFFFFull, 10) == 0, "index low (a modulo would give 3)");
    CHECK(ref_sbbf_block_index(0x19999999FFFFFFFFull, 10) == 0 && ref_sbbf_block_index(0x1999999A00000000ull, 10) == 1, "index boundary");
    {
        uint8_t bs[64];
        uint8_t want[64];
        memset(bs, 0, sizeof bs);
        memset(want, 0, sizeof want);
        ref_sbbf_insert(bs, 2, 0x8000000000000001ull); /* block 1, x = 1 */
        /* word j at byte 32 + 4j, little endian: bit b -> byte b/8, mask 1 << b%8 */
        want[32 + 0 + 1] = 0x01;  /* bit 8  */
        want[32 + 4 + 1] = 0x01;  /* bit 8  */
        want[32 + 8 + 2] = 0x02;  /* bit 17 */
        want[32 + 12 + 2] = 0x10; /* bit 20 */
        want[32 + 16 + 1] = 0x40; /* bit 14 */
        want[32 + 20 + 0] = 0x20; /* bit 5  */
        want[32 + 24 + 2] = 0x08; /* bit 19 */
        want[32 + 28 + 1] = 0x08; /* bit 11 */
        CHECK(memcmp(bs, want, 64) == 0, "sbbf insert layout");
        CHECK(ref_sbbf_check(bs, 2, 0x8000000000000001ull) == 1, "sbbf present");
        CHECK(ref_sbbf_check(bs, 2, 0xFFFFFFFF00000001ull) == 1, "sbbf same block and x");
        CHECK(ref_sbbf_check(bs, 2, 0x0000000000000001ull) == 0, "sbbf other block");
        CHECK(ref_sbbf_check(bs, 2, 0x8000000000000002ull) == 0, "sbbf other x");
        bs[32 + 20] = 0;
        CHECK(ref_sbbf_check(bs, 2, 0x8000000000000001ull) == 0, "sbbf one bit cleared");
        CHECK(ref_sbbf_check(bs, 0, 1) == 0, "sbbf zero blocks");
    }
}

void st_kat_codecs(void)
{
    kat_snappy();
    kat_lz4();
}
