/* selftest_kat.c - known-answer vectors taken from / hand-derived from the
 * specifications. */
#include "selftest_common.h"

#define B(...) (const uint8_t[]){__VA_ARGS__}, sizeof((const uint8_t[]){__VA_ARGS__})

static void expect_bytes_at(int line, const uint8_t* got, size_t got_len,
                            const uint8_t* want, size_t want_len)
{
    char a[400];
    char b[400];
    int same = (got_len == want_len) && (want_len == 0 || memcmp(got, want, want_len) == 0);
    st_hex(a, sizeof a, got, got_len < 100 ? got_len : 100);
    st_hex(b, sizeof b, want, want_len < 100 ? want_len : 100);
    CHECK(same, "line %d: got [%s] (%zu) want [%s] (%zu)", line, a, got_len, b, want_len);
}
#define EXPECT_BYTES(got, got_len, ...) expect_bytes_at(__LINE__, got, got_len, __VA_ARGS__)

static void expect_u32s_at(int line, const uint32_t* got, const uint32_t* want, size_t n)
{
    size_t i;
    int same = 1;
    for (i = 0; i < n; i++) {
        if (got[i] != want[i]) {
            same = 0;
        }
    }
    CHECK(same, "line %d: value arrays differ", line);
}
#define EXPECT_U32S(got, want, n) expect_u32s_at(__LINE__, got, want, n)

/* ------------------------------------------------------------------------- */

static void kat_varint(void)
{
    uint8_t buf[16];
    size_t pos;
    uint64_t v64 = 0;
    uint32_t v32 = 0;

    pos = 0; CHECK(ref_uleb_write(0, buf, 16, &pos) == 0, "w0");
    EXPECT_BYTES(buf, pos, B(0x00));
    pos = 0; ref_uleb_write(127, buf, 16, &pos); EXPECT_BYTES(buf, pos, B(0x7F));
    pos = 0; ref_uleb_write(128, buf, 16, &pos); EXPECT_BYTES(buf, pos, B(0x80, 0x01));
    pos = 0; ref_uleb_write(300, buf, 16, &pos); EXPECT_BYTES(buf, pos, B(0xAC, 0x02));
    pos = 0; ref_uleb_write(16384, buf, 16, &pos); EXPECT_BYTES(buf, pos, B(0x80, 0x80, 0x01));
    pos = 0; ref_uleb_write(UINT64_MAX, buf, 16, &pos);
    EXPECT_BYTES(buf, pos, B(0xFF, 0xFF, 0xFF, 0xFF, 0xFF, 0xFF, 0xFF, 0xFF, 0xFF, 0x01));
    CHECK(ref_uleb_size(UINT64_MAX) == 10 && ref_uleb_size(0) == 1 && ref_uleb_size(128) == 2, "size");
    pos = 0; CHECK(ref_uleb_write(128, buf, 1, &pos) == REF_ERR_CAPACITY, "cap");
    pos = 0; CHECK(ref_uleb_write_padded(5, 3, buf, 16, &pos) == 0, "padded");
    EXPECT_BYTES(buf, pos, B(0x85, 0x80, 0x00));
    pos = 0; CHECK(ref_uleb_write_padded(300, 2, buf, 16, &pos) == 0, "padded exact");
    EXPECT_BYTES(buf, pos, B(0xAC, 0x02));
    pos = 0; CHECK(ref_uleb_write_padded(300, 1, buf, 16, &pos) == REF_ERR_ARG && pos == 1, "padded too short");
    pos = 0; CHECK(ref_uleb_write_padded(UINT64_MAX, 10, buf, 16, &pos) == 0 && pos == 10 && buf[9] == 0x01, "padded max");
    pos = 0; CHECK(ref_uleb_write_padded(1, 11, buf, 16, &pos) == REF_ERR_ARG, "padded 11");
    pos = 0; CHECK(ref_uleb_write_padded(1, 3, buf, 2, &pos) == REF_ERR_CAPACITY, "padded cap");

    pos = 0;
    CHECK(ref_uleb_read(buf, 10, &pos, &v64) == 0 && v64 == UINT64_MAX && pos == 10, "r max");
    {
        const uint8_t nonmin[] = {0x80, 0x00, 0x55};
        const uint8_t over[] = {0xFF, 0xFF, 0xFF, 0xFF, 0xFF, 0xFF, 0xFF, 0xFF, 0xFF, 0x02};
        const uint8_t eleven[] = {0x80, 0x80, 0x80, 0x80, 0x80, 0x80, 0x80, 0x80, 0x80, 0x80, 0x00};
        const uint8_t cut[] = {0x80};
        const uint8_t max32[] = {0xFF, 0xFF, 0xFF, 0xFF, 0x0F};
        const uint8_t over32[] = {0xFF, 0xFF, 0xFF, 0xFF, 0x1F};
        const uint8_t six[] = {0x80, 0x80, 0x80, 0x80, 0x80, 0x00};
        pos = 0;
        CHECK(ref_uleb_read(nonmin, 3, &pos, &v64) == 0 && v64 == 0 && pos == 2, "non-minimal");
        pos = 0; CHECK(ref_uleb_read(over, 10, &pos, &v64) == REF_ERR_CORRUPT, "overflow");
        pos = 0; CHECK(ref_uleb_read(eleven, 11, &pos, &v64) == REF_ERR_CORRUPT, "11 bytes");
        pos = 0; CHECK(ref_uleb_read(cut, 1, &pos, &v64) == REF_ERR_TRUNCATED, "cut");
        pos = 0; CHECK(ref_uleb_read(cut, 0, &pos, &v64) == REF_ERR_TRUNCATED, "empty");
        pos = 0;
        CHECK(ref_uleb32_read(max32, 5, &pos, &v32) == 0 && v32 == 0xFFFFFFFFu && pos == 5, "max32");
        pos = 0; CHECK(ref_uleb32_read(over32, 5, &pos, &v32) == REF_ERR_CORRUPT, "over32");
        pos = 0; CHECK(ref_uleb32_read(six, 6, &pos, &v32) == REF_ERR_CORRUPT, "six");
    }

    CHECK(ref_zigzag32(0) == 0 && ref_zigzag32(0xFFFFFFFFu) == 1 && ref_zigzag32(1) == 2 &&
          ref_zigzag32(0xFFFFFFFEu) == 3 && ref_zigzag32(0x7FFFFFFFu) == 0xFFFFFFFEu &&
          ref_zigzag32(0x80000000u) == 0xFFFFFFFFu, "zigzag32");
    CHECK(ref_unzigzag32(0) == 0 && ref_unzigzag32(1) == 0xFFFFFFFFu && ref_unzigzag32(2) == 1 &&
          ref_unzigzag32(3) == 0xFFFFFFFEu && ref_unzigzag32(0xFFFFFFFFu) == 0x80000000u, "unzigzag32");
    CHECK(ref_zigzag64(0xFFFFFFFFFFFFFFFEull) == 3 && ref_zigzag64(0x8000000000000000ull) == UINT64_MAX &&
          ref_zigzag64(2) == 4, "zigzag64");
    CHECK(ref_unzigzag64(3) == 0xFFFFFFFFFFFFFFFEull && ref_unzigzag64(UINT64_MAX) == 0x8000000000000000ull &&
          ref_unzigzag64(4) == 2, "unzigzag64");
}

static void kat_bitpack(void)
{
    /* Encodings.md: "The numbers 1 through 7 using bit width 3":
     * dec 0..7, bit label 10001000 11000110 11111010 */
    const uint32_t v[8] = {0, 1, 2, 3, 4, 5, 6, 7};
    const uint32_t bits[8] = {1, 0, 1, 1, 0, 0, 0, 1};
    uint32_t back[8];
    uint8_t buf[16];
    size_t len = 0;
    size_t used = 0;
    CHECK(ref_bitpack_lsb(v, 8, 3, buf, sizeof buf, &len) == 0, "pack");
    EXPECT_BYTES(buf, len, B(0x88, 0xC6, 0xFA));
    CHECK(ref_bitunpack_lsb(buf, len, 3, back, 8, &used) == 0 && used == 3, "unpack");
    EXPECT_U32S(back, v, 8);
    CHECK(ref_bitpack_lsb(bits, 8, 1, buf, sizeof buf, &len) == 0, "pack1");
    EXPECT_BYTES(buf, len, B(0x8D));
    CHECK(ref_bitpack_lsb(v, 5, 3, buf, sizeof buf, &len) == 0 && len == 2, "partial");
    EXPECT_BYTES(buf, len, B(0x88, 0x46)); /* 15 bits, top bit of byte 1 is padding */
    CHECK(ref_bitpack_lsb(v, 8, 2, buf, sizeof buf, &len) == REF_ERR_ARG, "does not fit");
    CHECK(ref_bitpack_lsb(v, 8, 33, buf, sizeof buf, &len) == REF_ERR_ARG, "bw 33");
    CHECK(ref_bitpack_lsb(v, 8, 3, buf, 2, &len) == REF_ERR_CAPACITY, "cap");
    CHECK(ref_bitunpack_lsb(buf, 2, 3, back, 8, &used) == REF_ERR_TRUNCATED, "short");
    CHECK(ref_bitpack_lsb(v, 8, 0, buf, sizeof buf, &len) == REF_ERR_ARG, "bw0 nonzero");
    CHECK(ref_bitpack_lsb(v, 1, 0, buf, sizeof buf, &len) == 0 && len == 0, "bw0 zero");
}

static void kat_rle(void)
{
    uint32_t out[128];
    uint32_t want[128];
    uint8_t buf[64];
    size_t used = 0;
    size_t len = 0;
    size_t i;

    /* a. one bit-packed group, width 3 */
    {
        const uint8_t s[] = {0x03, 0x88, 0xC6, 0xFA};
        for (i = 0; i < 8; i++) want[i] = (uint32_t)i;
        CHECK(ref_rle_hybrid_decode(s, 4, 3, out, 8, &used) == 0 && used == 4, "a");
        EXPECT_U32S(out, want, 8);
        memset(out, 0xEE, sizeof out);
        CHECK(ref_rle_hybrid_decode(s, 4, 3, out, 5, &used) == 0 && used == 4, "a5");
        EXPECT_U32S(out, want, 5);
        CHECK(out[5] == 0xEEEEEEEEu, "padding values must not be written");
        CHECK(ref_rle_hybrid_decode(s, 3, 3, out, 8, &used) == REF_ERR_TRUNCATED, "a cut");
        CHECK(ref_rle_hybrid_decode(s, 3, 3, out, 1, &used) == REF_ERR_TRUNCATED, "a cut, 1 value: run must be complete");
        CHECK(ref_rle_hybrid_decode(s, 4, 3, out, 9, &used) == REF_ERR_TRUNCATED, "a too many");
        CHECK(ref_rle_hybrid_decode(s, 4, 3, out, 0, &used) == 0 && used == 0, "count 0");
        CHECK(ref_rle_hybrid_encode_simple(want, 8, 3, buf, sizeof buf, &len) == 0, "a enc");
        EXPECT_BYTES(buf, len, B(0x03, 0x88, 0xC6, 0xFA));
    }
    /* b. RLE run of 100 x 4, width 3: header 100<<1 = 200 = C8 01 */
    {
        const uint8_t s[] = {0xC8, 0x01, 0x04};
        const uint8_t bad[] = {0xC8, 0x01, 0x08};
        for (i = 0; i < 100; i++) want[i] = 4;
        CHECK(ref_rle_hybrid_decode(s, 3, 3, out, 100, &used) == 0 && used == 3, "b");
        EXPECT_U32S(out, want, 100);
        CHECK(ref_rle_hybrid_decode(s, 3, 3, out, 40, &used) == 0 && used == 3, "b over-long run");
        CHECK(ref_rle_hybrid_decode(s, 3, 3, out, 101, &used) == REF_ERR_TRUNCATED, "b 101");
        CHECK(ref_rle_hybrid_decode(s, 2, 3, out, 100, &used) == REF_ERR_TRUNCATED, "b no value byte");
        CHECK(ref_rle_hybrid_decode(bad, 3, 3, out, 100, &used) == REF_ERR_CORRUPT, "b value too wide");
        CHECK(ref_rle_hybrid_encode_simple(want, 100, 3, buf, sizeof buf, &len) == 0, "b enc");
        EXPECT_BYTES(buf, len, B(0xC8, 0x01, 0x04));
    }
    /* c. width 9: value on two bytes */
    {
        const uint8_t s[] = {0x14, 0x2C, 0x01};
        for (i = 0; i < 10; i++) want[i] = 300;
        CHECK(ref_rle_hybrid_decode(s, 3, 9, out, 10, &used) == 0 && used == 3, "c");
        EXPECT_U32S(out, want, 10);
        CHECK(ref_rle_hybrid_encode_simple(want, 10, 9, buf, sizeof buf, &len) == 0, "c enc");
        EXPECT_BYTES(buf, len, B(0x14, 0x2C, 0x01));
    }
    /* d. RLE run then bit-packed group, width 1 */
    {
        const uint8_t s[] = {0x10, 0x01, 0x03, 0xAA};
        for (i = 0; i < 8; i++) want[i] = 1;
        for (i = 8; i < 16; i++) want[i] = (uint32_t)(i & 1);
        CHECK(ref_rle_hybrid_decode(s, 4, 1, out, 16, &used) == 0 && used == 4, "d");
        EXPECT_U32S(out, want, 16);
        CHECK(ref_rle_hybrid_encode_simple(want, 16, 1, buf, sizeof buf, &len) == 0, "d enc");
        EXPECT_BYTES(buf, len, B(0x10, 0x01, 0x03, 0xAA));
    }
    /* f. a run of 8 that does not start on a group boundary stays bit-packed */
    {
        const uint32_t v[12] = {0, 1, 0, 1, 1, 1, 1, 1, 1, 1, 1, 0};
        CHECK(ref_rle_hybrid_encode_simple(v, 12, 1, buf, sizeof buf, &len) == 0, "f enc");
        EXPECT_BYTES(buf, len, B(0x05, 0xFA, 0x07));
        CHECK(ref_rle_hybrid_decode(buf, len, 1, out, 12, &used) == 0 && used == 3, "f dec");
        EXPECT_U32S(out, v, 12);
    }
    /* g. width 0 */
    {
        const uint8_t s[] = {0xC8, 0x01};
        const uint8_t t[] = {0x03};
        memset(want, 0, sizeof want);
        memset(out, 0xEE, sizeof out);
        CHECK(ref_rle_hybrid_decode(NULL, 0, 0, out, 50, &used) == 0 && used == 0, "g empty");
        EXPECT_U32S(out, want, 50);
        memset(out, 0xEE, sizeof out);
        CHECK(ref_rle_hybrid_decode(s, 2, 0, out, 100, &used) == 0 && used == 2, "g rle");
        EXPECT_U32S(out, want, 100);
        CHECK(ref_rle_hybrid_decode(t, 1, 0, out, 8, &used) == 0 && used == 1, "g bp");
        CHECK(ref_rle_hybrid_decode(t, 1, 0, out, 9, &used) == REF_ERR_TRUNCATED, "g bp 9");
        CHECK(ref_rle_hybrid_decode(NULL, 0, 1, out, 1, &used) == REF_ERR_TRUNCATED, "empty, width 1");
        CHECK(ref_rle_hybrid_encode_simple(want, 100, 0, buf, sizeof buf, &len) == 0, "g enc");
        EXPECT_BYTES(buf, len, B(0xC8, 0x01));
    }
    /* h. header wider than 32 bits */
    {
        const uint8_t s[] = {0x80, 0x80, 0x80, 0x80, 0x10, 0x00};
        CHECK(ref_rle_hybrid_decode(s, 6, 1, out, 1, &used) == REF_ERR_CORRUPT, "h");
        CHECK(ref_rle_hybrid_decode(s, 6, 33, out, 1, &used) == REF_ERR_ARG, "width 33");
    }
    /* i. zero-length runs are skipped */
    {
        const uint8_t s[] = {0x00, 0x04, 0x01, 0xC8, 0x01, 0x04};
        for (i = 0; i < 100; i++) want[i] = 4;
        CHECK(ref_rle_hybrid_decode(s, 6, 3, out, 100, &used) == 0 && used == 6, "i");
        EXPECT_U32S(out, want, 100);
    }
    /* j. layout-directed encoder */
    {
        uint32_t v[18];
        const uint8_t l1[] = {0x08, 0x8A};
        const uint8_t l2[] = {0x80, 0x08, 0x80, 0x8A, 0x00, 0x80};
        const uint8_t l3[] = {0x05};
        const uint8_t l4[] = {0x83};
        const uint8_t l5[] = {0x08, 0x8B};
        const uint8_t l6[] = {0x10, 0x02};
        for (i = 0; i < 8; i++) v[i] = (uint32_t)i;
        for (i = 8; i < 18; i++) v[i] = 5;
        CHECK(ref_rle_hybrid_encode_layout(v, 18, 3, l1, 2, buf, sizeof buf, &len) == 0, "j1");
        EXPECT_BYTES(buf, len, B(0x03, 0x88, 0xC6, 0xFA, 0x14, 0x05));
        CHECK(ref_rle_hybrid_encode_layout(v, 18, 3, l2, 6, buf, sizeof buf, &len) == 0, "j2");
        EXPECT_BYTES(buf, len, B(0x00, 0x00, 0x03, 0x88, 0xC6, 0xFA, 0x00, 0x05, 0x14, 0x05, 0x01, 0x00, 0x00));
        CHECK(ref_rle_hybrid_decode(buf, len, 3, out, 18, &used) == 0 && used == 10, "j2 dec");
        EXPECT_U32S(out, v, 18);
        CHECK(ref_rle_hybrid_encode_layout(v, 18, 3, l3, 1, buf, sizeof buf, &len) == REF_ERR_ARG, "j3 mid-stream padding");
        CHECK(ref_rle_hybrid_encode_layout(v, 18, 3, l4, 1, buf, sizeof buf, &len) == REF_ERR_ARG, "j4 not a run");
        CHECK(ref_rle_hybrid_encode_layout(v, 18, 3, l5, 2, buf, sizeof buf, &len) == REF_ERR_ARG, "j5 past n");
        /* 16 values bit-packed in one run of 2 groups, then the last 2 in a padded group */
        CHECK(ref_rle_hybrid_encode_layout(v, 18, 3, l6, 2, buf, sizeof buf, &len) == 0, "j6");
        EXPECT_BYTES(buf, len, B(0x05, 0x88, 0xC6, 0xFA, 0x6D, 0xDB, 0xB6, 0x03, 0x2D, 0x00, 0x00));
        /* no layout: everything in one bit-packed run of 3 groups */
        CHECK(ref_rle_hybrid_encode_layout(v, 18, 3, NULL, 0, buf, sizeof buf, &len) == 0, "j7");
        EXPECT_BYTES(buf, len, B(0x07, 0x88, 0xC6, 0xFA, 0x6D, 0xDB, 0xB6, 0x2D, 0x00, 0x00));
        CHECK(ref_rle_hybrid_encode_layout(v, 18, 2, NULL, 0, buf, sizeof buf, &len) == REF_ERR_ARG, "value too wide");
        CHECK(ref_rle_hybrid_encode_layout(v, 18, 3, NULL, 0, buf, 9, &len) == REF_ERR_CAPACITY, "cap");
    }
    /* k. length-prefixed levels */
    {
        uint16_t lv[16];
        uint16_t lo[16];
        const uint8_t s[] = {0x04, 0, 0, 0, 0x10, 0x01, 0x03, 0xAA};
        const uint8_t longer[] = {0x05, 0, 0, 0, 0x10, 0x01, 0x03, 0xAA};
        const uint8_t slack[] = {0x06, 0, 0, 0, 0x10, 0x01, 0x03, 0xAA, 0xEE, 0xEE, 0x77};
        for (i = 0; i < 8; i++) lv[i] = 1;
        for (i = 8; i < 16; i++) lv[i] = (uint16_t)(i & 1);
        CHECK(ref_levels_v1_encode_simple(lv, 16, 1, buf, sizeof buf, &len) == 0, "k enc");
        EXPECT_BYTES(buf, len, B(0x04, 0, 0, 0, 0x10, 0x01, 0x03, 0xAA));
        CHECK(ref_levels_v1_decode(s, 8, 1, lo, 16, &used) == 0 && used == 8, "k dec");
        CHECK(memcmp(lo, lv, sizeof lv) == 0, "k values");
        CHECK(ref_levels_v1_decode(longer, 8, 1, lo, 16, &used) == REF_ERR_TRUNCATED, "k length past input");
        CHECK(ref_levels_v1_decode(s, 3, 1, lo, 16, &used) == REF_ERR_TRUNCATED, "k no prefix");
        CHECK(ref_levels_v1_decode(slack, 11, 1, lo, 16, &used) == 0 && used == 10, "k slack");
        CHECK(ref_levels_v1_decode(s, 8, 1, lo, 17, &used) == REF_ERR_TRUNCATED, "k 17 levels");
        CHECK(ref_levels_v1_decode(s, 8, 17, lo, 16, &used) == REF_ERR_ARG, "k width 17");
    }
}

static void kat_plain_bss(void)
{
    uint8_t buf[64];
    size_t len = 0;
    size_t used = 0;
    {
        const uint8_t b[10] = {1, 0, 1, 1, 0, 0, 0, 1, 0, 1};
        uint8_t o[10];
        CHECK(ref_plain_encode_bool(b, 10, buf, sizeof buf, &len) == 0, "bool");
        EXPECT_BYTES(buf, len, B(0x8D, 0x02));
        buf[1] = 0xFE; /* padding bits are ignored */
        CHECK(ref_plain_decode_bool(buf, 2, o, 10, &used) == 0 && used == 2 && memcmp(o, b, 10) == 0, "bool dec");
        CHECK(ref_plain_decode_bool(buf, 1, o, 10, &used) == REF_ERR_TRUNCATED, "bool cut");
    }
    {
        const uint32_t v[2] = {0x01020304u, 0xFFFFFFFEu}; /* 16909060, -2 */
        uint32_t o[2];
        CHECK(ref_plain_encode_u32(v, 2, buf, sizeof buf, &len) == 0, "u32");
        EXPECT_BYTES(buf, len, B(0x04, 0x03, 0x02, 0x01, 0xFE, 0xFF, 0xFF, 0xFF));
        CHECK(ref_plain_decode_u32(buf, 8, o, 2, &used) == 0 && used == 8 && o[0] == v[0] && o[1] == v[1], "u32 dec");
        CHECK(ref_plain_decode_u32(buf, 7, o, 2, &used) == REF_ERR_TRUNCATED, "u32 cut");
        CHECK(ref_plain_encode_u32(v, 2, buf, 7, &len) == REF_ERR_CAPACITY, "u32 cap");
    }
    {
        const uint64_t v[1] = {0x3FF0000000000000ull}; /* double 1.0 */
        uint64_t o[1];
        CHECK(ref_plain_encode_u64(v, 1, buf, sizeof buf, &len) == 0, "u64");
        EXPECT_BYTES(buf, len, B(0, 0, 0, 0, 0, 0, 0xF0, 0x3F));
        CHECK(ref_plain_decode_u64(buf, 8, o, 1, &used) == 0 && o[0] == v[0], "u64 dec");
    }
    {
        const uint32_t w[3] = {0x44332211u, 0x88776655u, 0xCCBBAA99u};
        uint32_t o[3];
        CHECK(ref_plain_encode_int96(w, 1, buf, sizeof buf, &len) == 0, "i96");
        EXPECT_BYTES(buf, len, B(0x11, 0x22, 0x33, 0x44, 0x55, 0x66, 0x77, 0x88, 0x99, 0xAA, 0xBB, 0xCC));
        CHECK(ref_plain_decode_int96(buf, 12, o, 1, &used) == 0 && used == 12 && memcmp(o, w, 12) == 0, "i96 dec");
        CHECK(ref_plain_decode_int96(buf, 11, o, 1, &used) == REF_ERR_TRUNCATED, "i96 cut");
    }
    {
        const uint8_t data[] = "helloparquet";
        const ref_span_t sp[3] = {{0, 5}, {5, 0}, {5, 7}};
        const ref_span_t bad[1] = {{8, 5}};
        ref_span_t o[3];
        uint8_t arena[16];
        size_t au = 0;
        CHECK(ref_plain_encode_byte_array(data, 12, sp, 3, buf, sizeof buf, &len) == 0, "ba");
        EXPECT_BYTES(buf, len, B(5, 0, 0, 0, 'h', 'e', 'l', 'l', 'o', 0, 0, 0, 0, 7, 0, 0, 0, 'p', 'a', 'r', 'q', 'u', 'e', 't'));
        CHECK(ref_plain_encode_byte_array(data, 12, bad, 1, buf, sizeof buf, &len) == REF_ERR_ARG, "ba bad span");
        CHECK(ref_plain_encode_byte_array(data, 12, sp, 3, buf, sizeof buf, &len) == 0, "ba again");
        CHECK(ref_plain_decode_byte_array(buf, len, 3, arena, sizeof arena, o, &au, &used) == 0 &&
              used == 24 && au == 12 && memcmp(arena, data, 12) == 0 &&
              o[0].off == 0 && o[0].len == 5 && o[1].len == 0 && o[2].off == 5 && o[2].len == 7, "ba dec");
        CHECK(ref_plain_decode_byte_array_inplace(buf, len, 3, o, &used) == 0 && used == 24 &&
              o[0].off == 4 && o[0].len == 5 && o[1].off == 13 && o[1].len == 0 && o[2].off == 17 && o[2].len == 7, "ba inplace");
        CHECK(ref_plain_decode_byte_array(buf, 23, 3, arena, sizeof arena, o, &au, &used) == REF_ERR_TRUNCATED, "ba cut");
        CHECK(ref_plain_decode_byte_array(buf, 15, 3, arena, sizeof arena, o, &au, &used) == REF_ERR_TRUNCATED, "ba cut in length");
        CHECK(ref_plain_decode_byte_array(buf, len, 3, arena, 11, o, &au, &used) == REF_ERR_CAPACITY, "ba arena");
        buf[16] = 0x80; /* length 0x80000007: far past the input */
        CHECK(ref_plain_decode_byte_array_inplace(buf, len, 3, o, &used) == REF_ERR_TRUNCATED, "ba huge length");
    }
    {
        /* Encodings.md BYTE_STREAM_SPLIT example: three 32-bit values
         * AA BB CC DD / 00 11 22 33 / A3 B4 C5 D6 ->
         * AA 00 A3 BB 11 B4 CC 22 C5 DD 33 D6 */
        const uint8_t v[12] = {0xAA, 0xBB, 0xCC, 0xDD, 0x00, 0x11, 0x22, 0x33, 0xA3, 0xB4, 0xC5, 0xD6};
        uint8_t o[12];
        size_t n = 0;
        CHECK(ref_bss_encode(v, 3, 4, buf, sizeof buf, &len) == 0, "bss");
        EXPECT_BYTES(buf, len, B(0xAA, 0x00, 0xA3, 0xBB, 0x11, 0xB4, 0xCC, 0x22, 0xC5, 0xDD, 0x33, 0xD6));
        CHECK(ref_bss_decode(buf, 12, 4, o, sizeof o, &n) == 0 && n == 3 && memcmp(o, v, 12) == 0, "bss dec");
        CHECK(ref_bss_decode(buf, 11, 4, o, sizeof o, &n) == REF_ERR_CORRUPT, "bss ragged");
        CHECK(ref_bss_decode(buf, 12, 4, o, 11, &n) == REF_ERR_CAPACITY, "bss cap");
        CHECK(ref_bss_encode(v, 3, 0, buf, sizeof buf, &len) == REF_ERR_ARG, "bss width 0");
        CHECK(ref_plain_encode_flba(v, 3, 4, buf, sizeof buf, &len) == 0 && len == 12 && memcmp(buf, v, 12) == 0, "flba");
        CHECK(ref_plain_decode_flba(v, 11, 4, o, 3, &used) == REF_ERR_TRUNCATED, "flba cut");
    }
}

static void kat_delta(void)
{
    uint8_t buf[256];
    int32_t o32[16];
    int64_t o64[16];
    size_t len = 0;
    size_t n = 0;
    size_t used = 0;

    /* Encodings.md example 2: 7,5,3,1,2,3,4,5 -> deltas -2,-2,-2,1,1,1,1,
     * min delta -2, relative deltas 0,0,0,3,3,3,3 at width 2.  (The document
     * uses a toy block size of 8; here a legal 128/4.) */
    {
        const int32_t v[8] = {7, 5, 3, 1, 2, 3, 4, 5};
        const int64_t w[8] = {7, 5, 3, 1, 2, 3, 4, 5};
        const uint8_t s[] = {0x80, 0x01, 0x04, 0x08, 0x0E, 0x03, 0x02, 0x00, 0x00, 0x00,
                             0xC0, 0x3F, 0, 0, 0, 0, 0, 0};
        uint8_t g[sizeof s];
        CHECK(ref_delta_encode_i32(v, 8, 128, 4, 0, buf, sizeof buf, &len) == 0, "ex2 enc");
        EXPECT_BYTES(buf, len, s, sizeof s);
        CHECK(ref_delta_encode_i64(w, 8, 128, 4, 0, buf, sizeof buf, &len) == 0, "ex2 enc64");
        EXPECT_BYTES(buf, len, s, sizeof s);
        CHECK(ref_delta_decode_i32(s, sizeof s, o32, 16, &n, &used) == 0 && n == 8 && used == 18 &&
              memcmp(o32, v, sizeof v) == 0, "ex2 dec");
        CHECK(ref_delta_decode_i64(s, sizeof s, o64, 16, &n, &used) == 0 && n == 8 && used == 18 &&
              memcmp(o64, w, sizeof w) == 0, "ex2 dec64");
        /* garbage in the width bytes of miniblocks that hold no value */
        memcpy(g, s, sizeof s);
        g[7] = 0xFF; g[8] = 0x41; g[9] = 0x80;
        CHECK(ref_delta_decode_i32(g, sizeof g, o32, 16, &n, &used) == 0 && n == 8 && used == 18 &&
              memcmp(o32, v, sizeof v) == 0, "ex2 garbage widths");
        CHECK(ref_delta_encode_i32(v, 8, 128, 4, 0xFF, buf, sizeof buf, &len) == 0 && len == 18 &&
              buf[6] == 2 && buf[7] == 0xFF && buf[8] == 0xFF && buf[9] == 0xFF, "unused width byte");
        /* dictated width 5 and 2-byte zig-zag varints: 8E 00 (14), 83 00 (3);
         * stored 0,0,0,3,3,3,3 at 5 bits: bits 15..16,20..21,25..26,30..31 set */
        {
            const uint8_t w5[1] = {5};
            const uint8_t w1[1] = {1};
            CHECK(ref_delta_encode_i32_widths(v, 8, 128, 4, w5, 1, 2, 0, buf, sizeof buf, &len) == 0, "ex2 widths");
            EXPECT_BYTES(buf, len, B(0x80, 0x01, 0x04, 0x08, 0x8E, 0x00, 0x83, 0x00, 0x05, 0x00, 0x00, 0x00,
                                     0x00, 0x80, 0x31, 0xC6, 0, 0, 0, 0, 0, 0, 0, 0, 0, 0, 0, 0, 0, 0, 0, 0));
            CHECK(ref_delta_decode_i32(buf, len, o32, 16, &n, &used) == 0 && n == 8 && used == len &&
                  memcmp(o32, v, sizeof v) == 0, "ex2 widths dec");
            CHECK(ref_delta_encode_i32_widths(v, 8, 128, 4, w1, 1, 0, 0, buf, sizeof buf, &len) == REF_ERR_ARG, "ex2 width too small");
            CHECK(ref_delta_encode_i32_widths(v, 8, 128, 4, w5, 0, 0, 0, buf, sizeof buf, &len) == REF_ERR_ARG, "ex2 no widths");
        }
        /* the last miniblock must be padded to full size */
        CHECK(ref_delta_decode_i32(s, sizeof s - 1, o32, 16, &n, &used) == REF_ERR_TRUNCATED, "ex2 unpadded");
        CHECK(ref_delta_decode_i32(s, 7, o32, 16, &n, &used) == REF_ERR_TRUNCATED, "ex2 widths cut");
        CHECK(ref_delta_decode_i32(s, sizeof s, o32, 7, &n, &used) == REF_ERR_CAPACITY, "ex2 cap");
        /* a used width above 32 is illegal for INT32 but fine for INT64 */
        memset(buf, 0, sizeof buf);
        memcpy(buf, s, 10);
        buf[6] = 33;
        CHECK(ref_delta_decode_i32(buf, 10 + 132, o32, 16, &n, &used) == REF_ERR_CORRUPT, "width 33 i32");
        CHECK(ref_delta_decode_i64(buf, 10 + 132, o64, 16, &n, &used) == 0 && used == 142 &&
              o64[1] == 5 && o64[7] == -7, "width 33 i64");
        CHECK(ref_delta_decode_i64(buf, 10 + 131, o64, 16, &n, &used) == REF_ERR_TRUNCATED, "width 33 cut");
        buf[6] = 65;
        CHECK(ref_delta_decode_i64(buf, sizeof buf, o64, 16, &n, &used) == REF_ERR_CORRUPT, "width 65 i64");
    }
    /* Encodings.md example 1: 1,2,3,4,5 -> min delta 1, width 0, no data */
    {
        const int32_t v[5] = {1, 2, 3, 4, 5};
        CHECK(ref_delta_encode_i32(v, 5, 128, 4, 0, buf, sizeof buf, &len) == 0, "ex1 enc");
        EXPECT_BYTES(buf, len, B(0x80, 0x01, 0x04, 0x05, 0x02, 0x02, 0x00, 0x00, 0x00, 0x00));
        CHECK(ref_delta_decode_i32(buf, len, o32, 16, &n, &used) == 0 && n == 5 && used == 10 &&
              memcmp(o32, v, sizeof v) == 0, "ex1 dec");
        CHECK(ref_delta_encode_i32(v, 0, 128, 4, 0, buf, sizeof buf, &len) == 0, "n0");
        EXPECT_BYTES(buf, len, B(0x80, 0x01, 0x04, 0x00, 0x00));
        CHECK(ref_delta_decode_i32(buf, len, o32, 16, &n, &used) == 0 && n == 0 && used == 5, "n0 dec");
        CHECK(ref_delta_decode_i32(buf, len, NULL, 0, &n, &used) == 0 && n == 0, "n0 dec NULL");
    }
    {
        const int32_t m1[1] = {-1};
        CHECK(ref_delta_encode_i32(m1, 1, 256, 8, 0, buf, sizeof buf, &len) == 0, "n1");
        EXPECT_BYTES(buf, len, B(0x80, 0x02, 0x08, 0x01, 0x01));
        CHECK(ref_delta_decode_i32(buf, len, o32, 16, &n, &used) == 0 && n == 1 && o32[0] == -1 && used == 5, "n1 dec");
    }
    /* wrap-around: INT64_MIN, INT64_MAX -> delta 2^64-1 == -1 */
    {
        const int64_t v[2] = {INT64_MIN, INT64_MAX};
        const int32_t w[3] = {INT32_MAX, INT32_MIN, INT32_MAX};
        CHECK(ref_delta_encode_i64(v, 2, 128, 4, 0, buf, sizeof buf, &len) == 0, "wrap enc");
        EXPECT_BYTES(buf, len, B(0x80, 0x01, 0x04, 0x02, 0xFF, 0xFF, 0xFF, 0xFF, 0xFF, 0xFF, 0xFF, 0xFF, 0xFF, 0x01,
                                 0x01, 0x00, 0x00, 0x00, 0x00));
        CHECK(ref_delta_decode_i64(buf, len, o64, 16, &n, &used) == 0 && n == 2 && o64[0] == INT64_MIN &&
              o64[1] == INT64_MAX, "wrap dec");
        /* INT32: deltas +1 (wrapped) and -1: min -1, stored 2 and 0, width 2 */
        CHECK(ref_delta_encode_i32(w, 3, 128, 4, 0, buf, sizeof buf, &len) == 0, "wrap32 enc");
        EXPECT_BYTES(buf, len, B(0x80, 0x01, 0x04, 0x03, 0xFE, 0xFF, 0xFF, 0xFF, 0x0F,
                                 0x01, 0x02, 0x00, 0x00, 0x00, 0x02, 0, 0, 0, 0, 0, 0, 0));
        CHECK(ref_delta_decode_i32(buf, len, o32, 16, &n, &used) == 0 && n == 3 &&
              memcmp(o32, w, sizeof w) == 0 && used == len, "wrap32 dec");
    }
    /* illegal headers */
    {
        const uint8_t h1[] = {100, 4, 1, 0};            /* block size not multiple of 128 */
        const uint8_t h2[] = {0x80, 0x01, 0, 1, 0};     /* zero miniblocks */
        const uint8_t h3[] = {0x80, 0x01, 3, 1, 0};     /* 128 / 3 */
        const uint8_t h4[] = {0x80, 0x01, 8, 1, 0};     /* 16 values per miniblock */
        const uint8_t h5[] = {0x00, 1, 1, 0};           /* block size 0 */
        const uint8_t h6[] = {0x80, 0x01, 4};           /* header cut */
        const int32_t v[1] = {0};
        CHECK(ref_delta_decode_i32(h1, sizeof h1, o32, 16, &n, &used) == REF_ERR_CORRUPT, "h1");
        CHECK(ref_delta_decode_i32(h2, sizeof h2, o32, 16, &n, &used) == REF_ERR_CORRUPT, "h2");
        CHECK(ref_delta_decode_i32(h3, sizeof h3, o32, 16, &n, &used) == REF_ERR_CORRUPT, "h3");
        CHECK(ref_delta_decode_i32(h4, sizeof h4, o32, 16, &n, &used) == REF_ERR_CORRUPT, "h4");
        CHECK(ref_delta_decode_i32(h5, sizeof h5, o32, 16, &n, &used) == REF_ERR_CORRUPT, "h5");
        CHECK(ref_delta_decode_i32(h6, sizeof h6, o32, 16, &n, &used) == REF_ERR_TRUNCATED, "h6");
        CHECK(ref_delta_encode_i32(v, 1, 100, 4, 0, buf, sizeof buf, &len) == REF_ERR_ARG, "e1");
        CHECK(ref_delta_encode_i32(v, 1, 128, 8, 0, buf, sizeof buf, &len) == REF_ERR_ARG, "e2");
        CHECK(ref_delta_encode_i32(v, 1, 128, 0, 0, buf, sizeof buf, &len) == REF_ERR_ARG, "e3");
        CHECK(ref_delta_encode_i32(v, 1, 128, 1, 0, buf, sizeof buf, &len) == 0, "e4 one miniblock is legal");
    }
    /* DELTA_LENGTH_BYTE_ARRAY, Encodings.md: "Hello", "World", "Foobar", "ABCDEF"
     * -> lengths 5,5,6,6 then "HelloWorldFoobarABCDEF" */
    {
        const uint8_t data[] = "HelloWorldFoobarABCDEF";
        const ref_span_t sp[4] = {{0, 5}, {5, 5}, {10, 6}, {16, 6}};
        int32_t scratch[8];
        uint8_t arena[32];
        ref_span_t o[4];
        size_t au = 0;
        /* lengths: first 5, deltas 0,1,0 -> min 0, stored 0,1,0 width 1 */
        CHECK(ref_delta_length_encode(data, 22, sp, 4, 128, 4, scratch, 8, buf, sizeof buf, &len) == 0, "dl enc");
        EXPECT_BYTES(buf, len, B(0x80, 0x01, 0x04, 0x04, 0x0A, 0x00, 0x01, 0x00, 0x00, 0x00, 0x02, 0x00, 0x00, 0x00,
                                 'H', 'e', 'l', 'l', 'o', 'W', 'o', 'r', 'l', 'd', 'F', 'o', 'o', 'b', 'a', 'r',
                                 'A', 'B', 'C', 'D', 'E', 'F'));
        CHECK(ref_delta_length_decode(buf, len, scratch, 8, arena, sizeof arena, o, 4, &n, &au, &used) == 0 &&
              n == 4 && au == 22 && used == len && memcmp(arena, data, 22) == 0 &&
              o[2].off == 10 && o[2].len == 6 && o[3].off == 16, "dl dec");
        CHECK(ref_delta_length_decode(buf, len - 1, scratch, 8, arena, sizeof arena, o, 4, &n, &au, &used) == REF_ERR_TRUNCATED, "dl cut");
        CHECK(ref_delta_length_decode(buf, len, scratch, 8, arena, sizeof arena, o, 3, &n, &au, &used) == REF_ERR_CAPACITY, "dl max_values");
        CHECK(ref_delta_length_decode(buf, len, scratch, 8, arena, 21, o, 4, &n, &au, &used) == REF_ERR_CAPACITY, "dl arena");
    }
    /* DELTA_BYTE_ARRAY, Encodings.md: "axis", "axle", "babble", "babyhood"
     * -> prefixes 0,2,0,3; suffixes "axis","le","babble","yhood" */
    {
        const uint8_t data[] = "axisaxlebabblebabyhood";
        const ref_span_t sp[4] = {{0, 4}, {4, 4}, {8, 6}, {14, 8}};
        const uint32_t shorter[4] = {0, 1, 0, 0};
        const uint32_t toolong[4] = {0, 3, 0, 3};
        int32_t scratch[8];
        uint8_t arena[32];
        ref_span_t o[4];
        size_t au = 0;
        CHECK(ref_delta_byte_array_encode(data, 22, sp, 4, NULL, 128, 4, scratch, 8, buf, sizeof buf, &len) == 0, "dba enc");
        /* prefixes 0,2,0,3: first 0, deltas 2,-2,3: min -2, stored 4,0,5 width 3
         *   -> bits 100 000 101 = byte0 0b01000100=0x44, byte1 0b1 -> 0x01
         * suffix lengths 4,2,6,5: first 4, deltas -2,4,-1: min -2, stored 0,6,1 width 3
         *   -> 000 110 100 -> byte0 0b01110000=0x70, byte1 0 */
        EXPECT_BYTES(buf, len, B(0x80, 0x01, 0x04, 0x04, 0x00, 0x03, 0x03, 0, 0, 0, 0x44, 0x01, 0, 0, 0, 0, 0, 0, 0, 0, 0, 0,
                                 0x80, 0x01, 0x04, 0x04, 0x08, 0x03, 0x03, 0, 0, 0, 0x70, 0x00, 0, 0, 0, 0, 0, 0, 0, 0, 0, 0,
                                 'a', 'x', 'i', 's', 'l', 'e', 'b', 'a', 'b', 'b', 'l', 'e', 'y', 'h', 'o', 'o', 'd'));
        CHECK(ref_delta_byte_array_decode(buf, len, scratch, 8, arena, sizeof arena, o, 4, &n, &au, &used) == 0 &&
              n == 4 && au == 22 && used == len && memcmp(arena, data, 22) == 0 &&
              o[1].off == 4 && o[1].len == 4 && o[3].off == 14 && o[3].len == 8, "dba dec");
        CHECK(ref_delta_byte_array_encode(data, 22, sp, 4, shorter, 128, 4, scratch, 8, buf, sizeof buf, &len) == 0, "dba shorter prefixes");
        CHECK(ref_delta_byte_array_decode(buf, len, scratch, 8, arena, sizeof arena, o, 4, &n, &au, &used) == 0 &&
              n == 4 && au == 22 && memcmp(arena, data, 22) == 0, "dba shorter dec");
        CHECK(ref_delta_byte_array_encode(data, 22, sp, 4, toolong, 128, 4, scratch, 8, buf, sizeof buf, &len) == REF_ERR_ARG, "dba prefix too long");
        CHECK(ref_delta_byte_array_encode(data, 22, sp, 4, NULL, 128, 4, scratch, 7, buf, sizeof buf, &len) == REF_ERR_CAPACITY, "dba scratch");
        /* first prefix non-zero: nothing to copy from */
        CHECK(ref_delta_byte_array_encode(data, 22, sp, 4, NULL, 128, 4, scratch, 8, buf, sizeof buf, &len) == 0, "dba again");
        buf[4] = 0x02; /* first prefix length becomes 1 */
        CHECK(ref_delta_byte_array_decode(buf, len, scratch, 8, arena, sizeof arena, o, 4, &n, &au, &used) == REF_ERR_CORRUPT, "dba first prefix");
    }
}

void st_kat_codecs(void);
void st_kat_hashes(void);

void st_kat(void)
{
    kat_varint();
    kat_bitpack();
    kat_rle();
    kat_plain_bss();
    kat_delta();
    st_kat_codecs();
    st_kat_hashes();
}
