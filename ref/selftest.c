/*
 * selftest.c - trusted-base check of the reference codecs (see README.md).
 * Build and run through selftest.sh.
 */
#include "selftest_common.h"

unsigned long st_checks = 0;
unsigned long st_failures = 0;

static uint64_t st_state = 1;

void st_seed(uint64_t seed)
{
    st_state = seed ? seed : 0x9E3779B97F4A7C15ull;
}

uint64_t st_rnd(void)
{
    st_state ^= st_state >> 12;
    st_state ^= st_state << 25;
    st_state ^= st_state >> 27;
    return st_state * 0x2545F4914F6CDD1Dull;
}

uint32_t st_below(uint32_t n)
{
    return (uint32_t)((st_rnd() >> 11) % n);
}

void st_fill(uint8_t* p, size_t n)
{
    size_t i;
    for (i = 0; i < n; i++) {
        p[i] = (uint8_t)(st_rnd() >> 32);
    }
}

void st_fill_compressible(uint8_t* p, size_t n, int level)
{
    size_t i = 0;
    if (level <= 0) {
        st_fill(p, n);
        return;
    }
    while (i < n) {
        uint32_t mode = st_below(4);
        size_t len = 1 + st_below(level == 1 ? 12 : (level == 2 ? 80 : 600));
        size_t j;
        if (len > n - i) {
            len = n - i;
        }
        if (mode == 0 || i == 0) {
            /* fresh bytes from a small alphabet */
            for (j = 0; j < len; j++) {
                p[i + j] = (uint8_t)('a' + st_below(level == 3 ? 3 : 16));
            }
        } else if (mode == 1) {
            /* run of one byte */
            memset(p + i, (int)st_below(256), len);
        } else {
            /* copy from earlier output (possibly overlapping) */
            size_t back = 1 + st_below((uint32_t)(i > 70000 ? 70000 : i));
            for (j = 0; j < len; j++) {
                p[i + j] = p[i + j - back];
            }
        }
        i += len;
    }
}

void st_hex(char* dst, size_t dst_cap, const uint8_t* p, size_t n)
{
    size_t i;
    size_t o = 0;
    dst[0] = 0;
    for (i = 0; i < n && o + 4 < dst_cap; i++) {
        o += (size_t)snprintf(dst + o, dst_cap - o, "%02X ", p[i]);
    }
}

/* ---- notes ---- */
#define ST_MAX_NOTES 64
static struct {
    char topic[160];
    char first[320];
    unsigned long count;
} st_notes[ST_MAX_NOTES];
static int st_n_notes = 0;

void st_note(const char* topic, const char* fmt, ...)
{
    int i;
    va_list ap;
    for (i = 0; i < st_n_notes; i++) {
        if (strcmp(st_notes[i].topic, topic) == 0) {
            st_notes[i].count++;
            return;
        }
    }
    if (st_n_notes == ST_MAX_NOTES) {
        return;
    }
    snprintf(st_notes[st_n_notes].topic, sizeof st_notes[0].topic, "%s", topic);
    va_start(ap, fmt);
    vsnprintf(st_notes[st_n_notes].first, sizeof st_notes[0].first, fmt, ap);
    va_end(ap);
    st_notes[st_n_notes].count = 1;
    st_n_notes++;
}

void st_print_notes(void)
{
    int i;
    for (i = 0; i < st_n_notes; i++) {
        printf("NOTE carquet differs: %s [%lu case(s); first: %s]\n",
               st_notes[i].topic, st_notes[i].count, st_notes[i].first);
    }
}

int main(void)
{
    const char* env = getenv("VERIF_SEED");
    uint64_t seed = 20260928ull;
    if (env != NULL && env[0] != 0) {
        seed = strtoull(env, NULL, 0);
    }
    printf("ref selftest: seed %llu\n", (unsigned long long)seed);

    st_seed(seed);
    st_kat();
    st_seed(seed + 1);
    st_roundtrip();
    st_seed(seed + 2);
    st_syslibs();
    st_seed(seed + 3);
    st_carquet();

    st_print_notes();
    printf("ref selftest: %lu checks, %lu failures\n", st_checks, st_failures);
    return st_failures == 0 ? 0 : 1;
}
