/*
 * ref_plain_bss.c - PLAIN encoding of every physical type, and
 * BYTE_STREAM_SPLIT.
 *
 * Source: apache/parquet-format Encodings.md, sections "Plain: (PLAIN = 0)"
 * and "Byte Stream Split: (BYTE_STREAM_SPLIT = 9)".
 *
 *   BOOLEAN              bit-packed, LSB first
 *   INT32/INT64          4/8 bytes little endian
 *   INT96                12 bytes little endian
 *   FLOAT/DOUBLE         IEEE 4/8 bytes little endian
 *   BYTE_ARRAY           length in 4 bytes little endian, then the bytes
 *   FIXED_LEN_BYTE_ARRAY the bytes
 *
 *   BYTE_STREAM_SPLIT: K streams of N bytes for N values of K bytes; byte k of
 *   value i goes to position i of stream k; streams are concatenated 0..K-1.
 */
#include "ref_internal.h"

/* ---- BOOLEAN --------------------------------------------------------------- */

int ref_plain_encode_bool(const uint8_t* v, size_t n,
                          uint8_t* out, size_t cap, size_t* out_len)
{
    uint64_t nbytes = ((uint64_t)n + 7) / 8;
    size_t i;
    if (nbytes > (uint64_t)cap) {
        return REF_ERR_CAPACITY;
    }
    ref_zero_bytes(out, (size_t)nbytes);
    for (i = 0; i < n; i++) {
        uint8_t bit = (uint8_t)(v[i] != 0);
        out[i / 8] = (uint8_t)(out[i / 8] | (uint8_t)(bit << (i % 8)));
    }
    *out_len = (size_t)nbytes;
    return REF_OK;
}

int ref_plain_decode_bool(const uint8_t* in, size_t in_len,
                          uint8_t* out, size_t count, size_t* consumed)
{
    uint64_t nbytes = ((uint64_t)count + 7) / 8;
    size_t i;
    if (nbytes > (uint64_t)in_len) {
        return REF_ERR_TRUNCATED;
    }
    for (i = 0; i < count; i++) {
        out[i] = (uint8_t)((in[i / 8] >> (i % 8)) & 1);
    }
    *consumed = (size_t)nbytes;
    return REF_OK;
}

/* ---- fixed-width little-endian numbers ------------------------------------ */

int ref_plain_encode_u32(const uint32_t* v, size_t n,
                         uint8_t* out, size_t cap, size_t* out_len)
{
    size_t i;
    if ((uint64_t)n > (uint64_t)cap / 4) {
        return REF_ERR_CAPACITY;
    }
    for (i = 0; i < n; i++) {
        ref_store_le(out + 4 * i, (uint64_t)v[i], 4);
    }
    *out_len = 4 * n;
    return REF_OK;
}

int ref_plain_decode_u32(const uint8_t* in, size_t in_len,
                         uint32_t* out, size_t count, size_t* consumed)
{
    size_t i;
    if ((uint64_t)count > (uint64_t)in_len / 4) {
        return REF_ERR_TRUNCATED;
    }
    for (i = 0; i < count; i++) {
        out[i] = ref_load_le(in + 4 * i, 4);
    }
    *consumed = 4 * count;
    return REF_OK;
}

int ref_plain_encode_u64(const uint64_t* v, size_t n,
                         uint8_t* out, size_t cap, size_t* out_len)
{
    size_t i;
    if ((uint64_t)n > (uint64_t)cap / 8) {
        return REF_ERR_CAPACITY;
    }
    for (i = 0; i < n; i++) {
        ref_store_le(out + 8 * i, v[i], 8);
    }
    *out_len = 8 * n;
    return REF_OK;
}

int ref_plain_decode_u64(const uint8_t* in, size_t in_len,
                         uint64_t* out, size_t count, size_t* consumed)
{
    size_t i;
    if ((uint64_t)count > (uint64_t)in_len / 8) {
        return REF_ERR_TRUNCATED;
    }
    for (i = 0; i < count; i++) {
        out[i] = ref_load_le64(in + 8 * i);
    }
    *consumed = 8 * count;
    return REF_OK;
}

int ref_plain_encode_int96(const uint32_t* words, size_t n,
                           uint8_t* out, size_t cap, size_t* out_len)
{
    size_t i;
    if ((uint64_t)n > (uint64_t)cap / 12) {
        return REF_ERR_CAPACITY;
    }
    for (i = 0; i < 3 * n; i++) {
        ref_store_le(out + 4 * i, (uint64_t)words[i], 4);
    }
    *out_len = 12 * n;
    return REF_OK;
}

int ref_plain_decode_int96(const uint8_t* in, size_t in_len,
                           uint32_t* words, size_t count, size_t* consumed)
{
    size_t i;
    if ((uint64_t)count > (uint64_t)in_len / 12) {
        return REF_ERR_TRUNCATED;
    }
    for (i = 0; i < 3 * count; i++) {
        words[i] = ref_load_le(in + 4 * i, 4);
    }
    *consumed = 12 * count;
    return REF_OK;
}

/* ---- FIXED_LEN_BYTE_ARRAY ---------------------------------------------------- */

int ref_plain_encode_flba(const uint8_t* v, size_t n, size_t width,
                          uint8_t* out, size_t cap, size_t* out_len)
{
    size_t total;
    size_t i;
    if (width != 0 && (uint64_t)n > (uint64_t)cap / (uint64_t)width) {
        return REF_ERR_CAPACITY;
    }
    total = n * width;
    for (i = 0; i < total; i++) {
        out[i] = v[i];
    }
    *out_len = total;
    return REF_OK;
}

int ref_plain_decode_flba(const uint8_t* in, size_t in_len, size_t width,
                          uint8_t* out, size_t count, size_t* consumed)
{
    size_t total;
    size_t i;
    if (width != 0 && (uint64_t)count > (uint64_t)in_len / (uint64_t)width) {
        return REF_ERR_TRUNCATED;
    }
    total = count * width;
    for (i = 0; i < total; i++) {
        out[i] = in[i];
    }
    *consumed = total;
    return REF_OK;
}

/* ---- BYTE_ARRAY ------------------------------------------------------------- */

int ref_plain_encode_byte_array(const uint8_t* data, size_t data_len,
                                const ref_span_t* spans, size_t n,
                                uint8_t* out, size_t cap, size_t* out_len)
{
    size_t pos = 0;
    size_t i;
    for (i = 0; i < n; i++) {
        uint64_t off = (uint64_t)spans[i].off;
        uint64_t len = (uint64_t)spans[i].len;
        uint64_t j;
        if (off > (uint64_t)data_len || len > (uint64_t)data_len - off) {
            return REF_ERR_ARG;
        }
        if (4 + len > (uint64_t)(cap - pos)) {
            return REF_ERR_CAPACITY;
        }
        ref_store_le(out + pos, len, 4);
        pos += 4;
        for (j = 0; j < len; j++) {
            out[pos + (size_t)j] = data[(size_t)(off + j)];
        }
        pos += (size_t)len;
    }
    *out_len = pos;
    return REF_OK;
}

int ref_plain_decode_byte_array(const uint8_t* in, size_t in_len, size_t count,
                                uint8_t* arena, size_t arena_cap, ref_span_t* spans,
                                size_t* arena_used, size_t* consumed)
{
    size_t pos = 0;
    size_t used = 0;
    size_t i;
    for (i = 0; i < count; i++) {
        uint64_t len;
        uint64_t j;
        if ((uint64_t)(in_len - pos) < 4) {
            return REF_ERR_TRUNCATED;
        }
        len = (uint64_t)ref_load_le(in + pos, 4);
        pos += 4;
        if (len > (uint64_t)(in_len - pos)) {
            return REF_ERR_TRUNCATED;
        }
        if (len > (uint64_t)(arena_cap - used) || (uint64_t)used > 0xFFFFFFFFu) {
            return REF_ERR_CAPACITY;
        }
        for (j = 0; j < len; j++) {
            arena[used + (size_t)j] = in[pos + (size_t)j];
        }
        spans[i].off = (uint32_t)used;
        spans[i].len = (uint32_t)len;
        used += (size_t)len;
        pos += (size_t)len;
    }
    *arena_used = used;
    *consumed = pos;
    return REF_OK;
}

int ref_plain_decode_byte_array_inplace(const uint8_t* in, size_t in_len, size_t count,
                                        ref_span_t* spans, size_t* consumed)
{
    size_t pos = 0;
    size_t i;
    for (i = 0; i < count; i++) {
        uint64_t len;
        if ((uint64_t)(in_len - pos) < 4) {
            return REF_ERR_TRUNCATED;
        }
        len = (uint64_t)ref_load_le(in + pos, 4);
        pos += 4;
        if (len > (uint64_t)(in_len - pos)) {
            return REF_ERR_TRUNCATED;
        }
        if ((uint64_t)pos > 0xFFFFFFFFu) {
            return REF_ERR_CAPACITY;
        }
        spans[i].off = (uint32_t)pos;
        spans[i].len = (uint32_t)len;
        pos += (size_t)len;
    }
    *consumed = pos;
    return REF_OK;
}

/* ---- BYTE_STREAM_SPLIT -------------------------------------------------------- */

int ref_bss_encode(const uint8_t* in, size_t n, size_t width,
                   uint8_t* out, size_t cap, size_t* out_len)
{
    size_t i;
    size_t k;
    if (width == 0) {
        return REF_ERR_ARG;
    }
    if ((uint64_t)n > (uint64_t)cap / (uint64_t)width) {
        return REF_ERR_CAPACITY;
    }
    for (i = 0; i < n; i++) {
        for (k = 0; k < width; k++) {
            out[k * n + i] = in[i * width + k];
        }
    }
    *out_len = n * width;
    return REF_OK;
}

int ref_bss_decode(const uint8_t* in, size_t in_len, size_t width,
                   uint8_t* out, size_t cap, size_t* n_values)
{
    size_t n;
    size_t i;
    size_t k;
    if (width == 0) {
        return REF_ERR_ARG;
    }
    if (in_len % width != 0) {
        return REF_ERR_CORRUPT;
    }
    if (in_len > cap) {
        return REF_ERR_CAPACITY;
    }
    n = in_len / width;
    for (i = 0; i < n; i++) {
        for (k = 0; k < width; k++) {
            out[i * width + k] = in[k * n + i];
        }
    }
    *n_values = n;
    return REF_OK;
}
