/*
 * ref_hash.c - CRC-32 (IEEE), CRC-32C (Castagnoli), XXH64.
 *
 * Sources:
 *   CRC-32: IEEE 802.3 / ITU-T V.42 / RFC 1952 section 8 (reflected algorithm,
 *           polynomial 0xEDB88320, register preset to all ones, result
 *           complemented); check value CRC("123456789") = 0xCBF43926.
 *   CRC-32C: RFC 3720 appendix B.4 (polynomial 0x1EDC6F41, reflected
 *           0x82F63B78); check value 0xE3069283.
 *   XXH64:  Cyan4973/xxHash doc/xxhash_spec.md, "XXH64 Algorithm Description".
 *
 * No tables: one shift/xor step per input bit.
 */
#include "ref_internal.h"

static uint32_t ref_crc_reflected_update(uint32_t crc, const uint8_t* p, size_t n, uint32_t poly)
{
    uint32_t reg = crc ^ 0xFFFFFFFFu;
    size_t i;
    int b;
    for (i = 0; i < n; i++) {
        reg ^= (uint32_t)p[i];
        for (b = 0; b < 8; b++) {
            uint32_t lsb = reg & 1u;
            reg = (reg >> 1) ^ (poly & (0u - lsb));
        }
    }
    return reg ^ 0xFFFFFFFFu;
}

uint32_t ref_crc32_ieee_update(uint32_t crc, const uint8_t* p, size_t n)
{
    return ref_crc_reflected_update(crc, p, n, 0xEDB88320u);
}

uint32_t ref_crc32_ieee(const uint8_t* p, size_t n)
{
    return ref_crc32_ieee_update(0, p, n);
}

uint32_t ref_crc32c_update(uint32_t crc, const uint8_t* p, size_t n)
{
    return ref_crc_reflected_update(crc, p, n, 0x82F63B78u);
}

uint32_t ref_crc32c(const uint8_t* p, size_t n)
{
    return ref_crc32c_update(0, p, n);
}

/* ---- XXH64 ------------------------------------------------------------------------ */

#define REF_XXH_P1 0x9E3779B185EBCA87ull
#define REF_XXH_P2 0xC2B2AE3D27D4EB4Full
#define REF_XXH_P3 0x165667B19E3779F9ull
#define REF_XXH_P4 0x85EBCA77C2B2AE63ull
#define REF_XXH_P5 0x27D4EB2F165667C5ull

/* r is a constant in 1..63 at every call site */
static uint64_t ref_rotl64(uint64_t x, int r)
{
    return (x << r) | (x >> (64 - r));
}

static uint64_t ref_xxh_round(uint64_t acc, uint64_t lane)
{
    acc = acc + lane * REF_XXH_P2;
    acc = ref_rotl64(acc, 31);
    return acc * REF_XXH_P1;
}

static uint64_t ref_xxh_merge(uint64_t acc, uint64_t acc_n)
{
    acc = acc ^ ref_xxh_round(0, acc_n);
    return acc * REF_XXH_P1 + REF_XXH_P4;
}

uint64_t ref_xxh64(const uint8_t* p, size_t n, uint64_t seed)
{
    uint64_t acc;
    size_t pos = 0;

    if (n >= 32) {
        /* steps 1-3: four accumulators over 32-byte stripes */
        uint64_t a1 = seed + REF_XXH_P1 + REF_XXH_P2;
        uint64_t a2 = seed + REF_XXH_P2;
        uint64_t a3 = seed;
        uint64_t a4 = seed - REF_XXH_P1;
        while (n - pos >= 32) {
            a1 = ref_xxh_round(a1, ref_load_le64(p + pos));
            a2 = ref_xxh_round(a2, ref_load_le64(p + pos + 8));
            a3 = ref_xxh_round(a3, ref_load_le64(p + pos + 16));
            a4 = ref_xxh_round(a4, ref_load_le64(p + pos + 24));
            pos += 32;
        }
        acc = ref_rotl64(a1, 1) + ref_rotl64(a2, 7) + ref_rotl64(a3, 12) + ref_rotl64(a4, 18);
        acc = ref_xxh_merge(acc, a1);
        acc = ref_xxh_merge(acc, a2);
        acc = ref_xxh_merge(acc, a3);
        acc = ref_xxh_merge(acc, a4);
    } else {
        acc = seed + REF_XXH_P5;
    }

    /* step 4: add input length */
    acc += (uint64_t)n;

    /* step 5: remaining input */
    while (n - pos >= 8) {
        uint64_t lane = ref_load_le64(p + pos);
        acc ^= ref_xxh_round(0, lane);
        acc = ref_rotl64(acc, 27) * REF_XXH_P1 + REF_XXH_P4;
        pos += 8;
    }
    if (n - pos >= 4) {
        uint64_t lane = (uint64_t)ref_load_le(p + pos, 4);
        acc ^= lane * REF_XXH_P1;
        acc = ref_rotl64(acc, 23) * REF_XXH_P2 + REF_XXH_P3;
        pos += 4;
    }
    while (pos < n) {
        uint64_t lane = (uint64_t)p[pos];
        acc ^= lane * REF_XXH_P5;
        acc = ref_rotl64(acc, 11) * REF_XXH_P1;
        pos += 1;
    }

    /* step 6: avalanche */
    acc ^= acc >> 33;
    acc *= REF_XXH_P2;
    acc ^= acc >> 29;
    acc *= REF_XXH_P3;
    acc ^= acc >> 32;
    return acc;
}
