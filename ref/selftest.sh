#!/bin/sh
# selftest.sh - trusted-base check of the reference codecs in /verif/ref.
#
#   1. every ref_*.c of this package compiles with goto-cc (CBMC front end) and
#      with clang-14 -O0 -emit-llvm; the IR holds no vector types and no
#      intrinsics other than llvm.memcpy/memset/memmove (debug/lifetime
#      markers aside);
#   2. builds selftest (gcc -O1, ASan + UBSan) in a temporary directory and
#      runs it: spec vectors, ref-encode -> ref-decode on random cases,
#      cross-checks against zlib / libxxhash / liblz4 / libsnappy and against
#      the native carquet build when present.
#
# Environment: VERIF_SEED (random seed), CARQUET_LIB (default
# /repo/_build/libcarquet.a), CARQUET_SRC (default /repo).
# Exit status 0 iff everything passed.  Last line of output:
#   ref selftest: N checks, 0 failures
set -u

HERE=$(cd "$(dirname "$0")" && pwd)
CARQUET_SRC=${CARQUET_SRC:-/repo}
CARQUET_LIB=${CARQUET_LIB:-$CARQUET_SRC/_build/libcarquet.a}
TMP=$(mktemp -d "${TMPDIR:-/tmp}/refselftest.XXXXXX") || exit 2
trap 'rm -rf "$TMP"' EXIT INT TERM

REF_SRCS="ref_rle.c ref_delta.c ref_plain_bss.c ref_snappy.c ref_lz4.c ref_hash.c ref_bloom.c"
TEST_SRCS="selftest.c selftest_kat.c selftest_kat2.c selftest_rt.c selftest_libs.c selftest_carquet.c selftest_carquet2.c"
status=0

# ---- 1. solver front ends ---------------------------------------------------
if command -v goto-cc >/dev/null 2>&1; then
    for f in $REF_SRCS; do
        if ! goto-cc -std=c11 -I"$HERE" -c "$HERE/$f" -o "$TMP/${f%.c}.gb" 2>"$TMP/goto.err"; then
            echo "FAIL goto-cc $f"; cat "$TMP/goto.err"; status=1
        fi
    done
    echo "  goto-cc: all reference sources compile"
else
    echo "  goto-cc: not found, skipped"
fi

CLANG=""
for c in clang-14 clang; do
    if command -v $c >/dev/null 2>&1; then CLANG=$c; break; fi
done
if [ -n "$CLANG" ]; then
    for f in $REF_SRCS; do
        ll="$TMP/${f%.c}.ll"
        if ! $CLANG -std=c11 -O0 -S -emit-llvm -Wall -Wextra -Werror -I"$HERE" "$HERE/$f" -o "$ll" 2>"$TMP/clang.err"; then
            echo "FAIL $CLANG $f"; cat "$TMP/clang.err"; status=1; continue
        fi
        # vector types look like "<4 x i32>"
        if grep -nE '<[0-9]+ x [a-z]' "$ll" >/dev/null; then
            echo "FAIL $f: vector type in LLVM IR"; grep -nE '<[0-9]+ x [a-z]' "$ll" | head -3; status=1
        fi
        # any intrinsic/builtin besides the three memory ones
        bad=$(grep -oE '@llvm\.[A-Za-z0-9_.]+' "$ll" | sort -u | grep -vE '^@llvm\.(memcpy|memset|memmove)\.' )
        if [ -n "$bad" ]; then
            echo "FAIL $f: unexpected intrinsics in LLVM IR: $bad"; status=1
        fi
        # no floating point, no calls outside the package except mem*
        if grep -nE '\b(float|double|fadd|fmul|fsub|fdiv|fcmp)\b' "$ll" >/dev/null; then
            echo "FAIL $f: floating point in LLVM IR"; status=1
        fi
        ext=$(grep -E '^declare ' "$ll" | grep -oE '@[A-Za-z0-9_.]+' | sort -u | grep -vE '^@(ref_|llvm\.(memcpy|memset|memmove)\.)' | grep -vE '^@(memcpy|memset|memmove|memcmp)$')
        if [ -n "$ext" ]; then
            echo "FAIL $f: external symbols other than mem*: $ext"; status=1
        fi
    done
    echo "  $CLANG -O0 -emit-llvm: IR free of vectors, floats, foreign calls and intrinsics"
else
    echo "  clang: not found, skipped"
fi

# ---- 2. build and run --------------------------------------------------------
DEFS=""
LIBS=""
INCS="-I$HERE"
[ -f /usr/include/zlib.h ]     && DEFS="$DEFS -DHAVE_ZLIB"   && LIBS="$LIBS -lz"
[ -f /usr/include/xxhash.h ]   && DEFS="$DEFS -DHAVE_XXHASH" && LIBS="$LIBS -lxxhash"
[ -f /usr/include/lz4.h ] && [ -f /usr/include/lz4hc.h ] && DEFS="$DEFS -DHAVE_LZ4" && LIBS="$LIBS -llz4"
[ -f /usr/include/snappy-c.h ] && DEFS="$DEFS -DHAVE_SNAPPY" && LIBS="$LIBS -lsnappy"
CQ=""
if [ -f "$CARQUET_LIB" ] && [ -d "$CARQUET_SRC/include" ]; then
    DEFS="$DEFS -DHAVE_CARQUET"
    INCS="$INCS -I$CARQUET_SRC/include -I$CARQUET_SRC/src"
    CQ="$CARQUET_LIB"
    # libcarquet.a pulls its own optional dependencies
    [ -f /usr/include/zstd.h ] && LIBS="$LIBS -lzstd"
    case "$LIBS" in *-lz\ *|*-lz) ;; *) LIBS="$LIBS -lz" ;; esac
    LIBS="$LIBS -fopenmp -lm"
fi

srcs=""
for f in $TEST_SRCS $REF_SRCS; do srcs="$srcs $HERE/$f"; done

build() {
    # shellcheck disable=SC2086
    gcc -std=c11 -O1 -g -fsanitize=address,undefined -fno-sanitize-recover=undefined \
        -Wall -Wextra $DEFS $INCS $srcs $CQ $LIBS -o "$TMP/selftest" 2>"$TMP/build.err"
}
if ! build; then
    if [ -n "$CQ" ]; then
        echo "  note: linking with $CARQUET_LIB failed, retrying without the carquet cross-check"
        sed 's/^/    /' "$TMP/build.err" | head -5
        DEFS=$(echo "$DEFS" | sed 's/-DHAVE_CARQUET//'); CQ=""
        build || { echo "FAIL build"; cat "$TMP/build.err"; exit 1; }
    else
        echo "FAIL build"; cat "$TMP/build.err"; exit 1
    fi
fi

ASAN_OPTIONS=detect_leaks=0 "$TMP/selftest" >"$TMP/out.txt" 2>&1
rc=$?
# keep the summary line last
grep -v '^ref selftest: [0-9]* checks' "$TMP/out.txt"
if [ $rc -ne 0 ]; then status=1; fi
if [ $status -ne 0 ]; then
    echo "FAIL: front-end or run-time check failed (see above)"
fi
summary=$(grep '^ref selftest: [0-9]* checks' "$TMP/out.txt")
if [ -z "$summary" ]; then
    echo "ref selftest: aborted (no summary; sanitizer report above?)"
    exit 1
fi
if [ $status -ne 0 ] && echo "$summary" | grep -q ', 0 failures'; then
    echo "$summary (but front-end checks failed)" | sed 's/, 0 failures/, 1 failures/'
else
    echo "$summary"
fi
exit $status
