/*
 * ref_parquet_read.h - independent reference Parquet *file reader* and
 * structural validator, written from apache/parquet-format (README "File
 * format", parquet.thrift, Encodings.md, Compression.md).  Shares no code with
 * carquet.  No malloc, no globals, no floating point.
 */
#ifndef REF_PARQUET_READ_H
#define REF_PARQUET_READ_H

#include "ref_parquet_meta.h"

/* ---- capacities (compile-time overridable) ---- */
#ifndef REF_MAX_PAGES
#define REF_MAX_PAGES 8            /* pages per column chunk (dictionary page included) */
#endif
#ifndef REF_MAX_VALUES
#define REF_MAX_VALUES 64          /* levels per column chunk                            */
#endif
#ifndef REF_MAX_DICT
#define REF_MAX_DICT 32            /* dictionary entries per column chunk                */
#endif
#ifndef REF_MAX_PAGE_BYTES
#define REF_MAX_PAGE_BYTES 1024    /* uncompressed page body                             */
#endif
#ifndef REF_MAX_SCHEMA_DEPTH
#define REF_MAX_SCHEMA_DEPTH 8     /* nesting of groups below the root                   */
#endif

/* ------------------------------------------------------------------ */
/* validation rules and their error codes (-30 ..).  Codes -10..-29     */
/* (Thrift / metadata structure errors, see ref_thrift.h and            */
/* ref_parquet_meta.h) are passed through unchanged when the footer or  */
/* a page header is malformed Thrift.                                   */
/* ------------------------------------------------------------------ */
#define REF_ERR_PQ_TOO_SHORT         (-30) /* R01 file shorter than 12 bytes                          */
#define REF_ERR_PQ_MAGIC_HEAD        (-31) /* R02 first 4 bytes != "PAR1"                             */
#define REF_ERR_PQ_MAGIC_TAIL        (-32) /* R03 last 4 bytes != "PAR1"                              */
#define REF_ERR_PQ_FOOTER_LEN        (-33) /* R04 footer length 0 or > len-12                         */
#define REF_ERR_PQ_FOOTER_TRAILING   (-34) /* R05 FileMetaData does not end exactly at the length field */
#define REF_ERR_PQ_SCHEMA_EMPTY      (-35) /* R06 schema list empty                                   */
#define REF_ERR_PQ_SCHEMA_ROOT       (-36) /* R07 root has a type or no num_children                  */
#define REF_ERR_PQ_SCHEMA_TREE       (-37) /* R08 num_children do not describe a depth-first tree that
                                                  covers exactly all elements                          */
#define REF_ERR_PQ_SCHEMA_NODE       (-38) /* R09 node is neither leaf (type, no children) nor group
                                                  (children >= 1, no type)                             */
#define REF_ERR_PQ_SCHEMA_REPETITION (-39) /* R10 non-root node without repetition_type / value not 0..2 */
#define REF_ERR_PQ_SCHEMA_TYPE       (-40) /* R11 type not 0..7, or FIXED_LEN_BYTE_ARRAY without
                                                  type_length > 0                                      */
#define REF_ERR_PQ_SCHEMA_DEPTH      (-41) /* (capacity) nesting deeper than REF_MAX_SCHEMA_DEPTH      */
#define REF_ERR_PQ_TOO_MANY_LEAVES   (-42) /* (capacity) more leaves than REF_MAX_COLUMNS              */
#define REF_ERR_PQ_RG_COLUMNS        (-43) /* R12 row group: number of column chunks != number of leaves */
#define REF_ERR_PQ_CHUNK_NO_META     (-44) /* R13 ColumnChunk without meta_data                       */
#define REF_ERR_PQ_CHUNK_TYPE        (-45) /* R14 ColumnMetaData.type != type of the schema leaf      */
#define REF_ERR_PQ_CHUNK_PATH        (-46) /* R15 path_in_schema != path of the schema leaf           */
#define REF_ERR_PQ_CHUNK_RANGE       (-47) /* R16 negative size/offset, or chunk bytes outside
                                                  [4, footer_start)                                    */
#define REF_ERR_PQ_CHUNK_OFFSETS     (-48) /* R17 dictionary_page_offset present and not < data_page_offset,
                                                  or data_page_offset outside the chunk                */
#define REF_ERR_PQ_CHUNK_OVERLAP     (-49) /* R18 two column chunks overlap                           */
#define REF_ERR_PQ_TILING            (-50) /* R19 (opt) chunks, in metadata order, do not tile
                                                  [4, footer_start) without gap                        */
#define REF_ERR_PQ_CODEC_INVALID     (-51) /* R20 codec tag not a CompressionCodec value (0..7)       */
#define REF_ERR_PQ_CODEC_UNSUPPORTED (-52) /* R21 GZIP, LZO, BROTLI, LZ4 (framed, deprecated), ZSTD   */
#define REF_ERR_PQ_PAGE_SIZES        (-53) /* R22 negative page size in a page header                 */
#define REF_ERR_PQ_PAGE_OVERRUN      (-54) /* R23 header + compressed_page_size chain does not end
                                                  exactly at chunk start + total_compressed_size       */
#define REF_ERR_PQ_PAGE_TYPE         (-55) /* R24 page type unknown / INDEX_PAGE, or the sub-header for
                                                  the type is missing                                   */
#define REF_ERR_PQ_DICT_POSITION     (-56) /* R25 dictionary page not first in chunk, or two of them  */
#define REF_ERR_PQ_NUM_VALUES        (-57) /* R26 sum of data page num_values != chunk num_values     */
#define REF_ERR_PQ_ROWS              (-58) /* R27 flat column: num_values != row group num_rows;
                                                  (read_column) repeated column: rows counted from
                                                  repetition levels != num_rows                         */
#define REF_ERR_PQ_FILE_ROWS         (-59) /* R28 sum of row group num_rows != FileMetaData.num_rows  */
#define REF_ERR_PQ_CRC               (-60) /* R29 (opt, default on) stored crc != CRC-32 of page bytes */
#define REF_ERR_PQ_CHUNK_USIZE       (-61) /* R30 (opt, default off) total_uncompressed_size !=
                                                  sum(header + uncompressed_page_size)                  */
#define REF_ERR_PQ_DECOMPRESS        (-62) /* R31 page body does not decompress                       */
#define REF_ERR_PQ_PAGE_USIZE        (-63) /* R32 uncompressed_page_size != size after decompression
                                                  (UNCOMPRESSED: != compressed_page_size)              */
#define REF_ERR_PQ_CAPACITY          (-64) /* (capacity) REF_MAX_PAGES / _PAGE_BYTES / _VALUES / _DICT /
                                                  arena exceeded                                         */
#define REF_ERR_PQ_ENCODING          (-65) /* R33 encoding not valid here (data: PLAIN,
                                                  PLAIN_DICTIONARY, RLE_DICTIONARY; dictionary page: PLAIN,
                                                  PLAIN_DICTIONARY; levels: RLE; BOOLEAN never dictionary) */
#define REF_ERR_PQ_LEVELS            (-66) /* R34 level block truncated/malformed, level > max level,
                                                  or first repetition level of a chunk != 0             */
#define REF_ERR_PQ_VALUES            (-67) /* R35 value bytes truncated / malformed                   */
#define REF_ERR_PQ_DICT_INDEX        (-68) /* R36 dictionary index >= dictionary size, index bit width
                                                  > 32, or dictionary-encoded page without dictionary   */
#define REF_ERR_PQ_ARG               (-69) /* bad argument                                            */
#define REF_ERR_PQ_V2_LENGTHS        (-70) /* R37 v2 level byte lengths negative or beyond the page   */
#define REF_ERR_PQ_V2_COUNTS         (-71) /* R38 v2 num_nulls / num_rows disagree with the levels    */
#define REF_ERR_PQ_NEGATIVE_COUNT    (-72) /* R39 negative num_values / num_rows somewhere            */
#define REF_ERR_PQ_EXTERNAL_FILE     (-73) /* R40 ColumnChunk.file_path set (data in another file)    */

typedef struct ref_pq_open_opts {
    uint8_t require_tiling;     /* R19 hard                                           (default 0) */
    uint8_t crc_hard;           /* R29 hard                                           (default 1) */
    uint8_t usize_hard;         /* R30 hard                                           (default 0) */
    uint8_t no_decompress;      /* skip R31/R32 for compressed pages                   (default 0) */
    uint8_t lz4_tag_as_raw;     /* diagnosis aid: treat codec tag LZ4 (5, deprecated, Hadoop framing) as
                                   LZ4_RAW instead of failing R21                      (default 0) */
} ref_pq_open_opts;

/* one page as found by walking a column chunk */
typedef struct ref_pq_page {
    uint32_t hdr_off;           /* file offset of the Thrift page header               */
    uint32_t hdr_len;
    uint32_t body_off;          /* = hdr_off + hdr_len                                 */
    uint32_t comp_size;         /* compressed_page_size                                */
    uint32_t uncomp_size;       /* uncompressed_page_size                              */
    int32_t  num_values;
    int32_t  encoding;
    int32_t  def_encoding;      /* v1 only                                             */
    int32_t  rep_encoding;      /* v1 only                                             */
    int32_t  v2_num_nulls;
    int32_t  v2_num_rows;
    int32_t  v2_def_len;
    int32_t  v2_rep_len;
    uint32_t crc;
    uint8_t  type;              /* REF_PAGE_*                                          */
    uint8_t  has_crc;
    uint8_t  crc_ok;            /* meaningful when has_crc                             */
    uint8_t  v2_is_compressed;
    uint8_t  has_stats;
    uint16_t hdr_unknown;       /* unknown fields skipped in PageHeader + sub-header   */
} ref_pq_page;

typedef struct ref_pq_chunk {
    uint32_t start;             /* first byte of the chunk                             */
    uint32_t end;               /* start + total_compressed_size                       */
    int32_t  n_pages;
    uint8_t  has_dict;          /* pages[0] is a dictionary page                       */
    uint8_t  usize_matches_spec;/* soft: total_uncompressed_size == sum(hdr + uncompressed_page_size) */
    uint8_t  usize_without_headers; /* soft: ... == sum(uncompressed_page_size) only    */
    uint8_t  crc_all_ok;        /* soft: every page carrying a crc verified            */
    uint8_t  encodings_listed;  /* soft: every encoding used by a page is in ColumnMetaData.encodings */
    int64_t  usize_spec;        /* sum(header size + uncompressed_page_size) over the pages           */
    ref_pq_page pages[REF_MAX_PAGES];
} ref_pq_chunk;

typedef struct ref_pq_file {
    const uint8_t* data;
    size_t         len;
    uint32_t       footer_start;          /* offset of FileMetaData                     */
    uint32_t       footer_len;
    ref_file_meta  meta;                  /* spans are offsets into data                */
    /* schema analysis */
    int32_t        n_leaves;
    int16_t        parent[REF_MAX_SCHEMA];       /* schema index of the parent, -1 for root */
    int16_t        leaf_of_schema[REF_MAX_SCHEMA]; /* leaf ordinal or -1                   */
    int16_t        schema_of_leaf[REF_MAX_COLUMNS];
    uint8_t        leaf_max_def[REF_MAX_COLUMNS];
    uint8_t        leaf_max_rep[REF_MAX_COLUMNS];
    /* page tables */
    ref_pq_chunk   chunk[REF_MAX_ROW_GROUPS][REF_MAX_COLUMNS];
    /* soft findings */
    uint8_t        tiles_exactly;         /* chunks tile [4, footer_start) in metadata order */
    uint8_t        rg_total_byte_size_ok; /* every RowGroup.total_byte_size == sum over its pages of
                                             (header size + uncompressed_page_size), i.e. the spec's
                                             "total byte size of all the uncompressed column data"    */
    uint8_t        rg_total_byte_size_is_field_sum; /* ... == sum of the stored
                                             ColumnMetaData.total_uncompressed_size fields            */
    uint8_t        rg_total_byte_size_is_compressed; /* ... == sum of total_compressed_size (wrong unless
                                             nothing is compressed)                                    */
    uint8_t        lz4_tag_as_raw;        /* copy of the open option (used by ref_pq_read_column)      */
    /* where the first failing rule was met (-1 = not applicable) */
    int32_t        err_row_group;
    int32_t        err_column;
    int32_t        err_page;
} ref_pq_file;

void ref_pq_open_opts_default(ref_pq_open_opts* o);

/* Open + validate.  `out` keeps pointers into `file`. Returns REF_OK or the
 * code of the FIRST failing rule, in the order: container (R01-R05), Thrift
 * footer, schema (R06-R11), then per row group / per column chunk in metadata
 * order (R12-R17, R20-R26, R29-R32, R27), then R18, R19, R28. */
int ref_pq_open   (const uint8_t* file, size_t len, ref_pq_file* out);
int ref_pq_open_ex(const uint8_t* file, size_t len, const ref_pq_open_opts* opts,
                   ref_pq_file* out);

/* Schema analysis alone (also used by the reference writer): fills parent[],
 * leaf tables and max levels from meta.schema.  Rules R06-R11. */
int ref_pq_analyze_schema(const ref_schema_element* schema, int32_t n_schema,
                          int16_t* parent, int16_t* leaf_of_schema,
                          int16_t* schema_of_leaf, uint8_t* leaf_max_def,
                          uint8_t* leaf_max_rep, int32_t* n_leaves);

/* textbook level rule: max_def = number of OPTIONAL or REPEATED nodes on the
 * path root(excluded)..leaf(included), max_rep = number of REPEATED ones.
 * Recomputed from the tree on each call (does not use the cached tables). */
int ref_pq_leaf_levels(const ref_pq_file* f, int leaf, int* max_def, int* max_rep);
int ref_pq_leaf_schema_index(const ref_pq_file* f, int leaf);      /* -1 if out of range */
int ref_pq_schema_leaf_index(const ref_pq_file* f, int schema_idx); /* -1 if not a leaf  */

/* decoded column chunk */
typedef struct ref_pq_column_data {
    /* in: caller-provided arena for variable-length / 12-byte values */
    uint8_t*   arena;
    uint32_t   arena_cap;
    /* out */
    uint32_t   arena_used;
    int32_t    type;
    int32_t    type_length;
    int32_t    max_def;
    int32_t    max_rep;
    uint32_t   n_levels;                 /* = chunk num_values                          */
    uint32_t   n_values;                 /* non-null values (def == max_def)            */
    uint32_t   n_rows;                   /* levels with rep == 0 (n_levels if max_rep 0) */
    uint32_t   n_dict;
    uint16_t   def[REF_MAX_VALUES];      /* zeros when max_def == 0                     */
    uint16_t   rep[REF_MAX_VALUES];      /* zeros when max_rep == 0                     */
    uint64_t   val[REF_MAX_VALUES];      /* BOOLEAN 0/1; INT32/FLOAT zero-extended bits;
                                            INT64/DOUBLE bits; other types: 0           */
    ref_span_t span[REF_MAX_VALUES];     /* BYTE_ARRAY / FIXED_LEN_BYTE_ARRAY / INT96:
                                            bytes in arena; other types: {0,0}          */
    uint64_t   dict_val[REF_MAX_DICT];
    ref_span_t dict_span[REF_MAX_DICT];
} ref_pq_column_data;

/* Decode column chunk (row_group, column) of an opened file.  Caller sets
 * out->arena / out->arena_cap first (may be NULL/0 for fixed-width types
 * <= 8 bytes); everything else in *out is overwritten. */
int ref_pq_read_column(const ref_pq_file* f, int row_group, int column,
                       ref_pq_column_data* out);

/* number of bits needed for levels 0..max_level (0 for max_level == 0) */
int ref_pq_level_bit_width(int max_level);

#endif /* REF_PARQUET_READ_H */
