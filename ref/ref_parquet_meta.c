/*
 * ref_parquet_meta.c - parse / write / compare the parquet.thrift structures
 * (see ref_parquet_meta.h).  Written from parquet.thrift.
 */
#include "ref_parquet_meta.h"
#include <string.h>

/* ================================================================== */
/* parse helpers                                                       */
/* ================================================================== */

#define REF_WANT_BOOL 0xB0   /* pseudo wire type: BOOL_TRUE or BOOL_FALSE */

/* common prologue of a known field: duplicate check, wire type check, mark */
static int ref_f_begin(uint32_t* present, int id, uint8_t got, uint8_t want)
{
    if (*present & REF_BIT(id)) return REF_ERR_META_DUP;
    if (want == REF_WANT_BOOL) {
        if (got != REF_TC_BOOL_TRUE && got != REF_TC_BOOL_FALSE) return REF_ERR_META_WIRE_TYPE;
    } else if (got != want) {
        return REF_ERR_META_WIRE_TYPE;
    }
    *present |= REF_BIT(id);
    return REF_OK;
}

static int ref_f_i16(ref_tc_reader* r, uint32_t* present, int id, uint8_t t, int16_t* dst)
{
    REF_TRY(ref_f_begin(present, id, t, REF_TC_I16));
    return ref_tc_read_i16(r, dst);
}

static int ref_f_i32(ref_tc_reader* r, uint32_t* present, int id, uint8_t t, int32_t* dst)
{
    REF_TRY(ref_f_begin(present, id, t, REF_TC_I32));
    return ref_tc_read_i32(r, dst);
}

static int ref_f_i64(ref_tc_reader* r, uint32_t* present, int id, uint8_t t, int64_t* dst)
{
    REF_TRY(ref_f_begin(present, id, t, REF_TC_I64));
    return ref_tc_read_i64(r, dst);
}

static int ref_f_bool(uint32_t* present, int id, uint8_t t, uint8_t* dst)
{
    REF_TRY(ref_f_begin(present, id, t, REF_WANT_BOOL));
    *dst = (t == REF_TC_BOOL_TRUE) ? 1 : 0;
    return REF_OK;
}

static int ref_f_binary(ref_tc_reader* r, uint32_t* present, int id, uint8_t t, ref_span_t* dst)
{
    REF_TRY(ref_f_begin(present, id, t, REF_TC_BINARY));
    return ref_tc_read_binary(r, dst);
}

static int ref_f_struct(uint32_t* present, int id, uint8_t t)
{
    return ref_f_begin(present, id, t, REF_TC_STRUCT);
}

/* list header of a known field; checks element type and table capacity.
 * An empty list may carry any element type (nothing to misread). */
static int ref_f_list(ref_tc_reader* r, uint32_t* present, int id, uint8_t t,
                      uint8_t want_elem, uint32_t max_n, int32_t* n_out)
{
    uint8_t et;
    uint32_t n;
    REF_TRY(ref_f_begin(present, id, t, REF_TC_LIST));
    REF_TRY(ref_tc_read_list(r, &et, &n, NULL));
    if (n != 0 && et != want_elem) return REF_ERR_META_ELEM_TYPE;
    if (n > max_n) return REF_ERR_META_CAPACITY;
    *n_out = (int32_t)n;
    return REF_OK;
}

static int ref_f_unknown(ref_tc_reader* r, uint8_t t, uint16_t* n_unknown)
{
    if (*n_unknown < 0xffff) *n_unknown = (uint16_t)(*n_unknown + 1);
    return ref_tc_skip(r, t, 0);
}

static int ref_required(uint32_t present, uint32_t mask)
{
    return ((present & mask) == mask) ? REF_OK : REF_ERR_META_REQUIRED;
}

/* ================================================================== */
/* parsers                                                             */
/* ================================================================== */

int ref_parse_statistics(ref_tc_reader* r, ref_statistics* o)
{
    int16_t last = 0, id = 0;
    uint8_t t;
    memset(o, 0, sizeof(*o));
    for (;;) {
        REF_TRY(ref_tc_read_field(r, &last, &id, &t, NULL));
        if (t == REF_TC_STOP) break;
        switch (id) {
        case 1: REF_TRY(ref_f_binary(r, &o->present, 1, t, &o->max)); break;
        case 2: REF_TRY(ref_f_binary(r, &o->present, 2, t, &o->min)); break;
        case 3: REF_TRY(ref_f_i64(r, &o->present, 3, t, &o->null_count)); break;
        case 4: REF_TRY(ref_f_i64(r, &o->present, 4, t, &o->distinct_count)); break;
        case 5: REF_TRY(ref_f_binary(r, &o->present, 5, t, &o->max_value)); break;
        case 6: REF_TRY(ref_f_binary(r, &o->present, 6, t, &o->min_value)); break;
        case 7: REF_TRY(ref_f_bool(&o->present, 7, t, &o->is_max_value_exact)); break;
        case 8: REF_TRY(ref_f_bool(&o->present, 8, t, &o->is_min_value_exact)); break;
        default: REF_TRY(ref_f_unknown(r, t, &o->n_unknown)); break;
        }
    }
    return REF_OK;
}

/* a thrift union written as a struct: returns the id of the single member
 * (0 when empty) and skips the member's value */
static int ref_parse_union(ref_tc_reader* r, int16_t* kind)
{
    int16_t last = 0, id = 0;
    uint8_t t;
    int n = 0;
    *kind = 0;
    for (;;) {
        REF_TRY(ref_tc_read_field(r, &last, &id, &t, NULL));
        if (t == REF_TC_STOP) break;
        n += 1;
        if (n > 1) return REF_ERR_META_UNION;
        *kind = id;
        REF_TRY(ref_tc_skip(r, t, 1));
    }
    return REF_OK;
}

int ref_parse_schema_element(ref_tc_reader* r, ref_schema_element* o)
{
    int16_t last = 0, id = 0;
    uint8_t t;
    memset(o, 0, sizeof(*o));
    for (;;) {
        REF_TRY(ref_tc_read_field(r, &last, &id, &t, NULL));
        if (t == REF_TC_STOP) break;
        switch (id) {
        case 1: REF_TRY(ref_f_i32(r, &o->present, 1, t, &o->type)); break;
        case 2: REF_TRY(ref_f_i32(r, &o->present, 2, t, &o->type_length)); break;
        case 3: REF_TRY(ref_f_i32(r, &o->present, 3, t, &o->repetition_type)); break;
        case 4: REF_TRY(ref_f_binary(r, &o->present, 4, t, &o->name)); break;
        case 5: REF_TRY(ref_f_i32(r, &o->present, 5, t, &o->num_children)); break;
        case 6: REF_TRY(ref_f_i32(r, &o->present, 6, t, &o->converted_type)); break;
        case 7: REF_TRY(ref_f_i32(r, &o->present, 7, t, &o->scale)); break;
        case 8: REF_TRY(ref_f_i32(r, &o->present, 8, t, &o->precision)); break;
        case 9: REF_TRY(ref_f_i32(r, &o->present, 9, t, &o->field_id)); break;
        case 10: {
            size_t start = r->pos;
            REF_TRY(ref_f_struct(&o->present, 10, t));
            REF_TRY(ref_parse_union(r, &o->logical_kind));
            o->logical_raw.off = (uint32_t)start;
            o->logical_raw.len = (uint32_t)(r->pos - start);
            break;
        }
        default: REF_TRY(ref_f_unknown(r, t, &o->n_unknown)); break;
        }
    }
    return ref_required(o->present, REF_BIT(REF_SE_NAME));
}

int ref_parse_key_value(ref_tc_reader* r, ref_key_value* o)
{
    int16_t last = 0, id = 0;
    uint8_t t;
    memset(o, 0, sizeof(*o));
    for (;;) {
        REF_TRY(ref_tc_read_field(r, &last, &id, &t, NULL));
        if (t == REF_TC_STOP) break;
        switch (id) {
        case 1: REF_TRY(ref_f_binary(r, &o->present, 1, t, &o->key)); break;
        case 2: REF_TRY(ref_f_binary(r, &o->present, 2, t, &o->value)); break;
        default: REF_TRY(ref_f_unknown(r, t, &o->n_unknown)); break;
        }
    }
    return ref_required(o->present, REF_BIT(REF_KV_KEY));
}

int ref_parse_sorting_column(ref_tc_reader* r, ref_sorting_column* o)
{
    int16_t last = 0, id = 0;
    uint8_t t;
    memset(o, 0, sizeof(*o));
    for (;;) {
        REF_TRY(ref_tc_read_field(r, &last, &id, &t, NULL));
        if (t == REF_TC_STOP) break;
        switch (id) {
        case 1: REF_TRY(ref_f_i32(r, &o->present, 1, t, &o->column_idx)); break;
        case 2: REF_TRY(ref_f_bool(&o->present, 2, t, &o->descending)); break;
        case 3: REF_TRY(ref_f_bool(&o->present, 3, t, &o->nulls_first)); break;
        default: REF_TRY(ref_f_unknown(r, t, &o->n_unknown)); break;
        }
    }
    return ref_required(o->present, REF_BIT(1) | REF_BIT(2) | REF_BIT(3));
}

int ref_parse_page_encoding_stats(ref_tc_reader* r, ref_page_encoding_stats* o)
{
    int16_t last = 0, id = 0;
    uint8_t t;
    memset(o, 0, sizeof(*o));
    for (;;) {
        REF_TRY(ref_tc_read_field(r, &last, &id, &t, NULL));
        if (t == REF_TC_STOP) break;
        switch (id) {
        case 1: REF_TRY(ref_f_i32(r, &o->present, 1, t, &o->page_type)); break;
        case 2: REF_TRY(ref_f_i32(r, &o->present, 2, t, &o->encoding)); break;
        case 3: REF_TRY(ref_f_i32(r, &o->present, 3, t, &o->count)); break;
        default: REF_TRY(ref_f_unknown(r, t, &o->n_unknown)); break;
        }
    }
    return ref_required(o->present, REF_BIT(1) | REF_BIT(2) | REF_BIT(3));
}

int ref_parse_column_meta(ref_tc_reader* r, ref_column_meta* o)
{
    int16_t last = 0, id = 0;
    uint8_t t;
    int32_t i;
    memset(o, 0, sizeof(*o));
    for (;;) {
        REF_TRY(ref_tc_read_field(r, &last, &id, &t, NULL));
        if (t == REF_TC_STOP) break;
        switch (id) {
        case 1: REF_TRY(ref_f_i32(r, &o->present, 1, t, &o->type)); break;
        case 2:
            REF_TRY(ref_f_list(r, &o->present, 2, t, REF_TC_I32, REF_MAX_ENCODINGS, &o->n_encodings));
            for (i = 0; i < o->n_encodings; i++) REF_TRY(ref_tc_read_i32(r, &o->encodings[i]));
            break;
        case 3:
            REF_TRY(ref_f_list(r, &o->present, 3, t, REF_TC_BINARY, REF_MAX_PATH, &o->n_path));
            for (i = 0; i < o->n_path; i++) REF_TRY(ref_tc_read_binary(r, &o->path[i]));
            break;
        case 4: REF_TRY(ref_f_i32(r, &o->present, 4, t, &o->codec)); break;
        case 5: REF_TRY(ref_f_i64(r, &o->present, 5, t, &o->num_values)); break;
        case 6: REF_TRY(ref_f_i64(r, &o->present, 6, t, &o->total_uncompressed_size)); break;
        case 7: REF_TRY(ref_f_i64(r, &o->present, 7, t, &o->total_compressed_size)); break;
        case 8:
            REF_TRY(ref_f_list(r, &o->present, 8, t, REF_TC_STRUCT, REF_MAX_KV, &o->n_kv));
            for (i = 0; i < o->n_kv; i++) REF_TRY(ref_parse_key_value(r, &o->kv[i]));
            break;
        case 9: REF_TRY(ref_f_i64(r, &o->present, 9, t, &o->data_page_offset)); break;
        case 10: REF_TRY(ref_f_i64(r, &o->present, 10, t, &o->index_page_offset)); break;
        case 11: REF_TRY(ref_f_i64(r, &o->present, 11, t, &o->dictionary_page_offset)); break;
        case 12:
            REF_TRY(ref_f_struct(&o->present, 12, t));
            REF_TRY(ref_parse_statistics(r, &o->statistics));
            break;
        case 13:
            REF_TRY(ref_f_list(r, &o->present, 13, t, REF_TC_STRUCT, REF_MAX_ENCODING_STATS, &o->n_encoding_stats));
            for (i = 0; i < o->n_encoding_stats; i++)
                REF_TRY(ref_parse_page_encoding_stats(r, &o->encoding_stats[i]));
            break;
        case 14: REF_TRY(ref_f_i64(r, &o->present, 14, t, &o->bloom_filter_offset)); break;
        case 15: REF_TRY(ref_f_i32(r, &o->present, 15, t, &o->bloom_filter_length)); break;
        default: REF_TRY(ref_f_unknown(r, t, &o->n_unknown)); break;
        }
    }
    return ref_required(o->present, REF_CM_REQUIRED_MASK);
}

int ref_parse_column_chunk(ref_tc_reader* r, ref_column_chunk* o)
{
    int16_t last = 0, id = 0;
    uint8_t t;
    memset(o, 0, sizeof(*o));
    for (;;) {
        REF_TRY(ref_tc_read_field(r, &last, &id, &t, NULL));
        if (t == REF_TC_STOP) break;
        switch (id) {
        case 1: REF_TRY(ref_f_binary(r, &o->present, 1, t, &o->file_path)); break;
        case 2: REF_TRY(ref_f_i64(r, &o->present, 2, t, &o->file_offset)); break;
        case 3:
            REF_TRY(ref_f_struct(&o->present, 3, t));
            REF_TRY(ref_parse_column_meta(r, &o->meta));
            break;
        case 4: REF_TRY(ref_f_i64(r, &o->present, 4, t, &o->offset_index_offset)); break;
        case 5: REF_TRY(ref_f_i32(r, &o->present, 5, t, &o->offset_index_length)); break;
        case 6: REF_TRY(ref_f_i64(r, &o->present, 6, t, &o->column_index_offset)); break;
        case 7: REF_TRY(ref_f_i32(r, &o->present, 7, t, &o->column_index_length)); break;
        default: REF_TRY(ref_f_unknown(r, t, &o->n_unknown)); break;
        }
    }
    return ref_required(o->present, REF_BIT(REF_CC_FILE_OFFSET));
}

int ref_parse_row_group(ref_tc_reader* r, ref_row_group* o)
{
    int16_t last = 0, id = 0;
    uint8_t t;
    int32_t i;
    memset(o, 0, sizeof(*o));
    for (;;) {
        REF_TRY(ref_tc_read_field(r, &last, &id, &t, NULL));
        if (t == REF_TC_STOP) break;
        switch (id) {
        case 1:
            REF_TRY(ref_f_list(r, &o->present, 1, t, REF_TC_STRUCT, REF_MAX_COLUMNS, &o->n_columns));
            for (i = 0; i < o->n_columns; i++) REF_TRY(ref_parse_column_chunk(r, &o->columns[i]));
            break;
        case 2: REF_TRY(ref_f_i64(r, &o->present, 2, t, &o->total_byte_size)); break;
        case 3: REF_TRY(ref_f_i64(r, &o->present, 3, t, &o->num_rows)); break;
        case 4:
            REF_TRY(ref_f_list(r, &o->present, 4, t, REF_TC_STRUCT, REF_MAX_SORTING, &o->n_sorting));
            for (i = 0; i < o->n_sorting; i++) REF_TRY(ref_parse_sorting_column(r, &o->sorting[i]));
            break;
        case 5: REF_TRY(ref_f_i64(r, &o->present, 5, t, &o->file_offset)); break;
        case 6: REF_TRY(ref_f_i64(r, &o->present, 6, t, &o->total_compressed_size)); break;
        case 7: REF_TRY(ref_f_i16(r, &o->present, 7, t, &o->ordinal)); break;
        default: REF_TRY(ref_f_unknown(r, t, &o->n_unknown)); break;
        }
    }
    return ref_required(o->present, REF_BIT(1) | REF_BIT(2) | REF_BIT(3));
}

int ref_parse_file_meta(ref_tc_reader* r, ref_file_meta* o)
{
    int16_t last = 0, id = 0;
    uint8_t t;
    int32_t i;
    memset(o, 0, sizeof(*o));
    for (;;) {
        REF_TRY(ref_tc_read_field(r, &last, &id, &t, NULL));
        if (t == REF_TC_STOP) break;
        switch (id) {
        case 1: REF_TRY(ref_f_i32(r, &o->present, 1, t, &o->version)); break;
        case 2:
            REF_TRY(ref_f_list(r, &o->present, 2, t, REF_TC_STRUCT, REF_MAX_SCHEMA, &o->n_schema));
            for (i = 0; i < o->n_schema; i++) REF_TRY(ref_parse_schema_element(r, &o->schema[i]));
            break;
        case 3: REF_TRY(ref_f_i64(r, &o->present, 3, t, &o->num_rows)); break;
        case 4:
            REF_TRY(ref_f_list(r, &o->present, 4, t, REF_TC_STRUCT, REF_MAX_ROW_GROUPS, &o->n_row_groups));
            for (i = 0; i < o->n_row_groups; i++) REF_TRY(ref_parse_row_group(r, &o->row_groups[i]));
            break;
        case 5:
            REF_TRY(ref_f_list(r, &o->present, 5, t, REF_TC_STRUCT, REF_MAX_KV, &o->n_kv));
            for (i = 0; i < o->n_kv; i++) REF_TRY(ref_parse_key_value(r, &o->kv[i]));
            break;
        case 6: REF_TRY(ref_f_binary(r, &o->present, 6, t, &o->created_by)); break;
        case 7:
            REF_TRY(ref_f_list(r, &o->present, 7, t, REF_TC_STRUCT, REF_MAX_COLUMNS, &o->n_column_orders));
            for (i = 0; i < o->n_column_orders; i++)
                REF_TRY(ref_parse_union(r, &o->column_order_kind[i]));
            break;
        default: REF_TRY(ref_f_unknown(r, t, &o->n_unknown)); break;
        }
    }
    return ref_required(o->present, REF_BIT(1) | REF_BIT(2) | REF_BIT(3) | REF_BIT(4));
}

int ref_parse_data_page_header(ref_tc_reader* r, ref_data_page_header* o)
{
    int16_t last = 0, id = 0;
    uint8_t t;
    memset(o, 0, sizeof(*o));
    for (;;) {
        REF_TRY(ref_tc_read_field(r, &last, &id, &t, NULL));
        if (t == REF_TC_STOP) break;
        switch (id) {
        case 1: REF_TRY(ref_f_i32(r, &o->present, 1, t, &o->num_values)); break;
        case 2: REF_TRY(ref_f_i32(r, &o->present, 2, t, &o->encoding)); break;
        case 3: REF_TRY(ref_f_i32(r, &o->present, 3, t, &o->definition_level_encoding)); break;
        case 4: REF_TRY(ref_f_i32(r, &o->present, 4, t, &o->repetition_level_encoding)); break;
        case 5:
            REF_TRY(ref_f_struct(&o->present, 5, t));
            REF_TRY(ref_parse_statistics(r, &o->statistics));
            break;
        default: REF_TRY(ref_f_unknown(r, t, &o->n_unknown)); break;
        }
    }
    return ref_required(o->present, REF_BIT(1) | REF_BIT(2) | REF_BIT(3) | REF_BIT(4));
}

int ref_parse_dict_page_header(ref_tc_reader* r, ref_dict_page_header* o)
{
    int16_t last = 0, id = 0;
    uint8_t t;
    memset(o, 0, sizeof(*o));
    for (;;) {
        REF_TRY(ref_tc_read_field(r, &last, &id, &t, NULL));
        if (t == REF_TC_STOP) break;
        switch (id) {
        case 1: REF_TRY(ref_f_i32(r, &o->present, 1, t, &o->num_values)); break;
        case 2: REF_TRY(ref_f_i32(r, &o->present, 2, t, &o->encoding)); break;
        case 3: REF_TRY(ref_f_bool(&o->present, 3, t, &o->is_sorted)); break;
        default: REF_TRY(ref_f_unknown(r, t, &o->n_unknown)); break;
        }
    }
    return ref_required(o->present, REF_BIT(1) | REF_BIT(2));
}

int ref_parse_data_page_header_v2(ref_tc_reader* r, ref_data_page_header_v2* o)
{
    int16_t last = 0, id = 0;
    uint8_t t;
    memset(o, 0, sizeof(*o));
    for (;;) {
        REF_TRY(ref_tc_read_field(r, &last, &id, &t, NULL));
        if (t == REF_TC_STOP) break;
        switch (id) {
        case 1: REF_TRY(ref_f_i32(r, &o->present, 1, t, &o->num_values)); break;
        case 2: REF_TRY(ref_f_i32(r, &o->present, 2, t, &o->num_nulls)); break;
        case 3: REF_TRY(ref_f_i32(r, &o->present, 3, t, &o->num_rows)); break;
        case 4: REF_TRY(ref_f_i32(r, &o->present, 4, t, &o->encoding)); break;
        case 5: REF_TRY(ref_f_i32(r, &o->present, 5, t, &o->definition_levels_byte_length)); break;
        case 6: REF_TRY(ref_f_i32(r, &o->present, 6, t, &o->repetition_levels_byte_length)); break;
        case 7: REF_TRY(ref_f_bool(&o->present, 7, t, &o->is_compressed)); break;
        case 8:
            REF_TRY(ref_f_struct(&o->present, 8, t));
            REF_TRY(ref_parse_statistics(r, &o->statistics));
            break;
        default: REF_TRY(ref_f_unknown(r, t, &o->n_unknown)); break;
        }
    }
    return ref_required(o->present,
                        REF_BIT(1) | REF_BIT(2) | REF_BIT(3) | REF_BIT(4) | REF_BIT(5) | REF_BIT(6));
}

int ref_dph2_is_compressed(const ref_data_page_header_v2* h)
{
    if (h->present & REF_BIT(7)) return h->is_compressed ? 1 : 0;
    return 1;
}

int ref_parse_page_header(ref_tc_reader* r, ref_page_header* o)
{
    int16_t last = 0, id = 0;
    uint8_t t;
    memset(o, 0, sizeof(*o));
    for (;;) {
        REF_TRY(ref_tc_read_field(r, &last, &id, &t, NULL));
        if (t == REF_TC_STOP) break;
        switch (id) {
        case 1: REF_TRY(ref_f_i32(r, &o->present, 1, t, &o->type)); break;
        case 2: REF_TRY(ref_f_i32(r, &o->present, 2, t, &o->uncompressed_page_size)); break;
        case 3: REF_TRY(ref_f_i32(r, &o->present, 3, t, &o->compressed_page_size)); break;
        case 4: REF_TRY(ref_f_i32(r, &o->present, 4, t, &o->crc)); break;
        case 5:
            REF_TRY(ref_f_struct(&o->present, 5, t));
            REF_TRY(ref_parse_data_page_header(r, &o->data));
            break;
        case 6:
            REF_TRY(ref_f_struct(&o->present, 6, t));
            REF_TRY(ref_tc_skip(r, REF_TC_STRUCT, 0));     /* IndexPageHeader {} */
            break;
        case 7:
            REF_TRY(ref_f_struct(&o->present, 7, t));
            REF_TRY(ref_parse_dict_page_header(r, &o->dict));
            break;
        case 8:
            REF_TRY(ref_f_struct(&o->present, 8, t));
            REF_TRY(ref_parse_data_page_header_v2(r, &o->data_v2));
            break;
        default: REF_TRY(ref_f_unknown(r, t, &o->n_unknown)); break;
        }
    }
    return ref_required(o->present, REF_BIT(1) | REF_BIT(2) | REF_BIT(3));
}

/* ================================================================== */
/* write helpers                                                       */
/* ================================================================== */

typedef struct ref_sw {            /* one struct being written */
    ref_meta_writer*        mw;
    const ref_struct_wopts* o;     /* may be NULL */
    int16_t                 last_id;
    int16_t                 prev_known;   /* last known field written, 0 = none yet */
} ref_sw;

void ref_meta_writer_init(ref_meta_writer* mw, uint8_t* out, size_t cap, size_t pos,
                          const uint8_t* pool, size_t pool_len,
                          const ref_meta_wopts* opts)
{
    ref_tc_writer_init(&mw->w, out, cap, pos);
    mw->pool = pool;
    mw->pool_len = pool_len;
    mw->opts = opts;
}

static void ref_sw_init(ref_sw* s, ref_meta_writer* mw, int kind)
{
    s->mw = mw;
    s->o = mw->opts ? &mw->opts->sk[kind] : NULL;
    s->last_id = 0;
    s->prev_known = 0;
}

/* emit the injected unknown fields registered for (where, anchor) */
static int ref_sw_inject(ref_sw* s, uint8_t where, int16_t anchor)
{
    int i;
    if (s->o == NULL) return REF_OK;
    for (i = 0; i < REF_MAX_INJECT; i++) {
        const ref_inject* in = &s->o->inject[i];
        if (i >= (int)s->o->n_inject) break;
        if (in->where != where) continue;
        if ((where == REF_INJ_BEFORE || where == REF_INJ_AFTER) && in->anchor_id != anchor) continue;
        REF_TRY(ref_tc_write_field(&s->mw->w, &s->last_id, in->field_id, in->wire_type,
                                   in->force_long));
        REF_TRY(ref_tc_write_sample(&s->mw->w, in->wire_type, in->variant, 0));
    }
    return REF_OK;
}

/* header of known field `id` (1..31) */
static int ref_sw_field(ref_sw* s, int16_t id, uint8_t type)
{
    int force = 0;
    if (s->prev_known == 0) REF_TRY(ref_sw_inject(s, REF_INJ_BEGIN, 0));
    else REF_TRY(ref_sw_inject(s, REF_INJ_AFTER, s->prev_known));
    REF_TRY(ref_sw_inject(s, REF_INJ_BEFORE, id));
    if (s->o != NULL) force = (int)((s->o->long_form_mask >> id) & 1u);
    REF_TRY(ref_tc_write_field(&s->mw->w, &s->last_id, id, type, force));
    s->prev_known = id;
    return REF_OK;
}

static int ref_sw_end(ref_sw* s)
{
    if (s->prev_known == 0) REF_TRY(ref_sw_inject(s, REF_INJ_BEGIN, 0));
    else REF_TRY(ref_sw_inject(s, REF_INJ_AFTER, s->prev_known));
    REF_TRY(ref_sw_inject(s, REF_INJ_END, 0));
    return ref_tc_write_stop(&s->mw->w);
}

static int ref_sw_i16(ref_sw* s, int16_t id, int16_t v)
{
    REF_TRY(ref_sw_field(s, id, REF_TC_I16));
    return ref_tc_write_i16(&s->mw->w, v);
}

static int ref_sw_i32(ref_sw* s, int16_t id, int32_t v)
{
    REF_TRY(ref_sw_field(s, id, REF_TC_I32));
    return ref_tc_write_i32(&s->mw->w, v);
}

static int ref_sw_i64(ref_sw* s, int16_t id, int64_t v)
{
    REF_TRY(ref_sw_field(s, id, REF_TC_I64));
    return ref_tc_write_i64(&s->mw->w, v);
}

static int ref_sw_bool(ref_sw* s, int16_t id, int v)
{
    return ref_sw_field(s, id, v ? REF_TC_BOOL_TRUE : REF_TC_BOOL_FALSE);
}

static int ref_w_span(ref_meta_writer* mw, ref_span_t sp)
{
    if ((size_t)sp.off > mw->pool_len || (size_t)sp.len > mw->pool_len - (size_t)sp.off)
        return REF_ERR_META_POOL;
    if (sp.len == 0) return ref_tc_write_binary(&mw->w, mw->pool, 0);
    return ref_tc_write_binary(&mw->w, mw->pool + sp.off, sp.len);
}

static int ref_sw_span(ref_sw* s, int16_t id, ref_span_t sp)
{
    REF_TRY(ref_sw_field(s, id, REF_TC_BINARY));
    return ref_w_span(s->mw, sp);
}

static int ref_sw_list(ref_sw* s, int16_t id, uint8_t elem_type, int32_t n)
{
    int lng = (s->o != NULL) ? (int)s->o->long_list_size : 0;
    if (n < 0) return REF_ERR_TC_ARG;
    REF_TRY(ref_sw_field(s, id, REF_TC_LIST));
    return ref_tc_write_list(&s->mw->w, elem_type, (uint32_t)n, lng);
}

#define REF_HAS(v, id) (((v)->present & REF_BIT(id)) != 0)

/* ================================================================== */
/* writers                                                             */
/* ================================================================== */

int ref_write_statistics(ref_meta_writer* mw, const ref_statistics* v)
{
    ref_sw s;
    ref_sw_init(&s, mw, REF_SK_STATISTICS);
    if (REF_HAS(v, 1)) REF_TRY(ref_sw_span(&s, 1, v->max));
    if (REF_HAS(v, 2)) REF_TRY(ref_sw_span(&s, 2, v->min));
    if (REF_HAS(v, 3)) REF_TRY(ref_sw_i64(&s, 3, v->null_count));
    if (REF_HAS(v, 4)) REF_TRY(ref_sw_i64(&s, 4, v->distinct_count));
    if (REF_HAS(v, 5)) REF_TRY(ref_sw_span(&s, 5, v->max_value));
    if (REF_HAS(v, 6)) REF_TRY(ref_sw_span(&s, 6, v->min_value));
    if (REF_HAS(v, 7)) REF_TRY(ref_sw_bool(&s, 7, v->is_max_value_exact));
    if (REF_HAS(v, 8)) REF_TRY(ref_sw_bool(&s, 8, v->is_min_value_exact));
    return ref_sw_end(&s);
}

int ref_write_schema_element(ref_meta_writer* mw, const ref_schema_element* v)
{
    ref_sw s;
    ref_sw_init(&s, mw, REF_SK_SCHEMA_ELEMENT);
    if (REF_HAS(v, 1)) REF_TRY(ref_sw_i32(&s, 1, v->type));
    if (REF_HAS(v, 2)) REF_TRY(ref_sw_i32(&s, 2, v->type_length));
    if (REF_HAS(v, 3)) REF_TRY(ref_sw_i32(&s, 3, v->repetition_type));
    if (REF_HAS(v, 4)) REF_TRY(ref_sw_span(&s, 4, v->name));
    if (REF_HAS(v, 5)) REF_TRY(ref_sw_i32(&s, 5, v->num_children));
    if (REF_HAS(v, 6)) REF_TRY(ref_sw_i32(&s, 6, v->converted_type));
    if (REF_HAS(v, 7)) REF_TRY(ref_sw_i32(&s, 7, v->scale));
    if (REF_HAS(v, 8)) REF_TRY(ref_sw_i32(&s, 8, v->precision));
    if (REF_HAS(v, 9)) REF_TRY(ref_sw_i32(&s, 9, v->field_id));
    if (REF_HAS(v, 10)) {
        REF_TRY(ref_sw_field(&s, 10, REF_TC_STRUCT));
        if (v->logical_raw.len != 0) {
            ref_span_t sp = v->logical_raw;
            if ((size_t)sp.off > mw->pool_len || (size_t)sp.len > mw->pool_len - (size_t)sp.off)
                return REF_ERR_META_POOL;
            REF_TRY(ref_tc_write_bytes(&mw->w, mw->pool + sp.off, sp.len));
        } else {
            /* union with one empty-struct member (STRING, MAP, LIST, ENUM, DATE,
             * UNKNOWN, JSON, BSON, UUID, FLOAT16 have no parameters) */
            int16_t last = 0;
            if (v->logical_kind != 0) {
                REF_TRY(ref_tc_write_field(&mw->w, &last, v->logical_kind, REF_TC_STRUCT, 0));
                REF_TRY(ref_tc_write_stop(&mw->w));
            }
            REF_TRY(ref_tc_write_stop(&mw->w));
        }
    }
    return ref_sw_end(&s);
}

int ref_write_key_value(ref_meta_writer* mw, const ref_key_value* v)
{
    ref_sw s;
    ref_sw_init(&s, mw, REF_SK_KEY_VALUE);
    if (REF_HAS(v, 1)) REF_TRY(ref_sw_span(&s, 1, v->key));
    if (REF_HAS(v, 2)) REF_TRY(ref_sw_span(&s, 2, v->value));
    return ref_sw_end(&s);
}

int ref_write_sorting_column(ref_meta_writer* mw, const ref_sorting_column* v)
{
    ref_sw s;
    ref_sw_init(&s, mw, REF_SK_SORTING_COLUMN);
    if (REF_HAS(v, 1)) REF_TRY(ref_sw_i32(&s, 1, v->column_idx));
    if (REF_HAS(v, 2)) REF_TRY(ref_sw_bool(&s, 2, v->descending));
    if (REF_HAS(v, 3)) REF_TRY(ref_sw_bool(&s, 3, v->nulls_first));
    return ref_sw_end(&s);
}

int ref_write_page_encoding_stats(ref_meta_writer* mw, const ref_page_encoding_stats* v)
{
    ref_sw s;
    ref_sw_init(&s, mw, REF_SK_PAGE_ENCODING_STATS);
    if (REF_HAS(v, 1)) REF_TRY(ref_sw_i32(&s, 1, v->page_type));
    if (REF_HAS(v, 2)) REF_TRY(ref_sw_i32(&s, 2, v->encoding));
    if (REF_HAS(v, 3)) REF_TRY(ref_sw_i32(&s, 3, v->count));
    return ref_sw_end(&s);
}

int ref_write_column_meta(ref_meta_writer* mw, const ref_column_meta* v)
{
    ref_sw s;
    int32_t i;
    ref_sw_init(&s, mw, REF_SK_COLUMN_META);
    if (v->n_encodings > REF_MAX_ENCODINGS || v->n_path > REF_MAX_PATH || v->n_kv > REF_MAX_KV ||
        v->n_encoding_stats > REF_MAX_ENCODING_STATS)
        return REF_ERR_META_CAPACITY;
    if (REF_HAS(v, 1)) REF_TRY(ref_sw_i32(&s, 1, v->type));
    if (REF_HAS(v, 2)) {
        REF_TRY(ref_sw_list(&s, 2, REF_TC_I32, v->n_encodings));
        for (i = 0; i < v->n_encodings; i++) REF_TRY(ref_tc_write_i32(&mw->w, v->encodings[i]));
    }
    if (REF_HAS(v, 3)) {
        REF_TRY(ref_sw_list(&s, 3, REF_TC_BINARY, v->n_path));
        for (i = 0; i < v->n_path; i++) REF_TRY(ref_w_span(mw, v->path[i]));
    }
    if (REF_HAS(v, 4)) REF_TRY(ref_sw_i32(&s, 4, v->codec));
    if (REF_HAS(v, 5)) REF_TRY(ref_sw_i64(&s, 5, v->num_values));
    if (REF_HAS(v, 6)) REF_TRY(ref_sw_i64(&s, 6, v->total_uncompressed_size));
    if (REF_HAS(v, 7)) REF_TRY(ref_sw_i64(&s, 7, v->total_compressed_size));
    if (REF_HAS(v, 8)) {
        REF_TRY(ref_sw_list(&s, 8, REF_TC_STRUCT, v->n_kv));
        for (i = 0; i < v->n_kv; i++) REF_TRY(ref_write_key_value(mw, &v->kv[i]));
    }
    if (REF_HAS(v, 9)) REF_TRY(ref_sw_i64(&s, 9, v->data_page_offset));
    if (REF_HAS(v, 10)) REF_TRY(ref_sw_i64(&s, 10, v->index_page_offset));
    if (REF_HAS(v, 11)) REF_TRY(ref_sw_i64(&s, 11, v->dictionary_page_offset));
    if (REF_HAS(v, 12)) {
        REF_TRY(ref_sw_field(&s, 12, REF_TC_STRUCT));
        REF_TRY(ref_write_statistics(mw, &v->statistics));
    }
    if (REF_HAS(v, 13)) {
        REF_TRY(ref_sw_list(&s, 13, REF_TC_STRUCT, v->n_encoding_stats));
        for (i = 0; i < v->n_encoding_stats; i++)
            REF_TRY(ref_write_page_encoding_stats(mw, &v->encoding_stats[i]));
    }
    if (REF_HAS(v, 14)) REF_TRY(ref_sw_i64(&s, 14, v->bloom_filter_offset));
    if (REF_HAS(v, 15)) REF_TRY(ref_sw_i32(&s, 15, v->bloom_filter_length));
    return ref_sw_end(&s);
}

int ref_write_column_chunk(ref_meta_writer* mw, const ref_column_chunk* v)
{
    ref_sw s;
    ref_sw_init(&s, mw, REF_SK_COLUMN_CHUNK);
    if (REF_HAS(v, 1)) REF_TRY(ref_sw_span(&s, 1, v->file_path));
    if (REF_HAS(v, 2)) REF_TRY(ref_sw_i64(&s, 2, v->file_offset));
    if (REF_HAS(v, 3)) {
        REF_TRY(ref_sw_field(&s, 3, REF_TC_STRUCT));
        REF_TRY(ref_write_column_meta(mw, &v->meta));
    }
    if (REF_HAS(v, 4)) REF_TRY(ref_sw_i64(&s, 4, v->offset_index_offset));
    if (REF_HAS(v, 5)) REF_TRY(ref_sw_i32(&s, 5, v->offset_index_length));
    if (REF_HAS(v, 6)) REF_TRY(ref_sw_i64(&s, 6, v->column_index_offset));
    if (REF_HAS(v, 7)) REF_TRY(ref_sw_i32(&s, 7, v->column_index_length));
    return ref_sw_end(&s);
}

int ref_write_row_group(ref_meta_writer* mw, const ref_row_group* v)
{
    ref_sw s;
    int32_t i;
    ref_sw_init(&s, mw, REF_SK_ROW_GROUP);
    if (v->n_columns > REF_MAX_COLUMNS || v->n_sorting > REF_MAX_SORTING) return REF_ERR_META_CAPACITY;
    if (REF_HAS(v, 1)) {
        REF_TRY(ref_sw_list(&s, 1, REF_TC_STRUCT, v->n_columns));
        for (i = 0; i < v->n_columns; i++) REF_TRY(ref_write_column_chunk(mw, &v->columns[i]));
    }
    if (REF_HAS(v, 2)) REF_TRY(ref_sw_i64(&s, 2, v->total_byte_size));
    if (REF_HAS(v, 3)) REF_TRY(ref_sw_i64(&s, 3, v->num_rows));
    if (REF_HAS(v, 4)) {
        REF_TRY(ref_sw_list(&s, 4, REF_TC_STRUCT, v->n_sorting));
        for (i = 0; i < v->n_sorting; i++) REF_TRY(ref_write_sorting_column(mw, &v->sorting[i]));
    }
    if (REF_HAS(v, 5)) REF_TRY(ref_sw_i64(&s, 5, v->file_offset));
    if (REF_HAS(v, 6)) REF_TRY(ref_sw_i64(&s, 6, v->total_compressed_size));
    if (REF_HAS(v, 7)) REF_TRY(ref_sw_i16(&s, 7, v->ordinal));
    return ref_sw_end(&s);
}

int ref_write_file_meta(ref_meta_writer* mw, const ref_file_meta* v)
{
    ref_sw s;
    int32_t i;
    ref_sw_init(&s, mw, REF_SK_FILE_META);
    if (v->n_schema > REF_MAX_SCHEMA || v->n_row_groups > REF_MAX_ROW_GROUPS ||
        v->n_kv > REF_MAX_KV || v->n_column_orders > REF_MAX_COLUMNS)
        return REF_ERR_META_CAPACITY;
    if (REF_HAS(v, 1)) REF_TRY(ref_sw_i32(&s, 1, v->version));
    if (REF_HAS(v, 2)) {
        REF_TRY(ref_sw_list(&s, 2, REF_TC_STRUCT, v->n_schema));
        for (i = 0; i < v->n_schema; i++) REF_TRY(ref_write_schema_element(mw, &v->schema[i]));
    }
    if (REF_HAS(v, 3)) REF_TRY(ref_sw_i64(&s, 3, v->num_rows));
    if (REF_HAS(v, 4)) {
        REF_TRY(ref_sw_list(&s, 4, REF_TC_STRUCT, v->n_row_groups));
        for (i = 0; i < v->n_row_groups; i++) REF_TRY(ref_write_row_group(mw, &v->row_groups[i]));
    }
    if (REF_HAS(v, 5)) {
        REF_TRY(ref_sw_list(&s, 5, REF_TC_STRUCT, v->n_kv));
        for (i = 0; i < v->n_kv; i++) REF_TRY(ref_write_key_value(mw, &v->kv[i]));
    }
    if (REF_HAS(v, 6)) REF_TRY(ref_sw_span(&s, 6, v->created_by));
    if (REF_HAS(v, 7)) {
        REF_TRY(ref_sw_list(&s, 7, REF_TC_STRUCT, v->n_column_orders));
        for (i = 0; i < v->n_column_orders; i++) {
            int16_t last = 0;
            if (v->column_order_kind[i] != 0) {
                REF_TRY(ref_tc_write_field(&mw->w, &last, v->column_order_kind[i], REF_TC_STRUCT, 0));
                REF_TRY(ref_tc_write_stop(&mw->w));
            }
            REF_TRY(ref_tc_write_stop(&mw->w));
        }
    }
    return ref_sw_end(&s);
}

int ref_write_data_page_header(ref_meta_writer* mw, const ref_data_page_header* v)
{
    ref_sw s;
    ref_sw_init(&s, mw, REF_SK_DATA_PAGE_HEADER);
    if (REF_HAS(v, 1)) REF_TRY(ref_sw_i32(&s, 1, v->num_values));
    if (REF_HAS(v, 2)) REF_TRY(ref_sw_i32(&s, 2, v->encoding));
    if (REF_HAS(v, 3)) REF_TRY(ref_sw_i32(&s, 3, v->definition_level_encoding));
    if (REF_HAS(v, 4)) REF_TRY(ref_sw_i32(&s, 4, v->repetition_level_encoding));
    if (REF_HAS(v, 5)) {
        REF_TRY(ref_sw_field(&s, 5, REF_TC_STRUCT));
        REF_TRY(ref_write_statistics(mw, &v->statistics));
    }
    return ref_sw_end(&s);
}

int ref_write_dict_page_header(ref_meta_writer* mw, const ref_dict_page_header* v)
{
    ref_sw s;
    ref_sw_init(&s, mw, REF_SK_DICT_PAGE_HEADER);
    if (REF_HAS(v, 1)) REF_TRY(ref_sw_i32(&s, 1, v->num_values));
    if (REF_HAS(v, 2)) REF_TRY(ref_sw_i32(&s, 2, v->encoding));
    if (REF_HAS(v, 3)) REF_TRY(ref_sw_bool(&s, 3, v->is_sorted));
    return ref_sw_end(&s);
}

int ref_write_data_page_header_v2(ref_meta_writer* mw, const ref_data_page_header_v2* v)
{
    ref_sw s;
    ref_sw_init(&s, mw, REF_SK_DATA_PAGE_HEADER_V2);
    if (REF_HAS(v, 1)) REF_TRY(ref_sw_i32(&s, 1, v->num_values));
    if (REF_HAS(v, 2)) REF_TRY(ref_sw_i32(&s, 2, v->num_nulls));
    if (REF_HAS(v, 3)) REF_TRY(ref_sw_i32(&s, 3, v->num_rows));
    if (REF_HAS(v, 4)) REF_TRY(ref_sw_i32(&s, 4, v->encoding));
    if (REF_HAS(v, 5)) REF_TRY(ref_sw_i32(&s, 5, v->definition_levels_byte_length));
    if (REF_HAS(v, 6)) REF_TRY(ref_sw_i32(&s, 6, v->repetition_levels_byte_length));
    if (REF_HAS(v, 7)) REF_TRY(ref_sw_bool(&s, 7, v->is_compressed));
    if (REF_HAS(v, 8)) {
        REF_TRY(ref_sw_field(&s, 8, REF_TC_STRUCT));
        REF_TRY(ref_write_statistics(mw, &v->statistics));
    }
    return ref_sw_end(&s);
}

int ref_write_page_header(ref_meta_writer* mw, const ref_page_header* v)
{
    ref_sw s;
    ref_sw_init(&s, mw, REF_SK_PAGE_HEADER);
    if (REF_HAS(v, 1)) REF_TRY(ref_sw_i32(&s, 1, v->type));
    if (REF_HAS(v, 2)) REF_TRY(ref_sw_i32(&s, 2, v->uncompressed_page_size));
    if (REF_HAS(v, 3)) REF_TRY(ref_sw_i32(&s, 3, v->compressed_page_size));
    if (REF_HAS(v, 4)) REF_TRY(ref_sw_i32(&s, 4, v->crc));
    if (REF_HAS(v, 5)) {
        REF_TRY(ref_sw_field(&s, 5, REF_TC_STRUCT));
        REF_TRY(ref_write_data_page_header(mw, &v->data));
    }
    if (REF_HAS(v, 6)) {
        REF_TRY(ref_sw_field(&s, 6, REF_TC_STRUCT));
        REF_TRY(ref_tc_write_stop(&mw->w));
    }
    if (REF_HAS(v, 7)) {
        REF_TRY(ref_sw_field(&s, 7, REF_TC_STRUCT));
        REF_TRY(ref_write_dict_page_header(mw, &v->dict));
    }
    if (REF_HAS(v, 8)) {
        REF_TRY(ref_sw_field(&s, 8, REF_TC_STRUCT));
        REF_TRY(ref_write_data_page_header_v2(mw, &v->data_v2));
    }
    return ref_sw_end(&s);
}

/* ================================================================== */
/* comparison                                                          */
/* ================================================================== */

int ref_span_equal(const ref_cmp_ctx* c, ref_span_t a, ref_span_t b)
{
    if (a.len != b.len) return 0;
    if ((size_t)a.off > c->alen || (size_t)a.len > c->alen - (size_t)a.off) return 0;
    if ((size_t)b.off > c->blen || (size_t)b.len > c->blen - (size_t)b.off) return 0;
    if (a.len == 0) return 1;
    return memcmp(c->abuf + a.off, c->bbuf + b.off, a.len) == 0;
}

#define REF_EQ_SCALAR(id, f) do { if (REF_HAS(a, id) && a->f != b->f) return 0; } while (0)
#define REF_EQ_SPAN(id, f)   do { if (REF_HAS(a, id) && !ref_span_equal(c, a->f, b->f)) return 0; } while (0)

int ref_statistics_equal(const ref_cmp_ctx* c, const ref_statistics* a, const ref_statistics* b)
{
    if (a->present != b->present) return 0;
    REF_EQ_SPAN(1, max);
    REF_EQ_SPAN(2, min);
    REF_EQ_SCALAR(3, null_count);
    REF_EQ_SCALAR(4, distinct_count);
    REF_EQ_SPAN(5, max_value);
    REF_EQ_SPAN(6, min_value);
    REF_EQ_SCALAR(7, is_max_value_exact);
    REF_EQ_SCALAR(8, is_min_value_exact);
    return 1;
}

int ref_schema_element_equal(const ref_cmp_ctx* c, const ref_schema_element* a, const ref_schema_element* b)
{
    if (a->present != b->present) return 0;
    REF_EQ_SCALAR(1, type);
    REF_EQ_SCALAR(2, type_length);
    REF_EQ_SCALAR(3, repetition_type);
    REF_EQ_SPAN(4, name);
    REF_EQ_SCALAR(5, num_children);
    REF_EQ_SCALAR(6, converted_type);
    REF_EQ_SCALAR(7, scale);
    REF_EQ_SCALAR(8, precision);
    REF_EQ_SCALAR(9, field_id);
    REF_EQ_SCALAR(10, logical_kind);
    return 1;
}

int ref_key_value_equal(const ref_cmp_ctx* c, const ref_key_value* a, const ref_key_value* b)
{
    if (a->present != b->present) return 0;
    REF_EQ_SPAN(1, key);
    REF_EQ_SPAN(2, value);
    return 1;
}

int ref_column_meta_equal(const ref_cmp_ctx* c, const ref_column_meta* a, const ref_column_meta* b)
{
    int32_t i;
    if (a->present != b->present) return 0;
    REF_EQ_SCALAR(1, type);
    if (REF_HAS(a, 2)) {
        if (a->n_encodings != b->n_encodings) return 0;
        for (i = 0; i < a->n_encodings && i < REF_MAX_ENCODINGS; i++)
            if (a->encodings[i] != b->encodings[i]) return 0;
    }
    if (REF_HAS(a, 3)) {
        if (a->n_path != b->n_path) return 0;
        for (i = 0; i < a->n_path && i < REF_MAX_PATH; i++)
            if (!ref_span_equal(c, a->path[i], b->path[i])) return 0;
    }
    REF_EQ_SCALAR(4, codec);
    REF_EQ_SCALAR(5, num_values);
    REF_EQ_SCALAR(6, total_uncompressed_size);
    REF_EQ_SCALAR(7, total_compressed_size);
    if (REF_HAS(a, 8)) {
        if (a->n_kv != b->n_kv) return 0;
        for (i = 0; i < a->n_kv && i < REF_MAX_KV; i++)
            if (!ref_key_value_equal(c, &a->kv[i], &b->kv[i])) return 0;
    }
    REF_EQ_SCALAR(9, data_page_offset);
    REF_EQ_SCALAR(10, index_page_offset);
    REF_EQ_SCALAR(11, dictionary_page_offset);
    if (REF_HAS(a, 12) && !ref_statistics_equal(c, &a->statistics, &b->statistics)) return 0;
    if (REF_HAS(a, 13)) {
        if (a->n_encoding_stats != b->n_encoding_stats) return 0;
        for (i = 0; i < a->n_encoding_stats && i < REF_MAX_ENCODING_STATS; i++) {
            const ref_page_encoding_stats* x = &a->encoding_stats[i];
            const ref_page_encoding_stats* y = &b->encoding_stats[i];
            if (x->present != y->present || x->page_type != y->page_type ||
                x->encoding != y->encoding || x->count != y->count)
                return 0;
        }
    }
    REF_EQ_SCALAR(14, bloom_filter_offset);
    REF_EQ_SCALAR(15, bloom_filter_length);
    return 1;
}

int ref_column_chunk_equal(const ref_cmp_ctx* c, const ref_column_chunk* a, const ref_column_chunk* b)
{
    if (a->present != b->present) return 0;
    REF_EQ_SPAN(1, file_path);
    REF_EQ_SCALAR(2, file_offset);
    if (REF_HAS(a, 3) && !ref_column_meta_equal(c, &a->meta, &b->meta)) return 0;
    REF_EQ_SCALAR(4, offset_index_offset);
    REF_EQ_SCALAR(5, offset_index_length);
    REF_EQ_SCALAR(6, column_index_offset);
    REF_EQ_SCALAR(7, column_index_length);
    return 1;
}

int ref_row_group_equal(const ref_cmp_ctx* c, const ref_row_group* a, const ref_row_group* b)
{
    int32_t i;
    if (a->present != b->present) return 0;
    if (REF_HAS(a, 1)) {
        if (a->n_columns != b->n_columns) return 0;
        for (i = 0; i < a->n_columns && i < REF_MAX_COLUMNS; i++)
            if (!ref_column_chunk_equal(c, &a->columns[i], &b->columns[i])) return 0;
    }
    REF_EQ_SCALAR(2, total_byte_size);
    REF_EQ_SCALAR(3, num_rows);
    if (REF_HAS(a, 4)) {
        if (a->n_sorting != b->n_sorting) return 0;
        for (i = 0; i < a->n_sorting && i < REF_MAX_SORTING; i++) {
            const ref_sorting_column* x = &a->sorting[i];
            const ref_sorting_column* y = &b->sorting[i];
            if (x->present != y->present || x->column_idx != y->column_idx ||
                x->descending != y->descending || x->nulls_first != y->nulls_first)
                return 0;
        }
    }
    REF_EQ_SCALAR(5, file_offset);
    REF_EQ_SCALAR(6, total_compressed_size);
    REF_EQ_SCALAR(7, ordinal);
    return 1;
}

int ref_file_meta_equal(const ref_cmp_ctx* c, const ref_file_meta* a, const ref_file_meta* b)
{
    int32_t i;
    if (a->present != b->present) return 0;
    REF_EQ_SCALAR(1, version);
    if (REF_HAS(a, 2)) {
        if (a->n_schema != b->n_schema) return 0;
        for (i = 0; i < a->n_schema && i < REF_MAX_SCHEMA; i++)
            if (!ref_schema_element_equal(c, &a->schema[i], &b->schema[i])) return 0;
    }
    REF_EQ_SCALAR(3, num_rows);
    if (REF_HAS(a, 4)) {
        if (a->n_row_groups != b->n_row_groups) return 0;
        for (i = 0; i < a->n_row_groups && i < REF_MAX_ROW_GROUPS; i++)
            if (!ref_row_group_equal(c, &a->row_groups[i], &b->row_groups[i])) return 0;
    }
    if (REF_HAS(a, 5)) {
        if (a->n_kv != b->n_kv) return 0;
        for (i = 0; i < a->n_kv && i < REF_MAX_KV; i++)
            if (!ref_key_value_equal(c, &a->kv[i], &b->kv[i])) return 0;
    }
    REF_EQ_SPAN(6, created_by);
    if (REF_HAS(a, 7)) {
        if (a->n_column_orders != b->n_column_orders) return 0;
        for (i = 0; i < a->n_column_orders && i < REF_MAX_COLUMNS; i++)
            if (a->column_order_kind[i] != b->column_order_kind[i]) return 0;
    }
    return 1;
}

int ref_page_header_equal(const ref_cmp_ctx* c, const ref_page_header* a, const ref_page_header* b)
{
    if (a->present != b->present) return 0;
    REF_EQ_SCALAR(1, type);
    REF_EQ_SCALAR(2, uncompressed_page_size);
    REF_EQ_SCALAR(3, compressed_page_size);
    REF_EQ_SCALAR(4, crc);
    if (REF_HAS(a, 5)) {
        const ref_data_page_header* x = &a->data;
        const ref_data_page_header* y = &b->data;
        if (x->present != y->present) return 0;
        if (x->num_values != y->num_values || x->encoding != y->encoding ||
            x->definition_level_encoding != y->definition_level_encoding ||
            x->repetition_level_encoding != y->repetition_level_encoding)
            return 0;
        if ((x->present & REF_BIT(5)) && !ref_statistics_equal(c, &x->statistics, &y->statistics)) return 0;
    }
    if (REF_HAS(a, 7)) {
        const ref_dict_page_header* x = &a->dict;
        const ref_dict_page_header* y = &b->dict;
        if (x->present != y->present) return 0;
        if (x->num_values != y->num_values || x->encoding != y->encoding) return 0;
        if ((x->present & REF_BIT(3)) && x->is_sorted != y->is_sorted) return 0;
    }
    if (REF_HAS(a, 8)) {
        const ref_data_page_header_v2* x = &a->data_v2;
        const ref_data_page_header_v2* y = &b->data_v2;
        if (x->present != y->present) return 0;
        if (x->num_values != y->num_values || x->num_nulls != y->num_nulls ||
            x->num_rows != y->num_rows || x->encoding != y->encoding ||
            x->definition_levels_byte_length != y->definition_levels_byte_length ||
            x->repetition_levels_byte_length != y->repetition_levels_byte_length)
            return 0;
        if ((x->present & REF_BIT(7)) && x->is_compressed != y->is_compressed) return 0;
        if ((x->present & REF_BIT(8)) && !ref_statistics_equal(c, &x->statistics, &y->statistics)) return 0;
    }
    return 1;
}
