#!/bin/sh
# selftest_pq.sh - build and run the self-test of the reference Thrift codec and
# the reference Parquet reader/writer (selftest_pq.c).
#   (ii) Thrift known-answer vectors, (i) ref-write -> ref-read identity over
#   random descriptions, (iii) cross-check with the native carquet build.
# Builds in a mktemp -d directory that is removed at exit.  Exit status != 0 on
# any failure of the *reference*; "NOTE carquet differs" lines never fail it.
# Environment: VERIF_SEED (rng seed), VERIF_PQ_ITER (random descriptions,
# default 6000), CARQUET_LIB / CARQUET_INC (default /repo/_build/libcarquet.a,
# /repo/include), VERIF_PQ_ONLY=<group>:<iter> (replay one (iii-b) case).
set -eu
here=$(cd "$(dirname "$0")" && pwd)
tmp=$(mktemp -d "${TMPDIR:-/tmp}/selftest_pq.XXXXXX")
trap 'rm -rf "$tmp"' EXIT INT TERM

CARQUET_LIB=${CARQUET_LIB:-/repo/_build/libcarquet.a}
CARQUET_INC=${CARQUET_INC:-/repo/include}
CC=${CC:-gcc}

REF_SRCS="ref_thrift.c ref_parquet_meta.c ref_parquet_read.c ref_parquet_write.c ref_rle.c ref_snappy.c ref_lz4.c ref_hash.c"
# the self-test uses larger tables than the solver defaults
DEFS="-DREF_MAX_VALUES=512 -DREF_MAX_PAGE_BYTES=16384 -DREF_MAX_PAGES=16"
CFLAGS="-std=gnu11 -O1 -g -fno-omit-frame-pointer -fsanitize=address,undefined -fno-sanitize-recover=undefined -Wall -Wextra"

cd "$here"
if [ -f "$CARQUET_LIB" ]; then
    zstd=""
    for z in /root/miniconda/lib/libzstd.a /usr/lib/x86_64-linux-gnu/libzstd.a; do
        if [ -f "$z" ]; then zstd=$z; break; fi
    done
    [ -n "$zstd" ] || zstd="-lzstd"
    # shellcheck disable=SC2086
    $CC $CFLAGS $DEFS -DWITH_CARQUET -I"$CARQUET_INC" -o "$tmp/selftest_pq" selftest_pq.c $REF_SRCS \
        "$CARQUET_LIB" $zstd -lz -fopenmp -pthread -lm
else
    echo "selftest_pq: $CARQUET_LIB not found, part (iii) is skipped" >&2
    # shellcheck disable=SC2086
    $CC $CFLAGS $DEFS -o "$tmp/selftest_pq" selftest_pq.c $REF_SRCS
fi

# the solver-facing files must also compile with the default (small) tables, strictly
# shellcheck disable=SC2086
for f in ref_thrift.c ref_parquet_meta.c ref_parquet_read.c ref_parquet_write.c; do
    $CC -std=c11 -pedantic -Wall -Wextra -Wconversion -Werror -c "$f" -o "$tmp/strict.o"
done

# ... and be accepted by the two front ends of the solver engines
if command -v goto-cc >/dev/null 2>&1; then
    for f in ref_thrift.c ref_parquet_meta.c ref_parquet_read.c ref_parquet_write.c; do
        goto-cc -c "$f" -o "$tmp/x.gb"
    done
    echo "goto-cc: ok"
else
    echo "goto-cc not found: skipped" >&2
fi
if command -v clang-14 >/dev/null 2>&1; then
    for f in ref_thrift.c ref_parquet_meta.c ref_parquet_read.c ref_parquet_write.c; do
        clang-14 -O0 -Xclang -disable-O0-optnone -Wall -Wextra -Werror -S -emit-llvm "$f" -o "$tmp/x.ll"
        # only memcpy/memset/memcmp/memmove/strlen may be called from outside ref_*
        if grep -o 'call [^@]*@[A-Za-z_.0-9]*' "$tmp/x.ll" | sed 's/.*@//' | \
           grep -v -E '^(ref_|llvm\.memcpy|llvm\.memset|llvm\.memmove|memcmp$|memcpy$|memset$|memmove$|strlen$)' | grep . ; then
            echo "selftest_pq: $f calls something outside the allowed libc subset" >&2
            exit 1
        fi
    done
    echo "clang-14 -emit-llvm: ok"
else
    echo "clang-14 not found: skipped" >&2
fi

ASAN_OPTIONS=detect_leaks=0:abort_on_error=0 UBSAN_OPTIONS=print_stacktrace=1 "$tmp/selftest_pq" "$tmp"
