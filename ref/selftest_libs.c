/* selftest_libs.c - cross-checks against the canonical implementations when
 * the system provides them (zlib, libxxhash, liblz4, libsnappy).  Each block is
 * compiled only if selftest.sh found the header (-DHAVE_...). */
#include "selftest_common.h"

#ifdef HAVE_ZLIB
#include <zlib.h>
#endif
#ifdef HAVE_XXHASH
#include <xxhash.h>
#endif
#ifdef HAVE_LZ4
#include <lz4.h>
#include <lz4hc.h>
#endif
#ifdef HAVE_SNAPPY
#include <snappy-c.h>
#endif

size_t st_gen_snappy_script(ref_snappy_elem_t* sc, size_t max_elems, size_t max_out, size_t* lit_needed);
size_t st_gen_lz4_script(ref_lz4_seq_t* sq, size_t max_seqs, size_t max_out, size_t* lit_needed);

#define BIG (100 * 1024)

/* Mutate a stream in place: returns the new length (<= cap). */
static size_t mutate(uint8_t* s, size_t len, size_t cap)
{
    uint32_t how = st_below(6);
    size_t k;
    if (len == 0) {
        s[0] = (uint8_t)st_rnd();
        return 1;
    }
    if (how == 0) {
        return st_below((uint32_t)len + 1);                    /* truncate */
    }
    if (how == 1 && len + 4 <= cap) {
        size_t extra = 1 + st_below(4);                          /* append garbage */
        st_fill(s + len, extra);
        return len + extra;
    }
    if (how == 2) {
        s[st_below((uint32_t)(len < 6 ? len : 6))] = (uint8_t)st_rnd(); /* hit the head */
        return len;
    }
    for (k = 0; k < 1 + st_below(3); k++) {                      /* flip bytes anywhere */
        size_t at = st_below((uint32_t)len);
        s[at] = (uint8_t)(st_below(2) ? st_rnd() : (s[at] ^ (1u << st_below(8))));
    }
    return len;
}

void st_syslibs(void)
{
    static uint8_t src[BIG];
    static uint8_t comp[BIG * 2 + 1024];
    static uint8_t dec[BIG + 64];
    static uint8_t dec2[BIG + 64];
    int c;
    (void)src; (void)comp; (void)dec; (void)dec2; (void)c;

#ifdef HAVE_ZLIB
    for (c = 0; c < 3000; c++) {
        size_t n = st_below(c % 50 == 0 ? 70000 : 600);
        size_t cut = st_below((uint32_t)n + 1);
        uint32_t start = st_below(2) ? 0 : (uint32_t)st_rnd();
        st_fill(src, n);
        CHECK(ref_crc32_ieee(src, n) == (uint32_t)crc32(0L, src, (uInt)n), "crc32 vs zlib n %zu", n);
        CHECK(ref_crc32_ieee_update(start, src, n) == (uint32_t)crc32(start, src, (uInt)n), "crc32 update vs zlib");
        CHECK(ref_crc32_ieee_update(ref_crc32_ieee_update(0, src, cut), src + cut, n - cut) ==
              (uint32_t)crc32(0L, src, (uInt)n), "crc32 split");
    }
    printf("  zlib crc32 cross-check: on\n");
#else
    printf("  zlib crc32 cross-check: off (no zlib.h)\n");
#endif

#ifdef HAVE_XXHASH
    for (c = 0; c < 3000; c++) {
        size_t n = c <= 300 ? (size_t)c : st_below(c % 50 == 0 ? 70000 : 600);
        uint64_t seed = st_below(3) == 0 ? 0 : st_rnd();
        st_fill(src, n);
        CHECK(ref_xxh64(src, n, seed) == (uint64_t)XXH64(src, n, seed), "xxh64 vs libxxhash n %zu", n);
    }
    printf("  libxxhash XXH64 cross-check: on\n");
#else
    printf("  libxxhash XXH64 cross-check: off (vectors only)\n");
#endif

#ifdef HAVE_SNAPPY
    /* a. canonical compressor -> reference decoder */
    for (c = 0; c < 400; c++) {
        size_t n = c < 40 ? (size_t)c : st_below(c % 10 == 0 ? BIG : 5000);
        size_t cl = sizeof comp;
        size_t dl = 0;
        uint32_t ul = 0;
        size_t hl = 0;
        int rc;
        st_fill_compressible(src, n, c % 4);
        CHECK(snappy_compress((const char*)src, n, (char*)comp, &cl) == SNAPPY_OK, "snappy_compress");
        rc = ref_snappy_decode(comp, cl, dec, sizeof dec, &dl);
        CHECK(rc == 0 && dl == n && memcmp(dec, src, n) == 0, "libsnappy -> ref n %zu rc %d", n, rc);
        CHECK(ref_snappy_uncompressed_length(comp, cl, &ul, &hl) == 0 && ul == n, "uncompressed_length");
    }
    /* b. reference script encoder -> canonical decoder; c. mutated streams:
     * same verdict and same bytes */
    {
        enum { MAXE = 24, MAXOUT = 2500 };
        static ref_snappy_elem_t sc[MAXE];
        static uint8_t lit[MAXOUT];
        static uint8_t exp[MAXOUT];
        unsigned long both_ok = 0;
        unsigned long both_bad = 0;
        for (c = 0; c < 20000; c++) {
            size_t need = 0;
            size_t ne = st_gen_snappy_script(sc, MAXE, MAXOUT, &need);
            size_t el = 0;
            size_t xl = 0;
            size_t dl = 70000;
            size_t rl = 0;
            int rc;
            int lib;
            st_fill(lit, need);
            rc = ref_snappy_encode_script(sc, ne, lit, need, comp, sizeof comp, &el, exp, sizeof exp, &xl);
            CHECK(rc == 0, "script");
            lib = snappy_uncompress((const char*)comp, el, (char*)dec, &dl);
            CHECK(lib == SNAPPY_OK && dl == xl && memcmp(dec, exp, xl) == 0, "ref script -> libsnappy (%d)", lib);

            el = mutate(comp, el, sizeof comp);
            dl = 70000;
            lib = snappy_uncompress((const char*)comp, el, (char*)dec, &dl);
            rc = ref_snappy_decode(comp, el, dec2, 70000, &rl);
            CHECK((lib == SNAPPY_OK) == (rc == 0), "mutated stream verdict: libsnappy %d ref %d (len %zu)", lib, rc, el);
            if (rc != REF_ERR_CAPACITY) {
                CHECK((snappy_validate_compressed_buffer((const char*)comp, el) == SNAPPY_OK) == (rc == 0),
                      "mutated stream validate vs ref %d", rc);
            }
            if (lib == SNAPPY_OK && rc == 0) {
                CHECK(dl == rl && memcmp(dec, dec2, rl) == 0, "mutated stream bytes");
                both_ok++;
            } else {
                both_bad++;
            }
        }
        printf("  libsnappy cross-check: on (mutated streams: %lu accepted by both, %lu rejected by both)\n", both_ok, both_bad);
    }
#else
    printf("  libsnappy cross-check: off (no snappy-c.h)\n");
#endif

#ifdef HAVE_LZ4
    /* a. canonical compressors -> reference decoder, end rules enforced */
    for (c = 0; c < 400; c++) {
        size_t n = c < 40 ? (size_t)c : st_below(c % 10 == 0 ? BIG : 5000);
        size_t dl = 0;
        int cl;
        int rc;
        st_fill_compressible(src, n, c % 4);
        cl = (c & 1) ? LZ4_compress_HC((const char*)src, (char*)comp, (int)n, (int)sizeof comp, 1 + (int)st_below(12))
                     : LZ4_compress_default((const char*)src, (char*)comp, (int)n, (int)sizeof comp);
        CHECK(cl > 0, "LZ4_compress");
        rc = ref_lz4_block_decode(comp, (size_t)cl, dec, n, &dl, 1);
        CHECK(rc == 0 && dl == n && memcmp(dec, src, n) == 0, "liblz4 -> ref n %zu rc %d", n, rc);
    }
    {
        enum { MAXS = 12, MAXOUT = 4000 };
        static ref_lz4_seq_t sq[MAXS + 1];
        static uint8_t lit[MAXOUT];
        static uint8_t exp[MAXOUT];
        unsigned long lib_ok = 0;
        unsigned long ref_only = 0;
        unsigned long both_bad = 0;
        unsigned long zero_off = 0;
        for (c = 0; c < 20000; c++) {
            size_t need = 0;
            size_t ns = st_gen_lz4_script(sq, MAXS, MAXOUT, &need);
            size_t el = 0;
            size_t xl = 0;
            size_t rl = 0;
            int rc;
            int strict;
            int lib;
            st_fill(lit, need);
            rc = ref_lz4_encode_script(sq, ns, lit, need, comp, sizeof comp, &el, exp, sizeof exp, &xl);
            CHECK(rc == 0, "script");
            strict = ref_lz4_block_decode(comp, el, dec2, 8192, &rl, 1);
            lib = LZ4_decompress_safe((const char*)comp, (char*)dec, (int)el, 8192);
            if (strict == 0) {
                /* obeys the end-of-block rules: the canonical decoder must take it */
                CHECK(lib == (int)xl && memcmp(dec, exp, xl) == 0, "ref script -> liblz4 (%d, want %zu)", lib, xl);
            } else if (lib >= 0) {
                CHECK(lib == (int)xl && memcmp(dec, exp, xl) == 0, "ref script (rule-breaking) -> liblz4 bytes");
            }

            /* mutated: whatever liblz4 accepts, the lenient reference accepts
             * with the same bytes (liblz4 also refuses some rule-breaking
             * streams, so the converse does not hold) */
            el = mutate(comp, el, sizeof comp);
            lib = LZ4_decompress_safe((const char*)comp, (char*)dec, (int)el, 8192);
            rc = ref_lz4_block_decode(comp, el, dec2, 8192, &rl, 0);
            if (lib >= 0 && rc == REF_ERR_CORRUPT) {
                /* liblz4 1.9.x lets a zero offset through (and copies whatever
                 * is in the output buffer); lz4_Block_format.md: "The presence
                 * of a 0 offset value denotes an invalid (corrupted) block."
                 * The only other REF_ERR_CORRUPT cause, offset > produced, is
                 * refused by liblz4 too, so the stream must hold a 00 00 pair. */
                size_t z;
                int has_zero_offset = 0;
                for (z = 0; z + 1 < el; z++) {
                    if (comp[z] == 0 && comp[z + 1] == 0) has_zero_offset = 1;
                }
                CHECK(has_zero_offset, "mutated stream: liblz4 %d ref CORRUPT without a zero offset (len %zu)", lib, el);
                zero_off++;
            } else if (lib >= 0) {
                CHECK(rc == 0 && rl == (size_t)lib && memcmp(dec, dec2, rl) == 0,
                      "mutated stream: liblz4 %d ref %d (len %zu)", lib, rc, el);
                lib_ok++;
            } else if (rc == 0) {
                ref_only++;
            } else {
                both_bad++;
            }
        }
        printf("  liblz4 cross-check: on (mutated streams: %lu accepted by both, %lu by the lenient reference only, %lu rejected by both, %lu zero-offset streams that liblz4 lets through and the reference refuses per spec)\n",
               lib_ok, ref_only, both_bad, zero_off);
    }
#else
    printf("  liblz4 cross-check: off (no lz4.h)\n");
#endif
}
