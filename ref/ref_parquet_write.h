/*
 * ref_parquet_write.h - independent reference Parquet *file writer* driven by
 * a plain description struct.  Produces spec-valid files by default and lets
 * the caller pick every degree of freedom the format leaves to writers (run
 * layout of levels/indices, header forms, unknown Thrift fields, page kinds,
 * codecs, where the dictionary page is announced, ...).
 * Written from the parquet-format documents; shares no code with carquet.
 */
#ifndef REF_PARQUET_WRITE_H
#define REF_PARQUET_WRITE_H

#include "ref_parquet_read.h"   /* capacities, error codes, schema analysis */

/* where the dictionary page is announced in ColumnMetaData */
#define REF_W_DICT_OFFSET_PRESENT   0  /* dictionary_page_offset -> dict page, data_page_offset -> first data page */
#define REF_W_DICT_OFFSET_ABSENT    1  /* no dictionary_page_offset; dict page still first in the chunk,
                                          data_page_offset -> first data page.  NOTE: a reader following the
                                          spec starts at data_page_offset and cannot find the dictionary; such
                                          a chunk is NOT readable (total_compressed_size also counts the
                                          dictionary page).  Used for negative tests.                        */
#define REF_W_DICT_OFFSET_AT_DATA   2  /* no dictionary_page_offset; data_page_offset -> the dictionary page
                                          (old writers).  Readable: pages are walked from there.             */

/* three-valued optional bool */
#define REF_W_TRI_ABSENT 0
#define REF_W_TRI_FALSE  1
#define REF_W_TRI_TRUE   2

typedef struct ref_w_page {
    uint8_t  page_type;        /* REF_PAGE_DATA, REF_PAGE_DATA_V2 or REF_PAGE_DICTIONARY          */
    uint8_t  encoding;         /* tag put in the header.  Data pages: REF_ENC_PLAIN, or
                                  REF_ENC_PLAIN_DICTIONARY / REF_ENC_RLE_DICTIONARY (then val[] holds
                                  dictionary indices).  Dictionary page: REF_ENC_PLAIN or
                                  REF_ENC_PLAIN_DICTIONARY (values are always PLAIN-coded).         */
    uint8_t  with_crc;         /* emit PageHeader.crc                                              */
    uint8_t  with_stats;       /* emit `stats` in the data page header                             */
    uint8_t  index_bit_width;  /* dictionary-encoded data page: the bit-width byte (0..32)         */
    uint8_t  v2_is_compressed; /* REF_W_TRI_*: ABSENT/TRUE => values compressed with the codec,
                                  FALSE => values stored raw although the chunk has a codec        */
    uint8_t  dict_is_sorted;   /* REF_W_TRI_* for DictionaryPageHeader.is_sorted                   */
    uint8_t  snappy_lit_form;  /* 0..4, literal tag form of the literal-only Snappy encoder        */
    uint32_t crc_xor;          /* XORed into the correct CRC (0 = correct checksum)                */
    uint32_t n_levels;         /* data pages: num_values of the header (levels incl. nulls)        */
    const uint16_t* def;       /* n_levels definition levels; NULL = all max_def                   */
    const uint16_t* rep;       /* n_levels repetition levels; NULL = all 0                         */
    uint32_t n_values;         /* data page: non-null values; dictionary page: entries             */
    const uint64_t* val;       /* BOOLEAN/INT32/INT64/FLOAT/DOUBLE bit patterns, or indices        */
    const ref_span_t* span;    /* BYTE_ARRAY / FIXED_LEN_BYTE_ARRAY / INT96: spans into pool       */
    const uint8_t* def_layout; /* run layouts handed to ref_rle_hybrid_encode_layout               */
    uint32_t def_layout_len;   /* (len 0: one bit-packed run)                                      */
    const uint8_t* rep_layout;
    uint32_t rep_layout_len;
    const uint8_t* idx_layout;
    uint32_t idx_layout_len;
    ref_statistics stats;      /* spans into pool                                                  */
} ref_w_page;

typedef struct ref_w_chunk {
    int32_t  codec;            /* REF_CODEC_UNCOMPRESSED / SNAPPY / LZ4_RAW are really applied; any
                                  other id is only written as a tag, the bytes stay uncompressed    */
    uint8_t  dict_offset_mode; /* REF_W_DICT_OFFSET_*                                             */
    uint8_t  with_stats;       /* ColumnMetaData.statistics = stats                                */
    uint8_t  with_encoding_stats;
    uint8_t  gap_before;       /* filler bytes written before the chunk (breaks exact tiling)      */
    int32_t  n_pages;
    ref_w_page pages[REF_MAX_PAGES];
    ref_statistics stats;
    int32_t  n_kv;
    ref_key_value kv[REF_MAX_KV];
} ref_w_chunk;

typedef struct ref_w_row_group {
    int64_t  num_rows;
    uint8_t  with_extras;      /* emit file_offset, total_compressed_size, ordinal                 */
    ref_w_chunk chunks[REF_MAX_COLUMNS];   /* one per schema leaf, in leaf order                   */
} ref_w_row_group;

typedef struct ref_w_file {
    const uint8_t* pool;       /* every span of the description points in here                     */
    size_t   pool_len;
    int32_t  version;          /* FileMetaData.version (1 or 2)                                    */
    int32_t  n_schema;
    ref_schema_element schema[REF_MAX_SCHEMA];  /* depth-first, element 0 = root                   */
    int32_t  n_row_groups;
    ref_w_row_group rg[REF_MAX_ROW_GROUPS];
    int32_t  n_kv;
    ref_key_value kv[REF_MAX_KV];
    uint8_t  with_created_by;
    uint8_t  with_column_orders;   /* one TYPE_ORDER per leaf                                      */
    uint8_t  chunk_file_offset_mode; /* ColumnChunk.file_offset: 0 => 0, 1 => first byte of the chunk */
    uint8_t  num_rows_override_set;
    ref_span_t created_by;
    int64_t  num_rows_override;    /* used instead of the sum when num_rows_override_set           */
    const ref_meta_wopts* thrift_opts;  /* long-form headers / injected unknown fields, or NULL    */
} ref_w_file;

/* byte offsets of what was written */
typedef struct ref_w_page_loc {
    uint32_t hdr_off;
    uint32_t hdr_len;
    uint32_t body_off;
    uint32_t body_len;         /* = compressed_page_size                                           */
    uint32_t uncomp_len;       /* = uncompressed_page_size                                         */
} ref_w_page_loc;

typedef struct ref_w_layout {
    uint32_t file_len;
    uint32_t footer_off;       /* FileMetaData                                                     */
    uint32_t footer_len;
    uint32_t chunk_off[REF_MAX_ROW_GROUPS][REF_MAX_COLUMNS];
    uint32_t chunk_len[REF_MAX_ROW_GROUPS][REF_MAX_COLUMNS];
    ref_w_page_loc page[REF_MAX_ROW_GROUPS][REF_MAX_COLUMNS][REF_MAX_PAGES];
} ref_w_layout;

/* Write the file into out[0..cap).  *out_len = file length.  layout may be
 * NULL.  Errors: REF_ERR_TC_NOSPACE (cap), REF_ERR_PQ_CAPACITY (a page body
 * above REF_MAX_PAGE_BYTES, too many levels), REF_ERR_PQ_ARG (description
 * inconsistent with the schema, span outside pool, value count mismatch for
 * fixed sizes), schema errors of ref_pq_analyze_schema, or an error of the
 * layout-driven hybrid encoder (REF_ERR_ARG) when a layout is illegal. */
int ref_pq_write(const ref_w_file* d, uint8_t* out, size_t cap, size_t* out_len,
                 ref_w_layout* layout);

#endif /* REF_PARQUET_WRITE_H */
