/*
 * ref_thrift.h - independent reference implementation of the Thrift *compact*
 * protocol (thrift/doc/specs/thrift-compact-protocol.md), written from the
 * specification.  Shares no code with carquet.
 *
 * Style: plain C11, no malloc, no globals, no floating point (doubles are
 * carried as 64-bit patterns), every read bounds-checked, negative REF_ERR_*
 * on malformed input.  Meant to be executed symbolically (CBMC / LLVM-IR
 * executor) next to the code under test.
 */
#ifndef REF_THRIFT_H
#define REF_THRIFT_H

#include <stdint.h>
#include <stddef.h>
#include "ref_codecs.h"   /* REF_OK, ref_span_t (header only; no codec code is used here) */

#ifndef REF_MAX_DEPTH
#define REF_MAX_DEPTH 16         /* max number of structs/containers open at once,
                                    the outermost struct included (a Parquet footer
                                    needs 7: FileMetaData > list > RowGroup > list >
                                    ColumnChunk > ColumnMetaData > Statistics)      */
#endif

/* ------------------------------------------------------------------ */
/* error codes.  REF_OK and the codec codes -1..-5 come from ref_codecs.h;  */
/* the Thrift layer uses -10..-19, ref_parquet_meta -20..-29, the file      */
/* reader/writer -30.. (see ref_parquet_read.h)                             */
/* ------------------------------------------------------------------ */
#define REF_ERR_TC_EOF        (-10)  /* read past end of input                 */
#define REF_ERR_TC_VARINT     (-11)  /* varint too long / value out of range   */
#define REF_ERR_TC_WIRE_TYPE  (-12)  /* illegal wire type nibble               */
#define REF_ERR_TC_DEPTH      (-13)  /* nesting deeper than REF_MAX_DEPTH      */
#define REF_ERR_TC_SIZE       (-14)  /* length or count above INT32_MAX        */
#define REF_ERR_TC_NOSPACE    (-15)  /* writer: output buffer too small        */
#define REF_ERR_TC_FIELD_ID   (-16)  /* short-form delta overflows int16       */
#define REF_ERR_TC_BOOL       (-17)  /* bool container element byte not 0/1/2  */
#define REF_ERR_TC_ITEMS      (-18)  /* ref_tc_flatten: more items than max_items */
#define REF_ERR_TC_ARG        (-19)  /* invalid argument from the caller       */

/* ------------------------------------------------------------------ */
/* wire types (low nibble of field header / list header)               */
/* ------------------------------------------------------------------ */
#define REF_TC_STOP        0
#define REF_TC_BOOL_TRUE   1     /* in field header: bool field, value true   */
#define REF_TC_BOOL_FALSE  2     /* in field header: bool field, value false;
                                    also THE element type of bool in lists    */
#define REF_TC_BYTE        3
#define REF_TC_I16         4
#define REF_TC_I32         5
#define REF_TC_I64         6
#define REF_TC_DOUBLE      7
#define REF_TC_BINARY      8
#define REF_TC_LIST        9
#define REF_TC_SET         10
#define REF_TC_MAP         11
#define REF_TC_STRUCT      12
#define REF_TC_UUID        13    /* newer spec revisions: 16 raw bytes        */

/* ref_span_t {uint32_t off, len} = byte span inside the buffer that was
 * parsed; the type is shared with (and defined in) ref_codecs.h */

/* ------------------------------------------------------------------ */
/* low-level reader                                                    */
/* ------------------------------------------------------------------ */
typedef struct ref_tc_reader {
    const uint8_t* buf;
    size_t         len;    /* bytes readable: buf[0..len) */
    size_t         pos;
} ref_tc_reader;

void ref_tc_reader_init(ref_tc_reader* r, const uint8_t* buf, size_t len, size_t pos);

int ref_tc_read_byte   (ref_tc_reader* r, uint8_t* v);
/* ULEB128, at most max_bytes bytes (5 for 32-bit, 10 for 64-bit, 3 for 16-bit);
 * non-minimal encodings inside that byte budget are accepted (legal);
 * bits beyond max_bits set -> REF_ERR_TC_VARINT. */
int ref_tc_read_uvarint(ref_tc_reader* r, int max_bits, uint64_t* v);
int ref_tc_read_i16    (ref_tc_reader* r, int16_t* v);   /* zig-zag varint */
int ref_tc_read_i32    (ref_tc_reader* r, int32_t* v);
int ref_tc_read_i64    (ref_tc_reader* r, int64_t* v);
int ref_tc_read_double (ref_tc_reader* r, uint64_t* bits); /* 8 bytes little endian */
int ref_tc_read_binary (ref_tc_reader* r, ref_span_t* s);  /* uvarint32 len + bytes */
/* bool stored as a full byte (list/set/map element): 1 = true; 0 or 2 = false */
int ref_tc_read_bool_elem(ref_tc_reader* r, uint8_t* v);

/* field header.  *type == REF_TC_STOP at the end of the struct (then *id is
 * unchanged).  *last_id is the running "previous field id" of this struct
 * (start with 0) and is updated.  *long_form (may be NULL) reports which
 * header form was used. */
int ref_tc_read_field(ref_tc_reader* r, int16_t* last_id, int16_t* id,
                      uint8_t* type, uint8_t* long_form);
/* list / set header */
int ref_tc_read_list (ref_tc_reader* r, uint8_t* elem_type, uint32_t* size,
                      uint8_t* long_form);
/* map header (size 0 => no type byte; key/value types reported as 0) */
int ref_tc_read_map  (ref_tc_reader* r, uint8_t* key_type, uint8_t* val_type,
                      uint32_t* size);

/* skip one value of the given wire type.  `in_container` selects the bool
 * representation: 0 = value lives in a field header (nothing to skip),
 * 1 = one byte.  depth = current nesting depth (call with 0). */
int ref_tc_skip_ex(ref_tc_reader* r, uint8_t wire_type, int in_container, int depth);
/* skip the value of a *field* of the given wire type */
int ref_tc_skip   (ref_tc_reader* r, uint8_t wire_type, int depth);

/* ------------------------------------------------------------------ */
/* low-level writer                                                    */
/* ------------------------------------------------------------------ */
typedef struct ref_tc_writer {
    uint8_t* buf;
    size_t   cap;
    size_t   pos;
} ref_tc_writer;

void ref_tc_writer_init(ref_tc_writer* w, uint8_t* buf, size_t cap, size_t pos);

int ref_tc_write_byte   (ref_tc_writer* w, uint8_t v);
int ref_tc_write_bytes  (ref_tc_writer* w, const uint8_t* p, size_t n);
int ref_tc_write_uvarint(ref_tc_writer* w, uint64_t v);
/* non-minimal ULEB128: exactly nbytes bytes (padding with 0x80 ... 0x00);
 * REF_ERR_TC_ARG if v does not fit in nbytes*7 bits or nbytes not in 1..10 */
int ref_tc_write_uvarint_padded(ref_tc_writer* w, uint64_t v, int nbytes);
int ref_tc_write_i16    (ref_tc_writer* w, int16_t v);
int ref_tc_write_i32    (ref_tc_writer* w, int32_t v);
int ref_tc_write_i64    (ref_tc_writer* w, int64_t v);
int ref_tc_write_double (ref_tc_writer* w, uint64_t bits);
int ref_tc_write_binary (ref_tc_writer* w, const uint8_t* p, uint32_t n);

/* field header.  type for bools must already be BOOL_TRUE / BOOL_FALSE.
 * Short form (delta nibble) is used when 1 <= id-*last_id <= 15 and
 * !force_long_form, else long form (type byte + zig-zag i16 id). */
int ref_tc_write_field(ref_tc_writer* w, int16_t* last_id, int16_t id,
                       uint8_t type, int force_long_form);
int ref_tc_write_bool_field(ref_tc_writer* w, int16_t* last_id, int16_t id,
                            int value, int force_long_form);
int ref_tc_write_stop (ref_tc_writer* w);
/* list / set header: size < 15 in the nibble unless force_long_size */
int ref_tc_write_list (ref_tc_writer* w, uint8_t elem_type, uint32_t size,
                       int force_long_size);
int ref_tc_write_map  (ref_tc_writer* w, uint8_t key_type, uint8_t val_type,
                       uint32_t size);

/* Write a sample *value* of the given wire type (used to inject unknown
 * fields).  For BOOL_TRUE/BOOL_FALSE nothing is written when !in_container
 * (the value is in the field header), one byte otherwise.
 * variant selects the shape of containers:
 *   LIST/SET: 0 = 3 x i32, 1 = 2 x struct{1:i32}, 2 = 16 x byte (long size form),
 *             3 = list<list<i64>> (2 x 1), 4 = empty, 5 = 2 x bool, 6 = 2 x binary
 *   MAP:      0 = empty, 1 = {i32 -> binary} x 2, 2 = {binary -> struct} x 1,
 *             3 = {byte -> list<i32>} x 1
 *   STRUCT:   0 = empty, 1 = {1:i32, 2:binary}, 2 = {1:struct{1:struct{}} , 3:bool},
 *             3 = {1:list<struct{1:i64}>, 20:double (short), 40: i16 (long form)}
 *   scalars:  variant is mixed into the value written. */
int ref_tc_write_sample(ref_tc_writer* w, uint8_t wire_type, int variant,
                        int in_container);

/* ------------------------------------------------------------------ */
/* generic event API (non-recursive, explicit stack)                   */
/* ------------------------------------------------------------------ */
#define REF_TC_EV_FIELD      1   /* a struct field header (+scalar value)    */
#define REF_TC_EV_ELEM       2   /* list / set element                       */
#define REF_TC_EV_MAP_KEY    3
#define REF_TC_EV_MAP_VAL    4
#define REF_TC_EV_STRUCT_END 5   /* the stop byte of a struct                */
#define REF_TC_EV_DONE       6   /* top-level struct finished                */

typedef struct ref_tc_item {
    uint8_t  kind;        /* REF_TC_EV_*                                          */
    uint8_t  depth;       /* 0 = member of the top-level struct                   */
    uint8_t  wire_type;   /* as on the wire; bools: 1 / 2 in headers, 2 (or 1) in containers */
    uint8_t  long_form;   /* FIELD: long-form header; LIST/SET value: long size form */
    int16_t  field_id;    /* FIELD: its id.  ELEM/MAP_*: id of the closest enclosing field */
    uint8_t  elem_type;   /* LIST/SET value: element type; MAP value: key type    */
    uint8_t  val_type;    /* MAP value: value type                                */
    uint32_t index;       /* ELEM/MAP_*: index in the container                   */
    int32_t  parent;      /* index (in the flattened item array) of the enclosing
                             container/struct item, -1 at top level               */
    int64_t  ival;        /* bool 0/1, byte/i16/i32/i64 (sign-extended),
                             double: raw bits, binary: length,
                             list/set/map: element count, struct: 0               */
    uint32_t off;         /* offset of the first byte of this item (header byte
                             for fields, value byte for elements)                 */
    uint32_t val_off;     /* offset of the value bytes (binary: first data byte)  */
    uint32_t len;         /* binary: data length; scalars: encoded value length;
                             containers/structs: 0 here (see STRUCT_END / next items) */
} ref_tc_item;

typedef struct ref_tc_frame {
    uint8_t  kind;        /* REF_TC_STRUCT / LIST / SET / MAP                     */
    uint8_t  elem_type;   /* list/set element or map key type                     */
    uint8_t  val_type;    /* map value type                                       */
    uint8_t  map_phase;   /* 0 = next is key, 1 = next is value                   */
    int16_t  last_id;     /* struct: running field id                             */
    int16_t  field_id;    /* id of the closest enclosing field                    */
    uint32_t remaining;   /* containers: elements still to read                   */
    uint32_t index;       /* containers: index of next element                    */
    int32_t  item_index;  /* sequence number of the item that opened this frame   */
} ref_tc_frame;

typedef struct ref_tc_walker {
    ref_tc_reader r;
    int           sp;                         /* frames in use               */
    int32_t       n_emitted;                  /* events emitted so far       */
    ref_tc_frame  st[REF_MAX_DEPTH];
} ref_tc_walker;

/* start walking one struct encoded at buf[pos..len) */
void ref_tc_walk_init(ref_tc_walker* wk, const uint8_t* buf, size_t len, size_t pos);
/* produce the next event; kind == REF_TC_EV_DONE after the top-level stop
 * byte (that call consumes nothing).  Negative on malformed input. */
int  ref_tc_next_event(ref_tc_walker* wk, ref_tc_item* ev);

/* walk one struct and store every event except DONE in items[0..*n_items).
 * *consumed = bytes of the struct including its stop byte. */
int ref_tc_flatten(const uint8_t* buf, size_t len, ref_tc_item* items,
                   size_t max_items, size_t* n_items, size_t* consumed);

/* helper: find the idx-th (0-based) FIELD item with the given id whose parent is
 * `parent` (-1 = top level).  Returns its index in items[] or -1. */
int32_t ref_tc_find_field(const ref_tc_item* items, size_t n_items,
                          int32_t parent, int16_t field_id);

#define REF_TRY(expr) do { int ref_rc_ = (expr); if (ref_rc_ < 0) return ref_rc_; } while (0)

#endif /* REF_THRIFT_H */
