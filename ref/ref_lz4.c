/*
 * ref_lz4.c - LZ4 block format.
 *
 * Source: lz4/lz4 doc/lz4_Block_format.md.
 *
 *   sequence := token [literal length bytes] literals
 *               offset(2 bytes LE) [match length bytes]
 *   token    : high nibble = literal length, low nibble = match length - 4;
 *              a nibble of 15 is continued by bytes that are added to it, the
 *              continuation stops at the first byte != 255.
 *   offset   : 1..65535, 0 is invalid; distance back from the current output
 *              position; matches may overlap their own output.
 *   The last sequence stops right after its literals.
 *   End of block restrictions (compressor side): the last sequence is
 *   literals only; the last 5 bytes are always literals; the last match starts
 *   at least 12 bytes before the end of the block.
 */
#include "ref_internal.h"

#define REF_LZ4_MINMATCH     4
#define REF_LZ4_LASTLITERALS 5
#define REF_LZ4_MFLIMIT      12

/* Add the 255-continuation bytes to *len.  REF_ERR_TRUNCATED if input ends. */
static int ref_lz4_read_extra(const uint8_t* in, size_t in_len, size_t* pos, uint64_t* len)
{
    uint8_t b = 255;
    while (b == 255) {
        if (*pos >= in_len) {
            return REF_ERR_TRUNCATED;
        }
        b = in[*pos];
        *pos += 1;
        *len += (uint64_t)b;
    }
    return REF_OK;
}

int ref_lz4_block_decode(const uint8_t* in, size_t in_len,
                         uint8_t* out, size_t cap, size_t* out_len,
                         int enforce_end_rules)
{
    size_t pos = 0;
    uint64_t produced = 0;
    uint64_t last_literals = 0;
    uint64_t last_match_start = 0;
    int have_match = 0;
    int done = 0;

    while (!done) {
        uint8_t token;
        uint64_t lit;
        uint64_t mlen;
        uint64_t offset;
        uint64_t j;
        int rc;

        if (pos >= in_len) {
            /* empty input, or input ending right after a match */
            return REF_ERR_TRUNCATED;
        }
        token = in[pos];
        pos++;

        /* literals */
        lit = (uint64_t)(token >> 4);
        if (lit == 15) {
            rc = ref_lz4_read_extra(in, in_len, &pos, &lit);
            if (rc != REF_OK) {
                return rc;
            }
        }
        if (lit > (uint64_t)(in_len - pos)) {
            return REF_ERR_TRUNCATED;
        }
        if (lit > (uint64_t)cap - produced) {
            return REF_ERR_CAPACITY;
        }
        for (j = 0; j < lit; j++) {
            out[(size_t)(produced + j)] = in[pos + (size_t)j];
        }
        produced += lit;
        pos += (size_t)lit;
        last_literals = lit;

        if (pos == in_len) {
            done = 1; /* last sequence: no match part */
        } else {
            /* match */
            if ((uint64_t)(in_len - pos) < 2) {
                return REF_ERR_TRUNCATED;
            }
            offset = (uint64_t)ref_load_le(in + pos, 2);
            pos += 2;
            mlen = (uint64_t)(token & 15);
            if (mlen == 15) {
                rc = ref_lz4_read_extra(in, in_len, &pos, &mlen);
                if (rc != REF_OK) {
                    return rc;
                }
            }
            mlen += REF_LZ4_MINMATCH;
            if (offset == 0 || offset > produced) {
                return REF_ERR_CORRUPT;
            }
            if (mlen > (uint64_t)cap - produced) {
                return REF_ERR_CAPACITY;
            }
            have_match = 1;
            last_match_start = produced;
            for (j = 0; j < mlen; j++) {
                out[(size_t)produced] = out[(size_t)(produced - offset)];
                produced++;
            }
        }
    }

    *out_len = (size_t)produced;
    if (enforce_end_rules != 0 && have_match) {
        if (last_literals < REF_LZ4_LASTLITERALS) {
            return REF_ERR_ENDRULE;
        }
        if (produced - last_match_start < REF_LZ4_MFLIMIT) {
            return REF_ERR_ENDRULE;
        }
    }
    return REF_OK;
}

/* ---- encoders ------------------------------------------------------------------ */

/* Emit the continuation bytes for a length field whose nibble is 15:
 * rest = len - 15, written as 255,255,...,(rest % 255). */
static int ref_lz4_write_extra(uint64_t rest, uint8_t* out, size_t cap, size_t* pos)
{
    while (rest >= 255) {
        if (*pos >= cap) {
            return REF_ERR_CAPACITY;
        }
        out[*pos] = 255;
        *pos += 1;
        rest -= 255;
    }
    if (*pos >= cap) {
        return REF_ERR_CAPACITY;
    }
    out[*pos] = (uint8_t)rest;
    *pos += 1;
    return REF_OK;
}

int ref_lz4_encode_script(const ref_lz4_seq_t* seqs, size_t n_seqs,
                          const uint8_t* lit, size_t lit_len,
                          uint8_t* out, size_t cap, size_t* out_len,
                          uint8_t* expect, size_t expect_cap, size_t* expect_len)
{
    size_t pos = 0;
    uint64_t produced = 0;
    uint64_t lit_used = 0;
    size_t s;
    int rc;

    if (n_seqs == 0) {
        return REF_ERR_ARG;
    }
    for (s = 0; s < n_seqs; s++) {
        int last = (s + 1 == n_seqs);
        uint64_t ll = (uint64_t)seqs[s].lit_len;
        uint64_t ml = (uint64_t)seqs[s].match_len;
        uint64_t off = (uint64_t)seqs[s].offset;
        uint64_t lit_nib = (ll < 15) ? ll : 15;
        uint64_t match_nib = 0;
        uint64_t j;

        /* legality */
        if (ll > (uint64_t)lit_len - lit_used) {
            return REF_ERR_ARG;
        }
        if (last) {
            if (ml != 0) {
                return REF_ERR_ARG;
            }
        } else {
            if (ml < REF_LZ4_MINMATCH) {
                return REF_ERR_ARG;
            }
            if (off == 0 || off > produced + ll) {
                return REF_ERR_ARG;
            }
            match_nib = (ml - REF_LZ4_MINMATCH < 15) ? (ml - REF_LZ4_MINMATCH) : 15;
        }
        if (ll + ml > (uint64_t)expect_cap - produced) {
            return REF_ERR_CAPACITY;
        }

        /* token, literal length, literals */
        if (pos >= cap) {
            return REF_ERR_CAPACITY;
        }
        out[pos] = (uint8_t)((lit_nib << 4) | match_nib);
        pos++;
        if (lit_nib == 15) {
            rc = ref_lz4_write_extra(ll - 15, out, cap, &pos);
            if (rc != REF_OK) {
                return rc;
            }
        }
        if (ll > (uint64_t)(cap - pos)) {
            return REF_ERR_CAPACITY;
        }
        for (j = 0; j < ll; j++) {
            uint8_t b = lit[(size_t)(lit_used + j)];
            out[pos + (size_t)j] = b;
            expect[(size_t)(produced + j)] = b;
        }
        pos += (size_t)ll;
        lit_used += ll;
        produced += ll;

        /* offset, match length, expected bytes of the match */
        if (!last) {
            if ((uint64_t)(cap - pos) < 2) {
                return REF_ERR_CAPACITY;
            }
            ref_store_le(out + pos, off, 2);
            pos += 2;
            if (match_nib == 15) {
                rc = ref_lz4_write_extra(ml - REF_LZ4_MINMATCH - 15, out, cap, &pos);
                if (rc != REF_OK) {
                    return rc;
                }
            }
            for (j = 0; j < ml; j++) {
                expect[(size_t)produced] = expect[(size_t)(produced - off)];
                produced++;
            }
        }
    }
    *out_len = pos;
    *expect_len = (size_t)produced;
    return REF_OK;
}

int ref_lz4_encode_literal_only(const uint8_t* in, size_t n,
                                uint8_t* out, size_t cap, size_t* out_len)
{
    size_t pos = 0;
    uint64_t ll = (uint64_t)n;
    uint64_t lit_nib = (ll < 15) ? ll : 15;
    uint64_t j;
    int rc;
    if (cap < 1) {
        return REF_ERR_CAPACITY;
    }
    out[pos] = (uint8_t)(lit_nib << 4);
    pos++;
    if (lit_nib == 15) {
        rc = ref_lz4_write_extra(ll - 15, out, cap, &pos);
        if (rc != REF_OK) {
            return rc;
        }
    }
    if (ll > (uint64_t)(cap - pos)) {
        return REF_ERR_CAPACITY;
    }
    for (j = 0; j < ll; j++) {
        out[pos + (size_t)j] = in[(size_t)j];
    }
    pos += (size_t)ll;
    *out_len = pos;
    return REF_OK;
}
