/*
 * ref_codecs.h - independent reference implementations of the encodings,
 * block codecs and hashes used by Apache Parquet.
 *
 * Written from the format specifications only (see README.md); shares no code
 * with the library under test.  These functions are the *oracle* of the
 * differential harnesses and are executed symbolically (CBMC, LLVM-IR
 * executor), hence the style: plain C11, no recursion, no floating point, no
 * allocation, no libc beyond memcpy/memset/memcmp/memmove, every input read is
 * checked against the input length and every write against the capacity.
 *
 * Conventions
 *   - return value 0 (REF_OK) on success, a negative REF_ERR_* otherwise;
 *   - on error the contents of output buffers and out-parameters are
 *     unspecified (but nothing outside the given capacities is ever touched);
 *   - floats/doubles are handled as their uint32_t/uint64_t bit patterns;
 *   - "consumed" is the number of input bytes that belong to the decoded
 *     object (the next object starts at in + *consumed);
 *   - encoders do not branch on the values they encode where the format
 *     allows it: a value that is illegal (does not fit the bit width, breaks a
 *     dictated run / prefix / width) is reported as REF_ERR_ARG only after the
 *     stream has been written, so that output positions stay independent of
 *     symbolic data (see README.md, "Data-independent control flow");
 *   - out-parameter pointers must be non-NULL; data pointers may be NULL only
 *     when the matching length/capacity is 0.
 */
#ifndef REF_CODECS_H
#define REF_CODECS_H

#include <stddef.h>
#include <stdint.h>

#ifdef __cplusplus
extern "C" {
#endif

#define REF_OK              0
#define REF_ERR_TRUNCATED (-1) /* input ends before the object is complete        */
#define REF_ERR_CAPACITY  (-2) /* output (or scratch) buffer too small            */
#define REF_ERR_CORRUPT   (-3) /* input violates the format                       */
#define REF_ERR_ARG       (-4) /* caller error: bad parameter / illegal directive */
#define REF_ERR_ENDRULE   (-5) /* LZ4 only: stream decodes, but breaks the
                                  end-of-block rules (enforce_end_rules != 0)     */

/* (offset,length) descriptor of one byte string inside a byte buffer. */
typedef struct {
    uint32_t off;
    uint32_t len;
} ref_span_t;

/* ------------------------------------------------------------------------- */
/* 1a. Varints, zig-zag, raw LSB-first bit packing                            */
/* ------------------------------------------------------------------------- */

/* Read one ULEB128 value starting at in[*pos]; advances *pos.  At most 10
 * bytes; the 10th byte may only be 0x00 or 0x01 (else REF_ERR_CORRUPT: does
 * not fit 64 bits).  Non-minimal encodings (trailing 0x80 .. 0x00) are
 * accepted.  Running past in_len -> REF_ERR_TRUNCATED. */
int ref_uleb_read(const uint8_t* in, size_t in_len, size_t* pos, uint64_t* value);

/* Same, restricted to 32 bits: at most 5 bytes, 5th byte <= 0x0F. */
int ref_uleb32_read(const uint8_t* in, size_t in_len, size_t* pos, uint32_t* value);

/* Append the minimal ULEB128 encoding of value at out[*pos]; advances *pos.
 * REF_ERR_CAPACITY if it does not fit below cap. */
int ref_uleb_write(uint64_t value, uint8_t* out, size_t cap, size_t* pos);

/* Append value as a ULEB128 of exactly nbytes (1..10) bytes, padding with
 * redundant continuation groups (0x80 ... 0x00) when the minimal form is
 * shorter.  Always writes nbytes bytes when they fit below cap; returns
 * REF_ERR_ARG afterwards if value needs more than 7*nbytes bits.  Used to keep
 * stream layouts independent of symbolic values. */
int ref_uleb_write_padded(uint64_t value, int nbytes, uint8_t* out, size_t cap, size_t* pos);

/* Number of bytes ref_uleb_write emits for value (1..10). */
size_t ref_uleb_size(uint64_t value);

/* Zig-zag on two's-complement bit patterns: 0,-1,1,-2,... <-> 0,1,2,3,... */
uint32_t ref_zigzag32(uint32_t twos_complement);
uint32_t ref_unzigzag32(uint32_t zigzag);
uint64_t ref_zigzag64(uint64_t twos_complement);
uint64_t ref_unzigzag64(uint64_t zigzag);

/* Pack n values of bw bits each (0..32), value i occupying bits
 * [i*bw, (i+1)*bw) of the output, bit k of the stream being bit (k%8) of byte
 * k/8 (the order used by the RLE/bit-packing hybrid and by DELTA_BINARY_PACKED).
 * Emits ceil(n*bw/8) bytes, unused high bits of the last byte are 0.
 * REF_ERR_ARG if bw is out of range or a value does not fit in bw bits. */
int ref_bitpack_lsb(const uint32_t* v, size_t n, int bw,
                    uint8_t* out, size_t cap, size_t* out_len);

/* Inverse: reads ceil(n*bw/8) bytes (REF_ERR_TRUNCATED if in_len is smaller),
 * writes n values, *consumed = ceil(n*bw/8). */
int ref_bitunpack_lsb(const uint8_t* in, size_t in_len, int bw,
                      uint32_t* out, size_t n, size_t* consumed);

/* 64-bit variants, bw 0..64. */
int ref_bitpack64_lsb(const uint64_t* v, size_t n, int bw,
                      uint8_t* out, size_t cap, size_t* out_len);
int ref_bitunpack64_lsb(const uint8_t* in, size_t in_len, int bw,
                        uint64_t* out, size_t n, size_t* consumed);

/* ------------------------------------------------------------------------- */
/* 1b. RLE / bit-packing hybrid                                               */
/* ------------------------------------------------------------------------- */

/* Decode exactly count values of bit_width (0..32) bits.
 *  - runs are read until count values have been produced; values of the last
 *    run beyond count (bit-packed padding, or an over-long RLE run) are dropped;
 *  - a bit-packed run must be present in full (groups * bit_width bytes), an
 *    RLE run needs its ceil(bit_width/8) value bytes: else REF_ERR_TRUNCATED;
 *  - input exhausted before count values -> REF_ERR_TRUNCATED, except the
 *    special case bit_width == 0 && in_len == 0, which yields count zeros;
 *  - run headers are 32-bit ULEB128 (REF_ERR_CORRUPT when larger);
 *  - an RLE value that does not fit in bit_width bits -> REF_ERR_CORRUPT;
 *  - zero-length runs are accepted and produce nothing.
 * *consumed = offset just after the last run that was read (0 if count == 0). */
int ref_rle_hybrid_decode(const uint8_t* in, size_t in_len, int bit_width,
                          uint32_t* out, size_t count, size_t* consumed);

/* Spec encoder whose run layout is dictated by the caller.  layout is a
 * sequence of one-byte directives, executed left to right over v[0..n):
 *   0x00|k, k = 0..127 : ONE bit-packed run holding the next k values in
 *                        ceil(k/8) groups of 8, the last group padded with zero
 *                        values (k = 0: an empty run, header byte 0x01).
 *                        REF_ERR_ARG if k is not a multiple of 8 and values
 *                        remain after the run (the padding would then become
 *                        data), or if fewer than k values remain.
 *   0x80|k, k = 0..127 : ONE RLE run of length k of the next value.
 *                        REF_ERR_ARG if fewer than k values remain or the next
 *                        k values are not all equal.  k = 0 emits a zero-length
 *                        run that consumes nothing; its value bytes are those of
 *                        the next value, or 0 when no value remains.
 * Values left when the layout is exhausted are emitted as one bit-packed run.
 * REF_ERR_ARG if a value does not fit in bit_width bits. */
int ref_rle_hybrid_encode_layout(const uint32_t* v, size_t n, int bit_width,
                                 const uint8_t* layout, size_t layout_len,
                                 uint8_t* out, size_t cap, size_t* out_len);

/* Greedy conformant encoder: at each group boundary, a run of >= 8 equal
 * values becomes one RLE run (whole run), otherwise groups of 8 values are
 * accumulated into one bit-packed run until such a run starts or input ends. */
int ref_rle_hybrid_encode_simple(const uint32_t* v, size_t n, int bit_width,
                                 uint8_t* out, size_t cap, size_t* out_len);

/* Data-page-V1 levels: 4-byte little-endian byte length L, then L bytes of
 * hybrid data.  bit_width 0..16.  *consumed = 4 + L (the whole block, even when
 * the count levels need fewer bytes).  L > in_len - 4 -> REF_ERR_TRUNCATED. */
int ref_levels_v1_decode(const uint8_t* in, size_t in_len, int bit_width,
                         uint16_t* out, size_t count, size_t* consumed);
int ref_levels_v1_encode_simple(const uint16_t* v, size_t n, int bit_width,
                                uint8_t* out, size_t cap, size_t* out_len);

/* ------------------------------------------------------------------------- */
/* 2. PLAIN                                                                   */
/* ------------------------------------------------------------------------- */

/* BOOLEAN: one bit per value, LSB first, ceil(n/8) bytes, padding bits 0.
 * v[i] == 0 is false, anything else true; decode writes 0/1 bytes and ignores
 * the padding bits. */
int ref_plain_encode_bool(const uint8_t* v, size_t n,
                          uint8_t* out, size_t cap, size_t* out_len);
int ref_plain_decode_bool(const uint8_t* in, size_t in_len,
                          uint8_t* out, size_t count, size_t* consumed);

/* INT32 / FLOAT: 4 bytes little-endian per value (bit patterns). */
int ref_plain_encode_u32(const uint32_t* v, size_t n,
                         uint8_t* out, size_t cap, size_t* out_len);
int ref_plain_decode_u32(const uint8_t* in, size_t in_len,
                         uint32_t* out, size_t count, size_t* consumed);

/* INT64 / DOUBLE: 8 bytes little-endian per value. */
int ref_plain_encode_u64(const uint64_t* v, size_t n,
                         uint8_t* out, size_t cap, size_t* out_len);
int ref_plain_decode_u64(const uint8_t* in, size_t in_len,
                         uint64_t* out, size_t count, size_t* consumed);

/* INT96: 12 bytes per value, given as three 32-bit words w[3*i+0..2], word 0
 * holding the least significant (first) four bytes; each word little-endian. */
int ref_plain_encode_int96(const uint32_t* words, size_t n,
                           uint8_t* out, size_t cap, size_t* out_len);
int ref_plain_decode_int96(const uint8_t* in, size_t in_len,
                           uint32_t* words, size_t count, size_t* consumed);

/* FIXED_LEN_BYTE_ARRAY(width): the raw bytes, n*width of them. */
int ref_plain_encode_flba(const uint8_t* v, size_t n, size_t width,
                          uint8_t* out, size_t cap, size_t* out_len);
int ref_plain_decode_flba(const uint8_t* in, size_t in_len, size_t width,
                          uint8_t* out, size_t count, size_t* consumed);

/* BYTE_ARRAY: per value a 4-byte little-endian unsigned length, then the
 * bytes.  Value i is data[spans[i].off .. +spans[i].len); REF_ERR_ARG if a
 * span leaves data[0..data_len). */
int ref_plain_encode_byte_array(const uint8_t* data, size_t data_len,
                                const ref_span_t* spans, size_t n,
                                uint8_t* out, size_t cap, size_t* out_len);
/* Decode count values; the bytes are appended to arena (spans index arena,
 * *arena_used = total bytes).  A length running past in_len ->
 * REF_ERR_TRUNCATED; arena too small -> REF_ERR_CAPACITY. */
int ref_plain_decode_byte_array(const uint8_t* in, size_t in_len, size_t count,
                                uint8_t* arena, size_t arena_cap, ref_span_t* spans,
                                size_t* arena_used, size_t* consumed);
/* Same without copying: spans index the input buffer itself.  Offsets must fit
 * 32 bits (REF_ERR_CAPACITY otherwise). */
int ref_plain_decode_byte_array_inplace(const uint8_t* in, size_t in_len, size_t count,
                                        ref_span_t* spans, size_t* consumed);

/* ------------------------------------------------------------------------- */
/* 3. DELTA_BINARY_PACKED                                                     */
/* ------------------------------------------------------------------------- */

/* Decode one DELTA_BINARY_PACKED stream.
 *   header: ULEB block size (multiple of 128, > 0), ULEB miniblocks per block
 *   (> 0, divides the block size, values per miniblock multiple of 32), ULEB
 *   total value count, zig-zag ULEB first value; any violation ->
 *   REF_ERR_CORRUPT.  Block sizes above 2^31-1 are refused (REF_ERR_CORRUPT).
 *   blocks: zig-zag ULEB min delta, one width byte per miniblock, then the
 *   miniblocks that contain at least one value, each of exactly
 *   (values per miniblock * width / 8) bytes (the last one padded): a short
 *   one -> REF_ERR_TRUNCATED.  Width bytes of miniblocks without values are
 *   ignored whatever they hold.  A used width > 32 (i32) / > 64 (i64) ->
 *   REF_ERR_CORRUPT.  All arithmetic wraps modulo 2^32 / 2^64 (header values
 *   wider than 32 bits are reduced modulo 2^32 for i32).
 * total count > cap_values -> REF_ERR_CAPACITY.  *n_values = total count,
 * *consumed = offset after the last (padded) miniblock that holds a value. */
int ref_delta_decode_i32(const uint8_t* in, size_t in_len,
                         int32_t* out, size_t cap_values,
                         size_t* n_values, size_t* consumed);
int ref_delta_decode_i64(const uint8_t* in, size_t in_len,
                         int64_t* out, size_t cap_values,
                         size_t* n_values, size_t* consumed);

/* Canonical encoder.  block_size / miniblocks must satisfy the header rules
 * above (REF_ERR_ARG otherwise).  Per block: min delta = signed minimum of the
 * wrapped deltas; per miniblock holding values: width = bits needed for the
 * largest (delta - min delta) mod 2^W; last miniblock padded with zero bits to
 * full size; miniblocks without values get width byte unused_width_byte (the
 * spec says "should be 0", readers must accept anything) and no body.
 * n == 0 writes first value 0 and no block; n == 1 writes no block. */
int ref_delta_encode_i32(const int32_t* values, size_t n,
                         uint32_t block_size, uint32_t miniblocks,
                         uint8_t unused_width_byte,
                         uint8_t* out, size_t cap, size_t* out_len);
int ref_delta_encode_i64(const int64_t* values, size_t n,
                         uint32_t block_size, uint32_t miniblocks,
                         uint8_t unused_width_byte,
                         uint8_t* out, size_t cap, size_t* out_len);

/* Same, but the bit width of every miniblock that holds values is dictated by
 * the caller: widths[k] is used for the k-th such miniblock in stream order
 * (REF_ERR_ARG if widths_len is too small or a width exceeds 32 / 64).  The
 * format allows any width that is large enough; REF_ERR_ARG is returned (after
 * the whole stream has been written) if some width is too small for the data.
 * zz_varint_len: 0 = the zig-zag varints (first value, min deltas) are
 * minimal, so their length depends on the values; k = 1..10 = each is written
 * on exactly k bytes with ref_uleb_write_padded (REF_ERR_ARG at the end if one
 * does not fit; 5 always fits INT32, 10 always fits INT64).  Padded varints
 * are valid ULEB128 and are accepted by ref_delta_decode_*.
 * With concrete n / block shape / widths and zz_varint_len != 0 the control
 * flow and all output positions are independent of the values: this is the
 * encoder to use when the values are symbolic. */
int ref_delta_encode_i32_widths(const int32_t* values, size_t n,
                                uint32_t block_size, uint32_t miniblocks,
                                const uint8_t* widths, size_t widths_len,
                                int zz_varint_len, uint8_t unused_width_byte,
                                uint8_t* out, size_t cap, size_t* out_len);
int ref_delta_encode_i64_widths(const int64_t* values, size_t n,
                                uint32_t block_size, uint32_t miniblocks,
                                const uint8_t* widths, size_t widths_len,
                                int zz_varint_len, uint8_t unused_width_byte,
                                uint8_t* out, size_t cap, size_t* out_len);

/* ------------------------------------------------------------------------- */
/* 4. DELTA_LENGTH_BYTE_ARRAY, DELTA_BYTE_ARRAY                               */
/* ------------------------------------------------------------------------- */

/* DELTA_LENGTH_BYTE_ARRAY = DELTA_BINARY_PACKED(int32 lengths) ++ all bytes.
 * scratch: caller memory for >= n int32 (encode) / >= max_values (decode).
 * Encode: value i = data[spans[i].off .. +len); lengths must be < 2^31. */
int ref_delta_length_encode(const uint8_t* data, size_t data_len,
                            const ref_span_t* spans, size_t n,
                            uint32_t block_size, uint32_t miniblocks,
                            int32_t* scratch, size_t scratch_cap,
                            uint8_t* out, size_t cap, size_t* out_len);
/* Decode: bytes are copied to arena, spans index arena.  Negative length ->
 * REF_ERR_CORRUPT; bytes missing -> REF_ERR_TRUNCATED; more than max_values
 * values (or scratch_cap < count) / arena too small -> REF_ERR_CAPACITY. */
int ref_delta_length_decode(const uint8_t* in, size_t in_len,
                            int32_t* scratch, size_t scratch_cap,
                            uint8_t* arena, size_t arena_cap,
                            ref_span_t* spans, size_t max_values,
                            size_t* n_values, size_t* arena_used, size_t* consumed);

/* DELTA_BYTE_ARRAY = DELTA_BINARY_PACKED(int32 prefix lengths) ++
 * DELTA_LENGTH_BYTE_ARRAY(suffixes).  Value i = first prefix[i] bytes of value
 * i-1, then suffix i.
 * Encode: prefix_len == NULL -> longest common prefix with the previous value
 * (0 for the first); otherwise prefix_len[i] is used and must be 0 for i == 0
 * and not exceed the common prefix (REF_ERR_ARG; with dictated prefixes the
 * control flow does not depend on the byte values).  scratch >= 2*n int32. */
int ref_delta_byte_array_encode(const uint8_t* data, size_t data_len,
                                const ref_span_t* spans, size_t n,
                                const uint32_t* prefix_len,
                                uint32_t block_size, uint32_t miniblocks,
                                int32_t* scratch, size_t scratch_cap,
                                uint8_t* out, size_t cap, size_t* out_len);
/* Decode: every value is materialised in full in arena.  scratch >=
 * 2*max_values int32.  Prefix/suffix counts differ, negative prefix, prefix
 * longer than the previous value (or non-zero for the first) -> REF_ERR_CORRUPT. */
int ref_delta_byte_array_decode(const uint8_t* in, size_t in_len,
                                int32_t* scratch, size_t scratch_cap,
                                uint8_t* arena, size_t arena_cap,
                                ref_span_t* spans, size_t max_values,
                                size_t* n_values, size_t* arena_used, size_t* consumed);

/* ------------------------------------------------------------------------- */
/* 5. BYTE_STREAM_SPLIT                                                       */
/* ------------------------------------------------------------------------- */

/* n elements of width bytes each: out[k*n + i] = in[i*width + k].
 * width >= 1.  Output length = n*width. */
int ref_bss_encode(const uint8_t* in, size_t n, size_t width,
                   uint8_t* out, size_t cap, size_t* out_len);
/* in_len must be a multiple of width (REF_ERR_CORRUPT otherwise);
 * *n_values = in_len / width. */
int ref_bss_decode(const uint8_t* in, size_t in_len, size_t width,
                   uint8_t* out, size_t cap, size_t* n_values);

/* ------------------------------------------------------------------------- */
/* 6. Snappy raw block format                                                 */
/* ------------------------------------------------------------------------- */

/* Preamble only: uncompressed length (uvarint32, <= 5 bytes, 5th byte <= 15:
 * REF_ERR_CORRUPT otherwise; REF_ERR_TRUNCATED if it runs off the input).
 * *hdr_len = number of preamble bytes. */
int ref_snappy_uncompressed_length(const uint8_t* in, size_t in_len,
                                   uint32_t* length, size_t* hdr_len);

/* Strict decoder.  REF_ERR_CAPACITY if the declared length exceeds cap
 * (checked first).  REF_ERR_TRUNCATED: tag operands or literal bytes missing.
 * REF_ERR_CORRUPT: copy offset 0 or larger than the bytes produced so far, an
 * element that would produce more than the declared length, or end of input
 * with fewer bytes produced than declared.  Copies are byte-by-byte so that
 * overlapping (offset < length) copies replicate.  *out_len = declared length. */
int ref_snappy_decode(const uint8_t* in, size_t in_len,
                      uint8_t* out, size_t cap, size_t* out_len);

/* Literal-only encoder.  lit_form selects the literal tag form:
 *   0: length in the tag (chunks of <= 60 bytes)
 *   1..4: that many extra length bytes (chunks of <= 2^8, 2^16, 2^24, 2^32 bytes)
 * n must be < 2^32.  n == 0 emits the preamble only. */
int ref_snappy_encode_literal_only(const uint8_t* in, size_t n, int lit_form,
                                   uint8_t* out, size_t cap, size_t* out_len);

#define REF_SNAPPY_LITERAL 0
#define REF_SNAPPY_COPY1   1
#define REF_SNAPPY_COPY2   2
#define REF_SNAPPY_COPY4   3
#define REF_FORM_AUTO      0xFF

typedef struct {
    uint8_t  kind;   /* REF_SNAPPY_* */
    uint8_t  form;   /* literals: 0 (len 1..60 in tag), 1..4 extra length bytes
                        (len-1 < 2^(8*form)), REF_FORM_AUTO = shortest.
                        Ignored for copies. */
    uint32_t len;    /* literal: >= 1; copy-1: 4..11; copy-2/4: 1..64 */
    uint32_t offset; /* copies: 1..bytes produced so far; copy-1 < 2048,
                        copy-2 < 65536.  Ignored for literals. */
} ref_snappy_elem_t;

/* Build a stream from a script.  Literal bytes are taken in order from
 * lit[0..lit_len) (REF_ERR_ARG if the script needs more; surplus is ignored).
 * Writes the compressed stream (preamble = total length, minimal varint) to
 * out and the bytes a correct decoder must produce to expect.
 * REF_ERR_ARG for any element that is illegal per the format. */
int ref_snappy_encode_script(const ref_snappy_elem_t* script, size_t n_elems,
                             const uint8_t* lit, size_t lit_len,
                             uint8_t* out, size_t cap, size_t* out_len,
                             uint8_t* expect, size_t expect_cap, size_t* expect_len);

/* ------------------------------------------------------------------------- */
/* 7. LZ4 block format                                                        */
/* ------------------------------------------------------------------------- */

/* Strict decoder.  in_len == 0 -> REF_ERR_TRUNCATED (even empty data is one
 * token).  REF_ERR_TRUNCATED: literals / offset / length bytes missing, in
 * particular input ending right after a match (the last sequence must stop
 * after its literals).  REF_ERR_CORRUPT: offset 0 or larger than the bytes
 * produced so far.  REF_ERR_CAPACITY: output would exceed cap.
 * enforce_end_rules != 0 additionally checks, after a successful decode, the
 * "end of block" restrictions a conformant *compressor* obeys when the block
 * contains at least one match: the last sequence has >= 5 literals, and the
 * last match starts >= 12 bytes before the end of the decoded data
 * (REF_ERR_ENDRULE, *out_len still valid). */
int ref_lz4_block_decode(const uint8_t* in, size_t in_len,
                         uint8_t* out, size_t cap, size_t* out_len,
                         int enforce_end_rules);

/* One literals-only sequence. */
int ref_lz4_encode_literal_only(const uint8_t* in, size_t n,
                                uint8_t* out, size_t cap, size_t* out_len);

typedef struct {
    uint32_t lit_len;   /* literals before the match (may be 0)              */
    uint32_t match_len; /* >= 4; must be 0 in the last sequence and only there */
    uint16_t offset;    /* 1..bytes produced so far (ignored in the last)     */
} ref_lz4_seq_t;

/* Build a block from a script (n_seqs >= 1).  Literal bytes come in order from
 * lit.  Writes the block to out and the expected decoded bytes to expect. */
int ref_lz4_encode_script(const ref_lz4_seq_t* seqs, size_t n_seqs,
                          const uint8_t* lit, size_t lit_len,
                          uint8_t* out, size_t cap, size_t* out_len,
                          uint8_t* expect, size_t expect_cap, size_t* expect_len);

/* ------------------------------------------------------------------------- */
/* 8. Hashes                                                                  */
/* ------------------------------------------------------------------------- */

/* CRC-32 (IEEE 802.3, reflected polynomial 0xEDB88320, init and final xor
 * 0xFFFFFFFF).  ref_crc32_ieee_update(crc, p, n) == zlib crc32(crc, p, n):
 * pass 0 to start, feed the result back to continue. */
uint32_t ref_crc32_ieee(const uint8_t* p, size_t n);
uint32_t ref_crc32_ieee_update(uint32_t crc, const uint8_t* p, size_t n);

/* CRC-32C (Castagnoli, reflected polynomial 0x82F63B78), same conventions. */
uint32_t ref_crc32c(const uint8_t* p, size_t n);
uint32_t ref_crc32c_update(uint32_t crc, const uint8_t* p, size_t n);

/* XXH64 of p[0..n) with the given seed. */
uint64_t ref_xxh64(const uint8_t* p, size_t n, uint64_t seed);

/* ------------------------------------------------------------------------- */
/* 9. Parquet split-block Bloom filter                                        */
/* ------------------------------------------------------------------------- */

/* bitset = num_blocks blocks of 32 bytes = 8 little-endian 32-bit words.
 * num_blocks must be >= 1 (with 0, insert does nothing and check returns 0). */
void ref_sbbf_mask(uint64_t hash, uint32_t mask[8]);
uint32_t ref_sbbf_block_index(uint64_t hash, uint32_t num_blocks);
void ref_sbbf_insert(uint8_t* bitset, uint32_t num_blocks, uint64_t hash);
/* 1 = possibly present, 0 = definitely absent. */
int ref_sbbf_check(const uint8_t* bitset, uint32_t num_blocks, uint64_t hash);

#ifdef __cplusplus
}
#endif

#endif /* REF_CODECS_H */
