/*
 * ref_rle.c - ULEB128, zig-zag, LSB-first bit packing and the Parquet
 * RLE / bit-packing hybrid.
 *
 * Source: apache/parquet-format Encodings.md, section
 * "Run Length Encoding / Bit-Packing Hybrid (RLE = 3)":
 *
 *   rle-bit-packed-hybrid: <length> <encoded-data>
 *   length         := byte length of <encoded-data>, 4 bytes little endian
 *   encoded-data   := <run>*
 *   run            := <bit-packed-run> | <rle-run>
 *   bit-packed-run := <bit-packed-header> <bit-packed-values>
 *   bit-packed-header := varint-encode(<bit-pack-scaled-run-len> << 1 | 1)
 *   bit-pack-scaled-run-len := (bit-packed-run-len) / 8
 *   rle-run        := <rle-header> <repeated-value>
 *   rle-header     := varint-encode((rle-run-len) << 1)
 *   repeated-value := value, fixed width of round-up-to-next-byte(bit-width)
 *
 * Bit-packed values are packed "from the least significant bit of each byte
 * to the most significant bit", each value LSB first.
 */
#include "ref_internal.h"

/* ---- little-endian and bit helpers --------------------------------------- */

uint32_t ref_load_le(const uint8_t* p, int nbytes)
{
    uint32_t v = 0;
    int i;
    for (i = 0; i < nbytes && i < 4; i++) {
        v |= (uint32_t)p[i] << (8 * i);
    }
    return v;
}

uint64_t ref_load_le64(const uint8_t* p)
{
    uint64_t v = 0;
    int i;
    for (i = 0; i < 8; i++) {
        v |= (uint64_t)p[i] << (8 * i);
    }
    return v;
}

void ref_store_le(uint8_t* p, uint64_t v, int nbytes)
{
    int i;
    for (i = 0; i < nbytes && i < 8; i++) {
        p[i] = (uint8_t)((v >> (8 * i)) & 0xFF);
    }
}

void ref_zero_bytes(uint8_t* p, size_t n)
{
    size_t i;
    for (i = 0; i < n; i++) {
        p[i] = 0;
    }
}

uint64_t ref_get_bits_lsb(const uint8_t* in, uint64_t bitpos, int bw)
{
    uint64_t v = 0;
    int b;
    for (b = 0; b < bw && b < 64; b++) {
        uint64_t k = bitpos + (uint64_t)b;
        uint64_t bit = (uint64_t)((in[k >> 3] >> (k & 7)) & 1);
        v |= bit << b;
    }
    return v;
}

void ref_put_bits_lsb(uint8_t* out, uint64_t bitpos, uint64_t v, int bw)
{
    int b;
    for (b = 0; b < bw && b < 64; b++) {
        uint64_t k = bitpos + (uint64_t)b;
        uint8_t bit = (uint8_t)((v >> b) & 1);
        out[k >> 3] = (uint8_t)(out[k >> 3] | (uint8_t)(bit << (k & 7)));
    }
}

/* ---- ULEB128 ------------------------------------------------------------- */

int ref_uleb_read(const uint8_t* in, size_t in_len, size_t* pos, uint64_t* value)
{
    uint64_t v = 0;
    size_t p = *pos;
    int i;
    for (i = 0; i < 10; i++) {
        uint8_t b;
        if (p >= in_len) {
            return REF_ERR_TRUNCATED;
        }
        b = in[p];
        p++;
        if (i == 9 && b > 1) {
            return REF_ERR_CORRUPT; /* more than 64 bits, or an 11th byte */
        }
        v |= (uint64_t)(b & 0x7F) << (7 * i);
        if ((b & 0x80) == 0) {
            *pos = p;
            *value = v;
            return REF_OK;
        }
    }
    return REF_ERR_CORRUPT; /* not reached: i == 9 handles it */
}

int ref_uleb32_read(const uint8_t* in, size_t in_len, size_t* pos, uint32_t* value)
{
    uint32_t v = 0;
    size_t p = *pos;
    int i;
    for (i = 0; i < 5; i++) {
        uint8_t b;
        if (p >= in_len) {
            return REF_ERR_TRUNCATED;
        }
        b = in[p];
        p++;
        if (i == 4 && b > 0x0F) {
            return REF_ERR_CORRUPT; /* more than 32 bits, or a 6th byte */
        }
        v |= (uint32_t)(b & 0x7F) << (7 * i);
        if ((b & 0x80) == 0) {
            *pos = p;
            *value = v;
            return REF_OK;
        }
    }
    return REF_ERR_CORRUPT;
}

size_t ref_uleb_size(uint64_t value)
{
    size_t n = 1;
    while (value >= 0x80) {
        value >>= 7;
        n++;
    }
    return n;
}

int ref_uleb_write(uint64_t value, uint8_t* out, size_t cap, size_t* pos)
{
    size_t p = *pos;
    size_t need = ref_uleb_size(value);
    if (p > cap || need > cap - p) {
        return REF_ERR_CAPACITY;
    }
    while (value >= 0x80) {
        out[p] = (uint8_t)((value & 0x7F) | 0x80);
        p++;
        value >>= 7;
    }
    out[p] = (uint8_t)value;
    p++;
    *pos = p;
    return REF_OK;
}

int ref_uleb_write_padded(uint64_t value, int nbytes, uint8_t* out, size_t cap, size_t* pos)
{
    size_t p = *pos;
    int i;
    if (nbytes < 1 || nbytes > 10) {
        return REF_ERR_ARG;
    }
    if (p > cap || (size_t)nbytes > cap - p) {
        return REF_ERR_CAPACITY;
    }
    for (i = 0; i < nbytes; i++) {
        uint8_t b = (uint8_t)(value & 0x7F);
        value >>= 7;
        if (i + 1 < nbytes) {
            b = (uint8_t)(b | 0x80);
        }
        out[p + (size_t)i] = b;
    }
    *pos = p + (size_t)nbytes;
    /* bits left over: the value did not fit (reported after writing, so that
     * the control flow does not depend on the value) */
    return (value != 0) ? REF_ERR_ARG : REF_OK;
}

/* ---- zig-zag (on two's-complement bit patterns, unsigned arithmetic) ------ */

uint32_t ref_zigzag32(uint32_t x)
{
    uint32_t sign = x >> 31;               /* 1 if negative */
    return (x << 1) ^ (0u - sign);         /* (n << 1) ^ (n >> 31) */
}

uint32_t ref_unzigzag32(uint32_t z)
{
    return (z >> 1) ^ (0u - (z & 1u));
}

uint64_t ref_zigzag64(uint64_t x)
{
    uint64_t sign = x >> 63;
    return (x << 1) ^ ((uint64_t)0 - sign);
}

uint64_t ref_unzigzag64(uint64_t z)
{
    return (z >> 1) ^ ((uint64_t)0 - (z & 1u));
}

/* ---- raw bit packing ------------------------------------------------------ */

static int ref_fits(uint64_t v, int bw)
{
    if (bw >= 64) {
        return 1;
    }
    return (v >> bw) == 0;
}

int ref_bitpack64_lsb(const uint64_t* v, size_t n, int bw,
                      uint8_t* out, size_t cap, size_t* out_len)
{
    uint64_t nbytes;
    size_t i;
    int bad = 0;
    if (bw < 0 || bw > 64) {
        return REF_ERR_ARG;
    }
    if ((uint64_t)n > (UINT64_MAX / 64)) {
        return REF_ERR_ARG;
    }
    nbytes = ((uint64_t)n * (uint64_t)bw + 7) / 8;
    if (nbytes > (uint64_t)cap) {
        return REF_ERR_CAPACITY;
    }
    ref_zero_bytes(out, (size_t)nbytes);
    for (i = 0; i < n; i++) {
        /* no early return on a bad value: the control flow (and with it every
         * output position) stays independent of the data, see README */
        bad |= !ref_fits(v[i], bw);
        ref_put_bits_lsb(out, (uint64_t)i * (uint64_t)bw, v[i], bw);
    }
    *out_len = (size_t)nbytes;
    return bad ? REF_ERR_ARG : REF_OK;
}

int ref_bitunpack64_lsb(const uint8_t* in, size_t in_len, int bw,
                        uint64_t* out, size_t n, size_t* consumed)
{
    uint64_t nbytes;
    size_t i;
    if (bw < 0 || bw > 64) {
        return REF_ERR_ARG;
    }
    if ((uint64_t)n > (UINT64_MAX / 64)) {
        return REF_ERR_ARG;
    }
    nbytes = ((uint64_t)n * (uint64_t)bw + 7) / 8;
    if (nbytes > (uint64_t)in_len) {
        return REF_ERR_TRUNCATED;
    }
    for (i = 0; i < n; i++) {
        out[i] = ref_get_bits_lsb(in, (uint64_t)i * (uint64_t)bw, bw);
    }
    *consumed = (size_t)nbytes;
    return REF_OK;
}

int ref_bitpack_lsb(const uint32_t* v, size_t n, int bw,
                    uint8_t* out, size_t cap, size_t* out_len)
{
    uint64_t nbytes;
    size_t i;
    int bad = 0;
    if (bw < 0 || bw > 32) {
        return REF_ERR_ARG;
    }
    if ((uint64_t)n > (UINT64_MAX / 64)) {
        return REF_ERR_ARG;
    }
    nbytes = ((uint64_t)n * (uint64_t)bw + 7) / 8;
    if (nbytes > (uint64_t)cap) {
        return REF_ERR_CAPACITY;
    }
    ref_zero_bytes(out, (size_t)nbytes);
    for (i = 0; i < n; i++) {
        /* no early return on a bad value: the control flow (and with it every
         * output position) stays independent of the data, see README */
        bad |= !ref_fits(v[i], bw);
        ref_put_bits_lsb(out, (uint64_t)i * (uint64_t)bw, v[i], bw);
    }
    *out_len = (size_t)nbytes;
    return bad ? REF_ERR_ARG : REF_OK;
}

int ref_bitunpack_lsb(const uint8_t* in, size_t in_len, int bw,
                      uint32_t* out, size_t n, size_t* consumed)
{
    uint64_t nbytes;
    size_t i;
    if (bw < 0 || bw > 32) {
        return REF_ERR_ARG;
    }
    if ((uint64_t)n > (UINT64_MAX / 64)) {
        return REF_ERR_ARG;
    }
    nbytes = ((uint64_t)n * (uint64_t)bw + 7) / 8;
    if (nbytes > (uint64_t)in_len) {
        return REF_ERR_TRUNCATED;
    }
    for (i = 0; i < n; i++) {
        out[i] = (uint32_t)ref_get_bits_lsb(in, (uint64_t)i * (uint64_t)bw, bw);
    }
    *consumed = (size_t)nbytes;
    return REF_OK;
}

/* ---- hybrid decoder ------------------------------------------------------- */

/* Exactly one of out32 / out16 is non-NULL. */
static void ref_rle_store(uint32_t* out32, uint16_t* out16, size_t i, uint32_t v)
{
    if (out32 != NULL) {
        out32[i] = v;
    } else {
        out16[i] = (uint16_t)v;
    }
}

static int ref_rle_decode_core(const uint8_t* in, size_t in_len, int bw,
                               uint32_t* out32, uint16_t* out16,
                               size_t count, size_t* consumed)
{
    size_t pos = 0;
    size_t got = 0;
    uint64_t value_bytes;

    if (bw < 0 || bw > 32) {
        return REF_ERR_ARG;
    }
    value_bytes = ((uint64_t)bw + 7) / 8;

    if (bw == 0 && in_len == 0) {
        /* Degenerate case allowed by the task: nothing stored, all zeros. */
        for (got = 0; got < count; got++) {
            ref_rle_store(out32, out16, got, 0);
        }
        *consumed = 0;
        return REF_OK;
    }

    while (got < count) {
        uint32_t header;
        uint64_t take;
        uint64_t j;
        int rc = ref_uleb32_read(in, in_len, &pos, &header);
        if (rc != REF_OK) {
            return rc;
        }
        if ((header & 1u) != 0) {
            /* bit-packed run: (header >> 1) groups of 8 values */
            uint64_t groups = (uint64_t)(header >> 1);
            uint64_t nbytes = groups * (uint64_t)bw;
            uint64_t nvals = groups * 8;
            if (nbytes > (uint64_t)(in_len - pos)) {
                return REF_ERR_TRUNCATED;
            }
            take = (uint64_t)(count - got);
            if (nvals < take) {
                take = nvals;
            }
            for (j = 0; j < take; j++) {
                uint64_t bitpos = (uint64_t)pos * 8 + j * (uint64_t)bw;
                ref_rle_store(out32, out16, got, (uint32_t)ref_get_bits_lsb(in, bitpos, bw));
                got++;
            }
            pos += (size_t)nbytes;
        } else {
            /* RLE run: (header >> 1) copies of one value */
            uint64_t run = (uint64_t)(header >> 1);
            uint32_t value;
            if (value_bytes > (uint64_t)(in_len - pos)) {
                return REF_ERR_TRUNCATED;
            }
            value = ref_load_le(in + pos, (int)value_bytes);
            pos += (size_t)value_bytes;
            if (!ref_fits(value, bw)) {
                return REF_ERR_CORRUPT;
            }
            take = (uint64_t)(count - got);
            if (run < take) {
                take = run;
            }
            for (j = 0; j < take; j++) {
                ref_rle_store(out32, out16, got, value);
                got++;
            }
        }
    }
    *consumed = pos;
    return REF_OK;
}

int ref_rle_hybrid_decode(const uint8_t* in, size_t in_len, int bit_width,
                          uint32_t* out, size_t count, size_t* consumed)
{
    uint16_t dummy = 0;
    if (out == NULL) {
        /* count must be 0 then; give the core a harmless non-NULL 16-bit sink */
        if (count != 0) {
            return REF_ERR_ARG;
        }
        return ref_rle_decode_core(in, in_len, bit_width, NULL, &dummy, 0, consumed);
    }
    return ref_rle_decode_core(in, in_len, bit_width, out, NULL, count, consumed);
}

/* ---- hybrid encoders ------------------------------------------------------ */

static uint32_t ref_rle_load(const uint32_t* v32, const uint16_t* v16, size_t i)
{
    if (v32 != NULL) {
        return v32[i];
    }
    return (uint32_t)v16[i];
}

/* One bit-packed run holding values [start, start+k), ceil(k/8) groups. */
static int ref_rle_emit_bitpacked(const uint32_t* v32, const uint16_t* v16,
                                  size_t start, size_t k, int bw,
                                  uint8_t* out, size_t cap, size_t* pos, int* bad)
{
    uint64_t groups = ((uint64_t)k + 7) / 8;
    uint64_t nbytes = groups * (uint64_t)bw;
    size_t j;
    int rc;
    if (groups > 0x7FFFFFFFu) {
        return REF_ERR_ARG; /* header would not fit 32 bits */
    }
    rc = ref_uleb_write((groups << 1) | 1u, out, cap, pos);
    if (rc != REF_OK) {
        return rc;
    }
    if (nbytes > (uint64_t)(cap - *pos)) {
        return REF_ERR_CAPACITY;
    }
    ref_zero_bytes(out + *pos, (size_t)nbytes);
    for (j = 0; j < k; j++) {
        uint32_t val = ref_rle_load(v32, v16, start + j);
        *bad |= !ref_fits(val, bw); /* sticky: reported at the end */
        ref_put_bits_lsb(out + *pos, (uint64_t)j * (uint64_t)bw, val, bw);
    }
    *pos += (size_t)nbytes;
    return REF_OK;
}

/* One RLE run: header (run << 1), then the value on ceil(bw/8) bytes. */
static int ref_rle_emit_rle(uint32_t value, uint64_t run, int bw,
                            uint8_t* out, size_t cap, size_t* pos, int* bad)
{
    uint64_t value_bytes = ((uint64_t)bw + 7) / 8;
    int rc;
    if (run > 0x7FFFFFFFu) {
        return REF_ERR_ARG;
    }
    *bad |= !ref_fits(value, bw); /* sticky: reported at the end */
    rc = ref_uleb_write(run << 1, out, cap, pos);
    if (rc != REF_OK) {
        return rc;
    }
    if (value_bytes > (uint64_t)(cap - *pos)) {
        return REF_ERR_CAPACITY;
    }
    ref_store_le(out + *pos, value, (int)value_bytes);
    *pos += (size_t)value_bytes;
    return REF_OK;
}

int ref_rle_hybrid_encode_layout(const uint32_t* v, size_t n, int bit_width,
                                 const uint8_t* layout, size_t layout_len,
                                 uint8_t* out, size_t cap, size_t* out_len)
{
    size_t pos = 0;
    size_t cur = 0;
    size_t d;
    int rc;
    int bad = 0; /* sticky "a value is illegal" flag, see ref_rle_emit_* */
    uint16_t dummy = 0;
    const uint16_t* v16 = (v == NULL) ? &dummy : NULL; /* n == 0 with NULL v */

    if (bit_width < 0 || bit_width > 32) {
        return REF_ERR_ARG;
    }
    if (v == NULL && n != 0) {
        return REF_ERR_ARG;
    }
    for (d = 0; d < layout_len; d++) {
        uint8_t dir = layout[d];
        size_t k = (size_t)(dir & 0x7F);
        if (k > n - cur) {
            return REF_ERR_ARG; /* directive runs past the values */
        }
        if ((dir & 0x80) == 0) {
            if ((k % 8) != 0 && cur + k != n) {
                return REF_ERR_ARG; /* padding would land in mid-stream */
            }
            rc = ref_rle_emit_bitpacked(v, v16, cur, k, bit_width, out, cap, &pos, &bad);
            if (rc != REF_OK) {
                return rc;
            }
            cur += k;
        } else {
            uint32_t value = 0;
            size_t j;
            if (cur < n) {
                value = v[cur];
            }
            for (j = 0; j < k; j++) {
                bad |= (v[cur + j] != value); /* not a run: reported at the end */
            }
            rc = ref_rle_emit_rle(value, (uint64_t)k, bit_width, out, cap, &pos, &bad);
            if (rc != REF_OK) {
                return rc;
            }
            cur += k;
        }
    }
    if (cur < n) {
        rc = ref_rle_emit_bitpacked(v, v16, cur, n - cur, bit_width, out, cap, &pos, &bad);
        if (rc != REF_OK) {
            return rc;
        }
    }
    *out_len = pos;
    return bad ? REF_ERR_ARG : REF_OK;
}

/* Length of the run of equal values starting at i. */
static size_t ref_rle_run_length(const uint32_t* v32, const uint16_t* v16,
                                 size_t i, size_t n)
{
    size_t r = 1;
    uint32_t first = ref_rle_load(v32, v16, i);
    while (i + r < n && ref_rle_load(v32, v16, i + r) == first) {
        r++;
    }
    return r;
}

static int ref_rle_encode_simple_core(const uint32_t* v32, const uint16_t* v16,
                                      size_t n, int bw,
                                      uint8_t* out, size_t cap, size_t* out_len)
{
    size_t pos = 0;
    size_t i = 0;
    int rc;
    int bad = 0;
    if (bw < 0 || bw > 32) {
        return REF_ERR_ARG;
    }
    while (i < n) {
        size_t run = ref_rle_run_length(v32, v16, i, n);
        if (run >= 8) {
            rc = ref_rle_emit_rle(ref_rle_load(v32, v16, i), (uint64_t)run, bw,
                                  out, cap, &pos, &bad);
            if (rc != REF_OK) {
                return rc;
            }
            i += run;
        } else {
            /* collect whole groups of 8 until a long run starts at a group
             * boundary, or until the values are exhausted */
            size_t start = i;
            int stop = 0;
            while (!stop) {
                size_t left = n - i;
                i += (left < 8) ? left : 8;
                if (i >= n) {
                    stop = 1;
                } else if (ref_rle_run_length(v32, v16, i, n) >= 8) {
                    stop = 1;
                }
            }
            rc = ref_rle_emit_bitpacked(v32, v16, start, i - start, bw, out, cap, &pos, &bad);
            if (rc != REF_OK) {
                return rc;
            }
        }
    }
    *out_len = pos;
    return bad ? REF_ERR_ARG : REF_OK;
}

int ref_rle_hybrid_encode_simple(const uint32_t* v, size_t n, int bit_width,
                                 uint8_t* out, size_t cap, size_t* out_len)
{
    uint16_t dummy = 0;
    if (v == NULL) {
        if (n != 0) {
            return REF_ERR_ARG;
        }
        return ref_rle_encode_simple_core(NULL, &dummy, 0, bit_width, out, cap, out_len);
    }
    return ref_rle_encode_simple_core(v, NULL, n, bit_width, out, cap, out_len);
}

/* ---- length-prefixed levels (data page V1) -------------------------------- */

int ref_levels_v1_decode(const uint8_t* in, size_t in_len, int bit_width,
                         uint16_t* out, size_t count, size_t* consumed)
{
    uint64_t len;
    size_t used = 0;
    uint16_t dummy = 0;
    int rc;
    if (bit_width < 0 || bit_width > 16) {
        return REF_ERR_ARG;
    }
    if (out == NULL) {
        if (count != 0) {
            return REF_ERR_ARG;
        }
        out = &dummy;
    }
    if (in_len < 4) {
        return REF_ERR_TRUNCATED;
    }
    len = (uint64_t)ref_load_le(in, 4);
    if (len > (uint64_t)(in_len - 4)) {
        return REF_ERR_TRUNCATED;
    }
    rc = ref_rle_decode_core(in + 4, (size_t)len, bit_width, NULL, out, count, &used);
    if (rc != REF_OK) {
        return rc;
    }
    *consumed = 4 + (size_t)len;
    return REF_OK;
}

int ref_levels_v1_encode_simple(const uint16_t* v, size_t n, int bit_width,
                                uint8_t* out, size_t cap, size_t* out_len)
{
    size_t body = 0;
    uint16_t dummy = 0;
    int rc;
    if (bit_width < 0 || bit_width > 16) {
        return REF_ERR_ARG;
    }
    if (v == NULL) {
        if (n != 0) {
            return REF_ERR_ARG;
        }
        v = &dummy;
    }
    if (cap < 4) {
        return REF_ERR_CAPACITY;
    }
    rc = ref_rle_encode_simple_core(NULL, v, n, bit_width, out + 4, cap - 4, &body);
    if (rc != REF_OK) {
        return rc;
    }
    if ((uint64_t)body > 0xFFFFFFFFu) {
        return REF_ERR_ARG;
    }
    ref_store_le(out, (uint64_t)body, 4);
    *out_len = 4 + body;
    return REF_OK;
}
