/*
 * ref_bloom.c - Parquet split-block Bloom filter (SBBF).
 *
 * Source: apache/parquet-format BloomFilter.md, section "Technical approach".
 *
 *   A filter is z blocks of 256 bits = 8 words of 32 bits.
 *   mask(x):   for i in 0..7:  y = (uint32)x * salt[i];  mask.word[i] bit (y >> 27) set
 *   block_insert / block_check use mask(x) with x = least significant 32 bits
 *   of the hash; the block is chosen from the most significant 32 bits:
 *       i = ((h >> 32) * z) >> 32
 *   Words are stored little-endian in the serialized bitset.
 */
#include "ref_internal.h"

static const uint32_t ref_sbbf_salt[8] = {
    0x47b6137bu, 0x44974d91u, 0x8824ad5bu, 0xa2b7289du,
    0x705495c7u, 0x2df1424bu, 0x9efc4947u, 0x5c6bfb31u
};

void ref_sbbf_mask(uint64_t hash, uint32_t mask[8])
{
    uint32_t x = (uint32_t)(hash & 0xFFFFFFFFu);
    int i;
    for (i = 0; i < 8; i++) {
        uint32_t y = x * ref_sbbf_salt[i];
        mask[i] = (uint32_t)1 << (y >> 27);
    }
}

uint32_t ref_sbbf_block_index(uint64_t hash, uint32_t num_blocks)
{
    return (uint32_t)(((hash >> 32) * (uint64_t)num_blocks) >> 32);
}

void ref_sbbf_insert(uint8_t* bitset, uint32_t num_blocks, uint64_t hash)
{
    uint32_t mask[8];
    size_t base;
    int i;
    if (num_blocks == 0) {
        return;
    }
    ref_sbbf_mask(hash, mask);
    base = (size_t)ref_sbbf_block_index(hash, num_blocks) * 32;
    for (i = 0; i < 8; i++) {
        uint32_t word = ref_load_le(bitset + base + 4 * (size_t)i, 4);
        word |= mask[i];
        ref_store_le(bitset + base + 4 * (size_t)i, (uint64_t)word, 4);
    }
}

int ref_sbbf_check(const uint8_t* bitset, uint32_t num_blocks, uint64_t hash)
{
    uint32_t mask[8];
    size_t base;
    int present = 1;
    int i;
    if (num_blocks == 0) {
        return 0;
    }
    ref_sbbf_mask(hash, mask);
    base = (size_t)ref_sbbf_block_index(hash, num_blocks) * 32;
    for (i = 0; i < 8; i++) {
        uint32_t word = ref_load_le(bitset + base + 4 * (size_t)i, 4);
        if ((word & mask[i]) == 0) {
            present = 0;
        }
    }
    return present;
}
