/* selftest_rt.c - ref-encode -> ref-decode identity on random cases, plus
 * "every proper prefix of a valid stream is rejected" where that must hold. */
#include "selftest_common.h"

#define RT_CASES 20000
#define MAXN 300

static uint32_t mask32(int bw)
{
    return bw >= 32 ? 0xFFFFFFFFu : ((1u << bw) - 1u);
}

/* Values with a mix of runs and noise, all below 2^bw. */
static size_t gen_runs(uint32_t* v, size_t maxn, int bw)
{
    size_t n = st_below((uint32_t)maxn + 1);
    size_t i = 0;
    while (i < n) {
        uint32_t kind = st_below(3);
        size_t len = 1 + st_below(kind == 0 ? 40 : 12);
        uint32_t val = (uint32_t)st_rnd() & mask32(bw);
        size_t j;
        if (len > n - i) len = n - i;
        for (j = 0; j < len; j++) {
            v[i + j] = (kind == 2) ? ((uint32_t)st_rnd() & mask32(bw)) : val;
        }
        i += len;
    }
    return n;
}

/* Random legal layout for v[0..n). */
static size_t gen_layout(const uint32_t* v, size_t n, uint8_t* layout, size_t cap)
{
    size_t cur = 0;
    size_t l = 0;
    while (l < cap && st_below(12) != 0) {
        uint32_t kind = st_below(4);
        if (kind == 0) {
            layout[l++] = 0x80; /* zero-length RLE run */
        } else if (kind == 1) {
            /* RLE run over (part of) the run of equal values at cur */
            size_t r = 0;
            while (cur + r < n && v[cur + r] == v[cur] && r < 127) r++;
            if (r > 0) r = 1 + st_below((uint32_t)r);
            layout[l++] = (uint8_t)(0x80 | r);
            cur += r;
        } else {
            /* bit-packed run: multiple of 8 unless it ends the data */
            size_t left = n - cur;
            size_t k = 8 * (size_t)st_below(5);
            if (k > left || st_below(6) == 0) k = left;
            if (k > 127) k = 120;
            layout[l++] = (uint8_t)k;
            cur += k;
        }
    }
    return l;
}

static void rt_rle(void)
{
    uint32_t v[MAXN];
    uint32_t o[MAXN + 8];
    uint16_t v16[MAXN];
    uint16_t o16[MAXN];
    uint8_t enc[8 + MAXN * 5];
    uint8_t layout[64];
    int c;
    for (c = 0; c < RT_CASES; c++) {
        int bw = (int)st_below(33);
        size_t n = gen_runs(v, MAXN, bw);
        size_t len = 0;
        size_t used = 0;
        size_t ll;
        size_t i;
        int rc;

        rc = ref_rle_hybrid_encode_simple(v, n, bw, enc, sizeof enc, &len);
        CHECK(rc == 0, "rle simple enc rc %d", rc);
        memset(o, 0xA5, sizeof o);
        rc = ref_rle_hybrid_decode(enc, len, bw, o, n, &used);
        CHECK(rc == 0 && used == (n ? len : 0) && memcmp(o, v, n * 4) == 0 && o[n] == 0xA5A5A5A5u,
              "rle simple rt bw %d n %zu rc %d", bw, n, rc);
        /* every proper prefix must be refused (except the empty prefix at width 0) */
        if (n > 0 && (c % 2) == 0) {
            size_t t;
            for (t = 0; t < 4; t++) {
                i = (t == 0) ? len - 1 : st_below((uint32_t)len);
                rc = ref_rle_hybrid_decode(enc, i, bw, o, n, &used);
                if (bw == 0 && i == 0) {
                    CHECK(rc == 0, "width-0 empty");
                } else {
                    CHECK(rc == REF_ERR_TRUNCATED, "rle prefix %zu/%zu bw %d n %zu rc %d", i, len, bw, n, rc);
                }
            }
        }

        ll = gen_layout(v, n, layout, sizeof layout);
        rc = ref_rle_hybrid_encode_layout(v, n, bw, layout, ll, enc, sizeof enc, &len);
        CHECK(rc == 0, "rle layout enc rc %d", rc);
        memset(o, 0xA5, sizeof o);
        rc = ref_rle_hybrid_decode(enc, len, bw, o, n, &used);
        CHECK(rc == 0 && used <= len && memcmp(o, v, n * 4) == 0 && o[n] == 0xA5A5A5A5u,
              "rle layout rt bw %d n %zu rc %d", bw, n, rc);

        if (bw <= 16) {
            for (i = 0; i < n; i++) v16[i] = (uint16_t)v[i];
            rc = ref_levels_v1_encode_simple(v16, n, bw, enc, sizeof enc, &len);
            CHECK(rc == 0, "levels enc rc %d", rc);
            rc = ref_levels_v1_decode(enc, len, bw, o16, n, &used);
            CHECK(rc == 0 && used == len && memcmp(o16, v16, n * 2) == 0, "levels rt bw %d n %zu rc %d", bw, n, rc);
        }
    }
}

static void rt_bitpack(void)
{
    uint32_t v[MAXN];
    uint32_t o[MAXN];
    uint64_t w[MAXN];
    uint64_t p[MAXN];
    uint8_t enc[MAXN * 8 + 8];
    int c;
    for (c = 0; c < RT_CASES; c++) {
        int bw = (int)st_below(33);
        int bw64 = (int)st_below(65);
        size_t n = st_below(MAXN + 1);
        uint64_t m64 = bw64 >= 64 ? UINT64_MAX : (((uint64_t)1 << bw64) - 1);
        size_t len = 0;
        size_t used = 0;
        size_t i;
        int rc;
        for (i = 0; i < n; i++) {
            v[i] = (uint32_t)st_rnd() & mask32(bw);
            w[i] = st_rnd() & m64;
        }
        rc = ref_bitpack_lsb(v, n, bw, enc, sizeof enc, &len);
        CHECK(rc == 0 && len == (n * (size_t)bw + 7) / 8, "pack32 rc %d", rc);
        rc = ref_bitunpack_lsb(enc, len, bw, o, n, &used);
        CHECK(rc == 0 && used == len && memcmp(o, v, n * 4) == 0, "pack32 rt bw %d n %zu", bw, n);
        rc = ref_bitpack64_lsb(w, n, bw64, enc, sizeof enc, &len);
        CHECK(rc == 0 && len == (n * (size_t)bw64 + 7) / 8, "pack64 rc %d", rc);
        rc = ref_bitunpack64_lsb(enc, len, bw64, p, n, &used);
        CHECK(rc == 0 && used == len && memcmp(p, w, n * 8) == 0, "pack64 rt bw %d n %zu", bw64, n);
    }
}

static void rt_plain_bss(void)
{
    uint8_t raw[MAXN * 16];
    uint8_t enc[MAXN * 16 + MAXN * 4 + 64];
    uint8_t dec[MAXN * 16];
    ref_span_t sp[MAXN];
    ref_span_t so[MAXN];
    int c;
    for (c = 0; c < RT_CASES; c++) {
        size_t n = st_below(MAXN + 1);
        size_t len = 0;
        size_t used = 0;
        size_t i;
        int rc;
        uint32_t which = st_below(6);
        st_fill(raw, n * 16);
        if (which == 0) {
            for (i = 0; i < n; i++) raw[i] &= 1;
            rc = ref_plain_encode_bool(raw, n, enc, sizeof enc, &len);
            CHECK(rc == 0 && len == (n + 7) / 8, "bool enc");
            rc = ref_plain_decode_bool(enc, len, dec, n, &used);
            CHECK(rc == 0 && used == len && memcmp(dec, raw, n) == 0, "bool rt n %zu", n);
            if (len > 0) CHECK(ref_plain_decode_bool(enc, len - 1, dec, n, &used) == REF_ERR_TRUNCATED, "bool cut");
        } else if (which == 1) {
            uint32_t v[MAXN];
            uint32_t o[MAXN];
            memcpy(v, raw, n * 4);
            rc = ref_plain_encode_u32(v, n, enc, sizeof enc, &len);
            CHECK(rc == 0 && len == 4 * n, "u32 enc");
            rc = ref_plain_decode_u32(enc, len, o, n, &used);
            CHECK(rc == 0 && used == len && memcmp(o, v, n * 4) == 0, "u32 rt");
            /* on this little-endian host PLAIN is the memory image */
            CHECK(memcmp(enc, v, n * 4) == 0, "u32 image");
            if (len > 0) CHECK(ref_plain_decode_u32(enc, len - 1, o, n, &used) == REF_ERR_TRUNCATED, "u32 cut");
        } else if (which == 2) {
            uint64_t v[MAXN];
            uint64_t o[MAXN];
            memcpy(v, raw, n * 8);
            rc = ref_plain_encode_u64(v, n, enc, sizeof enc, &len);
            CHECK(rc == 0 && len == 8 * n, "u64 enc");
            rc = ref_plain_decode_u64(enc, len, o, n, &used);
            CHECK(rc == 0 && used == len && memcmp(o, v, n * 8) == 0 && memcmp(enc, v, n * 8) == 0, "u64 rt");
            if (len > 0) CHECK(ref_plain_decode_u64(enc, len - 1, o, n, &used) == REF_ERR_TRUNCATED, "u64 cut");
        } else if (which == 3) {
            uint32_t v[MAXN * 3];
            uint32_t o[MAXN * 3];
            memcpy(v, raw, n * 12);
            rc = ref_plain_encode_int96(v, n, enc, sizeof enc, &len);
            CHECK(rc == 0 && len == 12 * n, "i96 enc");
            rc = ref_plain_decode_int96(enc, len, o, n, &used);
            CHECK(rc == 0 && used == len && memcmp(o, v, n * 12) == 0 && memcmp(enc, v, n * 12) == 0, "i96 rt");
        } else if (which == 4) {
            /* byte arrays: random, possibly overlapping spans into raw */
            size_t data_len = n * 16;
            size_t au = 0;
            size_t total = 0;
            int same = 1;
            for (i = 0; i < n; i++) {
                sp[i].len = st_below(4) == 0 ? 0 : st_below(16);
                sp[i].off = st_below((uint32_t)(data_len - sp[i].len + 1));
                total += sp[i].len;
            }
            rc = ref_plain_encode_byte_array(raw, data_len, sp, n, enc, sizeof enc, &len);
            CHECK(rc == 0 && len == total + 4 * n, "ba enc rc %d", rc);
            rc = ref_plain_decode_byte_array(enc, len, n, dec, sizeof dec, so, &au, &used);
            CHECK(rc == 0 && used == len && au == total, "ba dec rc %d", rc);
            for (i = 0; i < n; i++) {
                if (so[i].len != sp[i].len || memcmp(dec + so[i].off, raw + sp[i].off, sp[i].len) != 0) same = 0;
            }
            CHECK(same, "ba rt");
            rc = ref_plain_decode_byte_array_inplace(enc, len, n, so, &used);
            same = (rc == 0 && used == len);
            for (i = 0; same && i < n; i++) {
                if (so[i].len != sp[i].len || memcmp(enc + so[i].off, raw + sp[i].off, sp[i].len) != 0) same = 0;
            }
            CHECK(same, "ba inplace rt");
            if (len > 0) {
                CHECK(ref_plain_decode_byte_array(enc, len - 1, n, dec, sizeof dec, so, &au, &used) == REF_ERR_TRUNCATED, "ba cut");
            }
        } else {
            size_t width = 1 + st_below(16);
            size_t cnt = 0;
            rc = ref_bss_encode(raw, n, width, enc, sizeof enc, &len);
            CHECK(rc == 0 && len == n * width, "bss enc");
            rc = ref_bss_decode(enc, len, width, dec, sizeof dec, &cnt);
            CHECK(rc == 0 && cnt == n && memcmp(dec, raw, n * width) == 0, "bss rt w %zu n %zu", width, n);
            rc = ref_plain_encode_flba(raw, n, width, enc, sizeof enc, &len);
            CHECK(rc == 0 && len == n * width && memcmp(enc, raw, len) == 0, "flba enc");
            rc = ref_plain_decode_flba(enc, len, width, dec, n, &used);
            CHECK(rc == 0 && used == len && memcmp(dec, raw, len) == 0, "flba rt");
        }
    }
}

/* Integer sequences of various shapes.  W = 32 or 64; values as uint64. */
static size_t gen_ints(uint64_t* v, size_t maxn, int W)
{
    size_t n = st_below(8) == 0 ? st_below(4) : st_below((uint32_t)maxn + 1);
    uint32_t mode = st_below(7);
    uint64_t cur = st_rnd();
    uint64_t lo = (W == 64) ? 0x8000000000000000ull : 0xFFFFFFFF80000000ull; /* MIN */
    uint64_t hi = (W == 64) ? 0x7FFFFFFFFFFFFFFFull : 0x000000007FFFFFFFull; /* MAX */
    size_t i;
    int spread = (int)st_below((uint32_t)W);
    if (st_below(3) == 0) cur = st_below(1000);
    for (i = 0; i < n; i++) {
        switch (mode) {
        case 0: cur += st_below(16); break;                                /* small steps up       */
        case 1: cur += (uint64_t)st_below(64) - 32; break;                  /* small steps both ways */
        case 2: cur = st_rnd(); break;                                      /* full range            */
        case 3: break;                                                      /* constant              */
        case 4: cur = (st_below(2) ? lo : hi) + (st_below(4) == 0 ? st_below(3) : 0); break; /* extremes */
        case 5: cur += (st_rnd() >> (63 - spread)) - ((uint64_t)1 << spread) / 2; break;      /* given spread */
        default:                                                            /* mostly flat, rare jumps */
            if (st_below(20) == 0) cur += st_rnd() >> st_below(64);
            break;
        }
        v[i] = cur;
    }
    return n;
}

static void pick_block(uint32_t* block, uint32_t* mini)
{
    static const uint32_t bs[5] = {128, 256, 384, 512, 1024};
    uint32_t b = bs[st_below(5)];
    uint32_t per;
    uint32_t m;
    /* miniblocks = b / per with per a multiple of 32 dividing b */
    do {
        per = 32 * (1 + st_below(b / 32));
    } while (b % per != 0);
    m = b / per;
    *block = b;
    *mini = m;
}

/* Width bytes of the miniblocks that hold values, in stream order. */
static size_t delta_used_widths(const uint8_t* s, size_t len, uint8_t* w, size_t wcap)
{
    size_t p = 0;
    uint64_t bs = 0, mb = 0, tot = 0, x = 0, got = 1, per;
    size_t k = 0;
    ref_uleb_read(s, len, &p, &bs);
    ref_uleb_read(s, len, &p, &mb);
    ref_uleb_read(s, len, &p, &tot);
    ref_uleb_read(s, len, &p, &x);
    per = bs / mb;
    while (got < tot) {
        size_t wp;
        uint64_t m;
        ref_uleb_read(s, len, &p, &x);
        wp = p;
        p += (size_t)mb;
        for (m = 0; m < mb && got < tot; m++) {
            if (k < wcap) w[k] = s[wp + m];
            k++;
            p += (size_t)(per / 8 * s[wp + m]);
            got += per;
        }
    }
    return k;
}

static void rt_delta(void)
{
    enum { N = 700 };
    static uint64_t v[N];
    static int64_t v64[N];
    static int64_t o64[N];
    static int32_t v32[N];
    static int32_t o32[N];
    static uint8_t enc[N * 10 + 2048];
    static uint8_t enc2[N * 10 + 2048];
    static uint8_t wcanon[64];
    static uint8_t wforce[64];
    int c;
    for (c = 0; c < RT_CASES; c++) {
        int W = st_below(2) ? 64 : 32;
        size_t n = gen_ints(v, (c % 16 == 0) ? N : 200, W);
        uint32_t block;
        uint32_t mini;
        uint8_t unused = (uint8_t)(st_below(2) ? 0 : st_rnd());
        size_t len = 0;
        size_t cnt = 0;
        size_t used = 0;
        size_t i;
        int rc;
        pick_block(&block, &mini);
        if (W == 64) {
            for (i = 0; i < n; i++) memcpy(&v64[i], &v[i], 8);
            rc = ref_delta_encode_i64(v64, n, block, mini, unused, enc, sizeof enc, &len);
            CHECK(rc == 0, "delta64 enc rc %d", rc);
            rc = ref_delta_decode_i64(enc, len, o64, N, &cnt, &used);
            CHECK(rc == 0 && cnt == n && used == len && memcmp(o64, v64, n * 8) == 0,
                  "delta64 rt n %zu block %u/%u rc %d", n, block, mini, rc);
            {
                /* dictated widths: equal to the canonical ones -> same bytes;
                 * larger -> still decodes; one too small -> REF_ERR_ARG */
                size_t k = delta_used_widths(enc, len, wcanon, sizeof wcanon);
                int zzlen = st_below(2) ? 0 : (W == 64 ? 10 : 5 + (int)st_below(6));
                size_t len2 = 0;
                size_t shrink = k;
                CHECK(k <= sizeof wcanon, "width count");
                rc = ref_delta_encode_i64_widths(v64, n, block, mini, wcanon, k, 0, unused, enc2, sizeof enc2, &len2);
                CHECK(rc == 0 && len2 == len && memcmp(enc, enc2, len) == 0, "delta64 widths=canonical rc %d", rc);
                for (i = 0; i < k; i++) {
                    if (wcanon[i] > 0) shrink = i;
                    wforce[i] = (uint8_t)(wcanon[i] + st_below(65u - wcanon[i]));
                }
                rc = ref_delta_encode_i64_widths(v64, n, block, mini, wforce, k, zzlen, unused, enc2, sizeof enc2, &len2);
                CHECK(rc == 0, "delta64 wider enc rc %d", rc);
                rc = ref_delta_decode_i64(enc2, len2, o64, N, &cnt, &used);
                CHECK(rc == 0 && cnt == n && used == len2 && memcmp(o64, v64, n * 8) == 0, "delta64 wider rt rc %d", rc);
                if (k > 0) {
                    CHECK(ref_delta_encode_i64_widths(v64, n, block, mini, wforce, k - 1, 0, unused, enc2, sizeof enc2, &len2) == REF_ERR_ARG, "too few widths");
                }
                if (shrink < k) {
                    wforce[shrink] = (uint8_t)(wcanon[shrink] - 1);
                    CHECK(ref_delta_encode_i64_widths(v64, n, block, mini, wforce, k, zzlen, unused, enc2, sizeof enc2, &len2) == REF_ERR_ARG, "width too small");
                }
            }
            if (c % 2 == 1) {
                size_t t;
                for (t = 0; t < 4; t++) {
                    i = (t == 0) ? len - 1 : st_below((uint32_t)len);
                    rc = ref_delta_decode_i64(enc, i, o64, N, &cnt, &used);
                    CHECK(rc == REF_ERR_TRUNCATED, "delta64 prefix %zu/%zu rc %d", i, len, rc);
                }
            }
        } else {
            for (i = 0; i < n; i++) {
                uint32_t u = (uint32_t)v[i];
                memcpy(&v32[i], &u, 4);
            }
            rc = ref_delta_encode_i32(v32, n, block, mini, unused, enc, sizeof enc, &len);
            CHECK(rc == 0, "delta32 enc rc %d", rc);
            rc = ref_delta_decode_i32(enc, len, o32, N, &cnt, &used);
            CHECK(rc == 0 && cnt == n && used == len && memcmp(o32, v32, n * 4) == 0,
                  "delta32 rt n %zu block %u/%u rc %d", n, block, mini, rc);
            {
                size_t k = delta_used_widths(enc, len, wcanon, sizeof wcanon);
                int zzlen = st_below(2) ? 0 : (W == 64 ? 10 : 5 + (int)st_below(6));
                size_t len2 = 0;
                size_t shrink = k;
                rc = ref_delta_encode_i32_widths(v32, n, block, mini, wcanon, k, 0, unused, enc2, sizeof enc2, &len2);
                CHECK(rc == 0 && len2 == len && memcmp(enc, enc2, len) == 0, "delta32 widths=canonical rc %d", rc);
                for (i = 0; i < k; i++) {
                    if (wcanon[i] > 0) shrink = i;
                    wforce[i] = (uint8_t)(wcanon[i] + st_below(33u - wcanon[i]));
                }
                rc = ref_delta_encode_i32_widths(v32, n, block, mini, wforce, k, zzlen, unused, enc2, sizeof enc2, &len2);
                CHECK(rc == 0, "delta32 wider enc rc %d", rc);
                rc = ref_delta_decode_i32(enc2, len2, o32, N, &cnt, &used);
                CHECK(rc == 0 && cnt == n && used == len2 && memcmp(o32, v32, n * 4) == 0, "delta32 wider rt rc %d", rc);
                if (k > 0) {
                    wforce[0] = 33;
                    CHECK(ref_delta_encode_i32_widths(v32, n, block, mini, wforce, k, zzlen, unused, enc2, sizeof enc2, &len2) == REF_ERR_ARG, "width 33");
                    wforce[0] = wcanon[0];
                }
                if (shrink < k) {
                    wforce[shrink] = (uint8_t)(wcanon[shrink] - 1);
                    CHECK(ref_delta_encode_i32_widths(v32, n, block, mini, wforce, k, zzlen, unused, enc2, sizeof enc2, &len2) == REF_ERR_ARG, "width too small");
                }
            }
            if (c % 2 == 1) {
                size_t t;
                for (t = 0; t < 4; t++) {
                    i = (t == 0) ? len - 1 : st_below((uint32_t)len);
                    rc = ref_delta_decode_i32(enc, i, o32, N, &cnt, &used);
                    CHECK(rc == REF_ERR_TRUNCATED, "delta32 prefix %zu/%zu rc %d", i, len, rc);
                }
            }
        }
    }
}

/* Random strings with shared prefixes, laid out in data; returns n. */
static size_t gen_strings(uint8_t* data, size_t data_cap, size_t* data_len,
                          ref_span_t* sp, size_t maxn)
{
    size_t n = st_below((uint32_t)maxn + 1);
    size_t pos = 0;
    size_t i;
    for (i = 0; i < n; i++) {
        size_t keep = 0;
        size_t fresh = st_below(4) == 0 ? 0 : st_below(12);
        size_t j;
        if (i > 0 && st_below(3) != 0) keep = st_below(sp[i - 1].len + 1);
        if (pos + keep + fresh > data_cap) {
            n = i;
            break;
        }
        for (j = 0; j < keep; j++) data[pos + j] = data[sp[i - 1].off + j];
        for (j = 0; j < fresh; j++) data[pos + keep + j] = (uint8_t)('a' + st_below(3));
        sp[i].off = (uint32_t)pos;
        sp[i].len = (uint32_t)(keep + fresh);
        pos += keep + fresh;
    }
    *data_len = pos;
    return n;
}

static void rt_delta_ba(void)
{
    enum { N = 200 };
    static uint8_t data[N * 40];
    static uint8_t enc[N * 40 + 4096];
    static uint8_t arena[N * 40];
    static ref_span_t sp[N];
    static ref_span_t so[N];
    static int32_t scratch[2 * N];
    static uint32_t pre[N];
    int c;
    for (c = 0; c < RT_CASES; c++) {
        size_t data_len = 0;
        size_t n = gen_strings(data, sizeof data, &data_len, sp, (c % 8 == 0) ? N : 40);
        uint32_t block;
        uint32_t mini;
        size_t len = 0;
        size_t cnt = 0;
        size_t au = 0;
        size_t used = 0;
        size_t i;
        int same = 1;
        int rc;
        pick_block(&block, &mini);

        rc = ref_delta_length_encode(data, data_len, sp, n, block, mini, scratch, 2 * N, enc, sizeof enc, &len);
        CHECK(rc == 0, "dlba enc rc %d", rc);
        rc = ref_delta_length_decode(enc, len, scratch, 2 * N, arena, sizeof arena, so, N, &cnt, &au, &used);
        CHECK(rc == 0 && cnt == n && used == len && au == data_len, "dlba dec rc %d", rc);
        for (i = 0; rc == 0 && i < n; i++) {
            if (so[i].len != sp[i].len || memcmp(arena + so[i].off, data + sp[i].off, sp[i].len) != 0) same = 0;
        }
        CHECK(same, "dlba rt");
        if (len > 0 && c % 4 == 0) {
            size_t cut = st_below((uint32_t)len);
            rc = ref_delta_length_decode(enc, cut, scratch, 2 * N, arena, sizeof arena, so, N, &cnt, &au, &used);
            CHECK(rc == REF_ERR_TRUNCATED, "dlba prefix %zu/%zu rc %d", cut, len, rc);
        }

        /* DELTA_BYTE_ARRAY, with longest prefixes or with randomly shortened ones */
        {
            const uint32_t* override = NULL;
            if (st_below(2)) {
                for (i = 0; i < n; i++) {
                    uint32_t common = 0;
                    if (i > 0) {
                        while (common < sp[i].len && common < sp[i - 1].len &&
                               data[sp[i].off + common] == data[sp[i - 1].off + common]) common++;
                    }
                    pre[i] = st_below(common + 1);
                }
                override = pre;
            }
            rc = ref_delta_byte_array_encode(data, data_len, sp, n, override, block, mini, scratch, 2 * N,
                                             enc, sizeof enc, &len);
            CHECK(rc == 0, "dba enc rc %d", rc);
            rc = ref_delta_byte_array_decode(enc, len, scratch, 2 * N, arena, sizeof arena, so, N, &cnt, &au, &used);
            CHECK(rc == 0 && cnt == n && used == len && au == data_len, "dba dec rc %d n %zu", rc, n);
            same = 1;
            for (i = 0; rc == 0 && i < n; i++) {
                if (so[i].len != sp[i].len || memcmp(arena + so[i].off, data + sp[i].off, sp[i].len) != 0) same = 0;
            }
            CHECK(same, "dba rt");
            if (len > 0 && c % 4 == 0) {
                size_t cut = st_below((uint32_t)len);
                rc = ref_delta_byte_array_decode(enc, cut, scratch, 2 * N, arena, sizeof arena, so, N, &cnt, &au, &used);
                CHECK(rc == REF_ERR_TRUNCATED, "dba prefix %zu/%zu rc %d", cut, len, rc);
            }
        }
    }
}

/* Random legal Snappy script; returns number of elements. */
size_t st_gen_snappy_script(ref_snappy_elem_t* sc, size_t max_elems, size_t max_out, size_t* lit_needed)
{
    size_t n = 0;
    uint64_t produced = 0;
    size_t lits = 0;
    size_t want = st_below((uint32_t)max_elems + 1);
    while (n < want) {
        uint32_t kind = produced == 0 ? 0 : st_below(4);
        ref_snappy_elem_t e;
        memset(&e, 0, sizeof e);
        e.kind = (uint8_t)kind;
        if (kind == REF_SNAPPY_LITERAL) {
            uint32_t r = st_below(10);
            e.len = r == 0 ? 61 + st_below(300) : (r == 1 ? 60 : 1 + st_below(20));
            e.form = REF_FORM_AUTO;
            if (st_below(2)) {
                /* any legal explicit form */
                int minform = e.len <= 60 ? 0 : (e.len <= 256 ? 1 : 2);
                e.form = (uint8_t)(minform + (int)st_below((uint32_t)(5 - minform)));
            }
        } else if (kind == REF_SNAPPY_COPY1) {
            uint64_t maxoff = produced < 2047 ? produced : 2047;
            e.len = 4 + st_below(8);
            e.offset = 1 + st_below((uint32_t)maxoff);
        } else {
            uint64_t maxoff = produced;
            if (kind == REF_SNAPPY_COPY2 && maxoff > 65535) maxoff = 65535;
            e.len = 1 + st_below(64);
            e.offset = st_below(3) == 0 ? 1 + st_below((uint32_t)(maxoff < 8 ? maxoff : 8))
                                        : 1 + st_below((uint32_t)maxoff);
        }
        if (produced + e.len > max_out) break;
        if (kind == REF_SNAPPY_LITERAL) lits += e.len;
        produced += e.len;
        sc[n++] = e;
    }
    *lit_needed = lits;
    return n;
}

static void rt_snappy(void)
{
    enum { MAXE = 24, MAXOUT = 2500 };
    static ref_snappy_elem_t sc[MAXE];
    static uint8_t lit[MAXOUT];
    static uint8_t enc[MAXOUT * 2 + 64];
    static uint8_t exp[MAXOUT];
    static uint8_t dec[MAXOUT];
    int c;
    for (c = 0; c < RT_CASES; c++) {
        size_t need = 0;
        size_t ne = st_gen_snappy_script(sc, MAXE, MAXOUT, &need);
        size_t el = 0;
        size_t xl = 0;
        size_t dl = 0;
        int rc;
        st_fill(lit, need);
        rc = ref_snappy_encode_script(sc, ne, lit, need, enc, sizeof enc, &el, exp, sizeof exp, &xl);
        CHECK(rc == 0, "snappy script enc rc %d", rc);
        rc = ref_snappy_decode(enc, el, dec, sizeof dec, &dl);
        CHECK(rc == 0 && dl == xl && memcmp(dec, exp, xl) == 0, "snappy script rt rc %d ne %zu", rc, ne);
        if (xl > 0) {
            /* cap exactly right is enough; one less is not */
            CHECK(ref_snappy_decode(enc, el, dec, xl, &dl) == 0, "snappy exact cap");
            CHECK(ref_snappy_decode(enc, el, dec, xl - 1, &dl) == REF_ERR_CAPACITY, "snappy cap-1");
        }
        if (el > 1 && c % 4 == 0) {
            /* a proper prefix either lacks operand/literal bytes or output */
            size_t cut = st_below((uint32_t)el);
            rc = ref_snappy_decode(enc, cut, dec, sizeof dec, &dl);
            CHECK(rc == REF_ERR_TRUNCATED || rc == REF_ERR_CORRUPT, "snappy prefix %zu/%zu rc %d", cut, el, rc);
        }
        {
            size_t n = st_below(700);
            int form = (int)st_below(5);
            rc = ref_snappy_encode_literal_only(exp, n > xl ? xl : n, form, enc, sizeof enc, &el);
            CHECK(rc == 0, "snappy literal_only rc %d", rc);
            rc = ref_snappy_decode(enc, el, dec, sizeof dec, &dl);
            CHECK(rc == 0 && dl == (n > xl ? xl : n) && memcmp(dec, exp, dl) == 0, "snappy literal_only rt form %d", form);
        }
    }
}

size_t st_gen_lz4_script(ref_lz4_seq_t* sq, size_t max_seqs, size_t max_out, size_t* lit_needed)
{
    size_t n = 0;
    uint64_t produced = 0;
    size_t lits = 0;
    size_t want = st_below((uint32_t)max_seqs);
    while (n < want) {
        ref_lz4_seq_t s;
        uint32_t r = st_below(10);
        uint64_t maxoff;
        s.lit_len = r == 0 ? 15 + st_below(600) : (r == 1 ? 14 + st_below(3) : st_below(14));
        if (produced == 0 && s.lit_len == 0) s.lit_len = 1;
        r = st_below(10);
        s.match_len = r == 0 ? 19 + st_below(600) : (r == 1 ? 18 + st_below(3) : 4 + st_below(14));
        maxoff = produced + s.lit_len;
        if (maxoff > 65535) maxoff = 65535;
        s.offset = (uint16_t)(st_below(3) == 0 ? 1 + st_below((uint32_t)(maxoff < 8 ? maxoff : 8))
                                               : 1 + st_below((uint32_t)maxoff));
        if (produced + s.lit_len + s.match_len + 20 > max_out) break;
        produced += s.lit_len + s.match_len;
        lits += s.lit_len;
        sq[n++] = s;
    }
    /* last sequence: literals only */
    sq[n].lit_len = st_below(4) == 0 ? 0 : st_below(20);
    sq[n].match_len = 0;
    sq[n].offset = 0;
    lits += sq[n].lit_len;
    n++;
    *lit_needed = lits;
    return n;
}

static void rt_lz4(void)
{
    enum { MAXS = 12, MAXOUT = 4000 };
    static ref_lz4_seq_t sq[MAXS + 1];
    static uint8_t lit[MAXOUT];
    static uint8_t enc[MAXOUT * 2 + 64];
    static uint8_t exp[MAXOUT];
    static uint8_t dec[MAXOUT];
    int c;
    for (c = 0; c < RT_CASES; c++) {
        size_t need = 0;
        size_t ns = st_gen_lz4_script(sq, MAXS, MAXOUT, &need);
        size_t el = 0;
        size_t xl = 0;
        size_t dl = 0;
        int rc;
        int rule_ok = 1;
        st_fill(lit, need);
        rc = ref_lz4_encode_script(sq, ns, lit, need, enc, sizeof enc, &el, exp, sizeof exp, &xl);
        CHECK(rc == 0, "lz4 script enc rc %d", rc);
        rc = ref_lz4_block_decode(enc, el, dec, sizeof dec, &dl, 0);
        CHECK(rc == 0 && dl == xl && memcmp(dec, exp, xl) == 0, "lz4 script rt rc %d ns %zu", rc, ns);
        CHECK(ref_lz4_block_decode(enc, el, dec, xl, &dl, 0) == 0, "lz4 exact cap");
        if (xl > 0) CHECK(ref_lz4_block_decode(enc, el, dec, xl - 1, &dl, 0) == REF_ERR_CAPACITY, "lz4 cap-1");
        /* the end-rule verdict must match the script */
        if (ns >= 2) {
            uint64_t tail = (uint64_t)sq[ns - 2].match_len + sq[ns - 1].lit_len;
            rule_ok = sq[ns - 1].lit_len >= 5 && tail >= 12;
        }
        rc = ref_lz4_block_decode(enc, el, dec, sizeof dec, &dl, 1);
        CHECK(rc == (rule_ok ? 0 : REF_ERR_ENDRULE) && dl == xl, "lz4 end rules rc %d expect ok=%d", rc, rule_ok);
        if (el > 1 && c % 4 == 0) {
            size_t cut = st_below((uint32_t)el);
            rc = ref_lz4_block_decode(enc, cut, dec, sizeof dec, &dl, 0);
            /* a prefix can be a valid block only if it stops exactly after the
             * literals of some sequence; otherwise it is refused */
            if (rc == 0) {
                CHECK(dl <= xl && memcmp(dec, exp, dl) == 0, "lz4 prefix output");
            } else {
                CHECK(rc == REF_ERR_TRUNCATED, "lz4 prefix %zu/%zu rc %d", cut, el, rc);
            }
        }
        {
            size_t n = st_below(700);
            if (n > xl) n = xl;
            rc = ref_lz4_encode_literal_only(exp, n, enc, sizeof enc, &el);
            CHECK(rc == 0, "lz4 literal_only rc %d", rc);
            rc = ref_lz4_block_decode(enc, el, dec, sizeof dec, &dl, 1);
            CHECK(rc == 0 && dl == n && memcmp(dec, exp, n) == 0, "lz4 literal_only rt");
        }
    }
}

static void rt_sbbf(void)
{
    static uint8_t bs[32 * 16];
    static uint64_t h[64];
    int c;
    for (c = 0; c < RT_CASES; c++) {
        uint32_t blocks = 1 + st_below(16);
        size_t k = st_below(24);
        size_t i;
        size_t j;
        memset(bs, 0, sizeof bs);
        for (i = 0; i < k; i++) {
            uint8_t before[32 * 16];
            uint32_t m[8];
            uint32_t idx;
            size_t changed_outside = 0;
            h[i] = st_rnd();
            memcpy(before, bs, sizeof bs);
            ref_sbbf_insert(bs, blocks, h[i]);
            idx = ref_sbbf_block_index(h[i], blocks);
            ref_sbbf_mask(h[i], m);
            for (j = 0; j < sizeof bs; j++) {
                if (bs[j] != before[j] && (j / 32) != idx) changed_outside++;
            }
            CHECK(idx < blocks && changed_outside == 0, "sbbf touches one block");
            for (j = 0; j < 8; j++) {
                uint32_t w = 0;
                uint32_t wb = 0;
                memcpy(&w, bs + 32 * idx + 4 * j, 4);      /* little-endian host */
                memcpy(&wb, before + 32 * idx + 4 * j, 4);
                CHECK(w == (wb | m[j]) && (m[j] & (m[j] - 1)) == 0 && m[j] != 0, "sbbf word %zu", j);
            }
        }
        for (i = 0; i < k; i++) {
            CHECK(ref_sbbf_check(bs, blocks, h[i]) == 1, "sbbf no false negative");
        }
        if (k == 0) {
            CHECK(ref_sbbf_check(bs, blocks, st_rnd()) == 0, "sbbf empty filter");
        }
    }
}

void st_roundtrip(void)
{
    rt_rle();
    rt_bitpack();
    rt_plain_bss();
    rt_delta();
    rt_delta_ba();
    rt_snappy();
    rt_lz4();
    rt_sbbf();
}
