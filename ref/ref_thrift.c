/*
 * ref_thrift.c - reference Thrift compact protocol codec (see ref_thrift.h).
 * Written from thrift/doc/specs/thrift-compact-protocol.md.
 */
#include "ref_thrift.h"
#include <string.h>

/* ================================================================== */
/* reader                                                              */
/* ================================================================== */

void ref_tc_reader_init(ref_tc_reader* r, const uint8_t* buf, size_t len, size_t pos)
{
    r->buf = buf;
    r->len = len;
    r->pos = pos;
}

int ref_tc_read_byte(ref_tc_reader* r, uint8_t* v)
{
    if (r->pos >= r->len) return REF_ERR_TC_EOF;
    *v = r->buf[r->pos];
    r->pos += 1;
    return REF_OK;
}

int ref_tc_read_uvarint(ref_tc_reader* r, int max_bits, uint64_t* v)
{
    uint64_t acc = 0;
    int shift = 0;
    int max_bytes = (max_bits + 6) / 7;
    int i;
    for (i = 0; i < max_bytes; i++) {
        uint8_t b;
        uint64_t chunk;
        REF_TRY(ref_tc_read_byte(r, &b));
        chunk = (uint64_t)(b & 0x7f);
        /* bits of this chunk that would land at or above max_bits must be 0 */
        if (shift + 7 > max_bits) {
            int keep = max_bits - shift;            /* 1..6 */
            if ((chunk >> keep) != 0) return REF_ERR_TC_VARINT;
        }
        acc |= chunk << shift;
        shift += 7;
        if ((b & 0x80) == 0) {
            *v = acc;
            return REF_OK;
        }
    }
    return REF_ERR_TC_VARINT;      /* continuation bit still set after max_bytes */
}

int ref_tc_read_i16(ref_tc_reader* r, int16_t* v)
{
    uint64_t u;
    uint32_t z;
    /* an i16 travels as zig-zag of the value widened to 32 bits; the decoded
     * value must fit int16 */
    REF_TRY(ref_tc_read_uvarint(r, 32, &u));
    z = (uint32_t)u;
    {
        uint32_t mag = z >> 1;
        int32_t val = (z & 1u) ? (int32_t)(~mag) : (int32_t)mag;
        if (val < -32768 || val > 32767) return REF_ERR_TC_VARINT;
        *v = (int16_t)val;
    }
    return REF_OK;
}

int ref_tc_read_i32(ref_tc_reader* r, int32_t* v)
{
    uint64_t u;
    uint32_t z, mag;
    REF_TRY(ref_tc_read_uvarint(r, 32, &u));
    z = (uint32_t)u;
    mag = z >> 1;
    *v = (z & 1u) ? (int32_t)(~mag) : (int32_t)mag;
    return REF_OK;
}

int ref_tc_read_i64(ref_tc_reader* r, int64_t* v)
{
    uint64_t u, mag;
    REF_TRY(ref_tc_read_uvarint(r, 64, &u));
    mag = u >> 1;
    *v = (u & 1u) ? (int64_t)(~mag) : (int64_t)mag;
    return REF_OK;
}

int ref_tc_read_double(ref_tc_reader* r, uint64_t* bits)
{
    uint64_t acc = 0;
    int i;
    if (r->len - r->pos < 8 || r->pos > r->len) return REF_ERR_TC_EOF;
    for (i = 0; i < 8; i++) {
        acc |= (uint64_t)r->buf[r->pos + (size_t)i] << (8 * i);
    }
    r->pos += 8;
    *bits = acc;
    return REF_OK;
}

int ref_tc_read_binary(ref_tc_reader* r, ref_span_t* s)
{
    uint64_t n;
    REF_TRY(ref_tc_read_uvarint(r, 32, &n));
    if (n > 0x7fffffffu) return REF_ERR_TC_SIZE;          /* length is an int32 >= 0 */
    if (n > (uint64_t)(r->len - r->pos)) return REF_ERR_TC_EOF;
    s->off = (uint32_t)r->pos;
    s->len = (uint32_t)n;
    r->pos += (size_t)n;
    return REF_OK;
}

int ref_tc_read_bool_elem(ref_tc_reader* r, uint8_t* v)
{
    uint8_t b;
    REF_TRY(ref_tc_read_byte(r, &b));
    if (b == 1) { *v = 1; return REF_OK; }
    if (b == 0 || b == 2) { *v = 0; return REF_OK; }
    return REF_ERR_TC_BOOL;
}

static int ref_tc_type_is_value(uint8_t t)
{
    return t >= REF_TC_BOOL_TRUE && t <= REF_TC_UUID;
}

int ref_tc_read_field(ref_tc_reader* r, int16_t* last_id, int16_t* id,
                      uint8_t* type, uint8_t* long_form)
{
    uint8_t b, t, delta;
    REF_TRY(ref_tc_read_byte(r, &b));
    if (b == 0) {
        *type = REF_TC_STOP;
        if (long_form) *long_form = 0;
        return REF_OK;
    }
    t = (uint8_t)(b & 0x0f);
    delta = (uint8_t)(b >> 4);
    if (!ref_tc_type_is_value(t)) return REF_ERR_TC_WIRE_TYPE;
    if (delta == 0) {
        int16_t fid;
        REF_TRY(ref_tc_read_i16(r, &fid));
        *id = fid;
        if (long_form) *long_form = 1;
    } else {
        int32_t fid = (int32_t)*last_id + (int32_t)delta;
        if (fid > 32767) return REF_ERR_TC_FIELD_ID;
        *id = (int16_t)fid;
        if (long_form) *long_form = 0;
    }
    *last_id = *id;
    *type = t;
    return REF_OK;
}

int ref_tc_read_list(ref_tc_reader* r, uint8_t* elem_type, uint32_t* size,
                     uint8_t* long_form)
{
    uint8_t b, t, n;
    REF_TRY(ref_tc_read_byte(r, &b));
    t = (uint8_t)(b & 0x0f);
    n = (uint8_t)(b >> 4);
    if (!ref_tc_type_is_value(t)) return REF_ERR_TC_WIRE_TYPE;
    *elem_type = t;
    if (n == 15) {
        uint64_t u;
        REF_TRY(ref_tc_read_uvarint(r, 32, &u));
        if (u > 0x7fffffffu) return REF_ERR_TC_SIZE;
        *size = (uint32_t)u;
        if (long_form) *long_form = 1;
    } else {
        *size = n;
        if (long_form) *long_form = 0;
    }
    return REF_OK;
}

int ref_tc_read_map(ref_tc_reader* r, uint8_t* key_type, uint8_t* val_type,
                    uint32_t* size)
{
    uint64_t u;
    uint8_t b;
    REF_TRY(ref_tc_read_uvarint(r, 32, &u));
    if (u > 0x7fffffffu) return REF_ERR_TC_SIZE;
    *size = (uint32_t)u;
    *key_type = 0;
    *val_type = 0;
    if (u == 0) return REF_OK;
    REF_TRY(ref_tc_read_byte(r, &b));
    *key_type = (uint8_t)(b >> 4);
    *val_type = (uint8_t)(b & 0x0f);
    if (!ref_tc_type_is_value(*key_type)) return REF_ERR_TC_WIRE_TYPE;
    if (!ref_tc_type_is_value(*val_type)) return REF_ERR_TC_WIRE_TYPE;
    return REF_OK;
}

/* minimum encoded size of one element of a type, used to reject absurd
 * container sizes early (keeps loops bounded by the input length) */
static uint32_t ref_tc_min_elem_size(uint8_t t)
{
    if (t == REF_TC_DOUBLE) return 8;
    if (t == REF_TC_UUID) return 16;
    return 1;
}

int ref_tc_skip_ex(ref_tc_reader* r, uint8_t wire_type, int in_container, int depth)
{
    /* a container/struct value met at `depth` is nesting level depth+1 (the
     * outermost struct, skipped with depth 0, is level 1); levels
     * 1..REF_MAX_DEPTH are accepted - the same limit as the walker, whose
     * outermost struct is frame 0 */
    if (wire_type >= REF_TC_LIST && wire_type <= REF_TC_STRUCT && depth >= REF_MAX_DEPTH)
        return REF_ERR_TC_DEPTH;
    switch (wire_type) {
    case REF_TC_BOOL_TRUE:
    case REF_TC_BOOL_FALSE: {
        uint8_t b;
        if (!in_container) return REF_OK;
        return ref_tc_read_bool_elem(r, &b);
    }
    case REF_TC_BYTE: {
        uint8_t b;
        return ref_tc_read_byte(r, &b);
    }
    case REF_TC_I16: {
        int16_t v;
        return ref_tc_read_i16(r, &v);
    }
    case REF_TC_I32: {
        int32_t v;
        return ref_tc_read_i32(r, &v);
    }
    case REF_TC_I64: {
        int64_t v;
        return ref_tc_read_i64(r, &v);
    }
    case REF_TC_DOUBLE: {
        uint64_t v;
        return ref_tc_read_double(r, &v);
    }
    case REF_TC_BINARY: {
        ref_span_t s;
        return ref_tc_read_binary(r, &s);
    }
    case REF_TC_UUID: {
        if (r->pos > r->len || r->len - r->pos < 16) return REF_ERR_TC_EOF;
        r->pos += 16;
        return REF_OK;
    }
    case REF_TC_LIST:
    case REF_TC_SET: {
        uint8_t et;
        uint32_t n, i;
        REF_TRY(ref_tc_read_list(r, &et, &n, NULL));
        if ((uint64_t)n * ref_tc_min_elem_size(et) > (uint64_t)(r->len - r->pos))
            return REF_ERR_TC_EOF;
        for (i = 0; i < n; i++) {
            REF_TRY(ref_tc_skip_ex(r, et, 1, depth + 1));
        }
        return REF_OK;
    }
    case REF_TC_MAP: {
        uint8_t kt, vt;
        uint32_t n, i;
        REF_TRY(ref_tc_read_map(r, &kt, &vt, &n));
        if (n != 0 &&
            (uint64_t)n * (ref_tc_min_elem_size(kt) + ref_tc_min_elem_size(vt)) >
                (uint64_t)(r->len - r->pos))
            return REF_ERR_TC_EOF;
        for (i = 0; i < n; i++) {
            REF_TRY(ref_tc_skip_ex(r, kt, 1, depth + 1));
            REF_TRY(ref_tc_skip_ex(r, vt, 1, depth + 1));
        }
        return REF_OK;
    }
    case REF_TC_STRUCT: {
        int16_t last = 0, id = 0;
        uint8_t t;
        /* every field consumes >= 1 byte, so this loop is bounded by len */
        for (;;) {
            REF_TRY(ref_tc_read_field(r, &last, &id, &t, NULL));
            if (t == REF_TC_STOP) return REF_OK;
            REF_TRY(ref_tc_skip_ex(r, t, 0, depth + 1));
        }
    }
    default:
        return REF_ERR_TC_WIRE_TYPE;
    }
}

int ref_tc_skip(ref_tc_reader* r, uint8_t wire_type, int depth)
{
    return ref_tc_skip_ex(r, wire_type, 0, depth);
}

/* ================================================================== */
/* writer                                                              */
/* ================================================================== */

void ref_tc_writer_init(ref_tc_writer* w, uint8_t* buf, size_t cap, size_t pos)
{
    w->buf = buf;
    w->cap = cap;
    w->pos = pos;
}

int ref_tc_write_byte(ref_tc_writer* w, uint8_t v)
{
    if (w->pos >= w->cap) return REF_ERR_TC_NOSPACE;
    w->buf[w->pos] = v;
    w->pos += 1;
    return REF_OK;
}

int ref_tc_write_bytes(ref_tc_writer* w, const uint8_t* p, size_t n)
{
    if (w->pos > w->cap || n > w->cap - w->pos) return REF_ERR_TC_NOSPACE;
    if (n != 0) memcpy(w->buf + w->pos, p, n);
    w->pos += n;
    return REF_OK;
}

int ref_tc_write_uvarint(ref_tc_writer* w, uint64_t v)
{
    int i;
    for (i = 0; i < 10; i++) {
        uint8_t b = (uint8_t)(v & 0x7f);
        v >>= 7;
        if (v == 0) return ref_tc_write_byte(w, b);
        REF_TRY(ref_tc_write_byte(w, (uint8_t)(b | 0x80)));
    }
    return REF_ERR_TC_ARG;  /* unreachable: 10 groups cover 64 bits */
}

int ref_tc_write_uvarint_padded(ref_tc_writer* w, uint64_t v, int nbytes)
{
    int i;
    if (nbytes < 1 || nbytes > 10) return REF_ERR_TC_ARG;
    if (nbytes < 10 && (v >> (7 * nbytes)) != 0) return REF_ERR_TC_ARG;
    for (i = 0; i < nbytes; i++) {
        uint8_t b = (uint8_t)(v & 0x7f);
        v >>= 7;
        if (i + 1 < nbytes) b = (uint8_t)(b | 0x80);
        REF_TRY(ref_tc_write_byte(w, b));
    }
    return REF_OK;
}

static uint32_t ref_tc_zigzag32(int32_t v)
{
    uint32_t u = (uint32_t)v;
    uint32_t sign = (v < 0) ? 0xffffffffu : 0u;
    return (u << 1) ^ sign;
}

static uint64_t ref_tc_zigzag64(int64_t v)
{
    uint64_t u = (uint64_t)v;
    uint64_t sign = (v < 0) ? ~(uint64_t)0 : (uint64_t)0;
    return (u << 1) ^ sign;
}

int ref_tc_write_i16(ref_tc_writer* w, int16_t v)
{
    return ref_tc_write_uvarint(w, (uint64_t)ref_tc_zigzag32((int32_t)v));
}

int ref_tc_write_i32(ref_tc_writer* w, int32_t v)
{
    return ref_tc_write_uvarint(w, (uint64_t)ref_tc_zigzag32(v));
}

int ref_tc_write_i64(ref_tc_writer* w, int64_t v)
{
    return ref_tc_write_uvarint(w, ref_tc_zigzag64(v));
}

int ref_tc_write_double(ref_tc_writer* w, uint64_t bits)
{
    int i;
    if (w->pos > w->cap || w->cap - w->pos < 8) return REF_ERR_TC_NOSPACE;
    for (i = 0; i < 8; i++) {
        w->buf[w->pos + (size_t)i] = (uint8_t)(bits >> (8 * i));
    }
    w->pos += 8;
    return REF_OK;
}

int ref_tc_write_binary(ref_tc_writer* w, const uint8_t* p, uint32_t n)
{
    if (n > 0x7fffffffu) return REF_ERR_TC_ARG;
    REF_TRY(ref_tc_write_uvarint(w, (uint64_t)n));
    return ref_tc_write_bytes(w, p, (size_t)n);
}

int ref_tc_write_field(ref_tc_writer* w, int16_t* last_id, int16_t id,
                       uint8_t type, int force_long_form)
{
    int32_t delta = (int32_t)id - (int32_t)*last_id;
    if (!ref_tc_type_is_value(type)) return REF_ERR_TC_WIRE_TYPE;
    if (!force_long_form && delta >= 1 && delta <= 15) {
        REF_TRY(ref_tc_write_byte(w, (uint8_t)(((uint32_t)delta << 4) | type)));
    } else {
        REF_TRY(ref_tc_write_byte(w, type));
        REF_TRY(ref_tc_write_i16(w, id));
    }
    *last_id = id;
    return REF_OK;
}

int ref_tc_write_bool_field(ref_tc_writer* w, int16_t* last_id, int16_t id,
                            int value, int force_long_form)
{
    return ref_tc_write_field(w, last_id, id,
                              value ? REF_TC_BOOL_TRUE : REF_TC_BOOL_FALSE,
                              force_long_form);
}

int ref_tc_write_stop(ref_tc_writer* w)
{
    return ref_tc_write_byte(w, 0);
}

int ref_tc_write_list(ref_tc_writer* w, uint8_t elem_type, uint32_t size,
                      int force_long_size)
{
    if (!ref_tc_type_is_value(elem_type)) return REF_ERR_TC_WIRE_TYPE;
    if (size > 0x7fffffffu) return REF_ERR_TC_ARG;
    if (size < 15 && !force_long_size) {
        return ref_tc_write_byte(w, (uint8_t)((size << 4) | elem_type));
    }
    REF_TRY(ref_tc_write_byte(w, (uint8_t)(0xf0 | elem_type)));
    return ref_tc_write_uvarint(w, (uint64_t)size);
}

int ref_tc_write_map(ref_tc_writer* w, uint8_t key_type, uint8_t val_type,
                     uint32_t size)
{
    if (size > 0x7fffffffu) return REF_ERR_TC_ARG;
    REF_TRY(ref_tc_write_uvarint(w, (uint64_t)size));
    if (size == 0) return REF_OK;
    if (!ref_tc_type_is_value(key_type)) return REF_ERR_TC_WIRE_TYPE;
    if (!ref_tc_type_is_value(val_type)) return REF_ERR_TC_WIRE_TYPE;
    return ref_tc_write_byte(w, (uint8_t)((key_type << 4) | val_type));
}

/* ---- sample values for unknown-field injection (no recursion: the nested
 * shapes are spelled out) ---- */

static int ref_tc_sample_scalar(ref_tc_writer* w, uint8_t t, int variant, int in_container)
{
    static const uint8_t text[4] = { 'x', 'y', 'z', 'w' };
    switch (t) {
    case REF_TC_BOOL_TRUE:
        if (!in_container) return REF_OK;
        return ref_tc_write_byte(w, 1);
    case REF_TC_BOOL_FALSE:
        if (!in_container) return REF_OK;
        /* false as 0 (spec text) or as 2 (what the Java library writes) */
        return ref_tc_write_byte(w, (uint8_t)((variant & 1) ? 2 : 0));
    case REF_TC_BYTE:
        return ref_tc_write_byte(w, (uint8_t)(0x7f + variant));
    case REF_TC_I16:
        return ref_tc_write_i16(w, (int16_t)(-2 - 300 * variant));
    case REF_TC_I32:
        return ref_tc_write_i32(w, (int32_t)(100000 * (variant + 1)) * ((variant & 1) ? -1 : 1));
    case REF_TC_I64:
        return ref_tc_write_i64(w, (variant & 1) ? (int64_t)(-0x123456789aLL) : (int64_t)0x1122334455667LL + variant);
    case REF_TC_DOUBLE:
        return ref_tc_write_double(w, (uint64_t)0x400921fb54442d18ULL | ((uint64_t)(uint32_t)variant << 56));
    case REF_TC_BINARY:
        /* lengths 1..4; variant 7 gives the empty string */
        return ref_tc_write_binary(w, text, (variant == 7) ? 0u : ((uint32_t)(variant & 3) + 1u));
    case REF_TC_UUID: {
        int i;
        for (i = 0; i < 16; i++) REF_TRY(ref_tc_write_byte(w, (uint8_t)(i + variant)));
        return REF_OK;
    }
    default:
        return REF_ERR_TC_WIRE_TYPE;
    }
}

static int ref_tc_sample_list(ref_tc_writer* w, int variant)
{
    int i;
    int16_t last;
    switch (variant) {
    case 0:
        REF_TRY(ref_tc_write_list(w, REF_TC_I32, 3, 0));
        for (i = 0; i < 3; i++) REF_TRY(ref_tc_write_i32(w, (int32_t)(i * 1000 - 7)));
        return REF_OK;
    case 1:
        REF_TRY(ref_tc_write_list(w, REF_TC_STRUCT, 2, 0));
        for (i = 0; i < 2; i++) {
            last = 0;
            REF_TRY(ref_tc_write_field(w, &last, 1, REF_TC_I32, 0));
            REF_TRY(ref_tc_write_i32(w, (int32_t)(i + 5)));
            REF_TRY(ref_tc_write_stop(w));
        }
        return REF_OK;
    case 2:
        REF_TRY(ref_tc_write_list(w, REF_TC_BYTE, 16, 0));
        for (i = 0; i < 16; i++) REF_TRY(ref_tc_write_byte(w, (uint8_t)(0xf0 + i)));
        return REF_OK;
    case 3:
        REF_TRY(ref_tc_write_list(w, REF_TC_LIST, 2, 1));
        for (i = 0; i < 2; i++) {
            REF_TRY(ref_tc_write_list(w, REF_TC_I64, 1, 0));
            REF_TRY(ref_tc_write_i64(w, (int64_t)(-1 - i)));
        }
        return REF_OK;
    case 4:
        return ref_tc_write_list(w, REF_TC_BINARY, 0, 0);
    case 5:
        REF_TRY(ref_tc_write_list(w, REF_TC_BOOL_FALSE, 2, 0));
        REF_TRY(ref_tc_write_byte(w, 1));
        return ref_tc_write_byte(w, 0);
    default:
        REF_TRY(ref_tc_write_list(w, REF_TC_BINARY, 2, 0));
        REF_TRY(ref_tc_sample_scalar(w, REF_TC_BINARY, 1, 1));
        return ref_tc_sample_scalar(w, REF_TC_BINARY, 4, 1);
    }
}

static int ref_tc_sample_map(ref_tc_writer* w, int variant)
{
    int i;
    int16_t last;
    switch (variant) {
    case 0:
        return ref_tc_write_map(w, 0, 0, 0);
    case 1:
        REF_TRY(ref_tc_write_map(w, REF_TC_I32, REF_TC_BINARY, 2));
        for (i = 0; i < 2; i++) {
            REF_TRY(ref_tc_write_i32(w, (int32_t)(i - 1)));
            REF_TRY(ref_tc_sample_scalar(w, REF_TC_BINARY, i, 1));
        }
        return REF_OK;
    case 2:
        REF_TRY(ref_tc_write_map(w, REF_TC_BINARY, REF_TC_STRUCT, 1));
        REF_TRY(ref_tc_sample_scalar(w, REF_TC_BINARY, 2, 1));
        last = 0;
        REF_TRY(ref_tc_write_bool_field(w, &last, 2, 1, 0));
        return ref_tc_write_stop(w);
    default:
        REF_TRY(ref_tc_write_map(w, REF_TC_BYTE, REF_TC_LIST, 1));
        REF_TRY(ref_tc_write_byte(w, 9));
        return ref_tc_sample_list(w, 0);
    }
}

static int ref_tc_sample_struct(ref_tc_writer* w, int variant)
{
    int16_t l0 = 0, l1 = 0;
    switch (variant) {
    case 0:
        return ref_tc_write_stop(w);
    case 1:
        REF_TRY(ref_tc_write_field(w, &l0, 1, REF_TC_I32, 0));
        REF_TRY(ref_tc_write_i32(w, -123456));
        REF_TRY(ref_tc_write_field(w, &l0, 2, REF_TC_BINARY, 0));
        REF_TRY(ref_tc_sample_scalar(w, REF_TC_BINARY, 1, 0));
        return ref_tc_write_stop(w);
    case 2:
        REF_TRY(ref_tc_write_field(w, &l0, 1, REF_TC_STRUCT, 0));
        REF_TRY(ref_tc_write_field(w, &l1, 1, REF_TC_STRUCT, 0));
        REF_TRY(ref_tc_write_stop(w));                 /* innermost {}       */
        REF_TRY(ref_tc_write_stop(w));                 /* middle             */
        REF_TRY(ref_tc_write_bool_field(w, &l0, 3, 0, 0));
        return ref_tc_write_stop(w);
    default:
        REF_TRY(ref_tc_write_field(w, &l0, 1, REF_TC_LIST, 0));
        REF_TRY(ref_tc_write_list(w, REF_TC_STRUCT, 1, 0));
        REF_TRY(ref_tc_write_field(w, &l1, 1, REF_TC_I64, 0));
        REF_TRY(ref_tc_write_i64(w, (int64_t)0x7fffffffffffffffLL));
        REF_TRY(ref_tc_write_stop(w));
        REF_TRY(ref_tc_write_field(w, &l0, 20, REF_TC_DOUBLE, 1)); /* delta 19: long */
        REF_TRY(ref_tc_write_double(w, 0xfff8000000000001ULL));
        REF_TRY(ref_tc_write_field(w, &l0, 40, REF_TC_I16, 1));
        REF_TRY(ref_tc_write_i16(w, (int16_t)-32768));
        return ref_tc_write_stop(w);
    }
}

int ref_tc_write_sample(ref_tc_writer* w, uint8_t wire_type, int variant,
                        int in_container)
{
    if (variant < 0) return REF_ERR_TC_ARG;
    switch (wire_type) {
    case REF_TC_LIST:
    case REF_TC_SET:
        return ref_tc_sample_list(w, variant);
    case REF_TC_MAP:
        return ref_tc_sample_map(w, variant);
    case REF_TC_STRUCT:
        return ref_tc_sample_struct(w, variant);
    default:
        return ref_tc_sample_scalar(w, wire_type, variant, in_container);
    }
}

/* ================================================================== */
/* event walker (explicit stack)                                       */
/* ================================================================== */

void ref_tc_walk_init(ref_tc_walker* wk, const uint8_t* buf, size_t len, size_t pos)
{
    memset(wk, 0, sizeof(*wk));
    ref_tc_reader_init(&wk->r, buf, len, pos);
    wk->sp = 1;
    wk->st[0].kind = REF_TC_STRUCT;
    wk->st[0].last_id = 0;
    wk->st[0].field_id = 0;
    wk->st[0].item_index = -1;
    wk->n_emitted = 0;
}

/* read the value part of an item of wire type t (header already consumed).
 * Scalars are decoded into ev; containers/structs push a frame. */
static int ref_tc_walk_value(ref_tc_walker* wk, ref_tc_item* ev, uint8_t t,
                             int in_container, int16_t field_id)
{
    ref_tc_reader* r = &wk->r;
    size_t start = r->pos;
    ev->val_off = (uint32_t)start;
    ev->len = 0;
    ev->elem_type = 0;
    ev->val_type = 0;
    switch (t) {
    case REF_TC_BOOL_TRUE:
    case REF_TC_BOOL_FALSE:
        if (!in_container) {
            ev->ival = (t == REF_TC_BOOL_TRUE) ? 1 : 0;
        } else {
            uint8_t b;
            REF_TRY(ref_tc_read_bool_elem(r, &b));
            ev->ival = b;
        }
        break;
    case REF_TC_BYTE: {
        uint8_t b;
        REF_TRY(ref_tc_read_byte(r, &b));
        ev->ival = (int64_t)(int8_t)b;
        break;
    }
    case REF_TC_I16: {
        int16_t v;
        REF_TRY(ref_tc_read_i16(r, &v));
        ev->ival = v;
        break;
    }
    case REF_TC_I32: {
        int32_t v;
        REF_TRY(ref_tc_read_i32(r, &v));
        ev->ival = v;
        break;
    }
    case REF_TC_I64: {
        int64_t v;
        REF_TRY(ref_tc_read_i64(r, &v));
        ev->ival = v;
        break;
    }
    case REF_TC_DOUBLE: {
        uint64_t v;
        REF_TRY(ref_tc_read_double(r, &v));
        ev->ival = (int64_t)v;
        break;
    }
    case REF_TC_BINARY: {
        ref_span_t s;
        REF_TRY(ref_tc_read_binary(r, &s));
        ev->ival = (int64_t)s.len;
        ev->val_off = s.off;
        ev->len = s.len;
        return REF_OK;
    }
    case REF_TC_UUID:
        if (r->pos > r->len || r->len - r->pos < 16) return REF_ERR_TC_EOF;
        r->pos += 16;
        ev->ival = 16;
        break;
    case REF_TC_LIST:
    case REF_TC_SET:
    case REF_TC_MAP:
    case REF_TC_STRUCT: {
        ref_tc_frame* f;
        if (wk->sp >= REF_MAX_DEPTH) return REF_ERR_TC_DEPTH;
        f = &wk->st[wk->sp];
        memset(f, 0, sizeof(*f));
        f->kind = t;
        f->field_id = field_id;
        f->item_index = wk->n_emitted;      /* the item being produced now */
        ev->ival = 0;
        if (t == REF_TC_LIST || t == REF_TC_SET) {
            uint8_t et, lf;
            uint32_t n;
            REF_TRY(ref_tc_read_list(r, &et, &n, &lf));
            if ((uint64_t)n * ref_tc_min_elem_size(et) > (uint64_t)(r->len - r->pos))
                return REF_ERR_TC_EOF;
            f->elem_type = et;
            f->remaining = n;
            ev->elem_type = et;
            ev->ival = (int64_t)n;
            ev->long_form = lf;
        } else if (t == REF_TC_MAP) {
            uint8_t kt, vt;
            uint32_t n;
            REF_TRY(ref_tc_read_map(r, &kt, &vt, &n));
            if (n != 0 &&
                (uint64_t)n * (ref_tc_min_elem_size(kt) + ref_tc_min_elem_size(vt)) >
                    (uint64_t)(r->len - r->pos))
                return REF_ERR_TC_EOF;
            f->elem_type = kt;
            f->val_type = vt;
            f->remaining = n;
            ev->elem_type = kt;
            ev->val_type = vt;
            ev->ival = (int64_t)n;
        }
        wk->sp += 1;
        return REF_OK;
    }
    default:
        return REF_ERR_TC_WIRE_TYPE;
    }
    ev->len = (uint32_t)(r->pos - start);
    return REF_OK;
}

int ref_tc_next_event(ref_tc_walker* wk, ref_tc_item* ev)
{
    ref_tc_frame* f;
    int i;
    memset(ev, 0, sizeof(*ev));
    ev->parent = -1;

    /* pop exhausted containers (they produce no event of their own) */
    for (i = 0; i <= REF_MAX_DEPTH; i++) {
        if (wk->sp == 0) break;
        f = &wk->st[wk->sp - 1];
        if (f->kind == REF_TC_STRUCT) break;
        if (f->remaining != 0) break;
        wk->sp -= 1;
    }
    if (wk->sp == 0) {
        ev->kind = REF_TC_EV_DONE;
        ev->off = (uint32_t)wk->r.pos;
        return REF_OK;
    }
    f = &wk->st[wk->sp - 1];
    ev->depth = (uint8_t)(wk->sp - 1);
    ev->parent = f->item_index;
    ev->off = (uint32_t)wk->r.pos;

    if (f->kind == REF_TC_STRUCT) {
        int16_t id = 0;
        uint8_t t, lf;
        REF_TRY(ref_tc_read_field(&wk->r, &f->last_id, &id, &t, &lf));
        if (t == REF_TC_STOP) {
            ev->kind = REF_TC_EV_STRUCT_END;
            ev->field_id = f->field_id;
            ev->val_off = ev->off;
            ev->len = 1;
            wk->sp -= 1;
            wk->n_emitted += 1;
            return REF_OK;
        }
        ev->kind = REF_TC_EV_FIELD;
        ev->wire_type = t;
        ev->field_id = id;
        ev->long_form = lf;
        {
            /* long_form is overwritten for list values by walk_value: keep the
             * field-header form for non-list fields, and for list fields report
             * header form in bit 0 and list-size form in bit 1 */
            uint8_t hdr_lf = lf;
            REF_TRY(ref_tc_walk_value(wk, ev, t, 0, id));
            if (t == REF_TC_LIST || t == REF_TC_SET)
                ev->long_form = (uint8_t)(hdr_lf | (uint8_t)(ev->long_form << 1));
            else
                ev->long_form = hdr_lf;
        }
        wk->n_emitted += 1;
        return REF_OK;
    }

    /* container element */
    {
        uint8_t t;
        if (f->kind == REF_TC_MAP) {
            if (f->map_phase == 0) {
                ev->kind = REF_TC_EV_MAP_KEY;
                t = f->elem_type;
                ev->index = f->index;
                f->map_phase = 1;
            } else {
                ev->kind = REF_TC_EV_MAP_VAL;
                t = f->val_type;
                ev->index = f->index;
                f->map_phase = 0;
                f->index += 1;
                f->remaining -= 1;
            }
        } else {
            ev->kind = REF_TC_EV_ELEM;
            t = f->elem_type;
            ev->index = f->index;
            f->index += 1;
            f->remaining -= 1;
        }
        ev->wire_type = t;
        ev->field_id = f->field_id;
        {
            int16_t fid = f->field_id;
            REF_TRY(ref_tc_walk_value(wk, ev, t, 1, fid));
            if (t == REF_TC_LIST || t == REF_TC_SET)
                ev->long_form = (uint8_t)(ev->long_form << 1);
        }
        wk->n_emitted += 1;
        return REF_OK;
    }
}

int ref_tc_flatten(const uint8_t* buf, size_t len, ref_tc_item* items,
                   size_t max_items, size_t* n_items, size_t* consumed)
{
    ref_tc_walker wk;
    size_t n = 0;
    ref_tc_walk_init(&wk, buf, len, 0);
    /* every event except DONE consumes >= 1 byte or closes a frame opened by a
     * consumed byte, so at most 2*len+2 iterations happen */
    for (;;) {
        ref_tc_item ev;
        REF_TRY(ref_tc_next_event(&wk, &ev));
        if (ev.kind == REF_TC_EV_DONE) break;
        if (n >= max_items) return REF_ERR_TC_ITEMS;
        items[n] = ev;
        n += 1;
    }
    *n_items = n;
    *consumed = wk.r.pos;
    return REF_OK;
}

int32_t ref_tc_find_field(const ref_tc_item* items, size_t n_items,
                          int32_t parent, int16_t field_id)
{
    size_t i;
    for (i = 0; i < n_items; i++) {
        if (items[i].kind == REF_TC_EV_FIELD && items[i].parent == parent &&
            items[i].field_id == field_id)
            return (int32_t)i;
    }
    return -1;
}
