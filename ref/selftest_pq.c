/*
 * selftest_pq.c - self-test of the reference Thrift codec and the reference
 * Parquet reader/writer.  NOT solver code (uses stdio, fork, ...).
 *
 *  (ii)  Thrift compact protocol known-answer vectors
 *  (i)   ref-write -> ref-read identity over random file descriptions
 *  (iii) cross-check with the native carquet build (only with -DWITH_CARQUET)
 *
 * Exit status 0 = all reference checks passed.  Disagreements with carquet are
 * printed as "NOTE carquet differs: ..." and never fail the test.
 */
#define _POSIX_C_SOURCE 200809L
#include <stdio.h>
#include <stdlib.h>
#include <string.h>
#include <stdarg.h>

#include "ref_parquet_write.h"

static unsigned long g_checks, g_failures;

#define CHECK(cond, ...)                                                   \
    do {                                                                   \
        g_checks++;                                                        \
        if (!(cond)) {                                                     \
            g_failures++;                                                  \
            if (g_failures <= 40) {                                        \
                printf("FAIL %s:%d: (%s) ", __FILE__, __LINE__, #cond);    \
                printf(__VA_ARGS__);                                       \
                printf("\n");                                              \
            }                                                              \
        }                                                                  \
    } while (0)

/* ------------------------------------------------------------------ */
/* rng                                                                 */
/* ------------------------------------------------------------------ */
static uint64_t g_rng = 0x9E3779B97F4A7C15ull;
static uint64_t g_seed0;            /* g_rng right after seeding */
static uint64_t rnd(void)
{
    g_rng ^= g_rng >> 12;
    g_rng ^= g_rng << 25;
    g_rng ^= g_rng >> 27;
    return g_rng * 0x2545F4914F6CDD1Dull;
}
static uint32_t rn(uint32_t n) { return n ? (uint32_t)(rnd() % n) : 0; }

/* ================================================================== */
/* (ii) Thrift known-answer vectors                                    */
/* ================================================================== */

static void kat_bytes(const char* what, const ref_tc_writer* w, const uint8_t* want, size_t n)
{
    CHECK(w->pos == n && memcmp(w->buf, want, n) == 0, "%s: wrote %zu bytes", what, w->pos);
}

static void test_thrift_kat(void)
{
    uint8_t buf[64];
    ref_tc_writer w;
    ref_tc_reader r;
    int16_t last, id;
    uint8_t t, lf;

    /* --- field headers --- */
    {   /* short form: last 0 -> id 1, i32 : (1<<4)|5 */
        static const uint8_t want[] = { 0x15 };
        ref_tc_writer_init(&w, buf, sizeof buf, 0); last = 0;
        CHECK(ref_tc_write_field(&w, &last, 1, REF_TC_I32, 0) == 0, "rc");
        kat_bytes("field short 1", &w, want, sizeof want);
    }
    {   /* delta 15 is still short: last 1 -> id 16, i32 : 0xF5 */
        static const uint8_t want[] = { 0xF5 };
        ref_tc_writer_init(&w, buf, sizeof buf, 0); last = 1;
        CHECK(ref_tc_write_field(&w, &last, 16, REF_TC_I32, 0) == 0, "rc");
        kat_bytes("field short delta 15", &w, want, sizeof want);
    }
    {   /* delta 16 needs long form: type byte 0x05, zigzag(17) = 34 = 0x22 */
        static const uint8_t want[] = { 0x05, 0x22 };
        ref_tc_writer_init(&w, buf, sizeof buf, 0); last = 1;
        CHECK(ref_tc_write_field(&w, &last, 17, REF_TC_I32, 0) == 0, "rc");
        kat_bytes("field long delta 16", &w, want, sizeof want);
        ref_tc_reader_init(&r, want, sizeof want, 0); last = 1; id = 0;
        CHECK(ref_tc_read_field(&r, &last, &id, &t, &lf) == 0 && id == 17 && t == REF_TC_I32 && lf == 1 && last == 17, "read long");
    }
    {   /* forced long form for id 1: 0x05, zigzag(1) = 2 */
        static const uint8_t want[] = { 0x05, 0x02 };
        ref_tc_writer_init(&w, buf, sizeof buf, 0); last = 0;
        CHECK(ref_tc_write_field(&w, &last, 1, REF_TC_I32, 1) == 0, "rc");
        kat_bytes("field forced long", &w, want, sizeof want);
    }
    {   /* going backwards (id 3 after 9) and a negative id: long form. zigzag(3)=6, zigzag(-1)=1 */
        static const uint8_t want[] = { 0x06, 0x06, 0x08, 0x01 };
        ref_tc_writer_init(&w, buf, sizeof buf, 0); last = 9;
        CHECK(ref_tc_write_field(&w, &last, 3, REF_TC_I64, 0) == 0, "rc");
        CHECK(ref_tc_write_field(&w, &last, -1, REF_TC_BINARY, 0) == 0, "rc");
        kat_bytes("field backwards/negative", &w, want, sizeof want);
        ref_tc_reader_init(&r, want, sizeof want, 0); last = 9;
        CHECK(ref_tc_read_field(&r, &last, &id, &t, &lf) == 0 && id == 3 && t == REF_TC_I64, "read 3");
        CHECK(ref_tc_read_field(&r, &last, &id, &t, &lf) == 0 && id == -1 && t == REF_TC_BINARY, "read -1");
    }
    {   /* id 200 long form: zigzag(200) = 400 = 0x190 -> 0x90 0x03 */
        static const uint8_t want[] = { 0x0C, 0x90, 0x03 };
        ref_tc_writer_init(&w, buf, sizeof buf, 0); last = 8;
        CHECK(ref_tc_write_field(&w, &last, 200, REF_TC_STRUCT, 0) == 0, "rc");
        kat_bytes("field id 200", &w, want, sizeof want);
    }
    {   /* bools live in the header: id 1 true = 0x11, id 2 false = 0x12, long-form false id 40 = 0x02 0x50 */
        static const uint8_t want[] = { 0x11, 0x12, 0x02, 0x50 };
        ref_tc_writer_init(&w, buf, sizeof buf, 0); last = 0;
        CHECK(ref_tc_write_bool_field(&w, &last, 1, 1, 0) == 0, "rc");
        CHECK(ref_tc_write_bool_field(&w, &last, 2, 0, 0) == 0, "rc");
        CHECK(ref_tc_write_bool_field(&w, &last, 40, 0, 0) == 0, "rc");
        kat_bytes("bool fields", &w, want, sizeof want);
    }
    {   /* short-form delta overflowing int16 is rejected */
        static const uint8_t in[] = { 0x25 };
        ref_tc_reader_init(&r, in, sizeof in, 0); last = 32766;
        CHECK(ref_tc_read_field(&r, &last, &id, &t, &lf) == REF_ERR_TC_FIELD_ID, "delta overflow");
    }
    {   /* type nibble 14/15 is illegal */
        static const uint8_t in[] = { 0x1E };
        ref_tc_reader_init(&r, in, sizeof in, 0); last = 0;
        CHECK(ref_tc_read_field(&r, &last, &id, &t, &lf) == REF_ERR_TC_WIRE_TYPE, "type 14");
    }

    /* --- zig-zag varints --- */
    {
        static const struct { int32_t v; uint8_t b[5]; size_t n; } v32[] = {
            { 0, { 0x00 }, 1 }, { -1, { 0x01 }, 1 }, { 1, { 0x02 }, 1 }, { -2, { 0x03 }, 1 },
            { 63, { 0x7E }, 1 }, { -64, { 0x7F }, 1 }, { 64, { 0x80, 0x01 }, 2 },
            { -65, { 0x81, 0x01 }, 2 }, { 2147483647, { 0xFE, 0xFF, 0xFF, 0xFF, 0x0F }, 5 },
            { (-2147483647 - 1), { 0xFF, 0xFF, 0xFF, 0xFF, 0x0F }, 5 },
        };
        size_t i;
        for (i = 0; i < sizeof v32 / sizeof v32[0]; i++) {
            int32_t got = 12345;
            ref_tc_writer_init(&w, buf, sizeof buf, 0);
            CHECK(ref_tc_write_i32(&w, v32[i].v) == 0, "rc");
            kat_bytes("i32", &w, v32[i].b, v32[i].n);
            ref_tc_reader_init(&r, v32[i].b, v32[i].n, 0);
            CHECK(ref_tc_read_i32(&r, &got) == 0 && got == v32[i].v && r.pos == v32[i].n, "i32 read %d", v32[i].v);
        }
    }
    {
        static const uint8_t min64[] = { 0xFF, 0xFF, 0xFF, 0xFF, 0xFF, 0xFF, 0xFF, 0xFF, 0xFF, 0x01 };
        static const uint8_t max64[] = { 0xFE, 0xFF, 0xFF, 0xFF, 0xFF, 0xFF, 0xFF, 0xFF, 0xFF, 0x01 };
        static const uint8_t min16[] = { 0xFF, 0xFF, 0x03 };
        static const uint8_t big16[] = { 0x80, 0x80, 0x04 };      /* zigzag 65536 = +32768: not an i16 */
        static const uint8_t over32[] = { 0xFF, 0xFF, 0xFF, 0xFF, 0x1F };   /* bit 32 set */
        static const uint8_t long32[] = { 0x80, 0x80, 0x80, 0x80, 0x80, 0x00 };  /* 6 bytes */
        static const uint8_t nonmin[] = { 0x82, 0x80, 0x00 };     /* 2 encoded in 3 bytes: legal */
        int64_t g64 = 0; int16_t g16 = 0; int32_t g32 = 0;
        ref_tc_writer_init(&w, buf, sizeof buf, 0);
        CHECK(ref_tc_write_i64(&w, INT64_MIN) == 0, "rc");
        kat_bytes("i64 min", &w, min64, sizeof min64);
        ref_tc_writer_init(&w, buf, sizeof buf, 0);
        CHECK(ref_tc_write_i64(&w, INT64_MAX) == 0, "rc");
        kat_bytes("i64 max", &w, max64, sizeof max64);
        ref_tc_reader_init(&r, min64, sizeof min64, 0);
        CHECK(ref_tc_read_i64(&r, &g64) == 0 && g64 == INT64_MIN, "i64 min read");
        ref_tc_writer_init(&w, buf, sizeof buf, 0);
        CHECK(ref_tc_write_i16(&w, INT16_MIN) == 0, "rc");
        kat_bytes("i16 min", &w, min16, sizeof min16);
        ref_tc_reader_init(&r, min16, sizeof min16, 0);
        CHECK(ref_tc_read_i16(&r, &g16) == 0 && g16 == INT16_MIN, "i16 min read");
        ref_tc_reader_init(&r, big16, sizeof big16, 0);
        CHECK(ref_tc_read_i16(&r, &g16) == REF_ERR_TC_VARINT, "i16 out of range");
        ref_tc_reader_init(&r, over32, sizeof over32, 0);
        CHECK(ref_tc_read_i32(&r, &g32) == REF_ERR_TC_VARINT, "i32 33 bits");
        ref_tc_reader_init(&r, long32, sizeof long32, 0);
        CHECK(ref_tc_read_i32(&r, &g32) == REF_ERR_TC_VARINT, "i32 6 bytes");
        ref_tc_reader_init(&r, nonmin, sizeof nonmin, 0);
        CHECK(ref_tc_read_i32(&r, &g32) == 0 && g32 == 1 && r.pos == 3, "non-minimal varint");
        ref_tc_writer_init(&w, buf, sizeof buf, 0);
        CHECK(ref_tc_write_uvarint_padded(&w, 2, 3) == 0, "rc");
        kat_bytes("padded varint", &w, nonmin, sizeof nonmin);
        ref_tc_reader_init(&r, min64, 4, 0);
        CHECK(ref_tc_read_i64(&r, &g64) == REF_ERR_TC_EOF, "truncated varint");
    }

    /* --- list headers: sizes 14 / 15 / 16, forced long size --- */
    {
        static const uint8_t l14[] = { 0xE5 };
        static const uint8_t l15[] = { 0xF5, 0x0F };
        static const uint8_t l16[] = { 0xF5, 0x10 };
        static const uint8_t l3long[] = { 0xFC, 0x03 };
        static const uint8_t l300[] = { 0xF8, 0xAC, 0x02 };
        uint8_t et; uint32_t n;
        ref_tc_writer_init(&w, buf, sizeof buf, 0);
        CHECK(ref_tc_write_list(&w, REF_TC_I32, 14, 0) == 0, "rc"); kat_bytes("list 14", &w, l14, sizeof l14);
        ref_tc_writer_init(&w, buf, sizeof buf, 0);
        CHECK(ref_tc_write_list(&w, REF_TC_I32, 15, 0) == 0, "rc"); kat_bytes("list 15", &w, l15, sizeof l15);
        ref_tc_writer_init(&w, buf, sizeof buf, 0);
        CHECK(ref_tc_write_list(&w, REF_TC_I32, 16, 0) == 0, "rc"); kat_bytes("list 16", &w, l16, sizeof l16);
        ref_tc_writer_init(&w, buf, sizeof buf, 0);
        CHECK(ref_tc_write_list(&w, REF_TC_STRUCT, 3, 1) == 0, "rc"); kat_bytes("list 3 long", &w, l3long, sizeof l3long);
        ref_tc_writer_init(&w, buf, sizeof buf, 0);
        CHECK(ref_tc_write_list(&w, REF_TC_BINARY, 300, 0) == 0, "rc"); kat_bytes("list 300", &w, l300, sizeof l300);
        ref_tc_reader_init(&r, l14, sizeof l14, 0);
        CHECK(ref_tc_read_list(&r, &et, &n, &lf) == 0 && et == REF_TC_I32 && n == 14 && lf == 0, "read 14");
        ref_tc_reader_init(&r, l15, sizeof l15, 0);
        CHECK(ref_tc_read_list(&r, &et, &n, &lf) == 0 && n == 15 && lf == 1, "read 15");
        ref_tc_reader_init(&r, l3long, sizeof l3long, 0);
        CHECK(ref_tc_read_list(&r, &et, &n, &lf) == 0 && et == REF_TC_STRUCT && n == 3 && lf == 1, "read 3 long");
        ref_tc_reader_init(&r, l300, sizeof l300, 0);
        CHECK(ref_tc_read_list(&r, &et, &n, &lf) == 0 && et == REF_TC_BINARY && n == 300, "read 300");
    }

    /* --- binary, double, map, bool elements --- */
    {
        static const uint8_t bin[] = { 0x03, 'a', 'b', 'c' };
        static const uint8_t dbl[] = { 0x00, 0x00, 0x00, 0x00, 0x00, 0x00, 0xF0, 0x3F };   /* 1.0, little endian */
        static const uint8_t map0[] = { 0x00 };
        static const uint8_t map1[] = { 0x01, 0x58, 0x02, 0x01, 'a' };     /* {i32 1 -> "a"} */
        static const uint8_t blist[] = { 0x22, 0x01, 0x00 };               /* list<bool> [true,false] */
        static const uint8_t blist_java[] = { 0x21, 0x01, 0x02 };          /* same, as libthrift-java writes it */
        ref_span_t sp; uint64_t bits; uint8_t kt, vt; uint32_t n; uint8_t et, bv;
        ref_tc_writer_init(&w, buf, sizeof buf, 0);
        CHECK(ref_tc_write_binary(&w, (const uint8_t*)"abc", 3) == 0, "rc"); kat_bytes("binary", &w, bin, sizeof bin);
        ref_tc_reader_init(&r, bin, sizeof bin, 0);
        CHECK(ref_tc_read_binary(&r, &sp) == 0 && sp.off == 1 && sp.len == 3, "binary read");
        ref_tc_reader_init(&r, bin, 3, 0);
        CHECK(ref_tc_read_binary(&r, &sp) == REF_ERR_TC_EOF, "binary truncated");
        ref_tc_writer_init(&w, buf, sizeof buf, 0);
        CHECK(ref_tc_write_double(&w, 0x3FF0000000000000ull) == 0, "rc"); kat_bytes("double", &w, dbl, sizeof dbl);
        ref_tc_reader_init(&r, dbl, sizeof dbl, 0);
        CHECK(ref_tc_read_double(&r, &bits) == 0 && bits == 0x3FF0000000000000ull, "double read");
        ref_tc_writer_init(&w, buf, sizeof buf, 0);
        CHECK(ref_tc_write_map(&w, 0, 0, 0) == 0, "rc"); kat_bytes("map empty", &w, map0, sizeof map0);
        ref_tc_writer_init(&w, buf, sizeof buf, 0);
        CHECK(ref_tc_write_map(&w, REF_TC_I32, REF_TC_BINARY, 1) == 0, "rc");
        CHECK(ref_tc_write_i32(&w, 1) == 0 && ref_tc_write_binary(&w, (const uint8_t*)"a", 1) == 0, "rc");
        kat_bytes("map 1", &w, map1, sizeof map1);
        ref_tc_reader_init(&r, map1, sizeof map1, 0);
        CHECK(ref_tc_read_map(&r, &kt, &vt, &n) == 0 && kt == REF_TC_I32 && vt == REF_TC_BINARY && n == 1, "map read");
        ref_tc_reader_init(&r, map1, sizeof map1, 0);
        CHECK(ref_tc_skip(&r, REF_TC_MAP, 0) == 0 && r.pos == sizeof map1, "map skip");
        ref_tc_reader_init(&r, blist, sizeof blist, 0);
        CHECK(ref_tc_read_list(&r, &et, &n, &lf) == 0 && et == REF_TC_BOOL_FALSE && n == 2, "bool list hdr");
        CHECK(ref_tc_read_bool_elem(&r, &bv) == 0 && bv == 1, "bool elem 1");
        CHECK(ref_tc_read_bool_elem(&r, &bv) == 0 && bv == 0, "bool elem 0");
        ref_tc_reader_init(&r, blist_java, sizeof blist_java, 0);
        CHECK(ref_tc_skip(&r, REF_TC_LIST, 0) == 0 && r.pos == 3, "bool list (java form) skip");
        ref_tc_reader_init(&r, blist, sizeof blist, 0);
        CHECK(ref_tc_skip(&r, REF_TC_BOOL_TRUE, 0) == 0 && r.pos == 0, "bool field value occupies no byte");
    }

    /* --- a complete PageHeader, byte for byte --- */
    {
        /* PageHeader{1:type=DATA_PAGE(0) 2:uncompressed=10 3:compressed=10
         *            5:DataPageHeader{1:num_values=3 2:PLAIN(0) 3:RLE(3) 4:RLE(3)}} */
        static const uint8_t want[] = { 0x15, 0x00, 0x15, 0x14, 0x15, 0x14, 0x2C,
                                        0x15, 0x06, 0x15, 0x00, 0x15, 0x06, 0x15, 0x06, 0x00, 0x00 };
        ref_page_header ph, back;
        ref_meta_writer mw;
        ref_tc_item items[32];
        size_t n_items = 0, consumed = 0;
        memset(&ph, 0, sizeof ph);
        ph.present = REF_BIT(1) | REF_BIT(2) | REF_BIT(3) | REF_BIT(5);
        ph.type = REF_PAGE_DATA; ph.uncompressed_page_size = 10; ph.compressed_page_size = 10;
        ph.data.present = REF_BIT(1) | REF_BIT(2) | REF_BIT(3) | REF_BIT(4);
        ph.data.num_values = 3; ph.data.encoding = REF_ENC_PLAIN;
        ph.data.definition_level_encoding = REF_ENC_RLE; ph.data.repetition_level_encoding = REF_ENC_RLE;
        ref_meta_writer_init(&mw, buf, sizeof buf, 0, NULL, 0, NULL);
        CHECK(ref_write_page_header(&mw, &ph) == 0, "rc");
        kat_bytes("page header", &mw.w, want, sizeof want);
        ref_tc_reader_init(&r, want, sizeof want, 0);
        CHECK(ref_parse_page_header(&r, &back) == 0 && r.pos == sizeof want, "parse");
        CHECK(back.present == ph.present && back.data.num_values == 3 && back.data.repetition_level_encoding == 3 &&
              back.compressed_page_size == 10, "fields");
        CHECK(ref_tc_flatten(want, sizeof want, items, 32, &n_items, &consumed) == 0 && consumed == sizeof want, "flatten");
        CHECK(n_items == 10, "n_items %zu", n_items);   /* 3 + struct field + 4 inner + 2 STRUCT_END */
        if (n_items == 10) {
            CHECK(items[1].kind == REF_TC_EV_FIELD && items[1].field_id == 2 && items[1].ival == 10 && items[1].depth == 0, "item 1");
            CHECK(items[3].wire_type == REF_TC_STRUCT && items[3].field_id == 5 && items[3].parent == -1, "item 3");
            CHECK(items[4].depth == 1 && items[4].parent == 3 && items[4].field_id == 1 && items[4].ival == 3, "item 4");
            CHECK(items[8].kind == REF_TC_EV_STRUCT_END && items[8].parent == 3, "item 8");
            CHECK(items[9].kind == REF_TC_EV_STRUCT_END && items[9].parent == -1 && items[9].depth == 0, "item 9");
            CHECK(ref_tc_find_field(items, n_items, 3, 4) == 7, "find");
        }
        /* required field missing / wrong wire type / duplicate */
        {
            static const uint8_t miss[] = { 0x15, 0x00, 0x15, 0x14, 0x00 };
            static const uint8_t wrongt[] = { 0x16, 0x00, 0x15, 0x14, 0x15, 0x14, 0x00 };
            static const uint8_t dup[] = { 0x15, 0x00, 0x05, 0x02, 0x00, 0x15, 0x14, 0x15, 0x14, 0x00 };
            ref_tc_reader_init(&r, miss, sizeof miss, 0);
            CHECK(ref_parse_page_header(&r, &back) == REF_ERR_META_REQUIRED, "missing required");
            ref_tc_reader_init(&r, wrongt, sizeof wrongt, 0);
            CHECK(ref_parse_page_header(&r, &back) == REF_ERR_META_WIRE_TYPE, "wrong wire type");
            ref_tc_reader_init(&r, dup, sizeof dup, 0);
            CHECK(ref_parse_page_header(&r, &back) == REF_ERR_META_DUP, "duplicate field");
        }
    }

    /* --- every sample value: skip, walker and writer agree on its length; depth limit --- */
    {
        static const int nvar[14] = { 0, 2, 2, 2, 2, 2, 2, 2, 8, 7, 7, 4, 4, 2 };
        int ty, v;
        for (ty = 1; ty <= 13; ty++) {
            for (v = 0; v < nvar[ty]; v++) {
                uint8_t sb[128];
                ref_tc_item items[64];
                size_t n_items = 0, consumed = 0;
                ref_tc_writer_init(&w, sb, sizeof sb, 0); last = 0;
                CHECK(ref_tc_write_field(&w, &last, 7, (uint8_t)ty, 0) == 0, "rc");
                CHECK(ref_tc_write_sample(&w, (uint8_t)ty, v, 0) == 0, "sample %d/%d", ty, v);
                CHECK(ref_tc_write_stop(&w) == 0, "rc");
                ref_tc_reader_init(&r, sb, w.pos, 0);
                CHECK(ref_tc_skip(&r, REF_TC_STRUCT, 0) == 0 && r.pos == w.pos, "skip sample %d/%d", ty, v);
                CHECK(ref_tc_flatten(sb, w.pos, items, 64, &n_items, &consumed) == 0 && consumed == w.pos,
                      "flatten sample %d/%d", ty, v);
                CHECK(n_items >= 2 && items[0].field_id == 7 && items[0].wire_type == ty, "first item");
                /* every strict prefix is an error, never UB */
                {
                    size_t cut;
                    for (cut = 0; cut < w.pos; cut++) {
                        ref_tc_reader_init(&r, sb, cut, 0);
                        CHECK(ref_tc_skip(&r, REF_TC_STRUCT, 0) < 0, "prefix %zu of sample %d/%d accepted", cut, ty, v);
                        CHECK(ref_tc_flatten(sb, cut, items, 64, &n_items, &consumed) < 0, "prefix flatten");
                    }
                }
            }
        }
        {   /* nesting: REF_MAX_DEPTH structs open at once are fine, one more is REF_ERR_TC_DEPTH */
            uint8_t deep[4 * REF_MAX_DEPTH + 8];
            ref_tc_item items[4 * REF_MAX_DEPTH + 8];
            size_t n_items, consumed;
            int lvl, d;
            for (lvl = REF_MAX_DEPTH - 1; lvl <= REF_MAX_DEPTH; lvl++) {   /* lvl structs inside the outer one */
                size_t p = 0;
                int want = (lvl < REF_MAX_DEPTH) ? 0 : REF_ERR_TC_DEPTH;
                for (d = 0; d < lvl; d++) deep[p++] = 0x1C;     /* field 1: struct */
                for (d = 0; d <= lvl; d++) deep[p++] = 0x00;
                ref_tc_reader_init(&r, deep, p, 0);
                CHECK(ref_tc_skip(&r, REF_TC_STRUCT, 0) == want, "skip depth %d", lvl);
                CHECK(ref_tc_flatten(deep, p, items, sizeof items / sizeof items[0], &n_items, &consumed) == want,
                      "flatten depth %d", lvl);
            }
        }
        {   /* absurd container size is rejected without looping */
            static const uint8_t huge[] = { 0x19, 0xF5, 0xFF, 0xFF, 0xFF, 0xFF, 0x07, 0x00 };
            ref_tc_reader_init(&r, huge, sizeof huge, 0);
            CHECK(ref_tc_skip(&r, REF_TC_STRUCT, 0) == REF_ERR_TC_EOF, "huge list");
        }
    }
}

/* ================================================================== */
/* (i) random descriptions                                             */
/* ================================================================== */

#define T_MAX_LV   48          /* levels per chunk produced by the generator */
#define T_POOL     16384
#define T_OUT      (1u << 18)

static uint8_t      g_pool[T_POOL];
static size_t       g_pool_used;
static uint8_t      g_out[T_OUT];
static ref_w_file   g_desc;
static ref_w_layout g_lay;
static ref_pq_file  g_file;
static ref_meta_wopts g_wopts;
static ref_pq_column_data g_cd;
static uint8_t      g_arena[T_POOL];

/* bump storage for the arrays referenced by the description */
static uint16_t   g_u16[REF_MAX_ROW_GROUPS * REF_MAX_COLUMNS * T_MAX_LV * 4];
static size_t     g_u16_used;
static uint64_t   g_u64[REF_MAX_ROW_GROUPS * REF_MAX_COLUMNS * (T_MAX_LV * 2 + 8)];
static size_t     g_u64_used;
static ref_span_t g_sp[REF_MAX_ROW_GROUPS * REF_MAX_COLUMNS * (T_MAX_LV * 2 + 8)];
static size_t     g_sp_used;
static uint8_t    g_lay8[REF_MAX_ROW_GROUPS * REF_MAX_COLUMNS * 3 * 3 * 80];
static size_t     g_lay8_used;

/* the table the file is supposed to hold */
typedef struct exp_chunk {
    uint32_t   n_levels, n_values;
    uint16_t   def[T_MAX_LV], rep[T_MAX_LV];
    uint64_t   val[T_MAX_LV];
    ref_span_t span[T_MAX_LV];       /* into g_pool */
    uint32_t   page_first_level[REF_MAX_PAGES + 1];   /* data pages only */
    uint32_t   page_first_value[REF_MAX_PAGES + 1];
    int        n_data_pages;
} exp_chunk;
static exp_chunk g_exp[REF_MAX_ROW_GROUPS][REF_MAX_COLUMNS];

typedef struct exp_leaf {
    int     path_len;
    int     path_rep[REF_MAX_SCHEMA_DEPTH + 1];   /* repetition of each node, top-down */
    int     max_def, max_rep;
    int32_t type, type_length;
    int     schema_idx;
} exp_leaf;
static exp_leaf g_leaf[REF_MAX_COLUMNS];
static int g_n_leaves;

typedef struct gen_opts {
    int carquet_subset;     /* only what carquet claims: v1 pages, dictionary offset present, no UUID fields */
    int allow_unreadable;   /* REF_W_DICT_OFFSET_ABSENT */
    int no_zero_runs;       /* no zero-length runs in the hybrid layouts */
} gen_opts;
static const gen_opts* g_go;

static ref_span_t pool_put(const void* p, size_t n)
{
    ref_span_t s;
    if (g_pool_used + n > T_POOL) { printf("FATAL: test pool exhausted\n"); exit(2); }
    if (n) memcpy(g_pool + g_pool_used, p, n);
    s.off = (uint32_t)g_pool_used;
    s.len = (uint32_t)n;
    g_pool_used += n;
    return s;
}

static ref_span_t pool_random(size_t n)
{
    uint8_t tmp[64];
    size_t i;
    for (i = 0; i < n && i < sizeof tmp; i++) tmp[i] = (uint8_t)rnd();
    return pool_put(tmp, n);
}

static ref_span_t pool_str(const char* s) { return pool_put(s, strlen(s)); }

/* ---- schema ---- */
static int g_path_stack[REF_MAX_SCHEMA_DEPTH + 1];

static void gen_node(int depth, int* leaves_left)
{
    ref_schema_element* e;
    char name[16];
    int idx = g_desc.n_schema;
    int make_group = depth < 3 && *leaves_left >= 2 && g_desc.n_schema + 3 < REF_MAX_SCHEMA && rn(3) == 0;
    e = &g_desc.schema[g_desc.n_schema++];
    memset(e, 0, sizeof *e);
    snprintf(name, sizeof name, "%c%d", make_group ? 'g' : 'c', idx);
    e->present = REF_BIT(REF_SE_NAME) | REF_BIT(REF_SE_REPETITION_TYPE);
    e->name = pool_str(name);
    e->repetition_type = (int32_t)rn(3);
    g_path_stack[depth - 1] = e->repetition_type;
    if (rn(5) == 0) { e->present |= REF_BIT(REF_SE_FIELD_ID); e->field_id = (int32_t)rnd(); }
    if (make_group) {
        int nc = 1 + (int)rn(2), c;
        e->present |= REF_BIT(REF_SE_NUM_CHILDREN);
        e->num_children = nc;
        if (rn(4) == 0) { e->present |= REF_BIT(REF_SE_CONVERTED_TYPE); e->converted_type = 3; /* LIST */ }
        for (c = 0; c < nc; c++) gen_node(depth + 1, leaves_left);
    } else {
        exp_leaf* l = &g_leaf[g_n_leaves++];
        int k;
        *leaves_left -= 1;
        e->present |= REF_BIT(REF_SE_TYPE);
        e->type = (int32_t)rn(8);
        if (e->type == REF_TYPE_FIXED_LEN_BYTE_ARRAY) {
            e->present |= REF_BIT(REF_SE_TYPE_LENGTH);
            e->type_length = 1 + (int32_t)rn(5);
        }
        if (rn(6) == 0) { e->present |= REF_BIT(REF_SE_NUM_CHILDREN); e->num_children = 0; } /* legal noise */
        if (e->type == REF_TYPE_BYTE_ARRAY && rn(2) == 0) {
            e->present |= REF_BIT(REF_SE_CONVERTED_TYPE) | REF_BIT(REF_SE_LOGICAL_TYPE);
            e->converted_type = 0;      /* UTF8 */
            e->logical_kind = 1;        /* STRING */
        }
        if (e->type == REF_TYPE_INT32 && rn(3) == 0) {
            /* DECIMAL(precision 9, scale 2): LogicalType{5: {1: scale, 2: precision}} raw */
            static const uint8_t raw[] = { 0x5C, 0x15, 0x04, 0x15, 0x12, 0x00, 0x00 };
            e->present |= REF_BIT(REF_SE_CONVERTED_TYPE) | REF_BIT(REF_SE_SCALE) | REF_BIT(REF_SE_PRECISION) |
                          REF_BIT(REF_SE_LOGICAL_TYPE);
            e->converted_type = 5; e->scale = 2; e->precision = 9;
            e->logical_kind = 5;
            e->logical_raw = pool_put(raw, sizeof raw);
        }
        l->path_len = depth;
        l->max_def = 0; l->max_rep = 0;
        for (k = 0; k < depth; k++) {
            l->path_rep[k] = g_path_stack[k];
            if (g_path_stack[k] != REF_REP_REQUIRED) l->max_def++;
            if (g_path_stack[k] == REF_REP_REPEATED) l->max_rep++;
        }
        l->type = e->type;
        l->type_length = e->type_length;
        l->schema_idx = idx;
    }
}

static void gen_schema(const gen_opts* go)
{
    int leaves_left = 1 + (int)rn(go->carquet_subset ? 4 : 6);
    int top = 0;
    ref_schema_element* root = &g_desc.schema[0];
    g_desc.n_schema = 1;
    g_n_leaves = 0;
    memset(root, 0, sizeof *root);
    root->present = REF_BIT(REF_SE_NAME) | REF_BIT(REF_SE_NUM_CHILDREN);
    root->name = pool_str("schema");
    if (rn(4) == 0) { root->present |= REF_BIT(REF_SE_REPETITION_TYPE); root->repetition_type = 0; }
    while (leaves_left > 0 && g_desc.n_schema + 4 < REF_MAX_SCHEMA && g_n_leaves < REF_MAX_COLUMNS - 1) {
        gen_node(1, &leaves_left);
        top++;
    }
    root->num_children = top;
}

/* ---- levels of one leaf for one row (textbook record shredding of a random record) ---- */
static void gen_entries(const exp_leaf* l, int i, int cur_def, int rep_first, int reps_above, exp_chunk* ec)
{
    int rt;
    if (ec->n_levels >= T_MAX_LV) return;
    if (i == l->path_len) {
        ec->rep[ec->n_levels] = (uint16_t)rep_first;
        ec->def[ec->n_levels] = (uint16_t)cur_def;
        ec->n_levels++;
        return;
    }
    rt = l->path_rep[i];
    if (rt == REF_REP_REQUIRED) {
        gen_entries(l, i + 1, cur_def, rep_first, reps_above, ec);
    } else if (rt == REF_REP_OPTIONAL) {
        if (rn(3) == 0) {
            ec->rep[ec->n_levels] = (uint16_t)rep_first;
            ec->def[ec->n_levels] = (uint16_t)cur_def;
            ec->n_levels++;
        } else {
            gen_entries(l, i + 1, cur_def + 1, rep_first, reps_above, ec);
        }
    } else {
        int cnt = (int)rn(3), j;
        int my_rep = reps_above + 1;
        if (cnt == 0) {
            ec->rep[ec->n_levels] = (uint16_t)rep_first;
            ec->def[ec->n_levels] = (uint16_t)cur_def;
            ec->n_levels++;
        }
        for (j = 0; j < cnt; j++)
            gen_entries(l, i + 1, cur_def + 1, j == 0 ? rep_first : my_rep, my_rep, ec);
    }
}

static uint8_t* gen_layout(const uint32_t* v, uint32_t n, uint32_t* out_len)
{
    uint8_t* lay = g_lay8 + g_lay8_used;
    uint32_t len = 0, pos = 0;
    int mode = (int)rn(4);
    if (mode == 0) { *out_len = 0; return NULL; }          /* everything in one bit-packed run */
    while (pos < n && len < 70) {
        uint32_t r = rn(8);
        if (r == 0 && !g_go->no_zero_runs) {
            lay[len++] = (uint8_t)(rn(2) ? 0x80 : 0x00);    /* zero-length RLE / empty bit-packed run */
        } else if (r <= 3 || mode == 1) {
            uint32_t run = 1, k;
            while (pos + run < n && v[pos + run] == v[pos] && run < 127) run++;
            k = 1 + rn(run);
            lay[len++] = (uint8_t)(0x80 | k);
            pos += k;
        } else {
            uint32_t remaining = n - pos, k;
            if (remaining < 8 || rn(3) == 0) k = remaining;
            else k = 8 * (1 + rn(remaining / 8));
            lay[len++] = (uint8_t)k;
            pos += k;
        }
    }
    if (pos >= n && rn(4) == 0 && !g_go->no_zero_runs) lay[len++] = 0x80;       /* trailing zero-length run */
    g_lay8_used += len;
    if (g_lay8_used + 80 > sizeof g_lay8) { printf("FATAL: layout pool\n"); exit(2); }
    *out_len = len;
    return lay;
}

static void gen_stats(ref_statistics* st)
{
    memset(st, 0, sizeof *st);
    st->present = (uint32_t)(rnd() & 0x1FE);
    st->max = pool_random(rn(6)); st->min = pool_random(rn(6));
    st->max_value = pool_random(rn(9)); st->min_value = pool_random(rn(9));
    st->null_count = (int64_t)rn(100); st->distinct_count = (int64_t)rnd();
    st->is_max_value_exact = (uint8_t)rn(2); st->is_min_value_exact = (uint8_t)rn(2);
}

static int bits_for(uint32_t v) { int b = 0; while (v) { b++; v >>= 1; } return b; }

static void gen_chunk(const gen_opts* go, int rg, int col, int64_t rows)
{
    const exp_leaf* l = &g_leaf[col];
    exp_chunk* ec = &g_exp[rg][col];
    ref_w_chunk* ch = &g_desc.rg[rg].chunks[col];
    static const int32_t codecs[3] = { REF_CODEC_UNCOMPRESSED, REF_CODEC_SNAPPY, REF_CODEC_LZ4_RAW };
    uint32_t row_start[T_MAX_LV + 1];
    uint32_t n_rows = 0, i;
    int use_dict, n_dict = 0, n_data_pages, p;
    uint64_t dict_val[4];
    ref_span_t dict_span[4];
    uint32_t idx_of_value[T_MAX_LV];
    int v2 = go->carquet_subset ? 0 : (int)rn(3) == 0;
    int64_t r;

    memset(ec, 0, sizeof *ec);
    memset(ch, 0, sizeof *ch);
    ch->codec = codecs[rn(3)];
    for (r = 0; r < rows; r++) {
        uint32_t before = ec->n_levels;
        gen_entries(l, 0, 0, 0, 0, ec);      /* <= 8 entries per row, <= 5 rows */
        row_start[n_rows++] = before;
    }
    row_start[n_rows] = ec->n_levels;

    /* values */
    use_dict = l->type != REF_TYPE_BOOLEAN && rn(2) == 0 && ec->n_levels > 0;
    if (use_dict) {
        n_dict = 1 + (int)rn(4);
        for (i = 0; i < (uint32_t)n_dict; i++) {
            dict_val[i] = 0; dict_span[i].off = 0; dict_span[i].len = 0;
            switch (l->type) {
            case REF_TYPE_INT32: case REF_TYPE_FLOAT: dict_val[i] = (uint32_t)rnd(); break;
            case REF_TYPE_INT64: case REF_TYPE_DOUBLE: dict_val[i] = rnd(); break;
            case REF_TYPE_INT96: dict_span[i] = pool_random(12); break;
            case REF_TYPE_FIXED_LEN_BYTE_ARRAY: dict_span[i] = pool_random((size_t)l->type_length); break;
            default: dict_span[i] = pool_random(rn(7)); break;
            }
        }
    }
    for (i = 0; i < ec->n_levels; i++) {
        uint32_t k;
        if (ec->def[i] != (uint16_t)l->max_def) continue;
        k = ec->n_values++;
        ec->val[k] = 0; ec->span[k].off = 0; ec->span[k].len = 0;
        if (use_dict) {
            idx_of_value[k] = rn((uint32_t)n_dict);
            ec->val[k] = dict_val[idx_of_value[k]];
            ec->span[k] = dict_span[idx_of_value[k]];
            continue;
        }
        switch (l->type) {
        case REF_TYPE_BOOLEAN: ec->val[k] = rn(2); break;
        case REF_TYPE_INT32: case REF_TYPE_FLOAT: ec->val[k] = (uint32_t)rnd(); break;
        case REF_TYPE_INT64: case REF_TYPE_DOUBLE: ec->val[k] = rnd(); break;
        case REF_TYPE_INT96: ec->span[k] = pool_random(12); break;
        case REF_TYPE_FIXED_LEN_BYTE_ARRAY: ec->span[k] = pool_random((size_t)l->type_length); break;
        default: ec->span[k] = pool_random(rn(7)); break;
        }
    }

    /* pages: split at row boundaries */
    n_data_pages = n_rows == 0 ? 0 : 1 + (int)rn(n_rows < 3 ? n_rows : 3);
    if (n_data_pages + 1 > REF_MAX_PAGES) n_data_pages = REF_MAX_PAGES - 1;
    ec->n_data_pages = n_data_pages;
    ch->n_pages = 0;
    ch->dict_offset_mode = REF_W_DICT_OFFSET_PRESENT;
    if (!go->carquet_subset) {
        uint32_t m = rn(8);
        if (m == 0 && go->allow_unreadable) ch->dict_offset_mode = REF_W_DICT_OFFSET_ABSENT;
        else if (m <= 2) ch->dict_offset_mode = REF_W_DICT_OFFSET_AT_DATA;
    }
    ch->with_encoding_stats = (uint8_t)rn(2);
    if (rn(3) == 0) { ch->with_stats = 1; gen_stats(&ch->stats); }
    if (!go->carquet_subset && rn(12) == 0) ch->gap_before = (uint8_t)(1 + rn(5));
    if (rn(6) == 0) {
        ch->n_kv = 1;
        ch->kv[0].present = REF_BIT(1) | (rn(2) ? REF_BIT(2) : 0);
        ch->kv[0].key = pool_str("chunk.key");
        ch->kv[0].value = pool_random(rn(5));
    }
    if (use_dict && n_data_pages > 0) {
        ref_w_page* pg = &ch->pages[ch->n_pages++];
        uint64_t* dv = g_u64 + g_u64_used;
        ref_span_t* ds = g_sp + g_sp_used;
        g_u64_used += 4; g_sp_used += 4;
        memcpy(dv, dict_val, sizeof dict_val);
        memcpy(ds, dict_span, sizeof dict_span);
        pg->page_type = REF_PAGE_DICTIONARY;
        pg->encoding = (uint8_t)(rn(2) ? REF_ENC_PLAIN : REF_ENC_PLAIN_DICTIONARY);
        pg->n_values = (uint32_t)n_dict;
        pg->val = dv; pg->span = ds;
        pg->with_crc = (uint8_t)rn(2);
        pg->dict_is_sorted = (uint8_t)rn(3);
        pg->snappy_lit_form = (uint8_t)rn(5);
    }
    {
        uint32_t row_cut[4];
        uint32_t value_pos = 0;
        row_cut[0] = 0;
        for (p = 1; p < n_data_pages; p++) row_cut[p] = row_cut[p - 1] + 1 + rn(n_rows - row_cut[p - 1] - (uint32_t)(n_data_pages - p));
        row_cut[n_data_pages] = n_rows;
        for (p = 0; p < n_data_pages; p++) {
            ref_w_page* pg = &ch->pages[ch->n_pages++];
            uint32_t a = row_start[row_cut[p]], b = row_start[row_cut[p + 1]];
            uint32_t nn = 0, tmp[T_MAX_LV];
            uint16_t* dl = g_u16 + g_u16_used;
            uint16_t* rl = dl + (b - a);
            g_u16_used += 2 * (size_t)(b - a);
            for (i = a; i < b; i++) {
                dl[i - a] = ec->def[i]; rl[i - a] = ec->rep[i];
                if (ec->def[i] == (uint16_t)l->max_def) nn++;
            }
            ec->page_first_level[p] = a;
            ec->page_first_value[p] = value_pos;
            pg->page_type = (uint8_t)((v2 && rn(4) != 0) ? REF_PAGE_DATA_V2 : REF_PAGE_DATA);
            pg->n_levels = b - a;
            pg->n_values = nn;
            pg->def = (l->max_def > 0 || rn(2)) ? dl : NULL;
            if (l->max_def > 0 && nn == b - a && rn(3) == 0) pg->def = NULL;   /* NULL = all defined */
            pg->rep = (l->max_rep > 0) ? rl : NULL;
            for (i = 0; i < b - a; i++) tmp[i] = dl[i];
            pg->def_layout = gen_layout(tmp, b - a, &pg->def_layout_len);
            for (i = 0; i < b - a; i++) tmp[i] = rl[i];
            pg->rep_layout = gen_layout(tmp, b - a, &pg->rep_layout_len);
            pg->with_crc = (uint8_t)rn(2);
            pg->snappy_lit_form = (uint8_t)rn(5);
            pg->v2_is_compressed = (uint8_t)rn(3);
            if (rn(4) == 0) { pg->with_stats = 1; gen_stats(&pg->stats); }
            if (use_dict && rn(4) != 0) {
                uint64_t* iv = g_u64 + g_u64_used;
                uint32_t maxi = 0;
                g_u64_used += nn;
                for (i = 0; i < nn; i++) {
                    iv[i] = idx_of_value[value_pos + i]; tmp[i] = (uint32_t)iv[i];
                    if (tmp[i] > maxi) maxi = tmp[i];
                }
                pg->encoding = (uint8_t)(rn(2) ? REF_ENC_RLE_DICTIONARY : REF_ENC_PLAIN_DICTIONARY);
                pg->index_bit_width = (uint8_t)(bits_for(maxi) + (int)rn(3));
                pg->val = iv;
                pg->idx_layout = gen_layout(tmp, nn, &pg->idx_layout_len);
            } else {
                pg->encoding = REF_ENC_PLAIN;
                pg->val = ec->val + value_pos;
                pg->span = ec->span + value_pos;
            }
            value_pos += nn;
        }
        ec->page_first_level[n_data_pages] = ec->n_levels;
        ec->page_first_value[n_data_pages] = value_pos;
    }
}

static void gen_wopts(const gen_opts* go)
{
    static const int16_t ids[] = { 16, 17, 18, 25, 31, 32, 60, 100, 1000, 20000, -3 };
    int k, j;
    memset(&g_wopts, 0, sizeof g_wopts);
    for (k = 0; k < REF_SK_COUNT; k++) {
        ref_struct_wopts* o = &g_wopts.sk[k];
        if (rn(3) == 0) o->long_form_mask = (uint32_t)rnd() & 0xFFFEu;
        if (rn(4) == 0) o->long_list_size = 1;
        if (rn(3) == 0) {
            o->n_inject = (uint8_t)(1 + rn(REF_MAX_INJECT));
            for (j = 0; j < o->n_inject; j++) {
                ref_inject* in = &o->inject[j];
                static const uint8_t nvar[14] = { 0, 2, 2, 2, 2, 2, 2, 2, 8, 7, 7, 4, 4, 2 };
                in->field_id = ids[rn(sizeof ids / sizeof ids[0])];
                in->anchor_id = (int16_t)(1 + rn(12));
                in->where = (uint8_t)rn(4);
                in->wire_type = (uint8_t)(1 + rn(go->carquet_subset ? 12 : 13));
                in->variant = (uint8_t)rn(nvar[in->wire_type]);
                in->force_long = (uint8_t)rn(2);
            }
        }
    }
}

static void gen_description(const gen_opts* go)
{
    int rg, col;
    g_go = go;
    g_pool_used = 0; g_u16_used = 0; g_u64_used = 0; g_sp_used = 0; g_lay8_used = 0;
    memset(&g_desc, 0, sizeof g_desc);
    pool_str("~");       /* offset 0 stays unused */
    gen_schema(go);
    g_desc.version = 1 + (int32_t)rn(2);
    g_desc.n_row_groups = (int32_t)rn(REF_MAX_ROW_GROUPS < 3 ? REF_MAX_ROW_GROUPS + 1 : 4);
    for (rg = 0; rg < g_desc.n_row_groups; rg++) {
        g_desc.rg[rg].num_rows = (int64_t)rn(6);
        g_desc.rg[rg].with_extras = (uint8_t)rn(2);
        for (col = 0; col < g_n_leaves; col++) gen_chunk(go, rg, col, g_desc.rg[rg].num_rows);
    }
    g_desc.n_kv = (int32_t)rn(3);
    for (col = 0; col < g_desc.n_kv; col++) {
        g_desc.kv[col].present = REF_BIT(1) | (rn(3) ? REF_BIT(2) : 0);
        g_desc.kv[col].key = pool_random(1 + rn(8));
        g_desc.kv[col].value = pool_random(rn(20));
    }
    if (rn(3)) { g_desc.with_created_by = 1; g_desc.created_by = pool_str("ref-writer version 1.0 (build selftest)"); }
    g_desc.with_column_orders = (uint8_t)rn(2);
    g_desc.chunk_file_offset_mode = (uint8_t)rn(2);
    g_desc.pool = g_pool;
    g_desc.thrift_opts = NULL;
    if (rn(2)) { gen_wopts(go); g_desc.thrift_opts = &g_wopts; }
    g_desc.pool_len = g_pool_used;
}

static int desc_has_unreadable(void)
{
    int rg, col, k;
    for (rg = 0; rg < g_desc.n_row_groups; rg++)
        for (col = 0; col < g_n_leaves; col++) {
            const ref_w_chunk* ch = &g_desc.rg[rg].chunks[col];
            if (ch->dict_offset_mode != REF_W_DICT_OFFSET_ABSENT) continue;
            for (k = 0; k < ch->n_pages; k++)
                if (ch->pages[k].page_type == REF_PAGE_DICTIONARY) return 1;
        }
    return 0;
}

static int desc_has_gap(void)
{
    int rg, col;
    for (rg = 0; rg < g_desc.n_row_groups; rg++)
        for (col = 0; col < g_n_leaves; col++)
            if (g_desc.rg[rg].chunks[col].gap_before) return 1;
    return 0;
}

static int span_bytes_equal(const uint8_t* abuf, ref_span_t a, const uint8_t* bbuf, ref_span_t b)
{
    return a.len == b.len && (a.len == 0 || memcmp(abuf + a.off, bbuf + b.off, a.len) == 0);
}

static unsigned long g_stat_files, g_stat_unknown, g_stat_pages, g_stat_unreadable, g_stat_v2, g_stat_dict;

/* write g_desc, read it back with the reference reader, compare everything */
static void check_ref_roundtrip(unsigned iter)
{
    size_t flen = 0;
    int rc, rg, col;
    ref_pq_open_opts oo;
    int unreadable = desc_has_unreadable();
    int gap = desc_has_gap();

    rc = ref_pq_write(&g_desc, g_out, sizeof g_out, &flen, &g_lay);
    CHECK(rc == 0, "iter %u: ref_pq_write rc %d", iter, rc);
    if (rc != 0) return;
    CHECK(g_lay.file_len == flen && g_lay.footer_off + g_lay.footer_len + 8 == flen, "layout footer");
    g_stat_files++;

    ref_pq_open_opts_default(&oo);
    oo.usize_hard = 1;
    oo.require_tiling = (uint8_t)!gap;
    rc = ref_pq_open_ex(g_out, flen, &oo, &g_file);
    if (unreadable) {
        g_stat_unreadable++;
        CHECK(rc < 0, "iter %u: chunk with unannounced dictionary page was accepted", iter);
        return;
    }
    CHECK(rc == 0, "iter %u: ref_pq_open rc %d at rg %d col %d page %d", iter, rc, g_file.err_row_group,
          g_file.err_column, g_file.err_page);
    if (rc != 0) return;
    CHECK(g_file.tiles_exactly == (gap ? 0 : 1), "tiling flag");
    CHECK(g_file.rg_total_byte_size_ok == 1, "rg total_byte_size");
    CHECK(g_file.footer_start == g_lay.footer_off && g_file.footer_len == g_lay.footer_len, "footer position");

    /* metadata */
    {
        ref_cmp_ctx c;
        int32_t i;
        int64_t rows = 0;
        c.abuf = g_pool; c.alen = g_pool_used; c.bbuf = g_out; c.blen = flen;
        CHECK(g_file.meta.version == g_desc.version, "version");
        CHECK(g_file.meta.n_schema == g_desc.n_schema, "n_schema");
        for (i = 0; i < g_desc.n_schema; i++)
            CHECK(ref_schema_element_equal(&c, &g_desc.schema[i], &g_file.meta.schema[i]), "schema element %d", i);
        for (i = 0; i < g_desc.n_row_groups; i++) rows += g_desc.rg[i].num_rows;
        CHECK(g_file.meta.num_rows == rows, "num_rows");
        CHECK(g_file.meta.n_row_groups == g_desc.n_row_groups, "n_row_groups");
        CHECK(g_file.meta.n_kv == g_desc.n_kv, "n_kv");
        for (i = 0; i < g_desc.n_kv; i++)
            CHECK(ref_key_value_equal(&c, &g_desc.kv[i], &g_file.meta.kv[i]), "kv %d", i);
        CHECK(((g_file.meta.present & REF_BIT(REF_FM_CREATED_BY)) != 0) == (g_desc.with_created_by != 0), "created_by presence");
        if (g_desc.with_created_by) CHECK(ref_span_equal(&c, g_desc.created_by, g_file.meta.created_by), "created_by");
        CHECK(g_file.meta.n_column_orders == (g_desc.with_column_orders ? g_n_leaves : 0), "column orders");
        g_stat_unknown += g_file.meta.n_unknown;
    }
    /* leaves and levels */
    CHECK(g_file.n_leaves == g_n_leaves, "n_leaves");
    for (col = 0; col < g_n_leaves; col++) {
        int d = -1, r = -1;
        CHECK(ref_pq_leaf_levels(&g_file, col, &d, &r) == 0 && d == g_leaf[col].max_def && r == g_leaf[col].max_rep,
              "levels of leaf %d: %d/%d want %d/%d", col, d, r, g_leaf[col].max_def, g_leaf[col].max_rep);
        CHECK(ref_pq_leaf_schema_index(&g_file, col) == g_leaf[col].schema_idx, "leaf->schema");
        CHECK(ref_pq_schema_leaf_index(&g_file, g_leaf[col].schema_idx) == col, "schema->leaf");
        CHECK(g_file.leaf_max_def[col] == d && g_file.leaf_max_rep[col] == r, "cached levels");
    }
    /* chunks */
    for (rg = 0; rg < g_desc.n_row_groups; rg++) {
        for (col = 0; col < g_n_leaves; col++) {
            const exp_chunk* ec = &g_exp[rg][col];
            const ref_w_chunk* ch = &g_desc.rg[rg].chunks[col];
            const ref_pq_chunk* ck = &g_file.chunk[rg][col];
            const ref_column_meta* cm = &g_file.meta.row_groups[rg].columns[col].meta;
            uint32_t i;
            int k;
            CHECK(ck->n_pages == ch->n_pages, "n_pages");
            CHECK(ck->start == g_lay.chunk_off[rg][col] && ck->end - ck->start == g_lay.chunk_len[rg][col], "chunk range");
            CHECK(ck->usize_matches_spec && ck->crc_all_ok && ck->encodings_listed, "chunk soft flags");
            CHECK(cm->codec == ch->codec && cm->num_values == (int64_t)ec->n_levels, "chunk meta");
            CHECK(((cm->present & REF_BIT(REF_CM_STATISTICS)) != 0) == (ch->with_stats != 0), "chunk stats presence");
            if (ch->with_stats) {
                ref_cmp_ctx c;
                c.abuf = g_pool; c.alen = g_pool_used; c.bbuf = g_out; c.blen = flen;
                CHECK(ref_statistics_equal(&c, &ch->stats, &cm->statistics), "chunk stats");
            }
            for (k = 0; k < ch->n_pages && k < ck->n_pages; k++) {
                const ref_w_page_loc* loc = &g_lay.page[rg][col][k];
                const ref_pq_page* p = &ck->pages[k];
                CHECK(p->hdr_off == loc->hdr_off && p->hdr_len == loc->hdr_len && p->body_off == loc->body_off &&
                      p->comp_size == loc->body_len && p->uncomp_size == loc->uncomp_len, "page %d location", k);
                CHECK(p->type == ch->pages[k].page_type && p->encoding == ch->pages[k].encoding, "page %d kind", k);
                CHECK(p->has_crc == ch->pages[k].with_crc, "page %d crc presence", k);
                g_stat_unknown += p->hdr_unknown;
                g_stat_pages++;
                if (p->type == REF_PAGE_DATA_V2) g_stat_v2++;
                if (p->type == REF_PAGE_DICTIONARY) g_stat_dict++;
            }
            g_cd.arena = g_arena; g_cd.arena_cap = sizeof g_arena;
            rc = ref_pq_read_column(&g_file, rg, col, &g_cd);
            CHECK(rc == 0, "iter %u: read_column(%d,%d) rc %d", iter, rg, col, rc);
            if (rc != 0) continue;
            CHECK(g_cd.n_levels == ec->n_levels && g_cd.n_values == ec->n_values, "counts %u/%u want %u/%u",
                  g_cd.n_levels, g_cd.n_values, ec->n_levels, ec->n_values);
            CHECK(g_cd.max_def == g_leaf[col].max_def && g_cd.max_rep == g_leaf[col].max_rep, "cd levels");
            if (g_cd.n_levels != ec->n_levels || g_cd.n_values != ec->n_values) continue;
            for (i = 0; i < ec->n_levels; i++)
                CHECK(g_cd.def[i] == ec->def[i] && g_cd.rep[i] == ec->rep[i], "level %u", i);
            for (i = 0; i < ec->n_values; i++) {
                CHECK(g_cd.val[i] == ec->val[i], "iter %u value %u", iter, i);
                CHECK(span_bytes_equal(g_arena, g_cd.span[i], g_pool, ec->span[i]), "iter %u bytes %u", iter, i);
            }
        }
    }

    /* footer: skip and walker agree with the footer length; re-encode canonically and compare */
    {
        static ref_tc_item items[8192];
        static ref_file_meta again;
        static uint8_t fbuf[T_OUT];
        size_t n_items = 0, consumed = 0;
        ref_tc_reader r;
        ref_meta_writer mw;
        ref_cmp_ctx c;
        ref_tc_reader_init(&r, g_out, flen - 8, g_lay.footer_off);
        CHECK(ref_tc_skip(&r, REF_TC_STRUCT, 0) == 0 && r.pos == flen - 8, "skip(footer)");
        rc = ref_tc_flatten(g_out + g_lay.footer_off, g_lay.footer_len, items, 8192, &n_items, &consumed);
        CHECK(rc == 0 && consumed == g_lay.footer_len, "flatten(footer) rc %d", rc);
        ref_meta_writer_init(&mw, fbuf, sizeof fbuf, 0, g_out, flen, NULL);
        CHECK(ref_write_file_meta(&mw, &g_file.meta) == 0, "rewrite footer");
        ref_tc_reader_init(&r, fbuf, mw.w.pos, 0);
        CHECK(ref_parse_file_meta(&r, &again) == 0 && r.pos == mw.w.pos, "reparse footer");
        c.abuf = g_out; c.alen = flen; c.bbuf = fbuf; c.blen = mw.w.pos;
        CHECK(ref_file_meta_equal(&c, &g_file.meta, &again), "footer field-wise equal after canonical rewrite");
        CHECK(again.n_unknown == 0, "canonical footer has no unknown fields");
        if (g_desc.thrift_opts == NULL)
            CHECK(mw.w.pos == g_lay.footer_len && memcmp(fbuf, g_out + g_lay.footer_off, mw.w.pos) == 0,
                  "canonical footer is byte-identical");
    }
}

/* a few deliberate rule violations must be reported with the right code */
static void test_negative(void)
{
    gen_opts go = { 1, 0, 0 };
    size_t flen = 0;
    int tries, rc;
    /* find a description with >= 1 row group, >= 1 data page carrying a crc-less page we control */
    for (tries = 0; tries < 200; tries++) {
        gen_description(&go);
        if (g_desc.n_row_groups >= 1 && g_desc.rg[0].chunks[0].n_pages >= 1 && g_desc.rg[0].num_rows > 0) break;
    }
    CHECK(tries < 200, "no suitable description");
    g_desc.thrift_opts = NULL;

    rc = ref_pq_write(&g_desc, g_out, sizeof g_out, &flen, &g_lay);
    CHECK(rc == 0, "write");
    CHECK(ref_pq_open(g_out, flen, &g_file) == 0, "baseline opens");
    CHECK(ref_pq_open(g_out, 11, &g_file) == REF_ERR_PQ_TOO_SHORT, "R01");
    g_out[0] = 'Q';
    CHECK(ref_pq_open(g_out, flen, &g_file) == REF_ERR_PQ_MAGIC_HEAD, "R02");
    g_out[0] = 'P';
    g_out[flen - 1] = '2';
    CHECK(ref_pq_open(g_out, flen, &g_file) == REF_ERR_PQ_MAGIC_TAIL, "R03");
    g_out[flen - 1] = '1';
    g_out[flen - 5] = 0x7f;
    CHECK(ref_pq_open(g_out, flen, &g_file) == REF_ERR_PQ_FOOTER_LEN, "R04");
    g_out[flen - 5] = 0;
    {   /* footer length one too small: parse starts inside the struct or trailing byte remains */
        uint32_t fl = g_lay.footer_len - 1;
        g_out[flen - 8] = (uint8_t)fl; g_out[flen - 7] = (uint8_t)(fl >> 8);
        CHECK(ref_pq_open(g_out, flen, &g_file) < 0, "footer len - 1");
        fl = g_lay.footer_len;
        g_out[flen - 8] = (uint8_t)fl; g_out[flen - 7] = (uint8_t)(fl >> 8);
    }
    CHECK(ref_pq_open(g_out, flen, &g_file) == 0, "restored");
    /* every truncation of the file is rejected */
    {
        size_t cut;
        for (cut = 0; cut < flen; cut += 1 + cut / 16) CHECK(ref_pq_open(g_out, cut, &g_file) < 0, "truncated to %zu", cut);
    }
    /* crc damage */
    g_desc.rg[0].chunks[0].pages[0].with_crc = 1;
    g_desc.rg[0].chunks[0].pages[0].crc_xor = 0x00010000;
    CHECK(ref_pq_write(&g_desc, g_out, sizeof g_out, &flen, &g_lay) == 0, "write");
    CHECK(ref_pq_open(g_out, flen, &g_file) == REF_ERR_PQ_CRC && g_file.err_row_group == 0 && g_file.err_column == 0 &&
          g_file.err_page == 0, "R29 hard");
    {
        ref_pq_open_opts oo;
        ref_pq_open_opts_default(&oo);
        oo.crc_hard = 0;
        CHECK(ref_pq_open_ex(g_out, flen, &oo, &g_file) == 0 && g_file.chunk[0][0].crc_all_ok == 0 &&
              g_file.chunk[0][0].pages[0].crc_ok == 0, "R29 soft");
    }
    g_desc.rg[0].chunks[0].pages[0].crc_xor = 0;
    /* a flipped body byte under a correct crc header */
    CHECK(ref_pq_write(&g_desc, g_out, sizeof g_out, &flen, &g_lay) == 0, "write");
    if (g_lay.page[0][0][0].body_len > 0) {
        g_out[g_lay.page[0][0][0].body_off] ^= 0x40;
        CHECK(ref_pq_open(g_out, flen, &g_file) == REF_ERR_PQ_CRC, "body damage detected by crc");
    }
    /* file rows */
    g_desc.num_rows_override_set = 1;
    g_desc.num_rows_override = 1000;
    CHECK(ref_pq_write(&g_desc, g_out, sizeof g_out, &flen, &g_lay) == 0, "write");
    CHECK(ref_pq_open(g_out, flen, &g_file) == REF_ERR_PQ_FILE_ROWS, "R28");
    g_desc.num_rows_override_set = 0;
    /* row group rows vs flat column values */
    if (g_leaf[0].max_rep == 0) {
        g_desc.rg[0].num_rows += 1;
        CHECK(ref_pq_write(&g_desc, g_out, sizeof g_out, &flen, &g_lay) == 0, "write");
        CHECK(ref_pq_open(g_out, flen, &g_file) == REF_ERR_PQ_ROWS, "R27");
        g_desc.rg[0].num_rows -= 1;
    }
    /* unsupported / invalid codec tags */
    {
        int32_t keep = g_desc.rg[0].chunks[0].codec;
        g_desc.rg[0].chunks[0].codec = REF_CODEC_ZSTD;
        CHECK(ref_pq_write(&g_desc, g_out, sizeof g_out, &flen, &g_lay) == 0, "write");
        CHECK(ref_pq_open(g_out, flen, &g_file) == REF_ERR_PQ_CODEC_UNSUPPORTED, "R21");
        g_desc.rg[0].chunks[0].codec = REF_CODEC_LZ4;
        CHECK(ref_pq_write(&g_desc, g_out, sizeof g_out, &flen, &g_lay) == 0, "write");
        CHECK(ref_pq_open(g_out, flen, &g_file) == REF_ERR_PQ_CODEC_UNSUPPORTED, "R21 LZ4 (hadoop framing)");
        g_desc.rg[0].chunks[0].codec = 9;
        CHECK(ref_pq_write(&g_desc, g_out, sizeof g_out, &flen, &g_lay) == 0, "write");
        CHECK(ref_pq_open(g_out, flen, &g_file) == REF_ERR_PQ_CODEC_INVALID, "R20");
        g_desc.rg[0].chunks[0].codec = keep;
    }
    /* schema damage */
    {
        ref_schema_element keep = g_desc.schema[0];
        g_desc.schema[0].num_children += 1;
        CHECK(ref_pq_write(&g_desc, g_out, sizeof g_out, &flen, &g_lay) == REF_ERR_PQ_SCHEMA_TREE, "writer refuses bad tree");
        g_desc.schema[0] = keep;
        /* patch the file instead: root num_children is the i32 after the name; find it via the walker */
        CHECK(ref_pq_write(&g_desc, g_out, sizeof g_out, &flen, &g_lay) == 0, "write");
        {
            static ref_tc_item items[8192];
            size_t n_items = 0, consumed = 0;
            int32_t schema_item, k;
            CHECK(ref_tc_flatten(g_out + g_lay.footer_off, g_lay.footer_len, items, 8192, &n_items, &consumed) == 0, "flatten");
            schema_item = ref_tc_find_field(items, n_items, -1, REF_FM_SCHEMA);
            CHECK(schema_item >= 0, "schema field");
            /* first ELEM of the list is the root struct; its field 5 is num_children */
            k = ref_tc_find_field(items, n_items, schema_item + 1, REF_SE_NUM_CHILDREN);
            CHECK(k >= 0 && items[k].len == 1, "root num_children item");
            if (k >= 0 && items[k].len == 1) {
                uint8_t* b = g_out + g_lay.footer_off + items[k].val_off;
                *b = (uint8_t)(*b + 2);          /* zig-zag: +1 child */
                CHECK(ref_pq_open(g_out, flen, &g_file) == REF_ERR_PQ_SCHEMA_TREE, "R08");
            }
        }
    }
}

static void test_random_roundtrip(unsigned n_iter)
{
    unsigned it;
    gen_opts go = { 0, 1, 0 };
    for (it = 0; it < n_iter; it++) {
        gen_description(&go);
        check_ref_roundtrip(it);
    }
    printf("  random round trip: %lu files, %lu pages (%lu v2, %lu dictionary), %lu unknown Thrift fields skipped, "
           "%lu unreadable-by-design files rejected\n",
           g_stat_files, g_stat_pages, g_stat_v2, g_stat_dict, g_stat_unknown, g_stat_unreadable);
    if (n_iter >= 5000)
        CHECK(g_stat_unknown > 1000 && g_stat_v2 > 100 && g_stat_dict > 100 && g_stat_unreadable > 10, "generator coverage");
}

/* ================================================================== */
/* (iii) carquet cross-check                                           */
/* ================================================================== */
#ifdef WITH_CARQUET
#include "selftest_pq_carquet.inc"
#endif

int main(int argc, char** argv)
{
    const char* seed_env = getenv("VERIF_SEED");
    const char* iter_env = getenv("VERIF_PQ_ITER");
    unsigned n_iter = iter_env ? (unsigned)strtoul(iter_env, NULL, 0) : 6000;
    const char* tmpdir = argc > 1 ? argv[1] : "/tmp";
    if (seed_env && *seed_env) g_rng ^= strtoull(seed_env, NULL, 0) * 0x9E3779B97F4A7C15ull + 1;
    if (g_rng == 0) g_rng = 1;
    g_seed0 = g_rng;
    (void)tmpdir;
    setvbuf(stdout, NULL, _IOLBF, 0);

    if (getenv("VERIF_PQ_ONLY") == NULL) {
        printf("[ii] Thrift compact protocol known-answer vectors\n");
        test_thrift_kat();
        printf("[i] ref-write -> ref-read over %u random descriptions\n", n_iter);
        test_random_roundtrip(n_iter);
        test_negative();
    }
#ifdef WITH_CARQUET
    printf("[iii] cross-check with native carquet\n");
    test_carquet(tmpdir);
#else
    printf("[iii] skipped (built without WITH_CARQUET)\n");
#endif
    printf("%lu checks, %lu failures\n", g_checks, g_failures);
    return g_failures ? 1 : 0;
}
