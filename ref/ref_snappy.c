/*
 * ref_snappy.c - Snappy raw block format.
 *
 * Source: google/snappy format_description.txt.
 *
 *   1. Preamble: uncompressed length as a little-endian varint (<= 2^32-1).
 *   2. Elements, tag byte low two bits:
 *      00 literal : upper 6 bits = len-1 for len 1..60; 60,61,62,63 mean the
 *                   value len-1 follows in 1,2,3,4 little-endian bytes.
 *      01 copy-1  : len-4 in bits [2..4] (len 4..11), offset = bits [5..7] << 8
 *                   | next byte (11 bits, 0..2047).
 *      10 copy-2  : len-1 in upper 6 bits (1..64), offset = next 2 bytes LE.
 *      11 copy-4  : len-1 in upper 6 bits (1..64), offset = next 4 bytes LE.
 *   Offset 0 is invalid; a copy may overlap its own output (offset < length).
 */
#include "ref_internal.h"

int ref_snappy_uncompressed_length(const uint8_t* in, size_t in_len,
                                   uint32_t* length, size_t* hdr_len)
{
    size_t pos = 0;
    int rc = ref_uleb32_read(in, in_len, &pos, length);
    if (rc != REF_OK) {
        return rc;
    }
    *hdr_len = pos;
    return REF_OK;
}

int ref_snappy_decode(const uint8_t* in, size_t in_len,
                      uint8_t* out, size_t cap, size_t* out_len)
{
    uint32_t declared32 = 0;
    uint64_t declared;
    uint64_t produced = 0;
    size_t pos = 0;
    int rc = ref_snappy_uncompressed_length(in, in_len, &declared32, &pos);
    if (rc != REF_OK) {
        return rc;
    }
    declared = (uint64_t)declared32;
    if (declared > (uint64_t)cap) {
        return REF_ERR_CAPACITY;
    }

    while (pos < in_len) {
        uint8_t tag = in[pos];
        uint8_t kind = (uint8_t)(tag & 3);
        uint64_t upper = (uint64_t)(tag >> 2);
        uint64_t len;
        uint64_t j;
        pos++;

        if (kind == 0) {
            /* literal */
            len = upper + 1;
            if (upper >= 60) {
                int extra = (int)(upper - 59); /* 1..4 length bytes */
                if ((uint64_t)extra > (uint64_t)(in_len - pos)) {
                    return REF_ERR_TRUNCATED;
                }
                len = (uint64_t)ref_load_le(in + pos, extra) + 1;
                pos += (size_t)extra;
            }
            if (len > (uint64_t)(in_len - pos)) {
                return REF_ERR_TRUNCATED;
            }
            if (len > declared - produced) {
                return REF_ERR_CORRUPT;
            }
            for (j = 0; j < len; j++) {
                out[(size_t)(produced + j)] = in[pos + (size_t)j];
            }
            produced += len;
            pos += (size_t)len;
        } else {
            /* copy */
            uint64_t offset;
            int operand_bytes;
            if (kind == 1) {
                len = 4 + (upper & 7);
                operand_bytes = 1;
            } else if (kind == 2) {
                len = upper + 1;
                operand_bytes = 2;
            } else {
                len = upper + 1;
                operand_bytes = 4;
            }
            if ((uint64_t)operand_bytes > (uint64_t)(in_len - pos)) {
                return REF_ERR_TRUNCATED;
            }
            offset = (uint64_t)ref_load_le(in + pos, operand_bytes);
            pos += (size_t)operand_bytes;
            if (kind == 1) {
                offset |= (uint64_t)(tag >> 5) << 8;
            }
            if (offset == 0 || offset > produced) {
                return REF_ERR_CORRUPT;
            }
            if (len > declared - produced) {
                return REF_ERR_CORRUPT;
            }
            for (j = 0; j < len; j++) {
                out[(size_t)produced] = out[(size_t)(produced - offset)];
                produced++;
            }
        }
    }
    if (produced != declared) {
        return REF_ERR_CORRUPT;
    }
    *out_len = (size_t)produced;
    return REF_OK;
}

/* ---- encoders ------------------------------------------------------------------ */

/* Resolve REF_FORM_AUTO and check that len is representable in the form.
 * Returns the form 0..4, or -1 if illegal. */
static int ref_snappy_literal_form(uint64_t len, int form)
{
    if (len == 0 || len > (uint64_t)0x100000000u) {
        return -1;
    }
    if (form == REF_FORM_AUTO) {
        if (len <= 60) {
            return 0;
        }
        if (len <= 0x100u) {
            return 1;
        }
        if (len <= 0x10000u) {
            return 2;
        }
        if (len <= 0x1000000u) {
            return 3;
        }
        return 4;
    }
    if (form == 0) {
        return (len <= 60) ? 0 : -1;
    }
    if (form >= 1 && form <= 3) {
        return ((len - 1) >> (8 * form)) == 0 ? form : -1;
    }
    if (form == 4) {
        return 4;
    }
    return -1;
}

/* Emit the tag and length bytes of one literal (not the payload). */
static int ref_snappy_emit_literal_head(uint64_t len, int form,
                                        uint8_t* out, size_t cap, size_t* pos)
{
    if ((uint64_t)(1 + form) > (uint64_t)(cap - *pos)) {
        return REF_ERR_CAPACITY;
    }
    if (form == 0) {
        out[*pos] = (uint8_t)((len - 1) << 2);
        *pos += 1;
    } else {
        out[*pos] = (uint8_t)((59 + form) << 2);
        *pos += 1;
        ref_store_le(out + *pos, len - 1, form);
        *pos += (size_t)form;
    }
    return REF_OK;
}

int ref_snappy_encode_literal_only(const uint8_t* in, size_t n, int lit_form,
                                   uint8_t* out, size_t cap, size_t* out_len)
{
    size_t pos = 0;
    size_t done = 0;
    uint64_t chunk_max;
    int rc;
    if ((uint64_t)n > 0xFFFFFFFFu) {
        return REF_ERR_ARG;
    }
    if (lit_form == 0) {
        chunk_max = 60;
    } else if (lit_form >= 1 && lit_form <= 4) {
        chunk_max = (uint64_t)1 << (8 * lit_form);
    } else {
        return REF_ERR_ARG;
    }
    rc = ref_uleb_write((uint64_t)n, out, cap, &pos);
    if (rc != REF_OK) {
        return rc;
    }
    while (done < n) {
        uint64_t len = (uint64_t)(n - done);
        uint64_t j;
        if (len > chunk_max) {
            len = chunk_max;
        }
        rc = ref_snappy_emit_literal_head(len, lit_form, out, cap, &pos);
        if (rc != REF_OK) {
            return rc;
        }
        if (len > (uint64_t)(cap - pos)) {
            return REF_ERR_CAPACITY;
        }
        for (j = 0; j < len; j++) {
            out[pos + (size_t)j] = in[done + (size_t)j];
        }
        pos += (size_t)len;
        done += (size_t)len;
    }
    *out_len = pos;
    return REF_OK;
}

/* Is a copy element legal given `produced` bytes already output? */
static int ref_snappy_copy_ok(const ref_snappy_elem_t* e, uint64_t produced)
{
    uint64_t len = (uint64_t)e->len;
    uint64_t off = (uint64_t)e->offset;
    if (off == 0 || off > produced) {
        return 0;
    }
    if (e->kind == REF_SNAPPY_COPY1) {
        return len >= 4 && len <= 11 && off < 2048;
    }
    if (e->kind == REF_SNAPPY_COPY2) {
        return len >= 1 && len <= 64 && off < 65536;
    }
    if (e->kind == REF_SNAPPY_COPY4) {
        return len >= 1 && len <= 64;
    }
    return 0;
}

int ref_snappy_encode_script(const ref_snappy_elem_t* script, size_t n_elems,
                             const uint8_t* lit, size_t lit_len,
                             uint8_t* out, size_t cap, size_t* out_len,
                             uint8_t* expect, size_t expect_cap, size_t* expect_len)
{
    uint64_t total = 0;
    uint64_t lit_used = 0;
    uint64_t produced = 0;
    size_t pos = 0;
    size_t e;
    int rc;

    /* pass 1: legality and total uncompressed length */
    for (e = 0; e < n_elems; e++) {
        uint64_t len = (uint64_t)script[e].len;
        if (script[e].kind == REF_SNAPPY_LITERAL) {
            if (ref_snappy_literal_form(len, (int)script[e].form) < 0) {
                return REF_ERR_ARG;
            }
            if (len > (uint64_t)lit_len - lit_used) {
                return REF_ERR_ARG;
            }
            lit_used += len;
        } else if (!ref_snappy_copy_ok(&script[e], total)) {
            return REF_ERR_ARG;
        }
        total += len;
        if (total > 0xFFFFFFFFu) {
            return REF_ERR_ARG;
        }
    }
    if (total > (uint64_t)expect_cap) {
        return REF_ERR_CAPACITY;
    }

    /* pass 2: emit */
    rc = ref_uleb_write(total, out, cap, &pos);
    if (rc != REF_OK) {
        return rc;
    }
    lit_used = 0;
    for (e = 0; e < n_elems; e++) {
        uint64_t len = (uint64_t)script[e].len;
        uint64_t off = (uint64_t)script[e].offset;
        uint64_t j;
        if (script[e].kind == REF_SNAPPY_LITERAL) {
            int form = ref_snappy_literal_form(len, (int)script[e].form);
            rc = ref_snappy_emit_literal_head(len, form, out, cap, &pos);
            if (rc != REF_OK) {
                return rc;
            }
            if (len > (uint64_t)(cap - pos)) {
                return REF_ERR_CAPACITY;
            }
            for (j = 0; j < len; j++) {
                uint8_t b = lit[(size_t)(lit_used + j)];
                out[pos + (size_t)j] = b;
                expect[(size_t)(produced + j)] = b;
            }
            pos += (size_t)len;
            lit_used += len;
            produced += len;
        } else {
            if (script[e].kind == REF_SNAPPY_COPY1) {
                if (2 > (uint64_t)(cap - pos)) {
                    return REF_ERR_CAPACITY;
                }
                out[pos] = (uint8_t)(1u | ((len - 4) << 2) | ((off >> 8) << 5));
                out[pos + 1] = (uint8_t)(off & 0xFF);
                pos += 2;
            } else if (script[e].kind == REF_SNAPPY_COPY2) {
                if (3 > (uint64_t)(cap - pos)) {
                    return REF_ERR_CAPACITY;
                }
                out[pos] = (uint8_t)(2u | ((len - 1) << 2));
                ref_store_le(out + pos + 1, off, 2);
                pos += 3;
            } else {
                if (5 > (uint64_t)(cap - pos)) {
                    return REF_ERR_CAPACITY;
                }
                out[pos] = (uint8_t)(3u | ((len - 1) << 2));
                ref_store_le(out + pos + 1, off, 4);
                pos += 5;
            }
            for (j = 0; j < len; j++) {
                expect[(size_t)produced] = expect[(size_t)(produced - off)];
                produced++;
            }
        }
    }
    *out_len = pos;
    *expect_len = (size_t)produced;
    return REF_OK;
}
