/* selftest_common.h - shared plumbing of the reference self-test (not solver code:
 * libc is fine here). */
#ifndef SELFTEST_COMMON_H
#define SELFTEST_COMMON_H

#include <stdarg.h>
#include <stdint.h>
#include <stdio.h>
#include <stdlib.h>
#include <string.h>

#include "ref_codecs.h"

extern unsigned long st_checks;
extern unsigned long st_failures;

#define CHECK(cond, ...)                                              \
    do {                                                              \
        st_checks++;                                                  \
        if (!(cond)) {                                                \
            st_failures++;                                            \
            if (st_failures <= 40) {                                  \
                printf("FAIL %s:%d: (%s) ", __FILE__, __LINE__, #cond); \
                printf(__VA_ARGS__);                                  \
                printf("\n");                                         \
            }                                                         \
        }                                                             \
    } while (0)

/* deterministic RNG (xorshift64*) */
void st_seed(uint64_t seed);
uint64_t st_rnd(void);
uint32_t st_below(uint32_t n);            /* uniform in [0, n), n >= 1 */
void st_fill(uint8_t* p, size_t n);       /* random bytes */
/* n bytes with tunable redundancy: level 0 random .. 3 highly repetitive */
void st_fill_compressible(uint8_t* p, size_t n, int level);

/* "NOTE carquet differs" bookkeeping: one line per topic, with a count and the
 * first example.  Never counts as a failure. */
void st_note(const char* topic, const char* fmt, ...);
void st_print_notes(void);

void st_hex(char* dst, size_t dst_cap, const uint8_t* p, size_t n);

/* test groups */
void st_kat(void);        /* known-answer vectors            */
void st_roundtrip(void);  /* ref encode -> ref decode        */
void st_syslibs(void);    /* zlib / xxhash / liblz4 / snappy */
void st_carquet(void);    /* sanity cross-check with carquet */

#endif
