/*
 * ref_parquet_write.c - reference Parquet file writer (see ref_parquet_write.h).
 */
#include "ref_parquet_write.h"
#include <string.h>

#define REF_W_COMP_CAP (REF_MAX_PAGE_BYTES + REF_MAX_PAGE_BYTES / 32 + 32)

typedef struct ref_w_buf {      /* bounded append buffer for a page body */
    uint8_t* p;
    size_t   cap;
    size_t   len;
} ref_w_buf;

static int ref_w_put(ref_w_buf* b, const uint8_t* src, size_t n)
{
    if (n > b->cap - b->len) return REF_ERR_PQ_CAPACITY;
    if (n != 0) memcpy(b->p + b->len, src, n);
    b->len += n;
    return REF_OK;
}

static int ref_w_put_le(ref_w_buf* b, uint64_t v, int nbytes)
{
    uint8_t tmp[8];
    int i;
    for (i = 0; i < nbytes; i++) tmp[i] = (uint8_t)(v >> (8 * i));
    return ref_w_put(b, tmp, (size_t)nbytes);
}

static int ref_w_span_ok(const ref_w_file* d, ref_span_t sp)
{
    return (size_t)sp.off <= d->pool_len && (size_t)sp.len <= d->pool_len - (size_t)sp.off;
}

/* hybrid-encode n levels with the caller's run layout, append to b */
static int ref_w_levels(ref_w_buf* b, const uint16_t* lv, uint32_t n, int max_level,
                        uint16_t fill, const uint8_t* layout, uint32_t layout_len)
{
    uint32_t tmp[REF_MAX_VALUES];
    size_t got = 0;
    uint32_t i;
    int bw = ref_pq_level_bit_width(max_level);
    int rc;
    if (n > REF_MAX_VALUES) return REF_ERR_PQ_CAPACITY;
    for (i = 0; i < n; i++) tmp[i] = (lv != NULL) ? (uint32_t)lv[i] : (uint32_t)fill;
    rc = ref_rle_hybrid_encode_layout(tmp, (size_t)n, bw, layout, (size_t)layout_len,
                                      b->p + b->len, b->cap - b->len, &got);
    if (rc == REF_ERR_CAPACITY) return REF_ERR_PQ_CAPACITY;
    if (rc < 0) return rc;
    b->len += got;
    return REF_OK;
}

/* PLAIN-encode n values of the leaf type */
static int ref_w_plain(const ref_w_file* d, ref_w_buf* b, int32_t type, int32_t type_length,
                       const ref_w_page* pg, uint32_t n)
{
    uint32_t i;
    if (type == REF_TYPE_BOOLEAN) {
        uint8_t acc = 0;
        if (n != 0 && pg->val == NULL) return REF_ERR_PQ_ARG;
        for (i = 0; i < n; i++) {
            if (pg->val[i] != 0) acc = (uint8_t)(acc | (1u << (i & 7u)));
            if ((i & 7u) == 7u || i + 1 == n) {
                REF_TRY(ref_w_put(b, &acc, 1));
                acc = 0;
            }
        }
        return REF_OK;
    }
    for (i = 0; i < n; i++) {
        if (type == REF_TYPE_INT32 || type == REF_TYPE_FLOAT) {
            if (pg->val == NULL) return REF_ERR_PQ_ARG;
            REF_TRY(ref_w_put_le(b, pg->val[i], 4));
        } else if (type == REF_TYPE_INT64 || type == REF_TYPE_DOUBLE) {
            if (pg->val == NULL) return REF_ERR_PQ_ARG;
            REF_TRY(ref_w_put_le(b, pg->val[i], 8));
        } else {
            ref_span_t sp;
            if (pg->span == NULL) return REF_ERR_PQ_ARG;
            sp = pg->span[i];
            if (!ref_w_span_ok(d, sp)) return REF_ERR_PQ_ARG;
            if (type == REF_TYPE_INT96 && sp.len != 12) return REF_ERR_PQ_ARG;
            if (type == REF_TYPE_FIXED_LEN_BYTE_ARRAY && sp.len != (uint32_t)type_length)
                return REF_ERR_PQ_ARG;
            if (type == REF_TYPE_BYTE_ARRAY) REF_TRY(ref_w_put_le(b, (uint64_t)sp.len, 4));
            REF_TRY(ref_w_put(b, d->pool + sp.off, (size_t)sp.len));
        }
    }
    return REF_OK;
}

/* values of a data page: PLAIN or bit width + hybrid indices */
static int ref_w_values(const ref_w_file* d, ref_w_buf* b, int32_t type, int32_t type_length,
                        const ref_w_page* pg)
{
    if (pg->encoding == REF_ENC_PLAIN || pg->page_type == REF_PAGE_DICTIONARY)
        return ref_w_plain(d, b, type, type_length, pg, pg->n_values);
    {
        uint32_t tmp[REF_MAX_VALUES];
        size_t got = 0;
        uint32_t i;
        uint8_t bw = pg->index_bit_width;
        int rc;
        if (pg->n_values > REF_MAX_VALUES) return REF_ERR_PQ_CAPACITY;
        if (pg->n_values != 0 && pg->val == NULL) return REF_ERR_PQ_ARG;
        if (bw > 32) return REF_ERR_PQ_ARG;
        for (i = 0; i < pg->n_values; i++) tmp[i] = (uint32_t)pg->val[i];
        REF_TRY(ref_w_put(b, &bw, 1));
        rc = ref_rle_hybrid_encode_layout(tmp, (size_t)pg->n_values, (int)bw, pg->idx_layout,
                                          (size_t)pg->idx_layout_len, b->p + b->len,
                                          b->cap - b->len, &got);
        if (rc == REF_ERR_CAPACITY) return REF_ERR_PQ_CAPACITY;
        if (rc < 0) return rc;
        b->len += got;
    }
    return REF_OK;
}

static int ref_w_compress(int32_t codec, int lit_form, const uint8_t* in, size_t n,
                          uint8_t* out, size_t cap, size_t* out_len)
{
    int rc;
    if (codec == REF_CODEC_SNAPPY) {
        rc = ref_snappy_encode_literal_only(in, n, lit_form, out, cap, out_len);
    } else if (codec == REF_CODEC_LZ4_RAW) {
        rc = ref_lz4_encode_literal_only(in, n, out, cap, out_len);
    } else {
        if (n > cap) return REF_ERR_PQ_CAPACITY;
        if (n != 0) memcpy(out, in, n);
        *out_len = n;
        return REF_OK;
    }
    if (rc == REF_ERR_CAPACITY) return REF_ERR_PQ_CAPACITY;
    return rc;
}

static int ref_w_tri(uint8_t tri, uint32_t* present, int id, uint8_t* dst)
{
    if (tri == REF_W_TRI_ABSENT) return 0;
    *present |= REF_BIT(id);
    *dst = (tri == REF_W_TRI_TRUE) ? 1 : 0;
    return 1;
}

/* one page: body, compression, header, bytes.  Appends to out at *pos. */
static int ref_w_page_emit(const ref_w_file* d, const ref_w_chunk* ch, const ref_w_page* pg,
                           int32_t type, int32_t type_length, int max_def, int max_rep,
                           uint8_t* out, size_t cap, size_t* pos, ref_w_page_loc* loc)
{
    uint8_t raw[REF_MAX_PAGE_BYTES];
    uint8_t comp[REF_W_COMP_CAP];
    ref_w_buf b;
    ref_page_header ph;
    ref_meta_writer mw;
    const uint8_t* stored;
    size_t stored_len = 0;
    size_t rep_len = 0, def_len = 0, lv_len = 0;
    uint32_t crc;

    b.p = raw;
    b.cap = sizeof(raw);
    b.len = 0;
    memset(&ph, 0, sizeof(ph));

    /* ---- uncompressed body ---- */
    if (pg->page_type == REF_PAGE_DATA) {
        if (max_rep > 0) {
            size_t at = b.len;
            REF_TRY(ref_w_put_le(&b, 0, 4));
            REF_TRY(ref_w_levels(&b, pg->rep, pg->n_levels, max_rep, 0, pg->rep_layout, pg->rep_layout_len));
            rep_len = b.len - at - 4;
            raw[at] = (uint8_t)rep_len;
            raw[at + 1] = (uint8_t)(rep_len >> 8);
            raw[at + 2] = (uint8_t)(rep_len >> 16);
            raw[at + 3] = (uint8_t)(rep_len >> 24);
        }
        if (max_def > 0) {
            size_t at = b.len;
            REF_TRY(ref_w_put_le(&b, 0, 4));
            REF_TRY(ref_w_levels(&b, pg->def, pg->n_levels, max_def, (uint16_t)max_def,
                                 pg->def_layout, pg->def_layout_len));
            def_len = b.len - at - 4;
            raw[at] = (uint8_t)def_len;
            raw[at + 1] = (uint8_t)(def_len >> 8);
            raw[at + 2] = (uint8_t)(def_len >> 16);
            raw[at + 3] = (uint8_t)(def_len >> 24);
        }
    } else if (pg->page_type == REF_PAGE_DATA_V2) {
        if (max_rep > 0) {
            REF_TRY(ref_w_levels(&b, pg->rep, pg->n_levels, max_rep, 0, pg->rep_layout, pg->rep_layout_len));
            rep_len = b.len;
        }
        if (max_def > 0) {
            REF_TRY(ref_w_levels(&b, pg->def, pg->n_levels, max_def, (uint16_t)max_def,
                                 pg->def_layout, pg->def_layout_len));
            def_len = b.len - rep_len;
        }
        lv_len = b.len;
    } else if (pg->page_type != REF_PAGE_DICTIONARY) {
        return REF_ERR_PQ_ARG;
    }
    REF_TRY(ref_w_values(d, &b, type, type_length, pg));

    /* ---- compression ---- */
    if (pg->page_type == REF_PAGE_DATA_V2) {
        /* levels stay raw; only the values section is compressed */
        size_t got = 0;
        if (lv_len != 0) memcpy(comp, raw, lv_len);
        if (pg->v2_is_compressed == REF_W_TRI_FALSE) {
            REF_TRY(ref_w_compress(REF_CODEC_UNCOMPRESSED, 0, raw + lv_len, b.len - lv_len,
                                   comp + lv_len, sizeof(comp) - lv_len, &got));
        } else {
            REF_TRY(ref_w_compress(ch->codec, (int)pg->snappy_lit_form, raw + lv_len, b.len - lv_len,
                                   comp + lv_len, sizeof(comp) - lv_len, &got));
        }
        stored = comp;
        stored_len = lv_len + got;
    } else {
        REF_TRY(ref_w_compress(ch->codec, (int)pg->snappy_lit_form, raw, b.len, comp, sizeof(comp),
                               &stored_len));
        stored = comp;
    }

    /* ---- header ---- */
    ph.present = REF_BIT(1) | REF_BIT(2) | REF_BIT(3);
    ph.type = (int32_t)pg->page_type;
    ph.uncompressed_page_size = (int32_t)b.len;
    ph.compressed_page_size = (int32_t)stored_len;
    if (pg->with_crc) {
        crc = ref_crc32_ieee(stored, stored_len) ^ pg->crc_xor;
        ph.present |= REF_BIT(REF_PH_CRC);
        ph.crc = (int32_t)crc;
    }
    if (pg->page_type == REF_PAGE_DATA) {
        ph.present |= REF_BIT(REF_PH_DATA_PAGE_HEADER);
        ph.data.present = REF_BIT(1) | REF_BIT(2) | REF_BIT(3) | REF_BIT(4);
        ph.data.num_values = (int32_t)pg->n_levels;
        ph.data.encoding = (int32_t)pg->encoding;
        ph.data.definition_level_encoding = REF_ENC_RLE;
        ph.data.repetition_level_encoding = REF_ENC_RLE;
        if (pg->with_stats) {
            ph.data.present |= REF_BIT(5);
            ph.data.statistics = pg->stats;
        }
    } else if (pg->page_type == REF_PAGE_DATA_V2) {
        uint32_t i, rows = 0;
        ph.present |= REF_BIT(REF_PH_DATA_PAGE_HEADER_V2);
        ph.data_v2.present = REF_BIT(1) | REF_BIT(2) | REF_BIT(3) | REF_BIT(4) | REF_BIT(5) | REF_BIT(6);
        ph.data_v2.num_values = (int32_t)pg->n_levels;
        ph.data_v2.num_nulls = (int32_t)(pg->n_levels - pg->n_values);
        for (i = 0; i < pg->n_levels; i++) {
            if (pg->rep == NULL || max_rep == 0 || pg->rep[i] == 0) rows += 1;
        }
        ph.data_v2.num_rows = (int32_t)rows;
        ph.data_v2.encoding = (int32_t)pg->encoding;
        ph.data_v2.definition_levels_byte_length = (int32_t)def_len;
        ph.data_v2.repetition_levels_byte_length = (int32_t)rep_len;
        (void)ref_w_tri(pg->v2_is_compressed, &ph.data_v2.present, 7, &ph.data_v2.is_compressed);
        if (pg->with_stats) {
            ph.data_v2.present |= REF_BIT(8);
            ph.data_v2.statistics = pg->stats;
        }
    } else {
        ph.present |= REF_BIT(REF_PH_DICTIONARY_PAGE_HEADER);
        ph.dict.present = REF_BIT(1) | REF_BIT(2);
        ph.dict.num_values = (int32_t)pg->n_values;
        ph.dict.encoding = (int32_t)pg->encoding;
        (void)ref_w_tri(pg->dict_is_sorted, &ph.dict.present, 3, &ph.dict.is_sorted);
    }

    ref_meta_writer_init(&mw, out, cap, *pos, d->pool, d->pool_len, d->thrift_opts);
    REF_TRY(ref_write_page_header(&mw, &ph));
    loc->hdr_off = (uint32_t)*pos;
    loc->hdr_len = (uint32_t)(mw.w.pos - *pos);
    loc->body_off = (uint32_t)mw.w.pos;
    loc->body_len = (uint32_t)stored_len;
    loc->uncomp_len = (uint32_t)b.len;
    REF_TRY(ref_tc_write_bytes(&mw.w, stored, stored_len));
    *pos = mw.w.pos;
    return REF_OK;
}

static void ref_w_add_encoding(ref_column_meta* cm, int32_t enc)
{
    int32_t i;
    for (i = 0; i < cm->n_encodings; i++) {
        if (cm->encodings[i] == enc) return;
    }
    if (cm->n_encodings < REF_MAX_ENCODINGS) {
        cm->encodings[cm->n_encodings] = enc;
        cm->n_encodings += 1;
    }
}

static void ref_w_add_encoding_stat(ref_column_meta* cm, int32_t page_type, int32_t enc)
{
    int32_t i;
    for (i = 0; i < cm->n_encoding_stats; i++) {
        ref_page_encoding_stats* s = &cm->encoding_stats[i];
        if (s->page_type == page_type && s->encoding == enc) {
            s->count += 1;
            return;
        }
    }
    if (cm->n_encoding_stats < REF_MAX_ENCODING_STATS) {
        ref_page_encoding_stats* s = &cm->encoding_stats[cm->n_encoding_stats];
        s->present = REF_BIT(1) | REF_BIT(2) | REF_BIT(3);
        s->n_unknown = 0;
        s->page_type = page_type;
        s->encoding = enc;
        s->count = 1;
        cm->n_encoding_stats += 1;
    }
}

int ref_pq_write(const ref_w_file* d, uint8_t* out, size_t cap, size_t* out_len,
                 ref_w_layout* layout)
{
    static const uint8_t magic[4] = { 'P', 'A', 'R', '1' };
    ref_file_meta fm;
    ref_w_layout local_layout;
    ref_w_layout* lay = (layout != NULL) ? layout : &local_layout;
    int16_t parent[REF_MAX_SCHEMA];
    int16_t leaf_of_schema[REF_MAX_SCHEMA];
    int16_t schema_of_leaf[REF_MAX_COLUMNS];
    uint8_t max_def[REF_MAX_COLUMNS];
    uint8_t max_rep[REF_MAX_COLUMNS];
    int32_t n_leaves = 0;
    ref_tc_writer w;
    ref_meta_writer mw;
    int32_t rg, col, k, i;
    int64_t total_rows = 0;
    size_t pos;

    if (d->n_schema < 0 || d->n_schema > REF_MAX_SCHEMA) return REF_ERR_PQ_ARG;
    if (d->n_row_groups < 0 || d->n_row_groups > REF_MAX_ROW_GROUPS) return REF_ERR_PQ_ARG;
    if (d->n_kv < 0 || d->n_kv > REF_MAX_KV) return REF_ERR_PQ_ARG;
    REF_TRY(ref_pq_analyze_schema(d->schema, d->n_schema, parent, leaf_of_schema, schema_of_leaf,
                                  max_def, max_rep, &n_leaves));
    memset(lay, 0, sizeof(*lay));
    memset(&fm, 0, sizeof(fm));

    ref_tc_writer_init(&w, out, cap, 0);
    REF_TRY(ref_tc_write_bytes(&w, magic, 4));
    pos = w.pos;

    for (rg = 0; rg < d->n_row_groups; rg++) {
        const ref_w_row_group* g = &d->rg[rg];
        ref_row_group* mg = &fm.row_groups[rg];
        int64_t rg_usize = 0, rg_csize = 0;
        mg->present = REF_BIT(1) | REF_BIT(2) | REF_BIT(3);
        mg->n_columns = n_leaves;
        mg->num_rows = g->num_rows;
        total_rows += g->num_rows;

        for (col = 0; col < n_leaves; col++) {
            const ref_w_chunk* ch = &g->chunks[col];
            const ref_schema_element* leaf = &d->schema[schema_of_leaf[col]];
            ref_column_chunk* mc = &mg->columns[col];
            ref_column_meta* cm = &mc->meta;
            int64_t usize = 0, csize = 0, nvals = 0;
            int64_t dict_off = -1, first_data_off = -1;
            size_t chunk_start;
            int16_t chain[REF_MAX_SCHEMA_DEPTH + 2];
            int n_chain = 0, idx;
            uint8_t filler = 0xEE;

            if (ch->n_pages < 0 || ch->n_pages > REF_MAX_PAGES) return REF_ERR_PQ_ARG;
            if (ch->n_kv < 0 || ch->n_kv > REF_MAX_KV) return REF_ERR_PQ_ARG;
            for (i = 0; i < (int32_t)ch->gap_before; i++) {
                ref_tc_writer_init(&w, out, cap, pos);
                REF_TRY(ref_tc_write_byte(&w, filler));
                pos = w.pos;
            }
            chunk_start = pos;

            for (k = 0; k < ch->n_pages; k++) {
                const ref_w_page* pg = &ch->pages[k];
                ref_w_page_loc* loc = &lay->page[rg][col][k];
                size_t before = pos;
                REF_TRY(ref_w_page_emit(d, ch, pg, leaf->type,
                                        (leaf->type == REF_TYPE_FIXED_LEN_BYTE_ARRAY) ? leaf->type_length : 0,
                                        (int)max_def[col], (int)max_rep[col], out, cap, &pos, loc));
                usize += (int64_t)loc->hdr_len + (int64_t)loc->uncomp_len;
                csize += (int64_t)(pos - before);
                ref_w_add_encoding(cm, (int32_t)pg->encoding);
                ref_w_add_encoding_stat(cm, (int32_t)pg->page_type, (int32_t)pg->encoding);
                if (pg->page_type == REF_PAGE_DICTIONARY) {
                    if (dict_off < 0) dict_off = (int64_t)before;
                } else {
                    if (first_data_off < 0) first_data_off = (int64_t)before;
                    nvals += (int64_t)pg->n_levels;
                    if (pg->encoding != REF_ENC_PLAIN) ref_w_add_encoding(cm, REF_ENC_RLE);
                }
            }
            if (max_def[col] != 0 || max_rep[col] != 0) ref_w_add_encoding(cm, REF_ENC_RLE);
            if (first_data_off < 0) first_data_off = (int64_t)pos;   /* chunk without data page */

            lay->chunk_off[rg][col] = (uint32_t)chunk_start;
            lay->chunk_len[rg][col] = (uint32_t)(pos - chunk_start);

            /* ---- ColumnChunk / ColumnMetaData ---- */
            mc->present = REF_BIT(REF_CC_FILE_OFFSET) | REF_BIT(REF_CC_META_DATA);
            mc->file_offset = (d->chunk_file_offset_mode == 1) ? (int64_t)chunk_start : 0;
            cm->present = REF_CM_REQUIRED_MASK;
            cm->type = leaf->type;
            /* path_in_schema: names from below the root down to the leaf */
            idx = schema_of_leaf[col];
            for (i = 0; i <= REF_MAX_SCHEMA_DEPTH + 1; i++) {
                if (idx <= 0) break;
                chain[n_chain] = (int16_t)idx;
                n_chain += 1;
                idx = parent[idx];
            }
            if (n_chain > REF_MAX_PATH) return REF_ERR_PQ_CAPACITY;
            cm->n_path = n_chain;
            for (i = 0; i < n_chain; i++) cm->path[i] = d->schema[chain[n_chain - 1 - i]].name;
            cm->codec = ch->codec;
            cm->num_values = nvals;
            cm->total_uncompressed_size = usize;
            cm->total_compressed_size = csize;
            if (ch->n_kv > 0) {
                cm->present |= REF_BIT(REF_CM_KEY_VALUE_METADATA);
                cm->n_kv = ch->n_kv;
                for (i = 0; i < ch->n_kv; i++) cm->kv[i] = ch->kv[i];
            }
            cm->data_page_offset = first_data_off;
            if (dict_off >= 0) {
                if (ch->dict_offset_mode == REF_W_DICT_OFFSET_PRESENT) {
                    cm->present |= REF_BIT(REF_CM_DICTIONARY_PAGE_OFFSET);
                    cm->dictionary_page_offset = dict_off;
                } else if (ch->dict_offset_mode == REF_W_DICT_OFFSET_AT_DATA) {
                    cm->data_page_offset = dict_off;
                }
            }
            if (ch->with_stats) {
                cm->present |= REF_BIT(REF_CM_STATISTICS);
                cm->statistics = ch->stats;
            }
            if (ch->with_encoding_stats) cm->present |= REF_BIT(REF_CM_ENCODING_STATS);
            else cm->n_encoding_stats = 0;
            rg_usize += usize;
            rg_csize += csize;
        }
        mg->total_byte_size = rg_usize;
        if (g->with_extras) {
            mg->present |= REF_BIT(REF_RG_FILE_OFFSET) | REF_BIT(REF_RG_TOTAL_COMPRESSED_SIZE) |
                           REF_BIT(REF_RG_ORDINAL);
            mg->file_offset = (n_leaves > 0) ? (int64_t)lay->chunk_off[rg][0] : (int64_t)pos;
            mg->total_compressed_size = rg_csize;
            mg->ordinal = (int16_t)rg;
        }
    }

    /* ---- footer ---- */
    fm.present = REF_BIT(1) | REF_BIT(2) | REF_BIT(3) | REF_BIT(4);
    fm.version = d->version;
    fm.n_schema = d->n_schema;
    for (i = 0; i < d->n_schema; i++) fm.schema[i] = d->schema[i];
    fm.num_rows = d->num_rows_override_set ? d->num_rows_override : total_rows;
    fm.n_row_groups = d->n_row_groups;
    if (d->n_kv > 0) {
        fm.present |= REF_BIT(REF_FM_KEY_VALUE_METADATA);
        fm.n_kv = d->n_kv;
        for (i = 0; i < d->n_kv; i++) fm.kv[i] = d->kv[i];
    }
    if (d->with_created_by) {
        fm.present |= REF_BIT(REF_FM_CREATED_BY);
        fm.created_by = d->created_by;
    }
    if (d->with_column_orders) {
        fm.present |= REF_BIT(REF_FM_COLUMN_ORDERS);
        fm.n_column_orders = n_leaves;
        for (i = 0; i < n_leaves; i++) fm.column_order_kind[i] = 1;
    }
    ref_meta_writer_init(&mw, out, cap, pos, d->pool, d->pool_len, d->thrift_opts);
    REF_TRY(ref_write_file_meta(&mw, &fm));
    lay->footer_off = (uint32_t)pos;
    lay->footer_len = (uint32_t)(mw.w.pos - pos);
    {
        uint8_t l4[4];
        l4[0] = (uint8_t)lay->footer_len;
        l4[1] = (uint8_t)(lay->footer_len >> 8);
        l4[2] = (uint8_t)(lay->footer_len >> 16);
        l4[3] = (uint8_t)(lay->footer_len >> 24);
        REF_TRY(ref_tc_write_bytes(&mw.w, l4, 4));
        REF_TRY(ref_tc_write_bytes(&mw.w, magic, 4));
    }
    lay->file_len = (uint32_t)mw.w.pos;
    *out_len = mw.w.pos;
    return REF_OK;
}
