/* selftest_carquet.c - sanity cross-check of the references against the native
 * carquet build (-DHAVE_CARQUET, links /repo/_build/libcarquet.a).
 *
 * carquet is the code under test, not an authority: every disagreement is
 * reported as a "NOTE carquet differs" line and does NOT fail the self-test.
 * The only CHECKs here are on the reference's own behaviour. */
#include "selftest_common.h"

#ifndef HAVE_CARQUET

void st_carquet(void)
{
    printf("  carquet cross-check: off (no libcarquet.a)\n");
}

#else

#include <carquet/error.h>
#include <carquet/types.h>
#include "core/buffer.h"
#include "encoding/rle.h"
#include "encoding/plain.h"

extern carquet_status_t carquet_snappy_compress(const uint8_t*, size_t, uint8_t*, size_t, size_t*);
extern carquet_status_t carquet_snappy_decompress(const uint8_t*, size_t, uint8_t*, size_t, size_t*);
extern size_t carquet_snappy_compress_bound(size_t);
extern carquet_status_t carquet_lz4_compress(const uint8_t*, size_t, uint8_t*, size_t, size_t*);
extern carquet_status_t carquet_lz4_decompress(const uint8_t*, size_t, uint8_t*, size_t, size_t*);
extern size_t carquet_lz4_compress_bound(size_t);
extern uint32_t carquet_crc32(const uint8_t*, size_t);
extern uint32_t carquet_crc32_update(uint32_t, const uint8_t*, size_t);
extern uint64_t carquet_xxhash64(const void*, size_t, uint64_t);
extern carquet_status_t carquet_delta_encode_int32(const int32_t*, int32_t, uint8_t*, size_t, size_t*);
extern carquet_status_t carquet_delta_encode_int64(const int64_t*, int32_t, uint8_t*, size_t, size_t*);
extern carquet_status_t carquet_delta_decode_int32(const uint8_t*, size_t, int32_t*, int32_t, size_t*);
extern carquet_status_t carquet_delta_decode_int64(const uint8_t*, size_t, int64_t*, int32_t, size_t*);
extern carquet_status_t carquet_delta_length_encode(const carquet_byte_array_t*, int32_t, carquet_buffer_t*);
extern carquet_status_t carquet_delta_length_decode(const uint8_t*, size_t, carquet_byte_array_t*, int32_t, size_t*);
extern carquet_status_t carquet_delta_strings_encode(const carquet_byte_array_t*, int32_t, carquet_buffer_t*);
extern carquet_status_t carquet_delta_strings_decode(const uint8_t*, size_t, carquet_byte_array_t*, int32_t,
                                                     uint8_t*, size_t, size_t*);
extern carquet_status_t carquet_byte_stream_split_encode(const uint8_t*, int64_t, int32_t, uint8_t*, size_t, size_t*);
extern carquet_status_t carquet_byte_stream_split_decode(const uint8_t*, size_t, int32_t, uint8_t*, int64_t);
extern carquet_status_t carquet_byte_stream_split_encode_float(const float*, int64_t, uint8_t*, size_t, size_t*);
extern carquet_status_t carquet_byte_stream_split_decode_float(const uint8_t*, size_t, float*, int64_t);
extern carquet_status_t carquet_byte_stream_split_encode_double(const double*, int64_t, uint8_t*, size_t, size_t*);
extern carquet_status_t carquet_byte_stream_split_decode_double(const uint8_t*, size_t, double*, int64_t);
typedef struct carquet_bloom_filter carquet_bloom_filter_t;
extern carquet_bloom_filter_t* carquet_bloom_filter_create(size_t);
extern void carquet_bloom_filter_destroy(carquet_bloom_filter_t*);
extern void carquet_bloom_filter_insert_hash(carquet_bloom_filter_t*, uint64_t);
extern bool carquet_bloom_filter_check_hash(const carquet_bloom_filter_t*, uint64_t);
extern const uint8_t* carquet_bloom_filter_data(const carquet_bloom_filter_t*);
extern size_t carquet_bloom_filter_num_blocks(const carquet_bloom_filter_t*);

size_t st_gen_snappy_script(ref_snappy_elem_t* sc, size_t max_elems, size_t max_out, size_t* lit_needed);
size_t st_gen_lz4_script(ref_lz4_seq_t* sq, size_t max_seqs, size_t max_out, size_t* lit_needed);
void st_carquet_encodings(void);

#define BIG (100 * 1024)

static uint8_t src[BIG];
static uint8_t comp[BIG * 2 + 4096];
static uint8_t dec[BIG + 64];

static void cq_compression(void)
{
    enum { MAXOUT = 4000 };
    static ref_snappy_elem_t sc[24];
    static ref_lz4_seq_t sq[13];
    static uint8_t lit[MAXOUT];
    static uint8_t exp[MAXOUT];
    int c;

    for (c = 0; c < 400; c++) {
        size_t n = c < 40 ? (size_t)c : st_below(c % 8 == 0 ? BIG + 1 : 6000);
        size_t cl = 0;
        size_t dl = 0;
        int rc;
        carquet_status_t st;
        st_fill_compressible(src, n, c % 4);

        /* Snappy: carquet compress -> reference decode */
        st = carquet_snappy_compress(src, n, comp, sizeof comp, &cl);
        if (st != CARQUET_OK) {
            st_note("snappy: carquet_snappy_compress fails on valid input", "n=%zu status=%d", n, (int)st);
        } else {
            rc = ref_snappy_decode(comp, cl, dec, sizeof dec, &dl);
            if (rc != 0 || dl != n || memcmp(dec, src, n) != 0) {
                st_note("snappy: carquet-compress -> ref-decode != input", "n=%zu ref rc=%d out=%zu", n, rc, dl);
            }
        }
        /* LZ4: carquet compress -> reference decode, then the end-of-block rules */
        st = carquet_lz4_compress(src, n, comp, sizeof comp, &cl);
        if (st != CARQUET_OK) {
            st_note("lz4: carquet_lz4_compress fails on valid input", "n=%zu status=%d", n, (int)st);
        } else {
            rc = ref_lz4_block_decode(comp, cl, dec, sizeof dec, &dl, 0);
            if (rc != 0 || dl != n || memcmp(dec, src, n) != 0) {
                st_note("lz4: carquet-compress -> ref-decode != input", "n=%zu ref rc=%d out=%zu clen=%zu", n, rc, dl, cl);
            } else if (ref_lz4_block_decode(comp, cl, dec, sizeof dec, &dl, 1) == REF_ERR_ENDRULE) {
                st_note("lz4: carquet compressor output breaks the end-of-block rules (last 5 bytes literal / last match >= 12 bytes before end)",
                        "n=%zu clen=%zu", n, cl);
            }
        }
    }

    /* reference streams -> carquet decompress */
    for (c = 0; c < 5000; c++) {
        size_t need = 0;
        size_t ne = st_gen_snappy_script(sc, 24, 2500, &need);
        size_t el = 0;
        size_t xl = 0;
        size_t dl = 0;
        size_t ns;
        carquet_status_t st;
        st_fill(lit, need);
        CHECK(ref_snappy_encode_script(sc, ne, lit, need, comp, sizeof comp, &el, exp, sizeof exp, &xl) == 0, "script");
        st = carquet_snappy_decompress(comp, el, dec, sizeof dec, &dl);
        if (st != CARQUET_OK || dl != xl || memcmp(dec, exp, xl) != 0) {
            st_note("snappy: ref-encode(script) -> carquet-decompress != expected", "elems=%zu expect=%zu status=%d got=%zu",
                    ne, xl, (int)st, dl);
        }
        ns = st_gen_lz4_script(sq, 12, MAXOUT, &need);
        st_fill(lit, need);
        CHECK(ref_lz4_encode_script(sq, ns, lit, need, comp, sizeof comp, &el, exp, sizeof exp, &xl) == 0, "script");
        st = carquet_lz4_decompress(comp, el, dec, sizeof dec, &dl);
        if (st != CARQUET_OK || dl != xl || memcmp(dec, exp, xl) != 0) {
            int strict = ref_lz4_block_decode(comp, el, exp, sizeof exp, &xl, 1);
            st_note(strict == 0 ? "lz4: ref-encode(script, end rules obeyed) -> carquet-decompress != expected"
                                : "lz4: ref-encode(script breaking the compressor-side end rules) -> carquet-decompress != expected",
                    "seqs=%zu expect=%zu status=%d got=%zu", ns, xl, (int)st, dl);
        }
    }
}

static void cq_hashes(void)
{
    int c;
    for (c = 0; c < 2000; c++) {
        size_t n = c <= 300 ? (size_t)c : st_below(c % 50 == 0 ? BIG : 3000);
        size_t cut = st_below((uint32_t)n + 1);
        uint64_t seed = st_below(3) == 0 ? 0 : st_rnd();
        uint32_t a;
        uint32_t b;
        st_fill(src, n);
        a = ref_crc32_ieee(src, n);
        b = carquet_crc32(src, n);
        if (a != b) st_note("crc32: carquet_crc32 != reference CRC-32/IEEE", "n=%zu ref=%08X carquet=%08X", n, a, b);
        a = ref_crc32_ieee_update(ref_crc32_ieee_update(0, src, cut), src + cut, n - cut);
        b = carquet_crc32_update(carquet_crc32_update(0, src, cut), src + cut, n - cut);
        if (a != b) st_note("crc32: carquet_crc32_update chaining != zlib-style reference", "n=%zu cut=%zu ref=%08X carquet=%08X", n, cut, a, b);
        if (ref_xxh64(src, n, seed) != carquet_xxhash64(src, n, seed)) {
            st_note("xxh64: carquet_xxhash64 != reference XXH64", "n=%zu seed=%llx", n, (unsigned long long)seed);
        }
    }
}

/* same generator shapes as the round-trip test */
static size_t gen_ints64(int64_t* v, size_t maxn, int W)
{
    size_t n = 1 + st_below((uint32_t)maxn);
    uint32_t mode = st_below(6);
    uint64_t cur = st_below(3) == 0 ? st_below(1000) : st_rnd();
    uint64_t lo = (W == 64) ? 0x8000000000000000ull : 0xFFFFFFFF80000000ull;
    uint64_t hi = (W == 64) ? 0x7FFFFFFFFFFFFFFFull : 0x000000007FFFFFFFull;
    int spread = (int)st_below((uint32_t)W);
    size_t i;
    for (i = 0; i < n; i++) {
        switch (mode) {
        case 0: cur += st_below(16); break;
        case 1: cur += (uint64_t)st_below(64) - 32; break;
        case 2: cur = st_rnd(); break;
        case 3: break;
        case 4: cur = (st_below(2) ? lo : hi); break;
        default: cur += (st_rnd() >> (63 - spread)) - ((uint64_t)1 << spread) / 2; break;
        }
        if (W == 32) {
            uint32_t u = (uint32_t)cur;
            int32_t s;
            memcpy(&s, &u, 4);
            v[i] = s;
        } else {
            memcpy(&v[i], &cur, 8);
        }
    }
    return n;
}

static const char* delta_shape(const int64_t* v, size_t n, int W)
{
    /* classify by the width the spec encoder needs, to keep notes apart */
    {
        uint64_t maxspread = 0;
        size_t i;
        for (i = 1; i < n; i++) {
            uint64_t d = (uint64_t)v[i] - (uint64_t)v[i - 1];
            uint64_t a = (d >> 63) ? (0 - d) : d;
            if (W == 32) a &= 0xFFFFFFFFu;
            if (a > maxspread) maxspread = a;
        }
        if (maxspread >> 31) return W == 64 ? "deltas needing > 32 bits" : "deltas that wrap 32 bits";
        return "small deltas";
    }
}

static void cq_delta(void)
{
    enum { N = 600 };
    static int64_t v64[N];
    static int64_t o64[N];
    static int32_t v32[N];
    static int32_t o32[N];
    static uint8_t enc[N * 12 + 4096];
    char topic[200];
    int c;
    for (c = 0; c < 4000; c++) {
        int W = (c & 1) ? 64 : 32;
        size_t n = gen_ints64(v64, (c % 10 == 0) ? N : 150, W);
        size_t len = 0;
        size_t cnt = 0;
        size_t used = 0;
        size_t i;
        int rc;
        carquet_status_t st;
        const char* shape = delta_shape(v64, n, W);
        for (i = 0; i < n; i++) v32[i] = (int32_t)v64[i];

        /* carquet encode -> reference decode */
        len = 0;
        st = (W == 64) ? carquet_delta_encode_int64(v64, (int32_t)n, enc, sizeof enc, &len)
                       : carquet_delta_encode_int32(v32, (int32_t)n, enc, sizeof enc, &len);
        if (st != CARQUET_OK) {
            snprintf(topic, sizeof topic, "delta int%d: carquet encoder fails (%s)", W, shape);
            st_note(topic, "n=%zu status=%d", n, (int)st);
        } else {
            int same;
            rc = (W == 64) ? ref_delta_decode_i64(enc, len, o64, N, &cnt, &used)
                           : ref_delta_decode_i32(enc, len, o32, N, &cnt, &used);
            same = rc == 0 && cnt == n &&
                   ((W == 64) ? memcmp(o64, v64, n * 8) == 0 : memcmp(o32, v32, n * 4) == 0);
            if (!same) {
                snprintf(topic, sizeof topic, "delta int%d: carquet-encode -> ref-decode != input (%s)", W, shape);
                st_note(topic, "n=%zu ref rc=%d count=%zu", n, rc, cnt);
            } else if (used != len) {
                snprintf(topic, sizeof topic, "delta int%d: carquet encoder emits bytes the spec decoder does not consume", W);
                st_note(topic, "n=%zu emitted=%zu consumed=%zu", n, len, used);
            }
        }

        /* reference encode -> carquet decode; canonical 128/4 and other legal shapes */
        {
            static const uint32_t shapes[4][2] = {{128, 4}, {128, 1}, {256, 8}, {1024, 4}};
            uint32_t s = ((c / 2) % 4 == 0) ? 1 + st_below(3) : 0;
            uint8_t unused = ((c / 2) % 4 == 1) ? 0xFF : 0;
            int same;
            size_t cons = 0;
            rc = (W == 64) ? ref_delta_encode_i64(v64, n, shapes[s][0], shapes[s][1], unused, enc, sizeof enc, &len)
                           : ref_delta_encode_i32(v32, n, shapes[s][0], shapes[s][1], unused, enc, sizeof enc, &len);
            CHECK(rc == 0, "ref delta enc");
            memset(o64, 0, sizeof o64);
            memset(o32, 0, sizeof o32);
            st = (W == 64) ? carquet_delta_decode_int64(enc, len, o64, (int32_t)n, &cons)
                           : carquet_delta_decode_int32(enc, len, o32, (int32_t)n, &cons);
            same = st == CARQUET_OK &&
                   ((W == 64) ? memcmp(o64, v64, n * 8) == 0 : memcmp(o32, v32, n * 4) == 0);
            if (!same) {
                snprintf(topic, sizeof topic, "delta int%d: ref-encode(block %u, %u miniblocks%s) -> carquet-decode != input (%s)",
                         W, shapes[s][0], shapes[s][1], unused ? ", unused width bytes 0xFF" : "", shape);
                st_note(topic, "n=%zu status=%d", n, (int)st);
            } else if (cons != len) {
                snprintf(topic, sizeof topic, "delta int%d: carquet decoder bytes_consumed != stream length", W);
                st_note(topic, "n=%zu len=%zu consumed=%zu block=%u/%u", n, len, cons, shapes[s][0], shapes[s][1]);
            }
        }
    }
    /* zero values */
    {
        size_t len = 77;
        carquet_status_t st = carquet_delta_encode_int32(v32, 0, enc, sizeof enc, &len);
        if (st != CARQUET_OK || len < 4) {
            st_note("delta: carquet encoder writes no header for 0 values (spec: header with count 0)", "status=%d bytes=%zu", (int)st, len);
        }
    }
}

static void cq_bss(void)
{
    static uint8_t raw[300 * 16];
    static uint8_t a[300 * 16];
    static uint8_t b[300 * 16];
    char topic[160];
    int c;
    for (c = 0; c < 3000; c++) {
        size_t n = 1 + st_below(300);
        int32_t width = (c % 3 == 0) ? 4 : (c % 3 == 1 ? 8 : 1 + (int32_t)st_below(16));
        size_t la = 0;
        size_t lb = 12345;
        size_t cnt = 0;
        carquet_status_t st;
        st_fill(raw, n * (size_t)width);
        CHECK(ref_bss_encode(raw, n, (size_t)width, a, sizeof a, &la) == 0, "bss enc");
        if (c % 3 == 0 && (c & 8)) {
            st = carquet_byte_stream_split_encode_float((const float*)(const void*)raw, (int64_t)n, b, sizeof b, &lb);
        } else if (c % 3 == 1 && (c & 8)) {
            st = carquet_byte_stream_split_encode_double((const double*)(const void*)raw, (int64_t)n, b, sizeof b, &lb);
        } else {
            st = carquet_byte_stream_split_encode(raw, (int64_t)n, width, b, sizeof b, &lb);
        }
        if (st != CARQUET_OK || lb != la || memcmp(a, b, la) != 0) {
            snprintf(topic, sizeof topic, "byte_stream_split: carquet encode != reference (width %d)", (int)width);
            st_note(topic, "n=%zu status=%d len=%zu want=%zu", n, (int)st, lb, la);
        }
        memset(b, 0, n * (size_t)width);
        st = carquet_byte_stream_split_decode(a, la, width, b, (int64_t)n);
        if (st != CARQUET_OK || memcmp(b, raw, la) != 0) {
            snprintf(topic, sizeof topic, "byte_stream_split: ref-encode -> carquet-decode != input (width %d)", (int)width);
            st_note(topic, "n=%zu status=%d", n, (int)st);
        }
        CHECK(ref_bss_decode(a, la, (size_t)width, b, sizeof b, &cnt) == 0 && cnt == n && memcmp(b, raw, la) == 0, "bss dec");
    }
}

static void cq_bloom(void)
{
    static uint8_t bs[32 * 64];
    int c;
    for (c = 0; c < 300; c++) {
        uint32_t blocks = 1 + st_below(64);
        carquet_bloom_filter_t* f = carquet_bloom_filter_create((size_t)blocks * 32);
        size_t k = 1 + st_below(100);
        size_t i;
        if (f == NULL || carquet_bloom_filter_num_blocks(f) != blocks) {
            st_note("bloom: carquet_bloom_filter_create(num_bytes) does not give num_bytes/32 blocks", "asked %u blocks, got %zu",
                    blocks, f ? carquet_bloom_filter_num_blocks(f) : (size_t)0);
            if (f) carquet_bloom_filter_destroy(f);
            continue;
        }
        memset(bs, 0, sizeof bs);
        for (i = 0; i < k; i++) {
            uint64_t h = st_rnd();
            ref_sbbf_insert(bs, blocks, h);
            carquet_bloom_filter_insert_hash(f, h);
        }
        if (memcmp(bs, carquet_bloom_filter_data(f), (size_t)blocks * 32) != 0) {
            st_note(blocks == 1 ? "bloom: bitset differs from the reference even with a single block (mask/salt)"
                                : "bloom: bitset after identical inserts differs from the spec SBBF (block index: spec ((h>>32)*n)>>32)",
                    "blocks=%u inserts=%zu", blocks, k);
        }
        carquet_bloom_filter_destroy(f);
    }
    /* block-local behaviour: with one block the index is irrelevant */
    {
        carquet_bloom_filter_t* f = carquet_bloom_filter_create(32);
        uint8_t one[32];
        size_t i;
        memset(one, 0, 32);
        if (f != NULL) {
            for (i = 0; i < 50; i++) {
                uint64_t h = st_rnd();
                ref_sbbf_insert(one, 1, h);
                carquet_bloom_filter_insert_hash(f, h);
            }
            if (memcmp(one, carquet_bloom_filter_data(f), 32) != 0) {
                st_note("bloom: single-block mask differs from the reference", "50 inserts");
            }
            carquet_bloom_filter_destroy(f);
        }
    }
}

void st_carquet(void)
{
    printf("  carquet cross-check: on (disagreements are NOTEs, not failures)\n");
    cq_compression();
    cq_hashes();
    cq_delta();
    cq_bss();
    cq_bloom();
    st_carquet_encodings();
}

#endif /* HAVE_CARQUET */
