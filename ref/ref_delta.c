/*
 * ref_delta.c - DELTA_BINARY_PACKED (int32/int64), DELTA_LENGTH_BYTE_ARRAY,
 * DELTA_BYTE_ARRAY.
 *
 * Source: apache/parquet-format Encodings.md, sections
 *   "Delta Encoding (DELTA_BINARY_PACKED = 5)",
 *   "Delta-length byte array: (DELTA_LENGTH_BYTE_ARRAY = 6)",
 *   "Delta Strings: (DELTA_BYTE_ARRAY = 7)".
 *
 *   header := <block size in values> <number of miniblocks in a block>
 *             <total value count> <first value>
 *             (ULEB128 x3, then zig-zag ULEB128)
 *   block  := <min delta> <list of bitwidths of miniblocks> <miniblocks>
 *             (zig-zag ULEB128, one byte per miniblock, bit-packed deltas)
 *   - block size is a multiple of 128; miniblock count divides it and the
 *     quotient is a multiple of 32;
 *   - each stored value is (delta - min delta), bit-packed LSB first with the
 *     miniblock's width;
 *   - a partial last miniblock is padded to full length; miniblocks that hold
 *     no value at all keep their width byte (any content) but have no body;
 *   - subtraction/addition wrap around in two's complement.
 *
 * Everything is done on unsigned bit patterns; signed comparison is made by
 * flipping the sign bit.  One core parametrised by W (32 or 64) serves both
 * integer widths.
 */
#include "ref_internal.h"

#define REF_DELTA_MAX_BLOCK 0x7FFFFFFFu

static uint64_t ref_delta_mask(int W)
{
    return (W == 64) ? UINT64_MAX : (uint64_t)0xFFFFFFFFu;
}

/* a < b as W-bit two's-complement numbers */
static int ref_delta_signed_less(uint64_t a, uint64_t b, int W)
{
    uint64_t sign = (uint64_t)1 << (W - 1);
    return (a ^ sign) < (b ^ sign);
}

static uint64_t ref_delta_zigzag(uint64_t x, int W)
{
    if (W == 64) {
        return ref_zigzag64(x);
    }
    return (uint64_t)ref_zigzag32((uint32_t)x);
}

static int ref_delta_bits_needed(uint64_t x)
{
    int n = 0;
    while (x != 0) {
        n++;
        x >>= 1;
    }
    return n;
}

/* Header rules shared by encoder (-> REF_ERR_ARG) and decoder (-> CORRUPT). */
static int ref_delta_params_ok(uint64_t block_size, uint64_t miniblocks)
{
    uint64_t per_mini;
    if (block_size == 0 || block_size > REF_DELTA_MAX_BLOCK) {
        return 0;
    }
    if (block_size % 128 != 0) {
        return 0;
    }
    if (miniblocks == 0 || block_size % miniblocks != 0) {
        return 0;
    }
    per_mini = block_size / miniblocks;
    if (per_mini % 32 != 0) {
        return 0;
    }
    return 1;
}

/* ---- decoder ------------------------------------------------------------------ */

static void ref_delta_store(uint32_t* out32, uint64_t* out64, size_t i, uint64_t v)
{
    if (out64 != NULL) {
        out64[i] = v;
    } else {
        out32[i] = (uint32_t)v;
    }
}

int ref_delta_decode_core(const uint8_t* in, size_t in_len, int W,
                          uint32_t* out32, uint64_t* out64, size_t cap_values,
                          size_t* n_values, size_t* consumed)
{
    size_t pos = 0;
    uint64_t block_size;
    uint64_t miniblocks;
    uint64_t total;
    uint64_t zz_first;
    uint64_t per_mini;
    uint64_t prev;
    uint64_t got;
    uint64_t mask = ref_delta_mask(W);
    int rc;

    rc = ref_uleb_read(in, in_len, &pos, &block_size);
    if (rc != REF_OK) {
        return rc;
    }
    rc = ref_uleb_read(in, in_len, &pos, &miniblocks);
    if (rc != REF_OK) {
        return rc;
    }
    rc = ref_uleb_read(in, in_len, &pos, &total);
    if (rc != REF_OK) {
        return rc;
    }
    rc = ref_uleb_read(in, in_len, &pos, &zz_first);
    if (rc != REF_OK) {
        return rc;
    }
    if (!ref_delta_params_ok(block_size, miniblocks)) {
        return REF_ERR_CORRUPT;
    }
    per_mini = block_size / miniblocks;
    if (total > (uint64_t)cap_values) {
        return REF_ERR_CAPACITY;
    }
    *n_values = (size_t)total;
    if (total == 0) {
        *consumed = pos;
        return REF_OK;
    }

    prev = ref_unzigzag64(zz_first) & mask;
    ref_delta_store(out32, out64, 0, prev);
    got = 1;

    while (got < total) {
        uint64_t zz_min;
        uint64_t min_delta;
        size_t widths_pos;
        uint64_t m;

        rc = ref_uleb_read(in, in_len, &pos, &zz_min);
        if (rc != REF_OK) {
            return rc;
        }
        min_delta = ref_unzigzag64(zz_min) & mask;

        if (miniblocks > (uint64_t)(in_len - pos)) {
            return REF_ERR_TRUNCATED;
        }
        widths_pos = pos;
        pos += (size_t)miniblocks;

        for (m = 0; m < miniblocks && got < total; m++) {
            int bw = (int)in[widths_pos + (size_t)m];
            uint64_t nbytes;
            uint64_t take;
            uint64_t j;
            if (bw > W) {
                return REF_ERR_CORRUPT;
            }
            nbytes = (per_mini / 8) * (uint64_t)bw;
            if (nbytes > (uint64_t)(in_len - pos)) {
                return REF_ERR_TRUNCATED;
            }
            take = total - got;
            if (per_mini < take) {
                take = per_mini;
            }
            for (j = 0; j < take; j++) {
                uint64_t bitpos = (uint64_t)pos * 8 + j * (uint64_t)bw;
                uint64_t stored = ref_get_bits_lsb(in, bitpos, bw);
                prev = (prev + min_delta + stored) & mask;
                ref_delta_store(out32, out64, (size_t)got, prev);
                got++;
            }
            pos += (size_t)nbytes;
        }
    }
    *consumed = pos;
    return REF_OK;
}

int ref_delta_decode_i32(const uint8_t* in, size_t in_len,
                         int32_t* out, size_t cap_values,
                         size_t* n_values, size_t* consumed)
{
    uint32_t dummy = 0;
    uint32_t* o = (uint32_t*)out; /* int32_t / uint32_t may alias (C11 6.5p7) */
    if (o == NULL) {
        if (cap_values != 0) {
            return REF_ERR_ARG;
        }
        o = &dummy;
    }
    return ref_delta_decode_core(in, in_len, 32, o, NULL, cap_values, n_values, consumed);
}

int ref_delta_decode_i64(const uint8_t* in, size_t in_len,
                         int64_t* out, size_t cap_values,
                         size_t* n_values, size_t* consumed)
{
    uint64_t dummy = 0;
    uint64_t* o = (uint64_t*)out;
    if (o == NULL) {
        if (cap_values != 0) {
            return REF_ERR_ARG;
        }
        o = &dummy;
    }
    return ref_delta_decode_core(in, in_len, 64, NULL, o, cap_values, n_values, consumed);
}

/* ---- encoder ------------------------------------------------------------------ */

static uint64_t ref_delta_load(const uint32_t* v32, const uint64_t* v64, size_t i)
{
    if (v64 != NULL) {
        return v64[i];
    }
    return (uint64_t)v32[i];
}

/* delta number j (1 <= j < n) = value[j] - value[j-1], wrapped to W bits */
static uint64_t ref_delta_at(const uint32_t* v32, const uint64_t* v64, size_t j, uint64_t mask)
{
    return (ref_delta_load(v32, v64, j) - ref_delta_load(v32, v64, j - 1)) & mask;
}

/* A zig-zag varint, minimal (len == 0) or padded to exactly len bytes.  A
 * value too large for the padded form only sets *bad. */
static int ref_delta_write_zz(uint64_t zz, int len, uint8_t* out, size_t cap, size_t* pos, int* bad)
{
    int rc;
    if (len == 0) {
        return ref_uleb_write(zz, out, cap, pos);
    }
    rc = ref_uleb_write_padded(zz, len, out, cap, pos);
    if (rc == REF_ERR_ARG && len >= 1 && len <= 10) {
        *bad = 1;
        return REF_OK;
    }
    return rc;
}

int ref_delta_encode_core(const uint32_t* v32, const uint64_t* v64, size_t n, int W,
                          uint32_t block_size, uint32_t miniblocks,
                          uint8_t unused_width_byte,
                          const uint8_t* forced_widths, size_t forced_len,
                          int zz_varint_len,
                          uint8_t* out, size_t cap, size_t* out_len)
{
    size_t pos = 0;
    size_t i;
    size_t used_minis = 0; /* miniblocks holding values emitted so far */
    int bad = 0;           /* sticky: a forced width is too small for the data */
    uint64_t per_mini;
    uint64_t first = 0;
    uint64_t mask = ref_delta_mask(W);
    int rc;

    if (!ref_delta_params_ok((uint64_t)block_size, (uint64_t)miniblocks)) {
        return REF_ERR_ARG;
    }
    per_mini = (uint64_t)block_size / (uint64_t)miniblocks;
    if (n > 0) {
        first = ref_delta_load(v32, v64, 0);
    }

    rc = ref_uleb_write((uint64_t)block_size, out, cap, &pos);
    if (rc != REF_OK) {
        return rc;
    }
    rc = ref_uleb_write((uint64_t)miniblocks, out, cap, &pos);
    if (rc != REF_OK) {
        return rc;
    }
    rc = ref_uleb_write((uint64_t)n, out, cap, &pos);
    if (rc != REF_OK) {
        return rc;
    }
    rc = ref_delta_write_zz(ref_delta_zigzag(first, W), zz_varint_len, out, cap, &pos, &bad);
    if (rc != REF_OK) {
        return rc;
    }

    i = 1; /* index of the value whose delta comes next */
    while (i < n) {
        uint64_t in_block = (uint64_t)(n - i);
        uint64_t min_delta;
        uint64_t j;
        uint64_t m;
        size_t widths_pos;

        if (in_block > (uint64_t)block_size) {
            in_block = (uint64_t)block_size;
        }

        /* 1. minimum delta of the block (signed) */
        min_delta = ref_delta_at(v32, v64, i, mask);
        for (j = 1; j < in_block; j++) {
            uint64_t d = ref_delta_at(v32, v64, i + (size_t)j, mask);
            if (ref_delta_signed_less(d, min_delta, W)) {
                min_delta = d;
            }
        }
        rc = ref_delta_write_zz(ref_delta_zigzag(min_delta, W), zz_varint_len, out, cap, &pos, &bad);
        if (rc != REF_OK) {
            return rc;
        }

        /* 2. one width byte per miniblock */
        if ((uint64_t)miniblocks > (uint64_t)(cap - pos)) {
            return REF_ERR_CAPACITY;
        }
        widths_pos = pos;
        pos += (size_t)miniblocks;

        /* 3. the miniblocks */
        for (m = 0; m < (uint64_t)miniblocks; m++) {
            uint64_t mstart = m * per_mini;
            uint64_t cnt;
            uint64_t max_stored = 0;
            uint64_t nbytes;
            int bw;
            if (mstart >= in_block) {
                out[widths_pos + (size_t)m] = unused_width_byte;
                continue;
            }
            cnt = in_block - mstart;
            if (cnt > per_mini) {
                cnt = per_mini;
            }
            for (j = 0; j < cnt; j++) {
                uint64_t d = ref_delta_at(v32, v64, i + (size_t)(mstart + j), mask);
                uint64_t stored = (d - min_delta) & mask;
                if (stored > max_stored) {
                    max_stored = stored;
                }
            }
            if (forced_widths != NULL) {
                /* caller-dictated width: any width >= the needed one is legal,
                 * and the control flow no longer depends on the data */
                if (used_minis >= forced_len || (int)forced_widths[used_minis] > W) {
                    return REF_ERR_ARG;
                }
                bw = (int)forced_widths[used_minis];
                if (bw < 64) {
                    bad |= ((max_stored >> bw) != 0);
                }
            } else {
                bw = ref_delta_bits_needed(max_stored);
            }
            used_minis++;
            out[widths_pos + (size_t)m] = (uint8_t)bw;
            nbytes = (per_mini / 8) * (uint64_t)bw;
            if (nbytes > (uint64_t)(cap - pos)) {
                return REF_ERR_CAPACITY;
            }
            ref_zero_bytes(out + pos, (size_t)nbytes);
            for (j = 0; j < cnt; j++) {
                uint64_t d = ref_delta_at(v32, v64, i + (size_t)(mstart + j), mask);
                uint64_t stored = (d - min_delta) & mask;
                ref_put_bits_lsb(out + pos, j * (uint64_t)bw, stored, bw);
            }
            pos += (size_t)nbytes;
        }
        i += (size_t)in_block;
    }
    *out_len = pos;
    return bad ? REF_ERR_ARG : REF_OK;
}

int ref_delta_encode_i32(const int32_t* values, size_t n,
                         uint32_t block_size, uint32_t miniblocks,
                         uint8_t unused_width_byte,
                         uint8_t* out, size_t cap, size_t* out_len)
{
    uint32_t dummy = 0;
    const uint32_t* v = (const uint32_t*)values;
    if (v == NULL) {
        if (n != 0) {
            return REF_ERR_ARG;
        }
        v = &dummy;
    }
    return ref_delta_encode_core(v, NULL, n, 32, block_size, miniblocks,
                                 unused_width_byte, NULL, 0, 0, out, cap, out_len);
}

int ref_delta_encode_i64(const int64_t* values, size_t n,
                         uint32_t block_size, uint32_t miniblocks,
                         uint8_t unused_width_byte,
                         uint8_t* out, size_t cap, size_t* out_len)
{
    uint64_t dummy = 0;
    const uint64_t* v = (const uint64_t*)values;
    if (v == NULL) {
        if (n != 0) {
            return REF_ERR_ARG;
        }
        v = &dummy;
    }
    return ref_delta_encode_core(NULL, v, n, 64, block_size, miniblocks,
                                 unused_width_byte, NULL, 0, 0, out, cap, out_len);
}

int ref_delta_encode_i32_widths(const int32_t* values, size_t n,
                                uint32_t block_size, uint32_t miniblocks,
                                const uint8_t* widths, size_t widths_len,
                                int zz_varint_len, uint8_t unused_width_byte,
                                uint8_t* out, size_t cap, size_t* out_len)
{
    uint32_t dummy = 0;
    uint8_t dummy_w = 0;
    const uint32_t* v = (const uint32_t*)values;
    if (v == NULL) {
        if (n != 0) {
            return REF_ERR_ARG;
        }
        v = &dummy;
    }
    if (widths == NULL) {
        widths = &dummy_w;
        widths_len = 0;
    }
    return ref_delta_encode_core(v, NULL, n, 32, block_size, miniblocks,
                                 unused_width_byte, widths, widths_len, zz_varint_len, out, cap, out_len);
}

int ref_delta_encode_i64_widths(const int64_t* values, size_t n,
                                uint32_t block_size, uint32_t miniblocks,
                                const uint8_t* widths, size_t widths_len,
                                int zz_varint_len, uint8_t unused_width_byte,
                                uint8_t* out, size_t cap, size_t* out_len)
{
    uint64_t dummy = 0;
    uint8_t dummy_w = 0;
    const uint64_t* v = (const uint64_t*)values;
    if (v == NULL) {
        if (n != 0) {
            return REF_ERR_ARG;
        }
        v = &dummy;
    }
    if (widths == NULL) {
        widths = &dummy_w;
        widths_len = 0;
    }
    return ref_delta_encode_core(NULL, v, n, 64, block_size, miniblocks,
                                 unused_width_byte, widths, widths_len, zz_varint_len, out, cap, out_len);
}

/* ---- DELTA_LENGTH_BYTE_ARRAY ------------------------------------------------- */

static int ref_span_ok(const ref_span_t* s, size_t data_len)
{
    uint64_t off = (uint64_t)s->off;
    uint64_t len = (uint64_t)s->len;
    if (off > (uint64_t)data_len) {
        return 0;
    }
    if (len > (uint64_t)data_len - off) {
        return 0;
    }
    return len < 0x80000000u;
}

int ref_delta_length_encode(const uint8_t* data, size_t data_len,
                            const ref_span_t* spans, size_t n,
                            uint32_t block_size, uint32_t miniblocks,
                            int32_t* scratch, size_t scratch_cap,
                            uint8_t* out, size_t cap, size_t* out_len)
{
    uint32_t* lens = (uint32_t*)scratch;
    uint32_t dummy = 0;
    size_t pos = 0;
    size_t i;
    int rc;
    if (n > scratch_cap) {
        return REF_ERR_CAPACITY;
    }
    if (lens == NULL) {
        lens = &dummy; /* n == 0 */
    }
    for (i = 0; i < n; i++) {
        if (!ref_span_ok(&spans[i], data_len)) {
            return REF_ERR_ARG;
        }
        lens[i] = spans[i].len;
    }
    rc = ref_delta_encode_core(lens, NULL, n, 32, block_size, miniblocks, 0, NULL, 0, 0,
                               out, cap, &pos);
    if (rc != REF_OK) {
        return rc;
    }
    for (i = 0; i < n; i++) {
        uint32_t j;
        if ((uint64_t)spans[i].len > (uint64_t)(cap - pos)) {
            return REF_ERR_CAPACITY;
        }
        for (j = 0; j < spans[i].len; j++) {
            out[pos + j] = data[(size_t)spans[i].off + j];
        }
        pos += spans[i].len;
    }
    *out_len = pos;
    return REF_OK;
}

int ref_delta_length_decode(const uint8_t* in, size_t in_len,
                            int32_t* scratch, size_t scratch_cap,
                            uint8_t* arena, size_t arena_cap,
                            ref_span_t* spans, size_t max_values,
                            size_t* n_values, size_t* arena_used, size_t* consumed)
{
    uint32_t* lens = (uint32_t*)scratch;
    uint32_t dummy = 0;
    size_t limit = (scratch_cap < max_values) ? scratch_cap : max_values;
    size_t n = 0;
    size_t pos = 0;
    size_t used = 0;
    size_t i;
    int rc;
    if (lens == NULL) {
        lens = &dummy;
        limit = 0;
    }
    rc = ref_delta_decode_core(in, in_len, 32, lens, NULL, limit, &n, &pos);
    if (rc != REF_OK) {
        return rc;
    }
    for (i = 0; i < n; i++) {
        uint32_t len = lens[i];
        uint32_t j;
        if (len >= 0x80000000u) {
            return REF_ERR_CORRUPT; /* negative length */
        }
        if ((uint64_t)len > (uint64_t)(in_len - pos)) {
            return REF_ERR_TRUNCATED;
        }
        if ((uint64_t)len > (uint64_t)(arena_cap - used) || (uint64_t)used > 0xFFFFFFFFu) {
            return REF_ERR_CAPACITY;
        }
        for (j = 0; j < len; j++) {
            arena[used + j] = in[pos + j];
        }
        spans[i].off = (uint32_t)used;
        spans[i].len = len;
        used += len;
        pos += len;
    }
    *n_values = n;
    *arena_used = used;
    *consumed = pos;
    return REF_OK;
}

/* ---- DELTA_BYTE_ARRAY ---------------------------------------------------------- */

int ref_delta_byte_array_encode(const uint8_t* data, size_t data_len,
                                const ref_span_t* spans, size_t n,
                                const uint32_t* prefix_len,
                                uint32_t block_size, uint32_t miniblocks,
                                int32_t* scratch, size_t scratch_cap,
                                uint8_t* out, size_t cap, size_t* out_len)
{
    uint32_t* prefix = (uint32_t*)scratch;
    uint32_t* suffix;
    uint32_t dummy[2] = {0, 0};
    size_t pos = 0;
    size_t part = 0;
    size_t i;
    int rc;
    int bad = 0;

    if (n > scratch_cap / 2) {
        return REF_ERR_CAPACITY;
    }
    if (prefix == NULL) {
        prefix = dummy; /* n == 0 */
    }
    suffix = prefix + n;

    for (i = 0; i < n; i++) {
        uint32_t common = 0;
        if (!ref_span_ok(&spans[i], data_len)) {
            return REF_ERR_ARG;
        }
        if (prefix_len != NULL) {
            /* dictated prefix: must not exceed either length (a property of the
             * spans only) and the bytes must agree (sticky flag, so that the
             * control flow does not depend on the byte values) */
            uint32_t j;
            uint32_t limit = 0;
            if (i > 0) {
                limit = (spans[i - 1].len < spans[i].len) ? spans[i - 1].len : spans[i].len;
            }
            if (prefix_len[i] > limit) {
                return REF_ERR_ARG;
            }
            common = prefix_len[i];
            for (j = 0; j < common; j++) {
                bad |= (data[(size_t)spans[i - 1].off + j] != data[(size_t)spans[i].off + j]);
            }
        } else if (i > 0) {
            size_t oa = (size_t)spans[i - 1].off;
            size_t ob = (size_t)spans[i].off;
            uint32_t la = spans[i - 1].len;
            uint32_t lb = spans[i].len;
            while (common < la && common < lb && data[oa + common] == data[ob + common]) {
                common++;
            }
        }
        prefix[i] = common;
        suffix[i] = spans[i].len - common;
    }

    rc = ref_delta_encode_core(prefix, NULL, n, 32, block_size, miniblocks, 0, NULL, 0, 0,
                               out, cap, &part);
    if (rc != REF_OK) {
        return rc;
    }
    pos = part;
    rc = ref_delta_encode_core(suffix, NULL, n, 32, block_size, miniblocks, 0, NULL, 0, 0,
                               out + pos, cap - pos, &part);
    if (rc != REF_OK) {
        return rc;
    }
    pos += part;
    for (i = 0; i < n; i++) {
        uint32_t j;
        if ((uint64_t)suffix[i] > (uint64_t)(cap - pos)) {
            return REF_ERR_CAPACITY;
        }
        for (j = 0; j < suffix[i]; j++) {
            out[pos + j] = data[(size_t)spans[i].off + prefix[i] + j];
        }
        pos += suffix[i];
    }
    *out_len = pos;
    return bad ? REF_ERR_ARG : REF_OK;
}

int ref_delta_byte_array_decode(const uint8_t* in, size_t in_len,
                                int32_t* scratch, size_t scratch_cap,
                                uint8_t* arena, size_t arena_cap,
                                ref_span_t* spans, size_t max_values,
                                size_t* n_values, size_t* arena_used, size_t* consumed)
{
    uint32_t* prefix = (uint32_t*)scratch;
    uint32_t* suffix;
    uint32_t dummy[2] = {0, 0};
    size_t n_prefix = 0;
    size_t n_suffix = 0;
    size_t pos = 0;
    size_t part = 0;
    size_t used = 0;
    size_t prev_off = 0;
    uint32_t prev_len = 0;
    size_t i;
    int rc;

    if (max_values > scratch_cap / 2) {
        return REF_ERR_CAPACITY;
    }
    if (prefix == NULL) {
        prefix = dummy; /* max_values == 0 */
    }
    suffix = prefix + max_values;

    rc = ref_delta_decode_core(in, in_len, 32, prefix, NULL, max_values, &n_prefix, &part);
    if (rc != REF_OK) {
        return rc;
    }
    pos = part;
    rc = ref_delta_decode_core(in + pos, in_len - pos, 32, suffix, NULL, max_values,
                               &n_suffix, &part);
    if (rc != REF_OK) {
        return rc;
    }
    pos += part;
    if (n_prefix != n_suffix) {
        return REF_ERR_CORRUPT;
    }

    for (i = 0; i < n_prefix; i++) {
        uint32_t pl = prefix[i];
        uint32_t sl = suffix[i];
        uint64_t total;
        uint32_t j;
        if (pl >= 0x80000000u || sl >= 0x80000000u) {
            return REF_ERR_CORRUPT; /* negative */
        }
        if (pl > prev_len) {
            return REF_ERR_CORRUPT; /* prefix longer than the previous value */
        }
        if ((uint64_t)sl > (uint64_t)(in_len - pos)) {
            return REF_ERR_TRUNCATED;
        }
        total = (uint64_t)pl + (uint64_t)sl;
        if (total >= 0x80000000u) {
            return REF_ERR_CORRUPT;
        }
        if (total > (uint64_t)(arena_cap - used) || (uint64_t)used > 0xFFFFFFFFu) {
            return REF_ERR_CAPACITY;
        }
        for (j = 0; j < pl; j++) {
            arena[used + j] = arena[prev_off + j];
        }
        for (j = 0; j < sl; j++) {
            arena[used + pl + j] = in[pos + j];
        }
        spans[i].off = (uint32_t)used;
        spans[i].len = (uint32_t)total;
        prev_off = used;
        prev_len = (uint32_t)total;
        used += (size_t)total;
        pos += sl;
    }
    *n_values = n_prefix;
    *arena_used = used;
    *consumed = pos;
    return REF_OK;
}
