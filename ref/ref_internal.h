/*
 * ref_internal.h - helpers shared between the ref_*.c files (not public API).
 */
#ifndef REF_INTERNAL_H
#define REF_INTERNAL_H

#include <stddef.h>
#include <stdint.h>
#include <string.h>

#include "ref_codecs.h"

/* Read bw (0..64) bits starting at absolute bit position bitpos of in, stream
 * bit k being bit (k % 8) of byte k / 8.  NO bounds check: the caller has
 * already checked that the bytes covering [bitpos, bitpos+bw) exist. */
uint64_t ref_get_bits_lsb(const uint8_t* in, uint64_t bitpos, int bw);

/* OR the low bw (0..64) bits of v into out at bit position bitpos.  The target
 * bits must be 0 beforehand and inside the buffer (caller checks). */
void ref_put_bits_lsb(uint8_t* out, uint64_t bitpos, uint64_t v, int bw);

/* p[0..n) = 0, as a plain loop (a memset call makes CBMC treat the whole
 * output array as non-constant, which defeats constant propagation of the
 * header bytes written before it). */
void ref_zero_bytes(uint8_t* p, size_t n);

/* Little-endian loads/stores, byte by byte.  No bounds check. */
uint32_t ref_load_le(const uint8_t* p, int nbytes);      /* nbytes 0..4 */
uint64_t ref_load_le64(const uint8_t* p);
void ref_store_le(uint8_t* p, uint64_t v, int nbytes);   /* nbytes 0..8 */

/* Shared DELTA_BINARY_PACKED core (ref_delta.c).  W is 32 or 64; exactly one
 * of the 32/64 array pointers is used. */
int ref_delta_decode_core(const uint8_t* in, size_t in_len, int W,
                          uint32_t* out32, uint64_t* out64, size_t cap_values,
                          size_t* n_values, size_t* consumed);
int ref_delta_encode_core(const uint32_t* v32, const uint64_t* v64, size_t n, int W,
                          uint32_t block_size, uint32_t miniblocks,
                          uint8_t unused_width_byte,
                          const uint8_t* forced_widths, size_t forced_len,
                          int zz_varint_len,
                          uint8_t* out, size_t cap, size_t* out_len);

#endif /* REF_INTERNAL_H */
