"""C19 — allocation failure gives a clean error or the correct result, nothing else."""
from e2 import E2
FILES = ['src/core/arena.c', 'src/core/buffer.c', 'src/writer/page_writer.c', 'src/writer/column_writer.c', 'src/writer/row_group_writer.c',
         'src/writer/file_writer.c', 'src/reader/file_reader.c', 'src/reader/page_reader.c', 'src/reader/batch_reader.c', 'src/thrift/parquet_types.c', 'src/metadata/schema.c']
BUDGET = {'quick': 840, 'thorough': 3000}
H = 'harness/e2/c19_oom.c'
STUBS = ['malloc/calloc/realloc/strdup: fault fork — every allocation made while faults are enabled also runs on a path where it returns NULL '
         '(symx_fault_alloc(1): exactly one failure per path; symx_fault_alloc(2): up to two failures per path)',
         'stdio / mmap: in-memory model file system', 'cpuid: no SIMD features (scalar dispatch)']
CODECS = {'unc': 'CARQUET_COMPRESSION_UNCOMPRESSED', 'snappy': 'CARQUET_COMPRESSION_SNAPPY', 'lz4': 'CARQUET_COMPRESSION_LZ4'}
OPEN = {0: 'buffer', 1: 'stdio', 2: 'mmap'}
OUTSIDE = ('outside: INT96 (writer: NOT_IMPLEMENTED), GZIP/ZSTD (contract stubs), nested schemas, dictionary pages, allocations made inside libc (fopen), '
           'carquet_get_file_info / carquet_validate_file / carquet_reader_open_file (declared, not defined in the library), custom allocators (carquet_set_allocator)')
ALL1 = 'b,I,l,F,d,s,X'                      # one column per physical type the writer supports, mixed REQUIRED / OPTIONAL
MIX2 = 'is,Sl,bX,dF'
MIX3 = 'isB,Sdx,lIf'


def nm_layout(rows, nrg, batch):
    return 'r%d-g%d-b%d' % (rows, nrg, batch)


def txt_layout(rows, nrg, batch):
    return '%d rows, %d row group(s), %s' % (rows, nrg, ('%d rows per write_batch = per page' % batch) if batch else 'one page per chunk')


def tdefs(specs, rows, nrg, batch, flavour, codec):
    return ['-DVQ_SPECS="%s"' % specs, '-DVQ_ROWS=%d' % rows, '-DVQ_NRG=%d' % nrg, '-DVQ_BATCH=%d' % batch, '-DVQ_FLAVOUR=%d' % flavour, '-DCODEC=' + CODECS[codec]]


def faults_txt(n):
    return 'the k-th allocation fails for every k' if n == 1 else 'EVERY PAIR: the k-th and then the m-th allocation fail (k < m), and every single failure'


def schema(ncols, namelen, groups, faults=1, timeout=900):
    return E2('schema-build/c%d-n%d%s%s' % (ncols, namelen, '-groups' if groups else '', '/2faults' if faults == 2 else ''), H,
              defines=['-DVQ_SCEN=1', '-DVQ_WCOLS=%d' % ncols, '-DVQ_NAMELEN=%d' % namelen, '-DVQ_FAULTS=%d' % faults] + (['-DVQ_GROUPS'] if groups else []),
              all_lib=True, timeout=timeout, stubs=STUBS, stop_distinct=0, leaks=True, expect_paths_min=5,
              bounds='schema_create%s + %d add_column (names of %d characters, INT32/INT64/BYTE_ARRAY+STRING, REQUIRED/OPTIONAL; element arrays grow beyond the initial capacity of 64 when > 63 elements); %s; '
                     'a build that reports success is checked against the intended schema (names, lookup, types, logical types); %s' % (' + 2 add_group' if groups else '', ncols, namelen, faults_txt(faults), OUTSIDE))


def write(specs, rows, nrg, batch, flavour, codec, api=0, policy=0, faults=1, timeout=1200):
    n = specs.count(',') + 1
    return E2('write/%s/%s-f%d/%s/%s%s%s' % (specs.replace(',', '+'), nm_layout(rows, nrg, batch), flavour, codec, 'file' if api else 'path', '/abort-on-error' if policy else '', '/2faults' if faults == 2 else ''), H,
              defines=['-DVQ_SCEN=2', '-DVQ_FILEAPI=%d' % api, '-DVQ_POLICY=%d' % policy, '-DVQ_FAULTS=%d' % faults] + tdefs(specs, rows, nrg, batch, flavour, codec),
              all_lib=True, timeout=timeout, stubs=STUBS, stop_distinct=0, leaks=True, expect_paths_min=20 * n, max_paths=400000,
              bounds='write of concrete tables {%s} (null pattern %d), %s, %s, writer on a %s; caller %s; %s over the whole history (schema build, create, write_batch, new_row_group, close); '
                     'an all-OK result is compared byte-for-byte with the fault-free file; leak check; %s' % (
                         specs, flavour & 7, txt_layout(rows, nrg, batch), codec, 'FILE*' if api else 'path', 'aborts at the first failing call' if policy else 'continues after failures and closes', faults_txt(faults), OUTSIDE))


def read(specs, rows, nrg, batch, flavour, codec, om, chunk=24, skip=0, faults=1, timeout=1200):
    n = specs.count(',') + 1
    return E2('read/%s/%s/%s-f%d/%s/chunk%d-skip%d%s' % (OPEN[om], specs.replace(',', '+'), nm_layout(rows, nrg, batch), flavour, codec, chunk, skip, '/2faults' if faults == 2 else ''), H,
              defines=['-DVQ_SCEN=3', '-DVQ_OPEN=%d' % om, '-DVQ_CHUNK=%d' % chunk, '-DVQ_SKIP=%d' % skip, '-DVQ_FAULTS=%d' % faults] + tdefs(specs, rows, nrg, batch, flavour, codec),
              all_lib=True, timeout=timeout, stubs=STUBS, stop_distinct=0, leaks=True, expect_paths_min=4 * n, max_paths=400000,
              bounds='tables {%s} (null pattern %d), %s, %s, opened via %s: open, schema accessors, row_group_metadata, column_statistics, can_zero_copy, filter_row_groups / row_group_matches, then every column chunk '
                     'through get_column + %sread_batch of %d rows per call; %s; every result delivered by a call that reports success is compared with the fault-free result; leak check; %s' % (
                         specs, flavour & 7, txt_layout(rows, nrg, batch), codec, OPEN[om], ('carquet_column_skip(%d) + ' % skip) if skip else '', chunk, faults_txt(faults), OUTSIDE))


def batch(specs, rows, nrg, batch_, flavour, codec, om, bs=3, proj=0, faults=1, timeout=1200):
    n = specs.count(',') + 1
    return E2('batch/%s/%s/%s-f%d/%s/bs%d-proj%d%s' % (OPEN[om], specs.replace(',', '+'), nm_layout(rows, nrg, batch_), flavour, codec, bs, proj, '/2faults' if faults == 2 else ''), H,
              defines=['-DVQ_SCEN=4', '-DVQ_OPEN=%d' % om, '-DVQ_BS=%d' % bs, '-DVQ_PROJ=%d' % proj, '-DVQ_FAULTS=%d' % faults] + tdefs(specs, rows, nrg, batch_, flavour, codec),
              all_lib=True, timeout=timeout, stubs=STUBS, stop_distinct=0, leaks=True, expect_paths_min=8 * n, max_paths=400000,
              bounds='tables {%s} (null pattern %d), %s, %s, opened via %s: batch reader with batch_size %d, %s, num_threads 1; %s from open to the last batch; the rows delivered by batches with status OK '
                     '(per column: null flags and values, as one stream over all batches; all columns of a batch aligned) are compared with the fault-free rows; leak check; %s' % (
                         specs, flavour & 7, txt_layout(rows, nrg, batch_), codec, OPEN[om], bs, ('all columns', 'projection by index (last column, first column)', 'projection by name (last column, first column)')[proj], faults_txt(faults), OUTSIDE))


def wide_write(ncols, nrgs, window, codec='unc', faults=1, timeout=1800):
    return E2('wide-write/c%d-g%d/window%d/%s%s' % (ncols, nrgs, window, codec, '/2faults' if faults == 2 else ''), H,
              defines=['-DVQ_SCEN=5', '-DVQ_WCOLS=%d' % ncols, '-DVQ_WRGS=%d' % nrgs, '-DVQ_WINDOW=%d' % window, '-DVQ_FAULTS=%d' % faults, '-DCODEC=' + CODECS[codec]],
              all_lib=True, timeout=timeout, stubs=STUBS, stop_distinct=0, leaks=True, expect_paths_min=3, max_steps=30_000_000,
              bounds='%d columns (INT32/INT64, every 4th OPTIONAL) x %d row groups of one row, %s: the writer\'s metadata arena outgrows its first 64 KiB block; %s, but ONLY among the allocations made in %s '
                     '(the rest of the history runs fault-free); all-OK result compared byte-for-byte with the fault-free file; leak check; %s' % (
                         ncols, nrgs, codec, faults_txt(faults), {1: 'carquet_writer_close', 2: 'the last carquet_writer_new_row_group and carquet_writer_close'}[window], OUTSIDE))


def wide_read(ncols, nrgs, om, faults=1, timeout=1800):
    return E2('wide-read/%s/c%d-g%d%s' % (OPEN[om], ncols, nrgs, '/2faults' if faults == 2 else ''), H,
              defines=['-DVQ_SCEN=6', '-DVQ_WCOLS=%d' % ncols, '-DVQ_WRGS=%d' % nrgs, '-DVQ_OPEN=%d' % om, '-DVQ_FAULTS=%d' % faults],
              all_lib=True, timeout=timeout, stubs=STUBS, stop_distinct=0, leaks=True, expect_paths_min=3, max_steps=30_000_000,
              bounds='file of %d columns x %d row groups of one row (footer metadata outgrows the reader\'s first 64 KiB arena block), opened via %s; %s among open, counts, lookup by name, column_statistics and '
                     'get_column + read_batch on 6 columns of the first and last row group; results compared with the written table; leak check; %s' % (ncols, nrgs, OPEN[om], faults_txt(faults), OUTSIDE))


def legacy(codecs_w, codecs_r):
    """the scenarios of the first version of this check (2-column 4-row table, one row group, one page per chunk)"""
    o = [schema(3, 3, False)]
    for cn in codecs_w:
        o.append(write('is', 4, 1, 0, 0, cn))
    for om in (0, 1, 2):
        for cn in codecs_r:
            o.append(read('is', 4, 1, 0, 0, cn, om))
            o.append(batch('is', 4, 1, 0, 0, cn, om, bs=3))
    return o


def obligations(tier):
    q = tier == 'quick'
    CN = ('unc', 'snappy', 'lz4')
    o = legacy(CN, CN)
    o += [schema(70, 6, True), schema(130, 6, False), schema(70, 1000, False, timeout=1500)]
    LAY = [(6, 2, 2)] if q else [(6, 2, 2), (9, 3, 2), (8, 1, 3), (12, 3, 1)]
    for li, (rows, nrg, b) in enumerate(LAY):
        for cn in CN:
            for api in (0, 1):
                if q and api != (CN.index(cn) % 2): continue
                o.append(write(ALL1, rows, nrg, b, 0, cn, api=api))
                o.append(write(MIX2, rows, nrg, b, 1, cn, api=1 - api, policy=1))
                if q: continue
                o.append(write(ALL1, rows, nrg, b, 1, cn, api=api, policy=1))
                o.append(write(MIX3, rows, nrg, b, 0, cn, api=api))
            for om in (0, 1, 2):
                if q and om != (CN.index(cn) + 1) % 3: continue
                chunk, skip = [(24, 0), (2, 0), (4, 3), (5, 1)][li % 4] if not q else (4, 3)
                o.append(read(ALL1, rows, nrg, b, 0, cn, om, chunk=chunk, skip=skip))
                o.append(batch(ALL1, rows, nrg, b, 0, cn, om, bs=(4, 5, 3, 7)[li % 4]))
                o.append(batch(MIX2, rows, nrg, b, 1, cn, om, bs=(5, 2, 24, 4)[li % 4], proj=1 + (li + om) % 2))
                if q: continue
                o.append(read(MIX2, rows, nrg, b, 1, cn, om, chunk=(3, 24, 5, 2)[li % 4], skip=(2, 0, 0, 7)[li % 4]))
                o.append(read(MIX3, rows, nrg, b, 0, cn, om, chunk=(24, 4, 2, 3)[li % 4], skip=(0, 1, 5, 0)[li % 4]))
                o.append(batch(MIX3, rows, nrg, b, 0, cn, om, bs=(2, 4, 5, 24)[li % 4], proj=(li + om) % 3))
    # all-NULL / no-NULL columns, zero rows
    for cn in (CN[:1] if q else CN):
        o.append(write('b,i,s,x', 6, 2, 2, 3, cn))
        o.append(read('b,i,s,x', 6, 2, 2, 3, cn, 1, chunk=4))
        o.append(batch('is,bx', 6, 2, 2, 3, cn, 2, bs=4))
        o.append(write('I,s,Il', 0, 1, 0, 0, cn))
        o.append(read('I,s,Il', 0, 1, 0, 0, cn, 0))
        o.append(batch('I,s,Il', 0, 1, 0, 0, cn, 1))
    # wide tables: metadata larger than the first arena block
    o.append(wide_read(70, 3, 0)); o.append(wide_write(70, 3, 1))
    if not q:
        o += [wide_read(70, 3, 1), wide_read(70, 3, 2), wide_read(24, 9, 0), wide_write(70, 3, 2), wide_write(24, 9, 1), wide_write(70, 3, 1, 'snappy')]
    # two failing allocations per path (error paths of error paths)
    o.append(schema(3, 3, False, faults=2))
    o.append(write('is', 4, 1, 0, 0, 'unc', faults=2, timeout=1800))
    o.append(read('is', 4, 1, 0, 0, 'unc', 1, faults=2))
    o.append(batch('is', 4, 1, 0, 0, 'snappy', 0, bs=3, faults=2))
    if not q:
        o.append(schema(70, 6, True, faults=2))
        for cn in CN:
            o.append(write('is', 4, 1, 0, 0, cn, api=1, policy=1, faults=2, timeout=1800))
            o.append(write('Sl,bX', 6, 2, 2, 1, cn, faults=2, timeout=2400))
            for om in (0, 1, 2):
                o.append(read(MIX2, 6, 2, 2, 0, cn, om, chunk=4, skip=1, faults=2, timeout=1800))
                o.append(batch(MIX2, 6, 2, 2, 0, cn, om, bs=4, proj=om, faults=2, timeout=1800))
            # every physical type once under two failures
            o.append(write('b,F,x', 6, 2, 2, 0, cn, api=1, faults=2, timeout=2400))
            o.append(write('I,d,s', 6, 2, 2, 1, cn, policy=1, faults=2, timeout=2400))
            o.append(read(ALL1, 6, 2, 2, 0, cn, (CN.index(cn) + 1) % 3, chunk=3, skip=2, faults=2, timeout=2400))
            o.append(batch(MIX3, 6, 2, 2, 0, cn, (CN.index(cn) + 2) % 3, bs=4, proj=1, faults=2, timeout=2400))
        o.append(wide_read(70, 3, 0, faults=2)); o.append(wide_read(70, 3, 1, faults=2)); o.append(wide_write(70, 3, 1, faults=2))
        o += [wide_read(40, 6, 2), wide_write(40, 6, 2), wide_write(24, 9, 2, 'lz4')]
    return o
