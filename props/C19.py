"""C19 — allocation failure gives a clean error or the correct result, nothing else."""
from e2 import E2
FILES = ['src/core/arena.c', 'src/core/buffer.c', 'src/writer/page_writer.c', 'src/writer/column_writer.c', 'src/writer/row_group_writer.c',
         'src/writer/file_writer.c', 'src/reader/file_reader.c', 'src/reader/page_reader.c', 'src/reader/batch_reader.c', 'src/thrift/parquet_types.c', 'src/metadata/schema.c']
BUDGET = {'quick': 840, 'thorough': 3000}
H = 'harness/e2/c19_oom.c'
STUBS = ['malloc/calloc/realloc/strdup: fault fork — every allocation made while faults are enabled also runs on a path where it returns NULL (exactly one failure per path)',
         'stdio / mmap: in-memory model file system', 'cpuid: no SIMD features (scalar dispatch)']
CODECS = [('unc', 'CARQUET_COMPRESSION_UNCOMPRESSED'), ('snappy', 'CARQUET_COMPRESSION_SNAPPY'), ('lz4', 'CARQUET_COMPRESSION_LZ4')]


def obligations(tier):
    q = tier == 'quick'
    o = [E2('schema-build', H, defines=['-DSCEN=1'], all_lib=True, timeout=600, stubs=STUBS, bounds='schema_create + 3 add_column; the k-th allocation fails for every k')]
    for cn, cd in (CODECS[:2] if q else CODECS):
        o.append(E2('write/%s' % cn, H, defines=['-DSCEN=2', '-DCODEC=' + cd], all_lib=True, timeout=900, stubs=STUBS,
                    bounds='write of a 2-column (INT32 OPTIONAL, BYTE_ARRAY REQUIRED) 4-row table, %s; the k-th allocation of the write history fails for every k; OK result compared byte-for-byte with the fault-free file' % cn))
    for om, on in ((0, 'buffer'), (1, 'stdio'), (2, 'mmap')):
        for cn, cd in (CODECS[:1] if q else CODECS):
            o.append(E2('read/%s/%s' % (on, cn), H, defines=['-DSCEN=3', '-DCODEC=' + cd, '-DOPENMODE=%d' % om], all_lib=True, timeout=900, stubs=STUBS,
                        bounds='open + get_column + read_batch on both columns via %s; the k-th allocation fails for every k; successful reads compared with the fault-free values' % on))
            o.append(E2('batch/%s/%s' % (on, cn), H, defines=['-DSCEN=4', '-DCODEC=' + cd, '-DOPENMODE=%d' % om], all_lib=True, timeout=900, stubs=STUBS,
                        bounds='open + batch reader (batch_size 3) via %s; the k-th allocation fails for every k' % on))
    return o
