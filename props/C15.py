"""C15 — every SIMD kernel equals its scalar definition at every ISA level (SSE4.2, AVX2, AVX-512, dispatcher).

One CBMC query per (kernel, ISA variant, concrete element count): the real kernel from src/simd/x86/*_ops.c
(compiled with the build's -m flags against the plain-C intrinsic models) and the library's scalar definition
(`scalar_*` of src/simd/dispatch.c, included verbatim into the harness) run on two copies of the same fully
symbolic input; outputs must be equal and every caller array is an exact-size heap object."""
from e1 import E1

FILES = ['src/simd/dispatch.c', 'src/simd/detect.c', 'src/simd/x86/sse_ops.c', 'src/simd/x86/avx2_ops.c',
         'src/simd/x86/avx512_ops.c', 'src/core/bitpack.c', 'src/encoding/byte_stream_split.c', 'src/reader/page_reader.c']
BUDGET = {'quick': 840, 'thorough': 3500}
H = 'harness/e1/c15_simd.c'
SRC = {'sse': 'src/simd/x86/sse_ops.c', 'avx2': 'src/simd/x86/avx2_ops.c', 'avx512': 'src/simd/x86/avx512_ops.c'}
ALLSRC = [SRC['sse'], SRC['avx2'], SRC['avx512']]
SWEEP = ('kissat', 'cvc5')
# gathers of float/double create float objects (scalar_gather_float, _mm_set_ps): CBMC's SMT encoding uses the FloatingPoint theory, which has
# ONE NaN, and reports spurious NaN-payload differences (seen on cvc5, does not replay); the SAT back ends keep floats bit-precise.
SAT_ONLY = ('kissat', 'minisat')
# pure byte movement (no arithmetic, decided by propagation in < 1 s): a single back end doubles the throughput; a missing verdict would
# show up as INCONCLUSIVE
MOVE = {'memset', 'memcpy', 'fill_def_levels', 'match_copy', 'bitunpack', 'bss_encode_double', 'bss_decode_double'}
F_CRC = 'F-SIMD-CRC32C-INV'
F_BW = 'F-DISPATCH-AVX512BW'

# kernel -> (bytes of the largest caller array as a function of n, {isa: W = elements per vector iteration},
#            function-name pattern in the ISA files, scalar definition, domain text)
K = {
    'prefix_sum_i32': (lambda n: 4 * n, {'sse': 4, 'avx2': 8, 'avx512': 16}, 'prefix_sum_i32', 'scalar_prefix_sum_i32',
                       'every int32 value and initial sum (signed overflow of the scalar definition taken as wrap-around)'),
    'prefix_sum_i64': (lambda n: 8 * n, {'sse': 2, 'avx2': 4, 'avx512': 8}, 'prefix_sum_i64', 'scalar_prefix_sum_i64',
                       'every int64 value and initial sum (signed overflow of the scalar definition taken as wrap-around)'),
    'gather_i32': (lambda n: 4 * n, {'sse': 8, 'avx2': 8, 'avx512': 16}, 'gather_i32', 'scalar_gather_i32', 'every dictionary content, every index < dict_len'),
    'gather_i64': (lambda n: 8 * n, {'sse': 4, 'avx2': 4, 'avx512': 8}, 'gather_i64', 'scalar_gather_i64', 'every dictionary content, every index < dict_len'),
    'gather_float': (lambda n: 4 * n, {'sse': 8, 'avx2': 8, 'avx512': 16}, 'gather_float', 'scalar_gather_float', 'every dictionary bit pattern (NaNs included), every index < dict_len'),
    'gather_double': (lambda n: 8 * n, {'sse': 4, 'avx2': 4, 'avx512': 8}, 'gather_double', 'scalar_gather_double', 'every dictionary bit pattern (NaNs included), every index < dict_len'),
    'bss_encode_float': (lambda n: 4 * n, {'sse': 4, 'avx2': 8, 'avx512': 16}, 'byte_stream_split_encode_float', 'scalar_byte_split_encode_float', 'every byte value'),
    'bss_decode_float': (lambda n: 4 * n, {'sse': 4, 'avx2': 8, 'avx512': 16}, 'byte_stream_split_decode_float', 'scalar_byte_split_decode_float', 'every byte value'),
    'bss_encode_double': (lambda n: 8 * n, {'sse': 2, 'avx2': 4}, 'byte_stream_split_encode_double', 'scalar_byte_split_encode_double', 'every byte value'),
    'bss_decode_double': (lambda n: 8 * n, {'sse': 1, 'avx2': 1}, 'byte_stream_split_decode_double', 'scalar_byte_split_decode_double', 'every byte value'),
    'unpack_bools': (lambda n: n, {'sse': 16, 'avx2': 32, 'avx512': 64}, 'unpack_bools', 'scalar_unpack_bools', 'every packed byte value'),
    'pack_bools': (lambda n: n, {'sse': 8, 'avx2': 8, 'avx512': 64}, 'pack_bools', 'scalar_pack_bools', 'every input byte in {0,1}, every output pre-state'),
    'find_run_length_i32': (lambda n: 4 * n, {'sse': 4, 'avx2': 8, 'avx512': 16}, 'find_run_length_i32', 'scalar_find_run_length_i32', 'every int32 value'),
    'count_non_nulls': (lambda n: 2 * n, {'sse': 8}, 'count_non_nulls', 'scalar_count_non_nulls', 'every int16 level and max_def_level'),
    'build_null_bitmap': (lambda n: 2 * n, {'sse': 8}, 'build_null_bitmap', 'scalar_build_null_bitmap', 'every int16 level and max_def_level; bitmap of (count+7)/8 bytes zero-initialised by the caller'),
    'fill_def_levels': (lambda n: 2 * n, {'sse': 8}, 'fill_def_levels', 'scalar_fill_def_levels', 'every int16 value, every output pre-state'),
    'match_length': (lambda n: n, {'sse': 16}, 'match_length', 'scalar_match_length', 'two arbitrary n-byte arrays, limit = p + n'),
}
# fixed-width unpackers: (function, values produced, bit width)
BITUNPACK = [('sse', 'carquet_sse_bitunpack32_1bit', 32, 1), ('sse', 'carquet_sse_bitunpack8_4bit', 8, 4), ('sse', 'carquet_sse_bitunpack8_8bit', 8, 8),
             ('avx2', 'carquet_avx2_bitunpack64_1bit', 64, 1), ('avx2', 'carquet_avx2_bitunpack16_4bit', 16, 4), ('avx2', 'carquet_avx2_bitunpack16_8bit', 16, 8),
             ('avx2', 'carquet_avx2_bitunpack8_16bit', 8, 16), ('avx512', 'carquet_avx512_bitunpack32_8bit', 32, 8),
             ('avx512', 'carquet_avx512_bitunpack16_16bit', 16, 16), ('avx512', 'carquet_avx512_bitunpack32_4bit', 32, 4)]
DISPATCH_NS = {'prefix_sum_i32': ([5], [0, 1, 5, 9]), 'prefix_sum_i64': ([3], [0, 1, 3, 5]), 'pack_bools': ([9], [0, 1, 9, 65])}
MEMFN = {'sse': ('carquet_sse_memset_small', 'carquet_sse_memcpy_small'), 'avx2': ('carquet_avx2_memset', 'carquet_avx2_memcpy'),
         'avx512': ('carquet_avx512_memset', 'carquet_avx512_memcpy')}


def rng(a, b):
    return list(range(a, b + 1))


def counts(W, quick):
    if quick:
        c = {0, 1, W - 1, W, W + 1, 2 * W + 1}
    else:
        c = set(range(0, 2 * W + 2))
    return sorted(x for x in c if x >= 0)


def mem_counts(isa, quick):
    """boundaries of every loop of the memset/memcpy helpers (unrolled 4x vector loop, vector loops, byte tail)"""
    if isa == 'sse':      # 64-byte unrolled, 16, 1
        return [0, 1, 15, 16, 17, 64, 81] if quick else rng(0, 33) + rng(47, 49) + rng(63, 65) + rng(79, 81) + rng(127, 130)
    if isa == 'avx2':     # 128-byte unrolled, 32, 16, 1
        return [0, 1, 16, 17, 31, 33, 49, 128, 177] if quick else rng(0, 33) + rng(47, 49) + rng(63, 65) + rng(95, 97) + rng(127, 130) + rng(159, 161) + rng(176, 178) + rng(255, 258)
    # avx512: 256-byte unrolled, 64, 32, 16, 1
    return [0, 1, 17, 33, 63, 64, 65, 113, 256, 369] if quick else rng(0, 65) + rng(95, 97) + rng(127, 130) + rng(191, 193) + rng(255, 258) + rng(319, 321) + rng(368, 370) + rng(511, 514)


def unwind_for(nbytes, off=0):
    # model intrinsics loop over <= 64 lanes, the harness over every byte of the largest array (+ guards)
    return max(66, nbytes + 8 * off + 16)


DSTUBS = ['carquet_gzip_init_tables, carquet_zstd_init_tables: empty (called by carquet_init, unrelated to CPU detection)']


QUICK = [False]
ASSUME = {
    'prefix_sum': "signed overflow in scalar_prefix_sum_* (`sum += values[i]`) is two's-complement wrap-around",
    'gather': 'gather indices < dictionary length (page_reader.c validates every index against dictionary_count before the call)',
    'pack_bools': 'pack_bools input bytes are 0 or 1 ("Input bytes should be 0 or 1", sse_ops.c)',
    'build_null_bitmap': 'null bitmap zero-initialised by the caller (calloc in batch_reader.c): scalar_build_null_bitmap ORs into the last partial byte, the SSE kernel overwrites it',
    'match_copy': 'match_copy: distance >= 1, src == dst - distance inside the same buffer, which ends exactly at dst + len',
    'match_length': 'match_length: limit == p + n and `match` readable for n bytes',
    'memcpy': 'memcpy helper: source and destination do not overlap',
}


def kern(name, isa, n, nbytes, fn, scalar, dom, extra_defs=(), off=0, sources=None, tag='', exclude=None, timeout=150, backends=None, incl=('src/simd/dispatch.c',)):
    if backends is None:
        backends = SAT_ONLY if name in ('gather_float', 'gather_double') else ('kissat',) if (name in MOVE and isa != 'dispatch') else SWEEP
        if name in ('gather_float', 'gather_double'):
            dom += '; SAT back ends only (bit-precise floats)'
    defs = ['-DKERNEL=%s' % name, '-DISA=%s' % isa, '-DN=%d' % n] + list(extra_defs)
    if off:
        defs.append('-DOFF=%d' % off)
    where = ('arrays placed %d element(s) into a larger object (not vector-aligned), surrounding bytes asserted unchanged' % off) if off else \
        'exact-size heap arrays (any access outside [0,count) is a bounds violation)'
    return E1('%s/%s/n%d%s%s' % (name, isa, n, tag, ('+off%d' % off) if off else ''), H,
              sources if sources is not None else [SRC[isa]], defs, unwind=unwind_for(nbytes, off), backends=backends, timeout=timeout,
              includes_source=list(incl), models=True, stub_realloc=False, exclude=exclude, stubs=DSTUBS if isa == 'dispatch' else [],
              assumptions=[v for k, v in ASSUME.items() if name.startswith(k)],
              bounds='count %d (concrete), %s; %s; %s == %s' % (n, dom, where, fn, scalar),
              functions=[fn, scalar])


def obligations(tier):
    quick = tier == 'quick'
    QUICK[0] = quick
    o = []
    offs_counts = (lambda W: [W + 1]) if quick else (lambda W: [W + 1, 2 * W + 1])
    offs = [1] if quick else [1, 2, 3]
    # ---- every dispatched kernel that exists in an ISA file, every ISA, against scalar_*
    for name, (nb, Ws, pat, scalar, dom) in K.items():
        for isa, W in Ws.items():
            fn = 'carquet_%s_%s' % (isa, pat)
            xd = ['-DDL=8'] if name.startswith('gather') else []
            heavy = name.startswith('prefix_sum') and isa == 'avx512'
            cs = counts(W, quick)
            if quick and name in ('gather_float', 'gather_double') and isa != 'sse':
                cs = [0, W + 1, 2 * W + 1]   # these two are one-line casts onto gather_i32/gather_i64 of the same file
            for n in cs:
                o.append(kern(name, isa, n, nb(n), fn, scalar, dom, xd, timeout=400 if heavy and n >= W else 150))
            for n in offs_counts(W):
                for off in offs:
                    o.append(kern(name, isa, n, nb(n), fn, scalar, dom, xd, off=off, timeout=300 if heavy else 150))
            if name.startswith('gather') and not (quick and name in ('gather_float', 'gather_double')):
                for dl in ([1] if quick else [1, 3]):
                    o.append(kern(name, isa, W + 1, nb(W + 1), fn, scalar, dom, ['-DDL=%d' % dl], tag='/dl%d' % dl))
    # ---- scale regime of the reduction kernel (symx): long, almost concrete arrays (added after seeded C15-sse-count-nonnull-lane-wrap,
    #      whose per-lane 16-bit counters only go wrong beyond 8 * 32768 levels - far outside the unrolled counts above)
    from e2 import E2
    for pat, pn in ((0, 'all-non-null'), (1, 'one-lane')) if quick else ((0, 'all-non-null'), (1, 'one-lane'), (2, 'alternating')):
        for nn, nt in ((8 * 32769 + 3, '262155'), (8 * 65537 + 5, '524301')):      # beyond 32768 and beyond 65536 matches per 16-bit lane
            if (pat == 2 or (quick and pat == 1)) and nt != '262155': continue
            o.append(E2('count_non_nulls/sse/scale/n%s/%s' % (nt, pn), 'harness/e2/c15_scale.c', ['src/simd/x86/sse_ops.c'], ['-DN=%d' % nn, '-DPATTERN=%d' % pat],
                        timeout=800, max_steps=400_000_000, max_paths=100, validate=2,
                        bounds='%s int16 levels, concrete pattern "%s" except 4 symbolic levels (first, around the 8*32768-th, last); max_def_level 3; result == scalar definition' % (nt, pn),
                        functions=['carquet_sse_count_non_nulls'], stubs=['x86 intrinsics: plain-C models (models/immintrin), validated against the host CPU by setup.sh']))
    # ---- CRC32C (SSE4.2 only).  The direct miter (byte-table code vs bit-serial model of the crc32 instructions) gets a verdict only
    # for very short inputs (n=2: 30 s, n=4: 130 s, n>=9: none in 300 s on any back end), so beyond that the obligation is split into
    # two lemmas against the bit-serial definition of CRC-32C (see KERNEL=crc32c_ref in the harness): sse-raw/n (kernel == raw CRC of n
    # bytes) and scalar-step/n for every 1..n (induction step of the scalar definition, arbitrary prefix).
    crc_dom = 'every byte value, every 32-bit start value'
    for n in ([0, 1] if quick else [0, 1, 2, 3, 4]):
        o.append(kern('crc32c', 'sse', n, n, 'carquet_sse_crc32c', 'scalar_crc32c', crc_dom, exclude=F_CRC, timeout=400, backends=('kissat', 'cvc5', 'z3')))
    o.append(kern('crc32c', 'sse', 1, 1, 'carquet_sse_crc32c', 'scalar_crc32c', crc_dom, off=1, exclude=F_CRC, timeout=300))
    nmax = 17 if quick else 25
    for n in ([0, 1, 2, 3, 4, 7, 8, 9, 15, 17] if quick else rng(0, 25)):
        o.append(kern('crc32c_ref', 'sse', n, n, 'carquet_sse_crc32c', 'bit-serial CRC-32C with the pre/post inversion', crc_dom, ['-DSIDE=1'], tag='/sse-raw', backends=('kissat', 'z3')))
    o.append(kern('crc32c_ref', 'sse', 9, 9, 'carquet_sse_crc32c', 'bit-serial CRC-32C with the pre/post inversion', crc_dom, ['-DSIDE=1'], tag='/sse-raw', off=1, backends=('kissat', 'z3')))
    for n in rng(1, nmax):
        o.append(kern('crc32c_ref', 'sse', n, n, 'scalar_crc32c', 'one bit-serial CRC-32C byte step applied to the unconditioned result for n-1 bytes',
                      crc_dom + '; induction step n-1 -> n, with the steps 1..n-1 and sse-raw/n: scalar_crc32c(crc,d,n) == carquet_sse_crc32c(crc,d,n)',
                      ['-DSIDE=0'], tag='/scalar-step', backends=('z3', 'minisat')))
    # ---- LZ match copy (SSE4.2 only): concrete distance x concrete length
    # branches of carquet_sse_match_copy: distance >= 16 (16-byte copies, one 8-byte copy, byte tail), 1 (byte splat), 2, 4 (pattern
    # splat + 4-byte + byte tail), every other distance (byte loop)
    mc = {1: [0, 1, 16, 17, 33], 2: [0, 1, 2, 33], 3: [0, 17], 4: [0, 3, 4, 16, 19, 33], 8: [17], 15: [33],
          16: [0, 1, 7, 8, 15, 16, 17, 25, 33], 17: [33], 40: [41]}
    if not quick:
        other = [0, 1, 2, 7, 8, 9, 17, 33]
        mc = {1: rng(0, 33), 2: rng(0, 9) + [33], 3: other, 4: rng(0, 33), 5: other, 7: other, 8: other, 9: other, 15: other,
              16: rng(0, 33), 17: [0, 1, 15, 16, 17, 33], 31: [33], 32: [33], 40: [0, 16, 33, 41]}
    for m, lens in mc.items():
        for n in lens:
            o.append(kern('match_copy', 'sse', n, m + n, 'carquet_sse_match_copy', 'scalar_match_copy',
                          'distance %d (concrete), src = dst - %d inside one object of exactly %d bytes, every byte value' % (m, m, m + n), ['-DMOFF=%d' % m], tag='/dist%d' % m))
    for m in ((16,) if quick else (1, 2, 4, 5, 16)):
        o.append(kern('match_copy', 'sse', 17, m + 17, 'carquet_sse_match_copy', 'scalar_match_copy', 'distance %d, every byte value' % m, ['-DMOFF=%d' % m], tag='/dist%d' % m, off=1))
    # ---- memset / memcpy helpers (no scalar twin in carquet: oracle = byte semantics of memset/memcpy)
    for isa in SRC:
        for n in mem_counts(isa, quick):
            o.append(kern('memset', isa, n, n, MEMFN[isa][0], 'memset semantics', 'every fill value, every destination pre-state'))
            o.append(kern('memcpy', isa, n, n, MEMFN[isa][1], 'memcpy semantics', 'every source byte, every destination pre-state, disjoint arrays'))
        for off in offs:
            o.append(kern('memset', isa, 81, 81, MEMFN[isa][0], 'memset semantics', 'every fill value', off=off))
            o.append(kern('memcpy', isa, 81, 81, MEMFN[isa][1], 'memcpy semantics', 'every source byte', off=off))
    # ---- fixed-width bit unpackers against carquet_bitunpack_32 (src/core/bitpack.c)
    for isa, fn, nv, bw in BITUNPACK:
        for off in [0] + ([1] if quick else offs):
            o.append(kern('bitunpack', isa, nv, nv * 4, fn, 'carquet_bitunpack_32', '%d values of %d bits, every input byte' % (nv, bw),
                          ['-DBUFN=%s' % fn, '-DNV=%d' % nv, '-DBW=%d' % bw], off=off, sources=[SRC[isa], 'src/core/bitpack.c'], tag='/' + fn.split('_', 2)[2]))
    # ---- dispatcher: CPUID symbolic (every feature combination), detect.c + dispatch.c + all three ISA files
    dinc = ('src/simd/dispatch.c', 'src/simd/detect.c')
    o.append(E1('dispatch/detect', H, [], ['-DKERNEL=detect', '-DISA=dispatch'], unwind=66, backends=SWEEP, timeout=120, includes_source=list(dinc), models=True, stub_realloc=False, stubs=DSTUBS,
                bounds='every value of CPUID leaves 0, 1, 7.0 (all four registers) and of any other leaf; carquet_cpu_info_t fields == the SDM feature bits, honouring the maximum leaf',
                functions=['carquet_get_cpu_info', 'carquet_init', 'detect_x86_features']))
    o.append(E1('dispatch/select', H, ALLSRC, ['-DKERNEL=select', '-DISA=dispatch'], unwind=66, backends=SWEEP, timeout=120, includes_source=list(dinc), models=True, stub_realloc=False, exclude=F_BW, stubs=DSTUBS,
                bounds='every value of CPUID leaves 0, 1, 7.0: each of the 19 dispatch-table entries is the scalar definition or an ISA variant whose instruction-set bits were reported',
                functions=['carquet_simd_dispatch_init', 'carquet_get_cpu_info', 'detect_x86_features']))
    for name, (nb, Ws, pat, scalar, dom) in K.items():
        ws = sorted(set(Ws.values()))
        ns = [ws[-1] + 1] if quick else sorted({0, 1, 2 * ws[-1] + 1} | {w + 1 for w in ws})
        # the 4-way function-pointer mux defeats the word-level normalisation that decides the re-associated adder chains
        # (prefix_sum_i32 n=9: 40 s, n=17: none in 400 s): small counts here; larger counts follow from dispatch/select
        # (the entry IS one of the variants) + the per-variant obligations above
        if name in DISPATCH_NS:
            ns = DISPATCH_NS[name][0 if quick else 1]
        for n in ns:
            xd = ['-DDL=8'] if name.startswith('gather') else []
            o.append(kern(name, 'dispatch', n, nb(n), 'carquet_dispatch_' + pat.replace('byte_stream_split', 'byte_split'), scalar,
                          dom + '; every CPUID value (all feature combinations)', xd, sources=ALLSRC, incl=dinc, timeout=400 if name.startswith('prefix_sum') else 200))
    for n in ([1] if quick else [0, 1, 2]):
        o.append(kern('crc32c', 'dispatch', n, n, 'carquet_dispatch_crc32c', 'scalar_crc32c', 'every byte value, every start value, every CPUID value', sources=ALLSRC, incl=dinc, exclude=F_CRC, timeout=300))
    for m, n in ([(4, 21), (16, 25)] if quick else [(1, 17), (2, 5), (4, 21), (5, 17), (16, 25), (16, 33)]):
        o.append(kern('match_copy', 'dispatch', n, m + n, 'carquet_dispatch_match_copy', 'scalar_match_copy', 'distance %d, every byte value, every CPUID value' % m,
                      ['-DMOFF=%d' % m], tag='/dist%d' % m, sources=ALLSRC, incl=dinc))
    return o
