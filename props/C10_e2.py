"""C10 (E2 half): every stream produced by carquet's Snappy / LZ4 compressors is decoded back to the input by an independent
decoder written from the format documents (LZ4: with the end-of-block rules enforced)."""
from props.C09 import ob
FILES = ['src/compression/snappy.c', 'src/compression/lz4.c']


def obligations(tier):
    q = tier == 'quick'
    o = []
    for n in ([0, 1, 8, 14, 16, 17] if q else [0, 1, 2, 4, 8, 13, 14, 15, 16, 17, 18, 20]):
        o.append(ob(0, n, mode=2))
    for n in ([20] if q else [16, 20, 22, 24]):
        o.append(ob(0, n, mode=2, alpha=2, timeout=900 if q else 2400))
    for n in ([0, 1, 5, 12] if q else [0, 1, 2, 4, 5, 8, 11, 12]):
        o.append(ob(1, n, mode=2))
    for n in ([13] if q else [13, 14, 16]):
        o.append(ob(1, n, mode=2, alpha=2, timeout=900 if q else 3000))
    return o
