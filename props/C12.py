"""C12 — encoded bytes follow the Parquet encoding specifications.
E1 half (props/C12_e1.py, CBMC): carquet encoders -> independent specification decoders (obligations shared with C11_e1, tagged C12) and
the RLE decoder on specification streams under concrete call scripts.  E2 half (props/C12_e2.py, symx): carquet decoders on streams built by the
independent specification encoders (run layouts carquet never emits, padded headers, zero-length runs, every mini-block width, other block shapes)."""
from props import C12_e1 as _e1, C12_e2 as _e2
FILES = sorted(set(_e1.FILES) | set(_e2.FILES))
BUDGET = {'quick': 840, 'thorough': 3600}


def obligations(tier):
    return _e1.obligations(tier) + _e2.obligations(tier)


def evidence_extra(tier):
    out = {}
    for m in (_e1, _e2):
        for k, v in (getattr(m, 'evidence_extra', lambda t: {})(tier) or {}).items():
            if isinstance(v, list) and isinstance(out.get(k), list):
                out[k] = out[k] + v
            elif isinstance(v, dict) and isinstance(out.get(k), dict):
                out[k].update(v)
            else:
                out.setdefault(k, v)
    return out
