"""C12 — encoded bytes follow the Parquet encoding specifications.  E1 (CBMC) obligations: props/C12_e1.py; the E2
obligations (carquet decoders on reference streams with symbolic layout choices) are appended here."""
from props import C12_e1
FILES = C12_e1.FILES
BUDGET = C12_e1.BUDGET


def obligations(tier):
    return C12_e1.obligations(tier)
