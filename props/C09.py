"""C09 — codecs round-trip every input and honour their size bounds."""
from e2 import E2
from e1 import E1
FILES = ['src/compression/snappy.c', 'src/compression/lz4.c', 'src/compression/gzip.c', 'src/compression/zstd.c', 'src/writer/page_writer.c']
BUDGET = {'quick': 840, 'thorough': 3600}
H = 'harness/e2/c09_codec.c'
CN = {0: 'snappy', 1: 'lz4'}
REF = ['ref_snappy.c', 'ref_lz4.c', 'ref_rle.c']


def ob(codec, n, mode=1, alpha=256, timeout=600, concx=False):
    nm = '%s/%s/n%d%s%s' % ({1: 'roundtrip', 2: 'ref-decodes', 3: 'small-dst'}[mode], CN[codec], n, '' if alpha == 256 else '/alpha%d' % alpha, '/concrete-incompressible' if concx else '')
    return E2(nm, H, ['src/compression/%s.c' % CN[codec]], ['-DCODEC=%d' % codec, '-DN=%d' % n, '-DMODE=%d' % mode, '-DALPHA=%d' % alpha] + (['-DCONCX'] if concx else []), ref=REF, leaks=True, timeout=timeout,
              max_paths=200000, fork_max=64,
              bounds='%s: every input of %d byte(s)%s; destination of exactly compress_bound(n) bytes%s; hash table in a z3 array (symbolic index)' % (
                  CN[codec], n, '' if alpha == 256 else ' over an alphabet of %d byte values' % alpha, ' (MODE 3: every smaller capacity)' if mode == 3 else ''))


def obligations(tier):
    q = tier == 'quick'
    o = []
    # Snappy: n < 15 is the literal-only branch, n >= 15 enters the main loop (hash table, match test, copy emission)
    for n in ([0, 1, 4, 8, 13, 16, 17] if q else [0, 1, 2, 3, 4, 5, 8, 12, 13, 14, 15, 16, 17, 18, 20]):
        o.append(ob(0, n))
    for n in ([16, 20] if q else [16, 18, 20, 22, 24]):
        o.append(ob(0, n, alpha=2, timeout=900 if q else 2400))
    for n in ([4, 16] if q else [0, 1, 4, 8, 16, 17]):
        o.append(ob(0, n, mode=3))
    # LZ4: n < 13 literal-only; the main loop hashes with a 32-bit multiply, which z3 bit-blasts slowly: only small alphabets finish
    for n in ([0, 1, 4, 8, 12] if q else [0, 1, 2, 4, 8, 11, 12]):
        o.append(ob(1, n))
    for n in ([13] if q else [13, 14, 16]):
        o.append(ob(1, n, alpha=2, timeout=900 if q else 3000))
    # destinations SMALLER than the bound; n >= 16 makes literal runs of 15+ bytes (length-extension bytes in the token stream)
    for n in ([4, 12, 16, 20] if q else [0, 1, 4, 8, 12, 16, 17, 20, 24, 31]):
        o.append(ob(1, n, mode=3))
    # full-bound round trips (own decoder and the independent reference decoder) on concrete incompressible inputs at the lengths where the
    # token / length-extension forms change (LZ4: 15 + 255 k literals; Snappy: 60, 61, 256, 257 byte literals) - the symbolic round trips
    # stop at 24 bytes (added after seeded C01-lz4-last-run-length-255)
    for codec, ns in ((1, [14, 15, 16, 269, 270, 271, 525, 526] if not q else [15, 270, 525]), (0, [59, 60, 61, 62, 255, 256, 257, 258] if not q else [60, 61, 257])):
        for n in ns:
            o.append(ob(codec, n, mode=1, concx=True, timeout=300)); o.append(ob(codec, n, mode=2, concx=True, timeout=300))
    # ... and with concrete incompressible content up to 300 bytes (literal runs with 1 and 2 length-extension bytes), every capacity below the bound
    for codec in (1, 0):
        for n in ([20, 200] if q else [15, 16, 20, 31, 200, 270, 300]):
            o.append(ob(codec, n, mode=3, concx=True))
    # emission lemmas (E1/CBMC): every (offset <= window limit of the source, len) is encoded faithfully — covers match distances
    # the bounded round trips cannot reach (inputs > 64 KiB are otherwise outside the bound)
    o.append(E1('lemma/snappy-emit-copy', 'harness/e1/c09_emit.c', [], ['-DMODE=1', '-DLMAX=200'], unwind=8, timeout=300, includes_source=['src/compression/snappy.c'],
                stub_realloc=False, functions=['snappy_emit_copy'], bounds='every offset in [1, SNAPPY_MAX_OFFSET] and every match length 4..200 (symbolic)'))
    o.append(E1('lemma/snappy-emit-literal', 'harness/e1/c09_emit.c', [], ['-DMODE=2'], unwind=72, timeout=300, includes_source=['src/compression/snappy.c'],
                stub_realloc=False, functions=['snappy_emit_literal'], bounds='every literal of 1..70 symbolic bytes'))
    # literal headers of long literals: the length-form boundaries at 256, 65536 and 2^24 bytes (added after seeded C05-snappy-literal-65537)
    for lo, hi in ((1, 300), (65500, 65600), (16777180, 16777260)):
        o.append(E1('lemma/snappy-emit-literal-header/len%d-%d' % (lo, hi), 'harness/e1/c09_emit.c', [], ['-DMODE=3', '-DLLO=%d' % lo, '-DLHI=%d' % hi], unwind=8, timeout=300,
                    includes_source=['src/compression/snappy.c'], stub_realloc=False, functions=['snappy_emit_literal'],
                    bounds='every literal length in [%d, %d]; literal content an arbitrary heap object; header bytes and end pointer per the Snappy format description' % (lo, hi)))
    # decoder halves of the round trip beyond the reach of the bounded compress -> decompress runs: carquet's decompressors on streams of an
    # independent script encoder with match offsets 1..15 and match lengths 16..20 (wide-copy fast paths); obligations shared with C10
    # (added after seeded C09-lz4-decode-16byte-chunks, which the n <= 24 round trips cannot reach)
    from props import C10_e1
    for codec in (1, 0):
        s = C10_e1.script(codec, 2, 15, 20, timeout=900, lit0=15, cpmin=16)
        s.name = 'decoder/' + s.name
        o.append(s)
    return o
