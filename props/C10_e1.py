"""C10 (E1 half) and the Snappy/LZ4 part of C08 — carquet_snappy_decompress / carquet_lz4_decompress on the real code.
obligations(tier): C10 (differential against the reference decoders; reference script encoder -> carquet decoder).
obligations_c08(tier): memory safety on arbitrary bytes (names prefixed c08/), re-exported by props/C08_e1.py."""
from e1 import E1
FILES = ['src/compression/snappy.c', 'src/compression/lz4.c']
BUDGET = {'quick': 900, 'thorough': 4500}
H = 'harness/e1/c10_decomp.c'
SN = ['src/compression/snappy.c']
LZ = ['src/compression/lz4.c']
FN_SN = ['carquet_snappy_decompress', 'carquet_snappy_get_uncompressed_length', 'snappy_read_varint']
FN_LZ = ['carquet_lz4_decompress']
BE = ('minisat', 'kissat')   # measured: minisat wins every obligation of this family, kissat kept as a second opinion


def _uws(codec, l, cap, mode):
    """per-loop bounds derived from the code (CBMC numbers inner loops first).  Every element consumes >= 1 input byte, so
    the element loops run <= l times; copy loops are bounded by the remaining output (<= cap)."""
    u = {'exact.0': l + 1}
    if mode == 2:   # harness loops: canary fill, canary check, byte comparison(s); LZ4 with l > 0 has the s2 copy and a second comparison
        for i in range(3 if codec == 0 or l == 0 else 5):
            u['harness.%d' % i] = cap + 2
    if codec == 0:
        u.update({'carquet_snappy_decompress.0': 5,            # extra literal-length bytes (1..4)
                  'carquet_snappy_decompress.1': min(cap, 11) + 1, 'carquet_snappy_decompress.2': min(cap, 64) + 1,
                  'carquet_snappy_decompress.3': min(cap, 64) + 1,   # byte-wise copy loops (copy-1 / -2 / -4)
                  'carquet_snappy_decompress.4': l + 1,           # element loop
                  'snappy_read_varint.0': min(l, 5) + 1,
                  'o_snappy_walk.0': 6, 'o_snappy_walk.1': l + 1, 'o_le.0': 5})
        if mode == 2:
            u.update({'ref_snappy_decode.0': min(l, cap) + 1, 'ref_snappy_decode.1': min(cap, 64) + 1, 'ref_snappy_decode.2': l + 1,
                      'ref_uleb32_read.0': 6, 'ref_load_le.0': 5})
    else:
        u.update({'carquet_lz4_decompress.0': l + 1, 'carquet_lz4_decompress.1': l + 1,   # 255-continuation bytes
                  'carquet_lz4_decompress.2': cap // 8 + 1, 'carquet_lz4_decompress.3': 8, 'carquet_lz4_decompress.4': cap + 1,
                  'carquet_lz4_decompress.5': l + 1})             # sequence loop
        if mode == 2:
            u.update({'ref_lz4_read_extra.0': l + 2, 'ref_lz4_block_decode.0': min(l, cap) + 1, 'ref_lz4_block_decode.1': cap + 1,
                      'ref_lz4_block_decode.2': l + 2, 'ref_load_le.0': 5})
    return u


def safety(codec, l, cap, timeout=400):
    sn = codec == 0
    return E1('c08/%s-safety/len%d-cap%d' % ('snappy' if sn else 'lz4', l, cap), H, SN if sn else LZ,
               ['-DCODEC=%d' % codec, '-DMODE=1', '-DL=%d' % l, '-DCAP=%d' % cap], unwindset=_uws(codec, l, cap, 1), unwind=cap + 2, backends=BE, timeout=timeout,
               bounds='every input of exactly %d bytes (all symbolic), every output capacity 0..%d; input and output are exact-size heap objects: '
                      'no read/write outside them, OK => reported size <= capacity%s' % (l, cap, ', == get_uncompressed_length' if sn else ''),
               functions=FN_SN if sn else FN_LZ, stub_realloc=False, exclude=['F-SNAPPY-COPY1'] if sn else [])


def differential(codec, l, cap, timeout=600):
    sn = codec == 0
    return E1('%s-vs-reference/len%d-cap%d' % ('snappy' if sn else 'lz4', l, cap), H, SN if sn else LZ,
               ['-DCODEC=%d' % codec, '-DMODE=2', '-DL=%d' % l, '-DCAP=%d' % cap], unwindset=_uws(codec, l, cap, 2), unwind=cap + 2, backends=BE, timeout=timeout,
               ref=['ref_snappy.c', 'ref_rle.c'] if sn else ['ref_lz4.c', 'ref_rle.c'],
               bounds=('every input of exactly %d bytes, every capacity 0..%d: carquet accepts <=> ref_snappy_decode accepts, equal size and bytes; '
                       'get_uncompressed_length <=> reference preamble reader' % (l, cap)) if sn else
                      ('every input of exactly %d bytes, every capacity 0..%d: reference (end-of-block rules off) accepts => carquet accepts with equal output; '
                       'carquet accepts => reference accepts the block, or the block completed by an empty final sequence, with equal output '
                       '(a block ending right after a match and the empty input are not compared on the accept side)' % (l, cap)),
               functions=FN_SN if sn else FN_LZ, stub_realloc=False,
               exclude=['F-SNAPPY-COPY1', 'F-SNAPPY-LEFTOVER', 'F-SNAPPY-PREAMBLE'] if sn else [])


def script(codec, ne, litmax, cpmax, kinds=None, timeout=600, lit0=None, cpmin=0):
    sn = codec == 0
    d = ['-DCODEC=%d' % codec, '-DMODE=3', '-DNE=%d' % ne, '-DLITMAX=%d' % litmax, '-DCPMAX=%d' % cpmax]
    if kinds is not None:
        d.append('-DKINDS=1%s' % kinds)   # leading 1 keeps leading zeros (the harness reads NE digits from the right)
    nm = '%s-from-reference-encoder/n%d%s-lit%d-cp%d' % ('snappy' if sn else 'lz4', ne, ('-k' + kinds) if kinds else '', litmax, cpmax)
    if lit0 is not None:
        d += ['-DLIT0=%d' % lit0, '-DCPMIN=%d' % cpmin]; nm += '-first-literal%d-copy%d..%d' % (lit0, cpmin, cpmax)
    streamcap = 5 + ne * (5 + litmax) + 8; expcap = ne * max(litmax, cpmax)
    u = {'exact.0': streamcap + 1, 'ref_store_le.0': 9}
    if sn:
        u.update({'ref_uleb_size.0': 6, 'ref_uleb_write.0': 6})
    if kinds is not None:
        u.update({'harness.0': streamcap + 1, 'harness.1': ne + 1, 'harness.2': ne + 1, 'harness.3': expcap + 2, 'harness.4': expcap + 2})
    else:
        u.update({'harness.0': streamcap + 1, 'harness.1': ne + 1, 'harness.2': expcap + 2, 'harness.3': expcap + 2})
    if sn:
        u.update({'carquet_snappy_decompress.0': 5, 'carquet_snappy_decompress.1': min(cpmax, 11) + 1, 'carquet_snappy_decompress.2': cpmax + 1,
                  'carquet_snappy_decompress.3': cpmax + 1, 'carquet_snappy_decompress.4': ne + 1, 'snappy_read_varint.0': 6,
                  'ref_snappy_encode_script.0': ne + 1, 'ref_snappy_encode_script.1': litmax + 1, 'ref_snappy_encode_script.2': cpmax + 1,
                  'ref_snappy_encode_script.3': ne + 1})
    else:
        u.update({'carquet_lz4_decompress.0': litmax // 255 + 2, 'carquet_lz4_decompress.1': cpmax // 255 + 2,
                  'carquet_lz4_decompress.2': cpmax // 8 + 1, 'carquet_lz4_decompress.3': 8, 'carquet_lz4_decompress.4': cpmax + 1,
                  'carquet_lz4_decompress.5': ne + 1,
                  'ref_lz4_write_extra.0': max(litmax, cpmax) // 255 + 2, 'ref_lz4_encode_script.0': litmax + 1, 'ref_lz4_encode_script.1': cpmax + 1,
                  'ref_lz4_encode_script.2': ne + 1})
    focus = '' if lit0 is None else '; FOCUSED SHAPE: first literal exactly %d bytes (length in the tag), then a copy/match of %d..%d bytes' % (lit0, cpmin, cpmax)
    ob = E1(nm, H, SN if sn else LZ, d, unwindset=u, unwind=max(expcap, streamcap) + 2, backends=BE, timeout=timeout,
               ref=['ref_snappy.c', 'ref_rle.c'] if sn else ['ref_lz4.c', 'ref_rle.c'],
               bounds=('script of %d element(s)%s: kinds, literal length form (in the tag / 1-4 length bytes), lengths (literal <= %d, copy <= %d), offsets '
                       'symbolic within legality (as judged by the reference encoder), literal bytes symbolic; capacity passed == expected size, arbitrary bytes behind the stream, canary above the output'
                       % (ne, (' of kinds ' + kinds) if kinds else '', litmax, cpmax)) if sn else
                      ('script of %d sequence(s) (last one literals only): literal lengths <= %d, match lengths 4..%d, offsets symbolic within legality, '
                       'literal bytes symbolic; capacity passed == expected size, arbitrary bytes behind the stream, canary above the output' % (ne, litmax, cpmax)),
               functions=FN_SN if sn else FN_LZ, stub_realloc=False)
    ob.bounds += focus
    return ob


def obligations_c08(tier):
    """memory safety on arbitrary bytes; measured: 8 bytes x capacity 24 in 45 s, 10 x 32 in 180 s, 12 x 40 in 540 s"""
    quick = tier == 'quick'
    grid = [(l, 24) for l in range(9)] if quick else [(l, 32) for l in range(12)] + [(12, 40)]
    return [safety(codec, l, cap, timeout=600 if quick else 1800) for codec in (0, 1) for l, cap in grid]


def obligations(tier):
    quick = tier == 'quick'
    o = []
    # (a) differential against the reference decoders.  Measured frontier (minisat): 8 bytes x capacity 24 gives no verdict in 900 s,
    # 7 x 16 takes 240 s, 8 x 12 takes 140-250 s
    grid = [(l, 16) for l in range(7)] if quick else [(l, 24) for l in range(7)] + [(7, 16), (8, 12)]
    for codec in (0, 1):
        for l, cap in grid:
            o.append(differential(codec, l, cap, timeout=600 if quick else 1500))
    # (b) independent-encoder direction: reference script encoder -> carquet decoder
    o.append(script(0, 1, 3, 12))                    # one literal, every length form
    o.append(script(0, 2, 3, 12))                    # literal + any element: all copy kinds, overlapping copies (offset < length)
    o.append(script(1, 1, 20, 0))                    # LZ4: one literals-only sequence, lengths 0..20 (15+ uses an extension byte)
    o.append(script(1, 2, 3, 12))
    o.append(script(1, 2, 2, 24))                    # match lengths >= 19: extension byte
    o.append(script(1, 2, 17, 5))                    # literal lengths >= 15 before a match
    o.append(script(1, 3, 2, 6))
    # match offsets 8..15 with match lengths >= 16 (wide-copy fast paths of the decoders; added after seeded C09-lz4-decode-16byte-chunks)
    o.append(script(1, 2, 15, 20, timeout=900, lit0=15, cpmin=16))
    o.append(script(0, 2, 15, 20, timeout=900, lit0=15, cpmin=16))
    three = ['012', '031'] if quick else ['0%d%d' % (a, b) for a in range(4) for b in range(4)]
    for k in three:
        o.append(script(0, 3, 2, 8, kinds=k, timeout=900))
    if not quick:
        o.append(script(0, 1, 64, 4, timeout=900))  # literal lengths 61..64: the one-byte length form is then the shortest
        o.append(script(0, 2, 2, 24, timeout=900))
        o.append(script(0, 3, 3, 12, kinds='012', timeout=1200))
        o.append(script(1, 3, 2, 8, timeout=900))
        o.append(script(1, 2, 15, 20, timeout=2400)); o.append(script(0, 2, 15, 20, timeout=2400))   # unrestricted forms: no verdict in 840 s under load
    return o


# attempted without a verdict (not claimed): differential 8 bytes x capacity 24 (900 s, 4 back ends); Snappy script with a 260-byte literal
# (real 2-byte length value) and with copies up to 64 bytes (400 s); LZ4 script n=2 with literals <= 17 AND matches <= 21 (400 s), n=3 with lit 3 / match 12 (300 s)
OUTSIDE = ['inputs longer than 8 bytes with all bytes symbolic; 8-byte inputs with capacity > 12; 7-byte inputs with capacity > 16',
           'Snappy literal lengths > 64 (the 2/3/4-byte length forms are exercised with small values only), copies longer than 24 bytes in scripts',
           'scripts of more than 3 elements; LZ4 literal runs >= 15 together with extended match lengths in one script',
           'LZ4: empty input and blocks ending right after a match are deliberately not compared on the accept side (carquet accepts both; see bounds)']


def evidence_extra(tier):
    return {'c10_e1_outside': OUTSIDE}
