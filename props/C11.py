"""C11 — every encoding decodes its own output.  E1 (CBMC) obligations: props/C11_e1.py; the E2 obligations (decoders on
arbitrary bytes, streaming decoder under symbolic chunking, whole DELTA_* encoders, dictionary encoder) are appended here."""
from props import C11_e1
FILES = C11_e1.FILES
BUDGET = C11_e1.BUDGET


def obligations(tier):
    return C11_e1.obligations(tier)
