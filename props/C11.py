"""C11 — every encoding decodes its own output.
E1 half (props/C11_e1.py, CBMC on the real encoders/decoders: PLAIN, RLE hybrid, raw bit packing, DELTA_*, BYTE_STREAM_SPLIT, dictionary, one inductive step of the RLE encoder).
E2 half (props/C11_e2.py, symx): whole encoder -> decoder round trips with symbolic values (RLE incl. level wrappers, DELTA_BINARY_PACKED,
DELTA_LENGTH/DELTA_BYTE_ARRAY, dictionary) and the streaming decoder under symbolic get/skip scripts against the one-shot decode."""
from props import C11_e1 as _e1, C11_e2 as _e2
FILES = sorted(set(_e1.FILES) | set(_e2.FILES))
BUDGET = {'quick': 840, 'thorough': 3600}


def obligations(tier):
    return _e1.obligations(tier) + _e2.obligations(tier)


def evidence_extra(tier):
    out = {}
    for m in (_e1, _e2):
        for k, v in (getattr(m, 'evidence_extra', lambda t: {})(tier) or {}).items():
            if isinstance(v, list) and isinstance(out.get(k), list):
                out[k] = out[k] + v
            elif isinstance(v, dict) and isinstance(out.get(k), dict):
                out[k].update(v)
            else:
                out.setdefault(k, v)
    return out
