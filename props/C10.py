"""C10 — built-in Snappy and LZ4 speak the standard formats.
E1 half (props/C10_e1.py, CBMC): carquet's decompressors vs independent reference decoders on every input of L bytes, and on
streams built by an independent encoder from symbolic scripts.  E2 half (props/C10_e2.py, symx): every compressor output for
inputs of n bytes is decoded back to the input by the independent reference decoders (LZ4: end-of-block rules enforced)."""
from props import C10_e1 as _e1, C10_e2 as _e2
FILES = ['src/compression/snappy.c', 'src/compression/lz4.c']
BUDGET = {'quick': 840, 'thorough': 3600}


def obligations(tier):
    o = _e1.obligations(tier) + _e2.obligations(tier)
    # emission lemmas of the Snappy compressor (every offset the match finder may hand over x every length is emitted as a LEGAL element:
    # offset != 0, inside the 16-bit / 11-bit fields) — obligations shared with C09; they reach match distances (up to the window limit
    # of the source) that the bounded compressor runs cannot (added after seeded C10-snappy-window-64k)
    from props import C09
    for ob in C09.obligations(tier):
        if ob.name.startswith('lemma/'):
            ob.name = 'snappy-compressor-' + ob.name
            o.append(ob)
        elif ob.name.startswith('ref-decodes/') and 'concrete-incompressible' in ob.name:
            o.append(ob)      # compressor output at the lengths where the literal-length forms change, decoded by the reference decoders
    return o
