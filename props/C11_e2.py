"""C11 (E2 half) — every encoding decodes its own output (harness/e2/c11_rt.c): carquet-encode -> carquet-decode == original
with written == consumed byte counts for the encodings whose decoders branch on the input bytes (hybrid RLE values / levels /
length-prefixed levels / streaming, DELTA_BINARY_PACKED, DELTA_LENGTH_BYTE_ARRAY, DELTA_BYTE_ARRAY, dictionary), and the
streaming RLE decoder against the one-shot decoder under a symbolic sequence of get / get_batch(k) / skip(k) calls."""
from e2 import E2
FILES = ['src/encoding/rle.c', 'src/encoding/delta.c', 'src/encoding/delta_length.c', 'src/encoding/delta_strings.c', 'src/encoding/dictionary.c', 'src/core/bitpack.c', 'src/core/buffer.c']
BUDGET = {'quick': 600, 'thorough': 2700}
H = 'harness/e2/c11_rt.c'
RLE = ['src/encoding/rle.c', 'src/core/bitpack.c', 'src/core/buffer.c']
DICT = ['src/encoding/dictionary.c'] + RLE
DELTA = ['src/encoding/delta.c', 'src/core/bitpack.c', 'src/core/buffer.c']
DSTR = DELTA + ['src/encoding/delta_length.c', 'src/encoding/delta_strings.c']
DECN = ['decode-all', 'decode-levels', 'levels-prefixed', 'stream-get']


def rle(dec, bw, n=None, timeout=300):
    shape = 0 if n is not None else 1
    nm = 'rle-rt/%s/bw%d/%s' % (DECN[dec], bw, ('n%d' % n) if shape == 0 else 'patterns')
    d = ['-DVMODE=1', '-DVDEC=%d' % dec, '-DVBW=%d' % bw, '-DVSHAPE=%d' % shape] + (['-DVCNT=%d' % n] if shape == 0 else [])
    return E2(nm, H, RLE, d, timeout=timeout, leaks=True, max_paths=200000,
              bounds=('%d values of %d bits, all symbolic' % (n, bw)) if shape == 0 else
                     ('one of 6 concrete equality patterns over 9..20 positions (runs of 7..12 inside longer sequences: partial group, run >= 8, literals), the <= 9 distinct values of %d bits symbolic (they may also coincide)' % bw))


def delta(wide, n, shape, timeout=300, exclude=None):
    nm = 'delta-rt/int%d/n%d/%s' % (64 if wide else 32, n, 'all-symbolic' if shape == 0 else 'base-patterns')
    return E2(nm, H, DELTA, ['-DVMODE=2', '-DVWIDE=%d' % wide, '-DVCNT=%d' % n, '-DVSHAPE=%d' % shape], timeout=timeout, leaks=True, max_paths=200000, exclude=exclude,
              bounds=('%d values, every bit symbolic' % n) if shape == 0 else
                     ('%d values = one of %d concrete base patterns (zeros; INT_MIN/INT_MAX alternations, i.e. wrap-around deltas; growing deltas of 10..31 bits%s) plus a symbolic offset in [-2, 1] per value' % (
                         n, 6 if wide else 5, '; 33..64-bit deltas' if wide else '')))


def strings(mode, n, sl=2, timeout=600):
    return E2('%s/n%d-len%d' % ('delta-length-rt' if mode == 3 else 'delta-byte-array-rt', n, sl), H, DSTR, ['-DVMODE=%d' % mode, '-DVCNT=%d' % n, '-DVSL=%d' % sl],
              timeout=timeout, leaks=True, fork_max=16, bounds='%d strings, each length 0..%d and every byte symbolic' % (n, sl))


def dictionary(wide, n, timeout=600):
    return E2('dict-rt/int%d/n%d' % (64 if wide else 32, n), H, DICT, ['-DVMODE=5', '-DVWIDE=%d' % wide, '-DVCNT=%d' % n], timeout=timeout, leaks=True,
              bounds='%d values drawn by symbolic selectors from the concrete alphabet {0, -1, INT_MIN} (every equality pattern over <= 3 distinct values; the hash-table bucket index stays within 3 feasible values)' % n)


def dictionary_ba(n, timeout=600):
    return E2('dict-rt/byte_array/n%d' % n, H, DICT, ['-DVMODE=7', '-DVCNT=%d' % n], ref=['ref_rle.c'], timeout=timeout, leaks=True, max_paths=200000,
              bounds='%d byte arrays drawn (fork) from a pool of values, their proper prefixes and the empty string that meet in single buckets of the builder\'s hash table, '
                     'plus one unrelated value, in every order (every selection of the 9 pool entries per position: forks, concrete per path); dictionary page decoded per the PLAIN specification, indices by the reference hybrid decoder' % n)


def stream(bw, ops, shape, kmax=12, timeout=900):
    return E2('rle-stream-vs-oneshot/bw%d/%s/ops%d' % (bw, 'carquet-patterns' if shape else 'layouts', ops), H, RLE,
              ['-DVMODE=6', '-DVBW=%d' % bw, '-DVOPS=%d' % ops, '-DVSHAPE=%d' % shape, '-DVKMAX=%d' % kmax], ref=[] if shape else ['ref_rle.c'], timeout=timeout, leaks=True, max_paths=400000,
              bounds='stream %s, values of %d bits symbolic; %d operations chosen among get / get_batch(k) / skip(k), k symbolic in 0..%d; afterwards the rest of the stream is compared too' % (
                  'from carquet_rle_encode_all over one of 6 equality patterns (9..20 values)' if shape else 'of 12 values in one of 5 concrete run layouts (multi-group bit-packed run with padding, RLE + literals, short runs)', bw, ops, kmax))


def obligations(tier):
    q = tier == 'quick'
    o = []
    for dec in (0, 1, 2, 3):
        for bw in ([0, 1, 3, 8, 9] if q else [0, 1, 2, 3, 8, 9, 16]) + ([] if dec in (1, 2) else ([17] if q else [17, 32])):
            for n in ([0, 1, 8, 9] if q else [0, 1, 2, 7, 8, 9, 10, 12]):
                o.append(rle(dec, bw, n))
            o.append(rle(dec, bw))
    for wide in (0, 1):
        for n in ([1, 2] if q else [1, 2]):
            o.append(delta(wide, n, 0))
        o.append(delta(wide, 0, 0))     # the empty sequence (finding F-DELTA-EMPTY, fixed by /repo f0886c2)
        for n in ([2, 3, 5] if q else [2, 3, 5, 7]):      # 9 values: solver unknown within 25 min -> outside the bounds
            o.append(delta(wide, n, 1, timeout=300 if n < 7 else 1500))
    # (3 fully symbolic values: the solver does not finish the cancellation v0 + (v1 - v0) + ... within 30 min -> outside the bounds)
    for n in ([1, 2, 3] if q else [1, 2, 3, 4]):
        o.append(strings(3, n))
        o.append(strings(4, n))
    for wide in (0, 1):
        for n in ([1, 3, 5] if q else [0, 1, 2, 3, 4, 5, 6]):
            o.append(dictionary(wide, n))
    for n in ([2, 3] if q else [1, 2, 3, 4]):
        o.append(dictionary_ba(n))
    for bw in ([1, 3] if q else [1, 2, 3, 8]):
        o.append(stream(bw, 2 if q else 3, 0, timeout=900 if q else 1500))
        o.append(stream(bw, 2, 1))
        if not q:
            o.append(stream(bw, 3, 1, kmax=8, timeout=1800))
    return o
