"""C20 — Bloom filters: no false negatives, Parquet split-block algorithm, XXH64."""
from e1 import E1
from e2 import E2
FILES = ['src/metadata/bloom_filter.c', 'src/util/xxhash.c']
BUDGET = {'quick': 840, 'thorough': 2400}
SRC = ['src/metadata/bloom_filter.c', 'src/util/xxhash.c']
FN_BLOOM = ['carquet_bloom_filter_from_data', 'carquet_bloom_filter_insert_hash', 'carquet_bloom_filter_check_hash',
            'bloom_filter_block_index', 'bloom_filter_block_insert', 'bloom_filter_block_check']
H = 'harness/e1/c20_bloom.c'
SAT = ('cvc5', 'z3', 'minisat')
MUL = ('cvc5', 'z3', 'kissat')


def obligations(tier):
    quick = tier == 'quick'
    o = []
    nbs = [1, 2] if quick else [1, 2, 3, 4]
    for nb in ([1, 2, 3, 4, 5, 7, 8] if quick else list(range(1, 17)) + [31, 32, 33, 1000, 65535]):
        o.append(E1('lemma-block-index/nb%d' % nb, H, [], ['-DNB=%d' % nb, '-DMODE=7', '-DINCLUDE_IMPL'], unwind=4, backends=MUL, timeout=120,
                    includes_source=['src/metadata/bloom_filter.c'], bounds='%d blocks, every 64-bit hash' % nb, functions=['bloom_filter_block_index'], stub_realloc=False))
    o.append(E1('lemma-block-insert-check', H, [], ['-DNB=1', '-DMODE=8', '-DINCLUDE_IMPL'], unwind=34, backends=SAT, timeout=200,
                includes_source=['src/metadata/bloom_filter.c'], bounds='arbitrary 32-byte block, every pair of 64-bit hashes',
                functions=['bloom_filter_block_insert', 'bloom_filter_block_check'], stub_realloc=False))
    for nb in nbs:
        d = ['-DNB=%d' % nb]
        o.append(E1('nofn-step/nb%d' % nb, H, SRC, d + ['-DMODE=1'], unwind=nb * 32 + 2, backends=SAT, timeout=420,
                    bounds='arbitrary filter state of %d block(s), symbolic 64-bit hashes h,h2; one inductive insert step' % nb,
                    functions=FN_BLOOM, stub_realloc=False))
        o.append(E1('sbbf-conformance/nb%d' % nb, H, SRC, d + ['-DMODE=2'], unwind=nb * 32 + 2, backends=SAT, timeout=420,
                    bounds='arbitrary filter state of %d block(s), symbolic hash; all bytes compared with the reference algorithm' % nb,
                    functions=FN_BLOOM, stub_realloc=False))
    for nb in ([1, 2, 3] if quick else [1, 2, 3, 4, 5]):      # odd block counts too: filters loaded from files have any number of 32-byte blocks
        d = ['-DNB=%d' % nb]
        if nb in (2, 4):
          o.append(E1('fresh-and-size/n<=%d' % (nb * 32), H, SRC, d + ['-DMODE=3'], unwind=nb * 32 + 2, backends=SAT, timeout=240,
                    bounds='create(n) for every n <= %d, symbolic probe hash' % (nb * 32),
                    functions=['carquet_bloom_filter_create', 'carquet_bloom_filter_check_hash', 'carquet_bloom_filter_size'], stub_realloc=False))
        o.append(E1('write-read-merge/nb%d' % nb, H, SRC, d + ['-DMODE=4'], unwind=nb * 32 + 2, backends=SAT, timeout=480,
                    bounds='two arbitrary filter states of %d block(s), symbolic hashes' % nb,
                    functions=['carquet_bloom_filter_write', 'carquet_bloom_filter_read', 'carquet_bloom_filter_merge'] + FN_BLOOM, stub_realloc=False))
    typed = [(0, 'i32', 4), (1, 'i64', 8), (4, 'bytes0', 0), (4, 'bytes3', 3), (4, 'bytes9', 9)]
    # float/double through E1 give no verdict in 300 s on any back end (float-typed parameter + multiplier chains);
    # they are attempted in the thorough tier only and otherwise covered by the E2 obligations
    if not quick:
        typed += [(2, 'float', 4), (3, 'double', 8)]
    for t, nm, ln in typed:
        o.append(E1('typed-insert/%s' % nm, H, SRC, ['-DNB=1', '-DMODE=5', '-DTYPED=%d' % t, '-DLEN=%d' % ln], unwind=66, backends=MUL, timeout=300,
                    bounds='arbitrary 1-block state, every value of the type (float/double: every non-NaN value; bytes: length %d)' % ln, cvc5_int=False,
                    functions=['carquet_bloom_filter_insert_%s' % nm.rstrip('039'), 'carquet_xxhash64'] + FN_BLOOM, stub_realloc=False))
    # every length class of the algorithm: <32 (no stripe loop), 32..63 (one stripe), >= 64 (stripe loop iterates), with every tail
    # shape (8-byte steps, 4-byte step, single bytes) behind it
    lens = (list(range(0, 131)) + [159, 160, 161, 192, 255, 256, 257]) if not quick else \
        [0, 1, 2, 3, 4, 5, 7, 8, 9, 11, 12, 13, 15, 16, 17, 23, 24, 31, 32, 33, 36, 37, 39, 40, 47, 48, 63, 64, 65, 71, 76, 95, 96, 97, 127, 128, 129]
    for ln in lens:
        o.append(E1('xxh64/len%d' % ln, H, ['src/util/xxhash.c'], ['-DMODE=6', '-DLEN=%d' % ln, '-DNB=1'], unwind=ln + 4, backends=MUL, timeout=300,
                    bounds='length %d, every byte value, every 64-bit seed' % ln, functions=['carquet_xxhash64'], stub_realloc=False))
    # E2 (symx) half: whole API with several blocks (the engine forks over the block index) and typed inserts for every bit pattern
    H2 = 'harness/e2/c20_bloom.c'
    # (API-level conformance with several blocks stays with E1: z3 gives no verdict on the byte-wise comparison in 600 s, while
    #  CBMC+cvc5 decides sbbf-conformance/nb1..nb4 and the block-index lemma covers every block count)
    for t, nm in enumerate(['i32', 'i64', 'float', 'double', 'bytes0,1,4,5']):
        o.append(E2('typed-insert-e2/%s' % nm, H2, SRC, ['-DMODE=2', '-DNB=1', '-DTYPED=%d' % t], leaks=True, timeout=600, fork_max=16,
                    bounds='arbitrary 1-block state, EVERY bit pattern of the value (floats/doubles incl. NaN payloads and -0.0)'))
    return o
