"""C18 — truncated files are rejected and failed writes are never reported OK."""
from e2 import E2
FILES = ['src/writer/file_writer.c', 'src/reader/file_reader.c', 'src/reader/mmap_reader.c']
BUDGET = {'quick': 840, 'thorough': 3000}
H = 'harness/e2/c18_cut.c'
STUBS = ['stdio: in-memory model file system with sink-fault forks (symx/models.py)', 'open/fstat/mmap over the same model files',
         'cpuid: no SIMD features (scalar dispatch)', 'snprintf: empty string']


def obligations(tier):
    q = tier == 'quick'
    o = []
    codecs = [('unc', 'CARQUET_COMPRESSION_UNCOMPRESSED')] if q else [('unc', 'CARQUET_COMPRESSION_UNCOMPRESSED'), ('snappy', 'CARQUET_COMPRESSION_SNAPPY'), ('lz4', 'CARQUET_COMPRESSION_LZ4')]
    for shape in (0, 1, 2):
        for cn, cd in codecs:
            if shape == 2 and cn != 'unc': continue
            for om, on in ((0, 'buffer'), (1, 'stdio'), (2, 'mmap')):
                o.append(E2('cut/%s/shape%d/%s' % (on, shape, cn), H, defines=['-DMODE=1', '-DSHAPE=%d' % shape, '-DCODEC=' + cd, '-DOPENMODE=%d' % om, '-DROWS=4'],
                            all_lib=True, timeout=600, fork_max=1024, stubs=STUBS,
                            bounds='file written by the real writer (2 columns, 4 rows, 2 row groups, %s); EVERY cut length 0..len-1 (symbolic), open via %s' % (cn, on)))
    for shape in (0, 1):
        for cn, cd in codecs:
            o.append(E2('sink-fault/shape%d/%s' % (shape, cn), H, defines=['-DMODE=2', '-DSHAPE=%d' % shape, '-DCODEC=' + cd, '-DROWS=4'], all_lib=True, timeout=600, stubs=STUBS,
                        bounds='write history of a 2-column 4-row 2-row-group table (%s); ONE sink fault at every fwrite (short count, or absorbed and reported by the next fflush/fclose), fflush and fclose of the history' % cn))
            o.append(E2('abort/shape%d/%s' % (shape, cn), H, defines=['-DMODE=3', '-DSHAPE=%d' % shape, '-DCODEC=' + cd, '-DROWS=4'], all_lib=True, timeout=600, stubs=STUBS,
                        bounds='carquet_writer_abort after each of 4 prefixes of the call history; leak check + file removed'))
    return o
