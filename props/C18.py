"""C18 — truncated files are rejected and failed writes are never reported OK."""
from e2 import E2
FILES = ['src/writer/file_writer.c', 'src/reader/file_reader.c', 'src/reader/mmap_reader.c']
BUDGET = {'quick': 840, 'thorough': 3000}
H = 'harness/e2/c18_cut.c'
STUBS = ['stdio: in-memory model file system with sink-fault forks (symx/models.py)', 'open/fstat/mmap over the same model files',
         'cpuid: no SIMD features (scalar dispatch)', 'snprintf: empty string']
CODECS = {'unc': 'CARQUET_COMPRESSION_UNCOMPRESSED', 'snappy': 'CARQUET_COMPRESSION_SNAPPY', 'lz4': 'CARQUET_COMPRESSION_LZ4'}
OPEN = {0: 'buffer', 1: 'stdio', 2: 'mmap'}
API = {0: 'path', 1: 'FILE*'}
OUTSIDE = ('outside: INT96 (writer returns NOT_IMPLEMENTED), GZIP/ZSTD (library contract stubs), nested schemas, dictionary pages, '
           'carquet_reader_open_file / carquet_get_file_info / carquet_validate_file (declared in carquet.h but not defined in the library), '
           'wo.write_statistics is set as stated but the public writer ignores it')
# column specs (c18_tables.h): UPPER = REQUIRED, lower = OPTIONAL; B BOOLEAN, I INT32, L INT64, F FLOAT, D DOUBLE, S BYTE_ARRAY, X FIXED_LEN_BYTE_ARRAY
ONE = 'B,b,I,i,L,l,F,f,D,d,S,s,X,x'                 # every writable physical type, REQUIRED and OPTIONAL, one column
TWO = 'Il,Sd,bX,sF,Di,Lb,xS,fI'                     # two columns of different types
THREE = 'Ils,SdB,xFi,bLD,sIX'                       # three columns
FOUR = 'IlsB,SdbX,xFiL,DsIb'                        # four columns
TAIL = 'I,i,L,l,F,D,S,s,X,x,IL,SX,lsD'              # types whose PLAIN bytes can spell  <footer length> "PAR1"
STOPTAIL = 'I,i,L,l,F,D,S,s,IL,Sl'                  # flavour 16: the bytes in front of <length> "PAR1" are a tiny well-formed Thrift struct (00 | 01..; 15 00 00 | 03..; 00 00 | 02..; 15 02 00 00 | 04..)


def layout_txt(rows, nrg, batch, ps=1):
    if ps > 1: return '%d rows in %d row group(s), %d rows per write_batch call, all calls of a chunk share ONE page (page_size %d)' % (rows, nrg, batch, ps)
    return '%d rows in %d row group(s), %s' % (rows, nrg, ('%d rows per write_batch call = per page' % batch) if batch else 'one page per column chunk')


def common_defs(specs, rows, nrg, batch, flavour, codec, api, stats=1, ps=1):
    return ['-DVC_PS=%d' % ps, '-DVC_SPECS="%s"' % specs, '-DVC_ROWS=%d' % rows, '-DVC_NRG=%d' % nrg, '-DVC_BATCH=%d' % batch, '-DVC_FLAVOUR=%d' % flavour,
            '-DCODEC=' + CODECS[codec], '-DVC_FILEAPI=%d' % api, '-DVC_STATS=%d' % stats]


def tag(fam, rows, nrg, batch, flavour, codec, api):
    return '%s/r%d-g%d-b%d-f%d/%s/%s' % (fam, rows, nrg, batch, flavour, codec, 'file' if api else 'path')


def cut(fam, specs, rows, nrg, batch, flavour, codec, om, api=0, stats=1, timeout=900, ps=1):
    n = specs.count(',') + 1
    return E2('cut/%s/%s' % (OPEN[om], tag(fam, rows, nrg, batch, flavour, codec, api)), H,
              defines=['-DVC_MODE=1', '-DVC_OPEN=%d' % om] + common_defs(specs, rows, nrg, batch, flavour, codec, api, stats, ps),
              all_lib=True, timeout=timeout, stubs=STUBS, leaks=True, expect_paths_min=40 * n, max_paths=400000, exclude='F-FOOTER-NO-REQUIRED',
              bounds='concrete tables {%s} (%s content, null pattern %d), %s, %s, writer created by %s, write_statistics=%d; file written by the real writer, then '
                     'EVERY cut length 0..len-1 (one path each), opened via %s; %s' % (specs, ('ordinary', 'tail-like', 'tiny-struct-tail')[flavour >> 3], flavour & 7, layout_txt(rows, nrg, batch, ps), codec, API[api], stats, OPEN[om], OUTSIDE))


def sink(fam, specs, rows, nrg, batch, flavour, codec, api=0, timeout=900, ps=1):
    n = specs.count(',') + 1
    return E2('sink-fault/%s' % tag(fam, rows, nrg, batch, flavour, codec, api), H,
              defines=['-DVC_MODE=2'] + common_defs(specs, rows, nrg, batch, flavour, codec, api, ps=ps), all_lib=True, timeout=timeout, stubs=STUBS, leaks=True, expect_paths_min=8 * n,
              bounds='write history of concrete tables {%s}, %s, %s, writer created by %s; ONE sink fault at every fwrite (short count, or absorbed and reported by the next '
                     'fflush/fclose), fflush and fclose of the history; more than one fault per history is outside; %s' % (specs, layout_txt(rows, nrg, batch, ps), codec, API[api], OUTSIDE))


def abort(fam, specs, rows, nrg, batch, flavour, codec, api=0, fault=False, badop=False, timeout=900, ps=1):
    n = specs.count(',') + 1
    nm = 'abort%s%s/%s' % ('+sinkfault' if fault else '', '+badcall' if badop else '', tag(fam, rows, nrg, batch, flavour, codec, api))
    return E2(nm, H, defines=['-DVC_MODE=3'] + (['-DVC_ABORT_FAULT'] if fault else []) + (['-DVC_ABORT_BADOP'] if badop else []) + common_defs(specs, rows, nrg, batch, flavour, codec, api, ps=ps),
              all_lib=True, timeout=timeout, stubs=STUBS, leaks=True, expect_paths_min=3 * n,
              bounds='carquet_writer_abort after EVERY prefix of the call history (write_batch per column and page, new_row_group) of concrete tables {%s}, %s, %s, writer created by %s%s%s; '
                     'leak check, and no file left behind for the path writer; %s' % (
                         specs, layout_txt(rows, nrg, batch, ps), codec, API[api], '; one sink fault at every fwrite/fflush/fclose of the prefix and of abort itself' if fault else '',
                         '; two rejected write_batch calls (column index out of range) before the abort' if badop else '', OUTSIDE))


def tailsym(specs, rows, nrg, batch, trow, codec, om, api=0, timeout=1500):
    return E2('cut-tail-anyL/%s/%s/r%d-g%d-b%d-t%d/%s/%s' % (OPEN[om], specs, rows, nrg, batch, trow, codec, 'file' if api else 'path'), H,
              defines=['-DVC_MODE=4', '-DVC_OPEN=%d' % om, '-DVC_TROW=%d' % trow, '-DREF_MAX_VALUES=32', '-DREF_MAX_PAGES=8'] + common_defs(specs, rows, nrg, batch, 0, codec, api),
              all_lib=True, timeout=timeout, stubs=STUBS, leaks=True, fork_max=8192, expect_paths_min=25, max_paths=400000, exclude='F-FOOTER-NO-REQUIRED',
              ref=['ref_parquet_read.c', 'ref_parquet_meta.c', 'ref_thrift.c', 'ref_rle.c', 'ref_snappy.c', 'ref_lz4.c', 'ref_hash.c', 'ref_plain_bss.c'],
              bounds='table {%s}, %s, %s: BYTE_ARRAY value of row %d is <L> "PAR1" with EVERY 32-bit L (symbolic); the prefix that ends right behind it, opened via %s, is rejected '
                     'unless the independent reference reader accepts it as a complete Parquet file; %s' % (specs, layout_txt(rows, nrg, batch), codec, trow, OPEN[om], OUTSIDE))


def legacy(codecs):
    """the obligations of the first version of this check (2 columns, 4 rows, 2 row groups, one page per chunk)"""
    o = []
    for specs, fl, fam in (('Il', 0, 'base-Il'), ('Sd', 0, 'base-Sd'), ('IL', 8, 'base-tail')):
        for cn in codecs:
            if fl and cn != 'unc': continue
            for om in (0, 1, 2):
                o.append(cut(fam, specs, 4, 2, 0, fl, cn, om))
    for specs, fam in (('Il', 'base-Il'), ('Sd', 'base-Sd')):
        for cn in codecs:
            o.append(sink(fam, specs, 4, 2, 0, 0, cn))
            o.append(abort(fam, specs, 4, 2, 0, 0, cn))
    return o


def obligations(tier):
    q = tier == 'quick'
    o = legacy(['unc', 'snappy', 'lz4'])
    CN = ('unc', 'snappy', 'lz4')
    # (rows, row groups, rows per write_batch call = per page; 0 = one page per chunk)
    LAYOUTS = [(6, 2, 2), (9, 3, 2)] if q else [(6, 1, 2), (6, 2, 2), (9, 3, 2), (7, 2, 0), (8, 1, 3), (12, 3, 1)]
    BIG = [] if q else [(16, 2, 4), (24, 3, 4), (20, 1, 5), (18, 3, 3)]
    for om in (0, 1, 2):
        for cn in CN:
            for li, (rows, nrg, batch) in enumerate(LAYOUTS):
                if q and li and cn != 'unc': continue
                api = (li + om) % 2
                o.append(cut('one', ONE, rows, nrg, batch, 0, cn, om, api=api))
                o.append(cut('tail', TAIL, rows, nrg, batch, 8, cn, om, api=1 - api))
                if q: continue
                o.append(cut('one', ONE, rows, nrg, batch, 1, cn, om, api=1 - api))       # other null pattern (all-NULL pages), other constructor
                o.append(cut('two', TWO, rows, nrg, batch, 0, cn, om, api=api))
                o.append(cut('tail', TAIL, rows, nrg, batch, 9, cn, om, api=api))
            for li, (rows, nrg, batch) in enumerate(BIG):
                api = (li + om) % 2
                o.append(cut('one', ONE, rows, nrg, batch, li % 2, cn, om, api=api))
                o.append(cut('two', TWO, rows, nrg, batch, 1 - li % 2, cn, om, api=1 - api))
                o.append(cut('tail', TAIL, rows, nrg, batch, 8 + li % 2, cn, om, api=api))
                o.append(cut('four', FOUR, rows, nrg, batch, 0, cn, om, api=1 - api, timeout=1500))
            for rows, nrg, batch in (LAYOUTS[:1] if q else LAYOUTS[:3]):
                o.append(cut('three', THREE, rows, nrg, batch, 0, cn, om, api=om % 2))
            o.append(cut('stoptail', STOPTAIL, 12, 1, 0, 16, cn, om, api=om % 2))
            if q and cn != 'unc': continue
            o.append(cut('stoptail', STOPTAIL, 12, 2, 3, 16, cn, om, api=1 - om % 2))
            o.append(cut('allnull', 'b,i,l,f,d,s,x,is', 6, 2, 2, 3, cn, om))
            o.append(cut('nonulls', 'b,i,s,x,ls', 6, 2, 2, 2, cn, om, stats=0))
            o.append(cut('zero-rows', 'I,s,Il', 0, 1, 0, 0, cn, om))
            o.append(cut('shared-page', 'I,s,b,Sl,xD', 8, 2, 3, 0, cn, om, api=om % 2, ps=1048576))     # several write_batch calls fill ONE page
    for cn in CN:
        for api in (0, 1):
            for li, (rows, nrg, batch) in enumerate(LAYOUTS + BIG[:2]):
                if q and li and cn != 'unc': continue
                o.append(sink('one', ONE, rows, nrg, batch, 0, cn, api))
                o.append(abort('one', ONE, rows, nrg, batch, 0, cn, api))
                o.append(abort('two', TWO, rows, nrg, batch, 1, cn, api, fault=True, timeout=1500))
                if q: continue
                o.append(sink('two', TWO, rows, nrg, batch, 1, cn, api))
                o.append(abort('one', ONE, rows, nrg, batch, 1, cn, api, badop=True))
            o.append(sink('three', THREE, 9, 3, 2, 0, cn, api))
            o.append(abort('three', THREE, 9, 3, 2, 0, cn, api, fault=True, badop=True))
            if q and cn != 'unc': continue
            o.append(sink('zero-rows', 'I,s,Il', 0, 1, 0, 0, cn, api))
            o.append(abort('zero-rows', 'I,s,Il', 0, 1, 0, 0, cn, api, fault=True))
            o.append(sink('shared-page', 'I,s,b,Sl,xD', 8, 2, 3, 0, cn, api, ps=1048576))
            o.append(abort('shared-page', 'I,s,b,Sl,xD', 8, 2, 3, 0, cn, api, fault=True, ps=1048576))
            if q: continue
            o.append(sink('four', FOUR, 16, 2, 4, 0, cn, api, timeout=1500))
            o.append(abort('four', FOUR, 12, 3, 2, 0, cn, api, fault=True, timeout=1500))
    for om in (0, 1, 2):
        for specs, rows, nrg, batch, trow in (('S', 4, 1, 0, 3), ('S', 8, 2, 2, 7), ('SI', 9, 3, 3, 8), ('Sl', 6, 2, 1, 5), ('Sdx', 6, 2, 2, 4), ('Sb', 12, 3, 2, 11)):
            if q and rows > 8: continue
            o.append(tailsym(specs, rows, nrg, batch, trow, 'unc', om, api=om % 2))
    return o
