"""C11 (every encoding decodes its own output) — E1/CBMC half: encoders and the branch-free decoders.

One obligation = one concrete element count / bit width, every value symbolic.  Each obligation is tagged with the
properties it serves ('C11', 'C12' or both); props/C12_e1.py selects its list from the same table.
   enc->ref   carquet encoder  -> reference (specification) decoder == v, reported size == bytes emitted   [C12, C11 half]
   ref->dec   reference encoder -> carquet decoder == v, consumed == stream size                           [C12]
   roundtrip  carquet encoder  -> carquet decoder == v, consumed == written                                [C11]
Where carquet's decoder is not CBMC-tractable (hybrid RLE, DELTA_*: control flow follows the input bytes) C11 for
that family is the composition of the enc->ref obligation here with the ref->dec obligation discharged by E2.

Families (harness/e1/c11_*.c, c12_rle_dec.c):
  plain      all physical types, the three directions above
  rle        hybrid RLE encoder end-to-end for small n (encode_all, put/put_repeat/flush, int16 levels, level block with prefix)
  rle_step   the same encoder as an inductive invariant: one put / one flush from ANY state -> every n, every run structure
  bitpack    carquet_bitpack_32/unpack_32, 8-value kernels, bit writer / reader, all widths
  delta      DELTA_BINARY_PACKED encoder: value-dependent helpers for every 64-bit argument; whole encoder n <= 1 (quick), <= 3 (thorough)
  bss        BYTE_STREAM_SPLIT float/double (dispatcher: scalar kernels, and any kernel under symbolic CPU bits) / generic width
  strings    DELTA_LENGTH_BYTE_ARRAY / DELTA_BYTE_ARRAY encoders relative to a function summary of the integer encoder
  dictionary dictionary encoder (n <= 1: the hash-table teardown defeats CBMC beyond that) relative to a summary of the RLE encoder
  (C12_e1.rle_dec) hybrid RLE / level / dictionary-index decoders and the streaming decoder on specification streams with concrete layouts
Left to E2: DELTA_* decoders, DELTA_BINARY_PACKED encoder beyond 3 values (block/mini-block boundaries), dictionary encoder for
n >= 2, RLE decoders on arbitrary layouts/bytes, streaming decoder under symbolic chunking."""
from e1 import E1

FILES = ['src/encoding/plain.c', 'src/encoding/rle.c', 'src/encoding/delta.c', 'src/encoding/delta_length.c',
         'src/encoding/delta_strings.c', 'src/encoding/byte_stream_split.c', 'src/encoding/dictionary.c',
         'src/core/bitpack.c', 'src/core/buffer.c', 'src/core/endian.h', 'src/simd/dispatch.c']
BUDGET = {'quick': 900, 'thorough': 2700}

SAT = ('minisat', 'kissat', 'cvc5')
ALL = ('cvc5', 'z3', 'minisat', 'kissat')

TYPES = {0: 'boolean', 1: 'int32', 2: 'int64', 3: 'int96', 4: 'float', 5: 'double', 6: 'byte_array', 7: 'flba'}
MODES = {1: ('enc-ref', ('C11', 'C12')), 2: ('ref-dec', ('C12',)), 3: ('roundtrip', ('C11',))}


def tag(o, props):
    o.props = tuple(props)
    return o


def plain(tier):
    quick = tier == 'quick'
    H = 'harness/e1/c11_plain.c'
    SRC = ['src/encoding/plain.c', 'src/core/buffer.c']
    o = []
    def add(t, n, w, modes=(1, 2, 3)):
        for m in modes:
            mn, props = MODES[m]
            nm = 'plain/%s/%s/n%d' % (TYPES[t], mn, n) + ('w%d' % w if t in (6, 7) else '')
            esz = {0: 1, 1: 4, 2: 8, 3: 12, 4: 4, 5: 8, 6: w + 4, 7: w}[t]
            ub = max(n * esz, 12) + 14
            what = {0: 'every 0/non-0 byte pattern', 6: 'every byte value, every length vector in 0..%d' % w,
                    7: 'width %d, every byte value' % w}.get(t, 'every bit pattern (floats as raw bits, NaN payloads included)')
            o.append(tag(E1(nm, H, SRC, ['-DVTYPE=%d' % t, '-DVN=%d' % n, '-DVW=%d' % w, '-DMODE=%d' % m] + (['-DBUFCAP=%d' % (n * (4 + w) + 1)] if t == 6 else []), unwind=ub, backends=('minisat',), timeout=200,
                            ref=['ref_plain_bss.c', 'ref_rle.c'], exclude='F-PLAIN-BOOL-EMPTY' if (t == 0 and n == 0 and m != 2) else None, bounds='%d value(s), %s' % (n, what),
                            functions=['carquet_encode_plain_' + TYPES[t].replace('flba', 'fixed_byte_array'),
                                       'carquet_decode_plain_' + TYPES[t].replace('flba', 'fixed_byte_array'), 'carquet_decode_plain',
                                       'carquet_buffer_append', 'carquet_buffer_advance']), props))
    for n in ([0, 1, 7, 8, 9, 16, 17] if quick else range(0, 18)):
        add(0, n, 1)
    for t in (1, 2, 3, 4, 5):
        for n in ([0, 1, 3] if quick else [0, 1, 2, 3, 5]):
            add(t, n, 1)
    for n, w in ([(0, 3), (2, 3), (3, 2)] if quick else [(0, 3), (1, 3), (2, 3), (3, 3)]):
        add(6, n, w)
    for n, w in ([(0, 3), (2, 3), (3, 16)] if quick else [(0, 3), (1, 1), (2, 3), (3, 16), (5, 5)]):
        add(7, n, w)
    return o


RLE_SRC = ['src/encoding/rle.c', 'src/core/bitpack.c', 'src/core/buffer.c']
RLE_FN = ['carquet_rle_encoder_init', 'carquet_rle_encoder_put', 'carquet_rle_encoder_flush', 'flush_rle', 'flush_bitpack', 'write_varint',
          'carquet_bitpack8_32', 'carquet_buffer_append']


def rle_cap(n, bw):
    return (n // 8 + 3) * (bw + 1) + (n // 8 + 1) * 6 + 12


def rle(tier):
    quick = tier == 'quick'
    H = 'harness/e1/c11_rle.c'
    o = []
    both = ('C11', 'C12')
    def one(mode, bw, n, r=0, to=300):
        tot = n + r
        nm = {1: 'rle/encode_all', 2: 'rle/put_repeat', 3: 'rle/levels', 4: 'rle/levels-prefixed'}[mode] + ('/bw%d/n%d' % (bw, n) if mode != 4 else '/n%d' % n) + ('r%d' % r if mode == 2 else '')
        d = ['-DMODE=%d' % mode, '-DVBW=%d' % bw, '-DVN=%d' % n, '-DVR=%d' % r, '-DBUFCAP=%d' % rle_cap(tot, bw)]
        src = RLE_SRC if mode != 4 else ['src/core/buffer.c']
        fn = RLE_FN + {1: ['carquet_rle_encode_all'], 2: ['carquet_rle_encoder_put_repeat'], 3: ['carquet_rle_encode_levels'],
                       4: ['carquet_rle_encode_all', 'page_writer.c:encode_levels']}[mode]
        us = {'write_varint.0': 6, 'flush_rle.0': 5, 'flush_bitpack.0': 9, 'flush_bitpack.1': 2, 'emit_pending_run.0': 9, 'emit_pending_run.1': 9,
              'carquet_rle_encode_all.0': tot + 2, 'carquet_rle_encode_levels.0': tot + 2,
              'carquet_rle_encoder_put_repeat.0': r + 2, 'encode_levels.0': tot + 2,
              'ref_rle_decode_core.0': tot + 2, 'ref_rle_decode_core.1': tot + 2, 'ref_rle_decode_core.2': tot + 2, 'ref_rle_decode_core.3': tot + 2,
              'ref_uleb32_read.0': 6, 'ref_load_le.0': 5, 'memcpy.0': max(tot * 4, 33) + 1, 'ref_get_bits_lsb.0': bw + 2}
        o.append(tag(E1(nm, H, src, d, unwind=max(tot, 33) + 3, unwindset=us, backends=('minisat', 'kissat'), timeout=to, models=True, ref=['ref_rle.c'], exclude='F-RLE-PAD',
                        includes_source=['src/writer/page_writer.c'] if mode == 4 else [],
                        stubs=['carquet_rle_encode_all: function summary (records levels and bit width, appends an arbitrary 0..6-byte blob); the real encoder is the subject of rle/encode_all, rle/inductive'] if mode == 4 else [],
                        bounds=('%d level(s), every max_level 1..32767, every level <= max_level; 4-byte prefix and bit width of the data-page-v1 level block' % tot) if mode == 4 else
                               ('bit width %d, %d values, every value < 2^%d, every run structure; compared with the reference hybrid decoder' % (bw, tot, bw) +
                                '; C11 for this family = this obligation composed with the E2 obligation "carquet decoder == reference decoder on every stream"'),
                        functions=fn), both))
    # end-to-end runs for small n (the inductive obligations of rle_step cover every n; these tie them to the public entry points)
    if quick:
        for bw in (1, 3, 8):
            for n in (0, 1, 2, 4):
                one(1, bw, n)
        one(2, 3, 2, r=2); one(3, 1, 4); one(3, 2, 2); one(4, 1, 0); one(4, 1, 3)
    else:
        for bw in (0, 1, 2, 3, 7, 8, 9, 16, 31, 32):
            # measured (loaded machine): n=8/9 at widths 0/1: 150-180 s; bw3 n=10: no verdict in 900 s; bw16/31 n=8: CBMC runs out of
            # memory.  The inductive obligations (rle_step) are what covers longer sequences.
            for n in ((0, 1, 2, 3, 4, 5, 6, 8, 9) if bw in (1, 3, 8) else (0, 1, 2, 4)):
                one(1, bw, n, to=900)
        for bw, n, r in ((3, 2, 2), (1, 0, 9)):
            one(2, bw, n, r=r, to=900)
        for bw, n in ((1, 0), (1, 4), (1, 9), (2, 5), (16, 3)):
            one(3, bw, n, to=900)
        for n in (0, 1, 3, 9):
            one(4, 1, n)
    return o


def bitpack(tier):
    quick = tier == 'quick'
    H = 'harness/e1/c11_bitpack.c'
    SRC = ['src/core/bitpack.c']
    o = []
    both = ('C11', 'C12')
    def one(mode, bw, n, props=both, exclude=None):
        nm = {2: 'bitpack/unpack_32', 3: 'bitpack/pack_unpack_32', 4: 'bitpack/kernels8', 5: 'bitpack/bit_writer', 6: 'bitpack/bit_reader',
              7: 'bitpack/bits64', 8: 'bitpack/single_bits'}[mode] + '/bw%d' % bw + ('/n%d' % n if mode != 4 else '')
        fn = {2: ['carquet_bitunpack_32', 'carquet_bitunpack8_32'], 3: ['carquet_bitpack_32', 'carquet_bitpack8_32', 'carquet_bitunpack_32', 'carquet_bitunpack8_32'],
              4: ['carquet_bitpack8_32', 'carquet_bitunpack8_32', 'carquet_get_bitunpack8_fn', 'carquet_bitunpack8_%dbit' % bw if 1 <= bw <= 8 else 'carquet_get_bitpack8_fn'],
              5: ['carquet_bit_writer_init', 'carquet_bit_writer_write_bits', 'carquet_bit_writer_flush', 'flush_buffer'],
              6: ['carquet_bit_reader_init', 'carquet_bit_reader_read_bits', 'refill_buffer', 'carquet_bit_reader_has_more', 'carquet_bit_reader_remaining_bits'],
              7: ['carquet_bit_writer_write_bits64', 'carquet_bit_reader_read_bits64'], 8: ['carquet_bit_writer_write_bit', 'carquet_bit_reader_read_bit']}[mode]
        what = {2: 'ANY %d input bytes' % ((n * bw + 7) // 8), 6: 'ANY %d input bytes' % ((n * bw + 7) // 8)}.get(mode, 'every 32-bit value (masked to the width by the packer)')
        o.append(tag(E1(nm, H, SRC, ['-DMODE=%d' % mode, '-DVBW=%d' % bw, '-DVN=%d' % n], unwind=max(n, 8, bw, (n * bw + 7) // 8) + 3, backends=('minisat',), timeout=120,
                        ref=['ref_rle.c'], exclude=exclude, stub_realloc=False,
                        bounds='bit width %d, %d value(s), %s; input/output objects of exactly ceil(n*bw/8) bytes' % (bw, 8 if mode == 4 else n, what), functions=fn), props))
    if quick:
        bws = [0, 1, 3, 8, 9, 31, 32]; ns = [0, 1, 7, 9, 17]
    else:
        bws = list(range(0, 33)); ns = list(range(0, 18))
    for bw in bws:
        for n in ns:
            one(3, bw, n, exclude='F-PACK-TAIL')
            one(2, bw, n, props=('C12',), exclude='F-UNPACK-TAIL')
    for bw in ([0, 1, 5, 8, 13, 32] if quick else range(0, 33)):      # the mini-block call of the delta encoder: 32 values
        one(3, bw, 32, exclude='F-PACK-TAIL')
    for bw in ([0, 1, 2, 3, 4, 5, 6, 7, 8, 9, 16, 31, 32] if quick else range(0, 33)):
        one(4, bw, 8)
    for bw in (bws if quick else range(0, 33)):
        for n in ([4, 9] if quick else [0, 1, 2, 3, 4, 5, 9, 17]):
            one(5, bw, n, exclude='F-BITWRITER-WIDE')
            one(6, bw, n)
    for bw in ([0, 1, 32, 33, 47, 64] if quick else [0, 1, 31, 32, 33, 40, 47, 56, 63, 64]):
        for n in ([1, 3] if quick else [1, 2, 3, 5]):
            one(7, bw, n, exclude='F-BITWRITER-WIDE')
    for n in ([0, 9, 17] if quick else [0, 1, 7, 8, 9, 17, 57, 65]):
        one(8, 1, n)
    return o


def delta(tier):
    quick = tier == 'quick'
    H = 'harness/e1/c11_delta.c'
    SRC = ['src/encoding/delta.c', 'src/core/bitpack.c']
    o = []
    both = ('C11', 'C12')
    def one(t, n, wide=None, to=300, be=ALL):
        wide = n if wide is None else wide
        nd = max(n - 1, 0); nblocks = (nd + 127) // 128
        nm = 'delta/int%d/enc-ref/n%d' % (t, n) + ('' if wide >= n else 'wide%d' % wide)
        us = {'write_uleb128.0': 11, 'bit_width_required.0': 66, 'ref_uleb_read.0': 11, 'ref_get_bits_lsb.0': t + 2, 'bits_needed.0': 66,
              'ref_delta_decode_core.2': nblocks + 1, 'ref_delta_decode_core.1': min(4, (nd + 31) // 32) + 1, 'ref_delta_decode_core.0': min(32, nd) + 1, 'carquet_bitpack8_32.1': 5,
              'delta_encoder_flush_block.5': 10, 'delta_encoder_flush_block.7': 10}
        o.append(tag(E1(nm, H, SRC, ['-DMODE=1', '-DVT=%d' % t, '-DVN=%d' % n, '-DVWIDE=%d' % wide], unwind=max(n, 33) + 3, unwindset=us, backends=be, timeout=to,
                        ref=['ref_delta.c', 'ref_rle.c'], exclude='F-DELTA-WIDE' if n >= 3 else ('F-DELTA-EMPTY' if n == 0 else None), stub_realloc=False,
                        bounds='%d int%d value(s): %s; wrap-around deltas, INT_MIN/INT_MAX and 33..64-bit deltas included; destination = exact-size object; '
                               'C11 for this family = this obligation composed with the E2 obligation on carquet_delta_decode_int%d' %
                               (n, t, 'every value arbitrary' if wide >= n else '%d positions arbitrary (first, last, evenly spread), the others previous + symbolic int8 step' % wide, t),
                        functions=['carquet_delta_encode_int%d' % t, 'delta_encoder_flush_block', 'write_uleb128', 'zigzag_encode64', 'bit_width_required', 'carquet_bitpack_32', 'carquet_bitpack8_32']), both))
    o.append(tag(E1('delta/helpers', H, ['src/core/bitpack.c'], ['-DMODE=2', '-DINCLUDE_IMPL', '-DVT=64', '-DVN=1'], unwind=67, backends=ALL, timeout=200,
                    includes_source=['src/encoding/delta.c'], ref=['ref_rle.c'], stub_realloc=False,
                    bounds='every 64-bit argument', functions=['write_uleb128', 'zigzag_encode64', 'bit_width_required']), both))
    # whole encoder: the mini-block bodies are written at symbolic offsets with symbolic widths, which CBMC flattens into very
    # large formulas (n=2: 4M variables / 21M clauses, kissat ~5 min on a loaded machine, cvc5/z3 no verdict in 600 s).
    # quick: n = 0, 1 (header only); thorough: n = 2 (3-6 min; a single delta, so every width is 0) and n = 3 (the first size
    # with a non-trivial mini-block: 20-30 min per obligation on a loaded machine, kissat only).  Longer sequences, block
    # boundaries (n = 32, 33, 129, 130) and the decoder are left to E2.
    for t in (32, 64):
        for n in ([0, 1] if quick else ([0, 1, 2, 3] if t == 64 else [0, 1, 2])):
            one(t, n, to=200 if n < 2 else (900 if n == 2 else 2400), be=ALL if n < 2 else ('kissat',))
    return o


def bss(tier):
    quick = tier == 'quick'
    H = 'harness/e1/c11_bss.c'
    SRC = ['src/encoding/byte_stream_split.c', 'src/simd/dispatch.c']
    SIMD = ['src/simd/x86/sse_ops.c', 'src/simd/x86/avx2_ops.c', 'src/simd/x86/avx512_ops.c']
    o = []
    def one(kind, n, mode, w=3, simd=False):
        mn, props = MODES[mode]
        kn = {0: 'float', 1: 'double', 2: 'w%d' % w}[kind]
        width = {0: 4, 1: 8, 2: w}[kind]
        nm = 'bss/%s/%s/n%d' % (kn, mn, n) + ('/anycpu' if simd else '')
        fn = {0: ['carquet_byte_stream_split_encode_float', 'carquet_byte_stream_split_decode_float', 'carquet_dispatch_byte_split_encode_float',
                  'carquet_dispatch_byte_split_decode_float', 'carquet_simd_dispatch_init', 'scalar_byte_split_encode_float', 'scalar_byte_split_decode_float'],
              1: ['carquet_byte_stream_split_encode_double', 'carquet_byte_stream_split_decode_double', 'carquet_dispatch_byte_split_encode_double',
                  'carquet_dispatch_byte_split_decode_double', 'carquet_simd_dispatch_init', 'scalar_byte_split_encode_double', 'scalar_byte_split_decode_double'],
              2: ['carquet_byte_stream_split_encode', 'carquet_byte_stream_split_decode']}[kind]
        if simd:
            fn = fn + ['carquet_{sse,avx2,avx512}_byte_stream_split_{encode,decode}_{float,double}']
        o.append(tag(E1(nm, H, SRC + (SIMD if simd else []), ['-DMODE=%d' % mode, '-DVKIND=%d' % kind, '-DVN=%d' % n, '-DVW=%d' % w] + (['-DCPU_SYMBOLIC'] if simd else []),
                        unwind=max(n * width, 16) + 3, backends=('minisat', 'kissat'), timeout=120 if not simd else 400, models=simd,
                        ref=['ref_plain_bss.c', 'ref_rle.c'], stub_realloc=False,
                        stubs=['carquet_get_cpu_info: ' + ('every x86 feature bit symbolic (dispatcher may pick any of its scalar/SSE4.2/AVX2/AVX-512 kernels)' if simd
                                                           else 'no SIMD feature -> dispatcher selects its scalar kernels')],
                        bounds='%d value(s) of %d bytes, every byte value (floats as raw bits, NaN payloads included); exact-size objects' % (n, width), functions=fn), props))
    for kind in (0, 1):
        for n in ([0, 1, 4, 9] if quick else range(0, 10)):
            for m in (1, 2, 3):
                one(kind, n, m)
    for kind in (0, 1):
        for n in ([9] if quick else [0, 1, 4, 8, 9, 16, 17]):
            for m in ((3,) if quick else (1, 2)):
                one(kind, n, m, simd=True)
    for w, n in ([(1, 3), (3, 5), (16, 2)] if quick else [(1, 0), (1, 3), (2, 9), (3, 5), (12, 3), (16, 2)]):
        for m in (1, 2, 3):
            one(2, n, m, w)
    return o


def rle_step(tier):
    """inductive obligations of the hybrid RLE encoder: every length / run structure (see harness/e1/c11_rle_step.c)"""
    quick = tier == 'quick'
    H = 'harness/e1/c11_rle_step.c'
    o = []
    both = ('C11', 'C12')
    for bw in ([1, 3, 8] if quick else [0, 1, 2, 3, 7, 8, 9, 16, 31, 32]):
        cap = 2 * (bw + 1) + 18
        for mode, nm in ((1, 'step-put'), (2, 'flush'), (3, 'init'), (4, 'buffer-append')):
            if mode == 4 and bw != (1 if quick else 0):
                continue
            us = {'write_varint.0': 6, 'flush_rle.0': 5, 'flush_bitpack.0': 9, 'flush_bitpack.1': 2, 'emit_pending_run.0': 9, 'emit_pending_run.1': 9,
                  'ref_uleb32_read.0': 6, 'ref_get_bits_lsb.0': bw + 2, 'parse_runs.0': 6}
            o.append(tag(E1('rle/inductive/%s/bw%d' % (nm, bw) if mode != 4 else 'rle/inductive/buffer-append', H, RLE_SRC,
                            ['-DMODE=%d' % mode, '-DVBW=%d' % bw, '-DBUFCAP=%d' % cap], unwind=max(cap, 33) + 3, unwindset=us, backends=('minisat', 'kissat'), timeout=400 if quick else 1200,
                            models=True, ref=['ref_rle.c'], exclude='F-RLE-PAD',
                            assumptions=['RLE format grammar: the values of a concatenation of complete runs are the concatenation of the values of the runs',
                                         'run lengths below 2^31 (the run header is written as a 32-bit varint)'],
                            bounds='bit width %d; ANY encoder state satisfying the invariant (0..7 literals pending, pending run of 1..2^31-2 copies), any next value; '
                                   'by induction: every sequence length and run structure' % bw,
                            functions=RLE_FN + ['emit_pending_run', 'encoder_append']), both))
    return o


def strings(tier):
    quick = tier == 'quick'
    H = 'harness/e1/c11_strings.c'
    o = []
    both = ('C11', 'C12')
    def one(kind, n, w, fail=False):
        kn = {0: 'delta-length', 1: 'delta-byte-array'}[kind]
        nm = 'strings/%s/n%d' % (kn, n) + ('w%d' % w if n else '') + ('/int-encoder-fails' if fail else '')
        src = ['src/encoding/delta_length.c' if kind == 0 else 'src/encoding/delta_strings.c', 'src/core/buffer.c']
        o.append(tag(E1(nm, H, src, ['-DVKIND=%d' % kind, '-DVN=%d' % n, '-DVW=%d' % w, '-DBUFCAP=%d' % (n * w + 12)] + (['-DFAIL'] if fail else []),
                        unwind=max(n, w, 4) + 4, backends=('minisat', 'kissat'), timeout=300, exclude='F-DELTA-EMPTY' if n == 0 else None,
                        stubs=['carquet_delta_encode_int32: function summary (records the int32 array, emits an arbitrary 0..4-byte blob or fails); the real encoder is the subject of delta/* and of E2'],
                        bounds='%d byte array(s), every length vector in 0..%d, every byte value; layout of the stream relative to its DELTA_BINARY_PACKED length streams' % (n, w),
                        functions=['carquet_delta_length_encode'] if kind == 0 else ['carquet_delta_strings_encode', 'common_prefix_length']), both))
    for kind in (0, 1):
        for n, w in ([(0, 3), (1, 3), (3, 3)] if quick else [(0, 3), (1, 3), (2, 3), (3, 3), (4, 2)]):
            one(kind, n, w)
        one(kind, 2, 2, fail=True)
    return o


def dictionary(tier):
    quick = tier == 'quick'
    H = 'harness/e1/c11_dict.c'
    o = []
    both = ('C11', 'C12')
    KN = {0: 'int32', 1: 'int64', 2: 'float', 3: 'double', 4: 'byte_array'}
    def one(kind, n, d, w=2, to=300):
        nm = 'dict/%s/encode/n%dd%d' % (KN[kind], n, d)
        o.append(tag(E1(nm, H, ['src/encoding/dictionary.c', 'src/core/buffer.c'], ['-DMODE=1', '-DVKIND=%d' % kind, '-DVN=%d' % n, '-DVD=%d' % d, '-DVW=%d' % w, '-DBUFCAP=8'],
                        unwind=max(n, 8, w) + 3, unwindset={'dict_builder_add.0': d + 1, 'bit_width_for_count.0': 34, 'dict_builder_destroy.0': d + 2, 'dict_builder_destroy.1': 1026},
                        backends=('minisat', 'kissat', 'cvc5'), timeout=to, ref=['ref_plain_bss.c', 'ref_rle.c'],
                        stubs=['carquet_rle_encode_all: function summary (records indices and bit width, appends an arbitrary 0..4-byte blob); the real encoder is the subject of rle/*'],
                        bounds='%d value(s) drawn from at most %d different %s values (every value, every assignment); dictionary page vs PLAIN reference decoder, '
                               'indices vs first-occurrence order' % (n, d, KN[kind]),
                        functions=['carquet_dictionary_encode_' + KN[kind], 'dict_builder_init', 'dict_builder_add', 'dict_hash', 'bit_width_for_count', 'dict_builder_destroy']), both))
    # n >= 2 (and byte arrays from n = 1): no verdict within 300 s on any back end -- dict_builder_destroy walks all 1024 buckets
    # with symbolic chain pointers.  Left to E2.
    one(0, 0, 1); one(0, 1, 1)
    if not quick:
        one(1, 1, 1, to=600); one(2, 1, 1, to=600); one(3, 1, 1, to=600)
    return o


FAMILIES = [plain, rle, rle_step, bitpack, delta, bss, strings, dictionary]


def table(tier):
    o = []
    for f in FAMILIES:
        o += f(tier)
    return o


def obligations(tier):
    from props import C12_e1          # hybrid RLE / dictionary decoders on concrete layouts live there; the streaming-vs-one-shot
    return [x for x in table(tier) + C12_e1.rle_dec(tier) if 'C11' in x.props]   # and dictionary-decode ones also serve C11
