"""C17 — schema trees map to the right leaf columns and definition / repetition levels."""
from e2 import E2
FILES = ['src/reader/file_reader.c', 'src/metadata/schema.c', 'src/thrift/parquet_types.c', 'src/reader/reader_internal.h', 'src/writer/file_writer.c']
BUDGET = {'quick': 840, 'thorough': 3600}
H = 'harness/e2/c17_schema.c'
REF = ['ref_parquet_write.c', 'ref_parquet_read.c', 'ref_parquet_meta.c', 'ref_thrift.c', 'ref_rle.c', 'ref_snappy.c', 'ref_lz4.c', 'ref_hash.c', 'ref_plain_bss.c']
REFDEFS = ['-DREF_MAX_ROW_GROUPS=1', '-DREF_MAX_COLUMNS=7', '-DREF_MAX_PAGES=1', '-DREF_MAX_SCHEMA=8', '-DREF_MAX_VALUES=8', '-DREF_MAX_PAGE_BYTES=128', '-DREF_MAX_DICT=1', '-DREF_MAX_KV=1']
STUBS_R = ['cpuid: no SIMD features (scalar dispatch)', 'file produced in the same path by the independent reference writer (ref_pq_write); tree predicate and level rule by ref_pq_analyze_schema / ref_pq_leaf_levels, cross-checked by a recursion in the harness']
STUBS_B = ['stdio: in-memory model file system', 'cpuid: no SIMD features (scalar dispatch)']
FIND = 'F-SCHEMA-NODE-LEVELS'


def tree(n, rows=0, thrift=0, levels_only=0, timeout=900, exclude=FIND, tag='', rootkids=0, symtypes=None, kid1=None):
    if symtypes is None: symtypes = 0 if rows else 1
    if rootkids: tag += '/root%s%d' % ('=' if rootkids > 0 else '>=', abs(rootkids))
    if kid1: tag += '/n1kids%d-%d' % kid1
    if not symtypes and not rows: tag += '/types-fixed'
    nm = 'reader/tree-n%d%s%s%s%s' % (n, '/pages' if rows else '', '/thrift' if thrift else '', '/level-accessors' if levels_only else '', tag)
    d = ['-DVS_MODE=1', '-DVS_N=%d' % n, '-DVS_ROWS=%d' % rows, '-DVS_THRIFT=%d' % thrift, '-DVS_LEVELS_ONLY=%d' % levels_only, '-DVS_ROOTKIDS=%d' % rootkids, '-DVS_SYMTYPES=%d' % symtypes] + (['-DVS_KID1_MIN=%d' % kid1[0], '-DVS_KID1_MAX=%d' % kid1[1]] if kid1 else []) + REFDEFS
    b = ('every depth-first element list of %d nodes (root + %d) that encodes a tree: num_children of every node symbolic 0..%d (all ordered tree shapes, depth <= %d), repetition of every non-root node symbolic in '
         '{REQUIRED, OPTIONAL, REPEATED}%s, root with and without repetition_type (n < 6), %s, type_length symbolic 1..60, STRING / DECIMAL logical types at fixed positions%s; %s; checked: %s'
         % (n, n - 1, n - 1, n - 1, ((' [this obligation: trees whose root has %s %d children' % ('exactly' if rootkids > 0 else 'at least', abs(rootkids))) + ((' and whose element 1 has %d..%d children' % kid1) if kid1 else '') + ']') if rootkids else '',
            'physical type of every leaf symbolic 0..7' if symtypes else 'physical types a fixed mix by position (all eight occur)',
            ', long-form field headers and unknown fields in SchemaElement' if thrift else '',
            'one row group of 2 records, every chunk one page of 2..3 levels written with the textbook maxima' if rows else 'no row group',
            'the level accessors only' if levels_only else 'leaf count and order, find_column, element accessors (name, is_leaf, type, repetition, type length, logical type)' +
            (', and every column reader returns the stored levels and values (decodes with the textbook maxima)' if rows else '')))
    return E2(nm, H, defines=d, all_lib=True, ref=REF, timeout=timeout, stubs=STUBS_R, bounds=b, exclude=None if levels_only else exclude, max_paths=400000, fork_max=8)


def builder(ncols, nsymrep=3, timeout=900, exclude=FIND):
    nm = 'builder/flat-n%d' % ncols
    d = ['-DVS_MODE=2', '-DVS_NCOLS=%d' % ncols, '-DVS_NSYMREP=%d' % nsymrep]
    b = ('carquet_schema_create + %d x carquet_schema_add_column (initial capacity 64 elements incl. root%s), names c0..; repetition symbolic at %d position(s) (first / middle / last), physical type of the last '
         'column symbolic 0..7, other columns a fixed mix; the schema is then written by the real writer with zero rows and re-opened; builder-side and reader-side reports compared with the description'
         % (ncols, '' if ncols < 64 else ', grown %s' % ('once' if ncols < 128 else 'twice'), min(nsymrep, 3 if ncols >= 3 else ncols)))
    return E2(nm, H, defines=d, all_lib=True, timeout=timeout, stubs=STUBS_B, bounds=b, exclude=exclude, leaks=False, max_paths=100000)


def evidence_extra(tier):
    return {'outside_the_bounds': [
        'trees with more than %d nodes (depth > %d)' % ((6, 5) if tier == 'quick' else (7, 6)),
        'the maximum levels AS USED by the column readers are observed only where a row group exists (reader/tree-n*/pages, n <= %d): the public accessors do not expose them (open finding F-SCHEMA-NODE-LEVELS)' % (5 if tier == 'quick' else 6),
        'duplicate leaf names in different groups and dotted-path lookup ("a.b.v"): carquet_schema_find_column compares leaf names only although its documentation promises dot-separated paths (names are distinct here)',
        'builder: more than 130 columns; nested shapes (carquet_schema_add_group only attaches to the root and later columns do not become its children)',
        'allocation failures inside the builder (C19)'],
        'engine': 'E2/symx'}


def obligations(tier):
    q = tier == 'quick'
    o = []
    for n in [1, 2, 3, 4, 5]:
        o.append(tree(n))
    # 6 nodes: 42 tree shapes x 3^5 labelings, split by the number of children of the root
    for k in (1, 2, -3):
        o.append(tree(6, rootkids=k, symtypes=0 if q else 1, timeout=1400 if q else 3000))
    if not q:
        # 7 nodes: 132 shapes x 3^6 labelings
        for k, k1 in [(1, (1, 1)), (1, (2, 2)), (1, (3, 6)), (2, (0, 0)), (2, (1, 1)), (2, (2, 6)), (3, None), (-4, None)]:
            o.append(tree(7, rootkids=k, kid1=k1, symtypes=0, timeout=3400))
        o.append(tree(6, rows=1, timeout=3400))
    o.append(tree(4, rows=1))
    o.append(tree(5, rows=1, thrift=1))
    o.append(tree(4, levels_only=1))
    for n in [0, 1, 2, 63, 64, 65, 130]:
        o.append(builder(n))
    o.append(E2('builder/levels-as-used', H, defines=['-DVS_MODE=3'], all_lib=True, timeout=600, stubs=STUBS_B,
                bounds='flat schema built through the builder: column x INT32 with symbolic repetition + REQUIRED id; 2..3 records with levels written through the real writer and read back'))
    o.append(E2('builder/add-group', H, defines=['-DVS_MODE=4'], all_lib=True, timeout=600, stubs=STUBS_B,
                bounds='carquet_schema_add_group with symbolic parent index -2..3 and symbolic repetition after one add_column'))
    return o
