"""C13 -- E1 half only for now (props/C13_e1.py); the E2 obligations are merged in here later."""
from props.C13_e1 import *
from props import C13_e1 as _e1


def obligations(tier):
    return _e1.obligations(tier)
