"""C13 — Thrift metadata round-trips and is genuine compact protocol.
E1 half (props/C13_e1.py, CBMC): leaf codec (varint/zigzag/field and list headers/binary) against the independent reference codec.
E2 half (props/C13_e2.py, symx): FileMetaData / PageHeader write -> parse field by field, write -> independent decoder, independent encoder
(incl. unknown fields of every wire type, long-form headers) -> carquet parser."""
from props import C13_e1 as _e1, C13_e2 as _e2
FILES = sorted(set(_e1.FILES) | set(_e2.FILES))
BUDGET = {'quick': 840, 'thorough': 3600}


def obligations(tier):
    return _e1.obligations(tier) + _e2.obligations(tier)


def evidence_extra(tier):
    out = {}
    for m in (_e1, _e2):
        for k, v in (getattr(m, 'evidence_extra', lambda t: {})(tier) or {}).items():
            if isinstance(v, list) and isinstance(out.get(k), list):
                out[k] = out[k] + v
            elif isinstance(v, dict) and isinstance(out.get(k), dict):
                out[k].update(v)
            else:
                out.setdefault(k, v)
    return out
