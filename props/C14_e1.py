"""C14 (E1 half) — carquet_crc32 / carquet_crc32_update == IEEE 802.3 CRC-32, for every input, length and alignment;
incremental updates compose.  Lemma decomposition of DESIGN §C14 (the monolithic equivalence for >= 8 bytes gives no
verdict on any back end)."""
from e1 import E1
FILES = ['src/util/crc32.c']
BUDGET = {'quick': 900, 'thorough': 4500}
H = 'harness/e1/c14_crc.c'
INC = ['src/util/crc32.c']
FN = ['crc32_init_tables', 'crc32_slicing_by_8', 'carquet_crc32', 'carquet_crc32_update']
# loops of the real initialiser (CBMC numbers inner loops first): .0 j<8, .1 i<256, .2 i<256, .3 k=1..7
INIT_UW = {'crc32_init_tables.0': 9, 'crc32_init_tables.1': 257, 'crc32_init_tables.2': 257, 'crc32_init_tables.3': 8}
SAT = ('kissat', 'minisat')   # measured: kissat or minisat win everywhere except the structural L5 runs (cvc5)
LINEARITY = ('extension from the checked lanes to arbitrary 8 data bytes is by GF(2)-linearity: the slicing step is the XOR of table '
             'look-ups at (data ^ crc) bytes, each table linear (L2) and equal to its bitwise definition (L1); the bitwise register '
             'transition is linear in (register, data) -- this last step is a written argument, not a solver result')


def _e(name, defs, uw, bounds, timeout=240, backends=SAT, fn=FN, extra=('--arrays-uf-always',)):
    u = dict(INIT_UW); u.update(uw)
    return E1(name, H, [], defs, unwindset=u, unwind=26, backends=backends, timeout=timeout, includes_source=INC, extra_cbmc=list(extra),
              bounds=bounds, functions=fn, stub_realloc=False)


def obligations(tier):
    quick = tier == 'quick'
    o = []
    # L1: all 8 x 256 entries, one obligation per table (256 assertions each), the real init evaluated concretely
    for k in range(8):
        o.append(_e('L1-table-entries/T%d' % k, ['-DMODE=1', '-DK=%d' % k], {'harness.0': 257, 'o_table_entry.0': 8},
                    'all 256 entries of table %d after the real crc32_init_tables() == register after byte i and %d zero bytes (bitwise)' % (k, k),
                    fn=['crc32_init_tables'], timeout=120))
    # L2: linearity per table
    for k in range(8):
        o.append(_e('L2-table-linear/T%d' % k, ['-DMODE=2', '-DK=%d' % k], {}, timeout=120,
                    bounds='table %d after the real init: T[a^b] == T[a]^T[b] for every pair of bytes a,b; T[0] == 0' % k, fn=['crc32_init_tables']))
    # L3: tail path, every length 0..7, every incoming crc; alignment = buffer offset 0..7 inside an exact-size heap object
    for ln in range(8):
        offs = range(8) if not quick else {7: [0, 3]}.get(ln, [0])
        for off in offs:
            o.append(_e('L3-tail/len%d/off%d' % (ln, off), ['-DMODE=3', '-DLEN=%d' % ln, '-DOFF=%d' % off], {}, timeout=400,
                        bounds='length %d at offset %d of an exact-size heap object, every byte value, every 32-bit incoming crc' % (ln, off)))
    # L4 (B): the 8-byte step equals eight bitwise byte steps on each of the 12 single lanes (4 register bytes, 8 data bytes)
    for off in range(8):
        o.append(_e('L4-lanes/off%d' % off, ['-DMODE=11', '-DOFF=%d' % off], {'harness.0': 13}, timeout=200,
                    bounds='one 8-byte block at offset %d; one symbolic byte in one lane of (incoming register, data), the other 11 lanes zero; all 12 lanes. %s' % (off, LINEARITY)))
    # L4': two (quick: a few pairs; thorough: all 66 pairs) symbolic lanes directly; three lanes give no verdict in 150 s
    lanes = [(1 << i, 0) for i in range(8)] + [(0, 1 << j) for j in range(4)]
    pairs = [(a[0] | b[0], a[1] | b[1]) for i, a in enumerate(lanes) for b in lanes[i + 1:]]
    if quick:
        pairs = [(3, 0), (0x30, 0), (0x81, 0), (0, 3), (0x80, 8), (1, 1)]
    for dl, rl in pairs:
        o.append(_e('L4-two-lanes/d%02x-r%x' % (dl, rl), ['-DMODE=4', '-DLANES=%d' % dl, '-DREGLANES=%d' % rl], {}, timeout=300,
                    bounds='one 8-byte block; data bytes in mask 0x%02x and incoming-register bytes in mask 0x%x symbolic, the others zero' % (dl, rl)))
    # L4 (A): the real step is additive over GF(2); (C): so is the bitwise transition.  With (B): real == bitwise for ALL
    # (register, 8 data bytes): v = XOR of its 12 lane components e_i, F(v) = XOR F(e_i) by (A), G(v) = XOR G(e_i) by (C), F(e_i) = G(e_i) by (B).
    o.append(_e('L4-step-additive', ['-DMODE=8'], {}, timeout=900, backends=('kissat', 'cadical'),
                bounds='real 8-byte step raw(v^e) == raw(v)^raw(e) for every pair of (32-bit register, 8 data bytes), all 192 bits symbolic'))
    if not quick:
        for x in range(12):
            o.append(_e('L4-step-additive/lane%d' % x, ['-DMODE=8', '-DXLANE=%d' % x], {}, timeout=400,
                        bounds='real 8-byte step raw(v^e) == raw(v)^raw(e), v all 96 bits symbolic, e one symbolic byte in lane %d' % x))
    o.append(_e('L4-reference-additive', ['-DMODE=9'], {}, timeout=600, backends=('kissat', 'cadical'),
                bounds='bitwise 8-byte register transition is additive over GF(2) in (register, data), all 192 bits symbolic', fn=[]))
    # L5: composition.  The reference composes (trivially); direct runs of the real code: every (|a|,|b|) with |a|+|b| <= 7 all bytes symbolic;
    # |a|+|b| >= 8 makes crc(a||b) take the 8-byte step against two tail runs: all-symbolic gives no verdict in 200 s, two symbolic bytes do.
    o.append(_e('L5-reference-composes', ['-DMODE=10', '-DLA=7', '-DLB=7'], {}, timeout=120, fn=[],
                bounds='bitwise reference: update(crc(a), b) == crc(a||b), |a| = |b| = 7, all bytes symbolic'))
    short = [(a, b) for a in range(8) for b in range(8) if a + b <= 7]
    if quick:
        short = [(0, 0), (1, 2), (3, 4), (0, 7), (7, 0)]
    for la, lb in short:
        o.append(_e('L5-compose/a%d-b%d' % (la, lb), ['-DMODE=5', '-DLA=%d' % la, '-DLB=%d' % lb], {}, timeout=400, backends=('cvc5', 'kissat'),
                    bounds='update(crc(a), b) == crc(a||b), crc(a) == update(0,a), update(c, empty) == c; |a|=%d, |b|=%d, every byte symbolic' % (la, lb)))
    long_ = [(a, b) for a in range(1, 8) for b in range(1, 8) if a + b >= 8] + [(8, b) for b in range(0, 4)]
    if quick:
        long_ = [(7, 7), (8, 3), (4, 4)]
    for la, lb in long_:
        mask = (1 << (la - 1)) | (1 << (la + lb - 1)) if lb else (1 << (la - 1)) | 1
        o.append(_e('L5-compose-sparse/a%d-b%d' % (la, lb), ['-DMODE=5', '-DLA=%d' % la, '-DLB=%d' % lb, '-DSYMMASK=0x%x' % mask, '-DORACLE'], {}, timeout=400,
                    backends=('kissat', 'minisat'),
                    bounds='as L5-compose plus == reference CRC of a||b; |a|=%d, |b|=%d; two symbolic bytes (mask 0x%x of a||b), the others fixed constants' % (la, lb, mask)))
    # monolithic: carquet_crc32 on every byte string of length 0..7 (8..12 attempted: no verdict, see OUTSIDE)
    for ln in ([0, 1, 7] if quick else range(8)):
        for off in ([0] if quick or ln == 0 else [0, 1, 2, 3, 4, 5, 6, 7]):
            o.append(_e('mono/len%d/off%d' % (ln, off), ['-DMODE=6', '-DLEN=%d' % ln, '-DOFF=%d' % off], {}, timeout=400,
                        bounds='carquet_crc32 == reference on every byte string of length %d at offset %d' % (ln, off)))
    # loop wiring beyond one block: lengths 8..24 with two symbolic bytes, the rest fixed constants
    wiring = [(17, 0x10400, 1)] if quick else [(8, 0x81, 0), (9, 0x101, 2), (15, 0x4080, 7), (16, 0x8001, 0), (16, 0x180, 4), (17, 0x10400, 1), (23, 0x400001, 5), (24, 0x800002, 3), (24, 0x18000, 6)]
    for ln, mask, off in wiring:
        o.append(_e('mono-sparse/len%d/m%x/off%d' % (ln, mask, off), ['-DMODE=6', '-DLEN=%d' % ln, '-DOFF=%d' % off, '-DSYMMASK=0x%x' % mask], {}, timeout=400,
                    bounds='carquet_crc32 == reference, length %d at offset %d (%d block(s) + %d tail bytes), two symbolic bytes (mask 0x%x), the others fixed constants' % (ln, off, ln // 8, ln % 8, mask)))
    o.append(_e('lazy-init', ['-DMODE=7', '-DLEN=3'], {}, timeout=300,
                bounds='first call fills the tables, second call leaves them unchanged and returns the same value; check value CRC("123456789") == 0xCBF43926'))
    for x in o:
        x.assumptions = ['crc32_tables_initialized is volatile: treated as ordinary memory (single thread); concurrent first calls are outside',
                         'x86-64 build: the ARM hardware CRC path (#if __aarch64__) is not compiled']
    return o


# attempted under a 150-200 s cap on kissat, cadical, minisat, cvc5, z3 without a verdict -> not claimed
OUTSIDE = ['monolithic carquet_crc32 == reference with all bytes symbolic for length >= 8 (tried 8, 9, 12)',
           'one 8-byte step with >= 3 symbolic lanes in one query (covered instead by additivity (A)+(C) and the single lanes (B))',
           'update(crc(a), b) == crc(a||b) with all bytes symbolic when |a|+|b| >= 8 (two symbolic bytes are checked)',
           'lengths > 24 for the loop wiring (the per-step and tail lemmas hold for any register value, the loop only iterates them)']


def evidence_extra(tier):
    return {'c14_e1_outside': OUTSIDE, 'c14_e1_argument': LINEARITY}
