"""C04 — no input file can make the reader memory-unsafe, hang or leak."""
from e2 import E2
FILES = ['src/reader/file_reader.c', 'src/reader/mmap_reader.c', 'src/reader/page_reader.c', 'src/reader/column_reader.c', 'src/reader/batch_reader.c',
         'src/thrift/thrift_decode.c', 'src/thrift/parquet_types.c', 'src/core/arena.c', 'src/core/error.c']
BUDGET = {'quick': 780, 'thorough': 3600}
H = 'harness/e2/c04_file.c'
STUBS = ['zlib / libzstd: contract stubs (arbitrary status, arbitrary output within the declared capacity)', 'summary: carquet_crc32 = uninterpreted function of the page bytes',
         'stdio and open/fstat/mmap over the in-memory model file system', 'cpuid: no SIMD features (scalar dispatch)', 'snprintf/vsnprintf: writes an empty NUL-terminated string',
         'OpenMP pragmas: sequential schedule of the _OPENMP-enabled code', 'malloc of more than 1 GiB returns NULL']
MODES = {0: 'buffer', 1: 'stdio', 2: 'mmap'}
REG = {0: 'footer', 1: 'data-region'}
HEAVY0_BYTES = (51, 79, 123)   # the chunks' codec bytes
# zigzag 4 / 12 = GZIP / ZSTD: the page then comes out of the zlib / libzstd CONTRACT stub as fully symbolic bytes, i.e. the page
# decoders run on arbitrary content inside the file reader; this does not finish in the quick budget and is a thorough obligation
STUB_CODEC_VALUES = (4, 12)
HEAVY0 = (48, 72, 120)   # footer windows of skeleton 0 that hold dictionary/data page offsets and sizes (path-heavy)


def win(skel, region, w0, nwin, stride, wlen, om, timeout=1700, wslice=None, wvalue=None):
    return E2('window/skel%d/%s/%s/off%d+%dx%d/len%d%s' % (skel, REG[region], MODES[om], w0, nwin, stride, wlen, ('' if wslice is None else '/values%d-%d' % (32 * wslice, 32 * wslice + 31)) + ('' if wvalue is None else '/value%d' % wvalue)), H,
              defines=['-DSKEL=%d' % skel, '-DREGION=%d' % region, '-DW0=%d' % w0, '-DNWIN=%d' % nwin, '-DSTRIDE=%d' % stride, '-DWLEN=%d' % wlen, '-DOPENMODE=%d' % om]
                      + ([] if wslice is None else ['-DWSLICE=%d' % wslice]) + ([] if wvalue is None else ['-DWVALUE=%d' % wvalue]),
              all_lib=True, timeout=timeout, stubs=STUBS, summaries=['crc32'], max_paths=400000, max_steps=1500000, fork_max=16, max_depth=64, validate=3,
              bounds='valid skeleton file %d (real writer); %d window positions (offset %d.., stride %d) in the %s, %d symbolic byte(s) each; open via %s; '
                     'get_column with symbolic row-group/column index in -1..2 / -1..3, read_batch, skip, statistics, batch reader, close; '
                     'step bound 1.5M IR instructions per path, call depth 64' % (skel, nwin, w0, stride, REG[region], wlen, MODES[om]))


def mixed_pages(tier):
    """Spec-valid chunks of the independent reference writer whose data pages switch between PLAIN and dictionary encoding
    (carquet's own writer never emits such chunks, so the window skeletons above cannot reach the page-to-page state of the
    zero-copy / decoded-buffer bookkeeping). The obligations are C06's (harness c06_interop.c); what C04 takes from them is
    the engine's memory-safety, termination and leak verdict on every path."""
    import importlib
    c06 = importlib.import_module('props.C06')
    out = []
    for ob in c06.obligations(tier):
        if ob.name.startswith('read/') and ('PLAIN+' in ob.name or 'DICT+' in ob.name):
            ob.name = 'mixed-pages/' + ob.name[5:]
            out.append(ob)
    # one arbitrary byte anywhere in the pages of reference-writer chunks WITH a dictionary (headers, dictionary page, level and index
    # streams): the window skeletons of the real writer have no dictionary pages. Index bit width 2 with 4 entries and width 1 with 2
    # entries make every masked index legal, so only truncated / lying streams can go wrong (added after seeded C04-dict-index-scan-skipped).
    shapes = [dict(t=2, s=0, nlv=(5,), enc=8, nd=4, ibw=2, il=0), dict(t=1, s=1, nlv=(4,), enc=2, nd=2, ibw=1, il=0)]
    if tier != 'quick':
        shapes += [dict(t=6, s=1, nlv=(3,), enc=8, nd=2, ibw=1, il=0), dict(t=5, s=0, nlv=(3, 2), enc=(8, 0), nd=4, ibw=2, il=0, codec=1),
                   dict(t=7, s=1, nlv=(3,), enc=8, nd=3, ibw=2, il=0), dict(t=3, s=0, nlv=(4,), enc=8, nd=2, ibw=1, il=0, openm=1)]
    # the 4-byte length prefix of the level sections (all 2^32 values at once): nullable and repeated columns, PLAIN and dictionary pages
    # (added after seeded C04-level-length-prefix-wrap / C14-def-prefix-check-before-advance)
    for sh in [dict(t=1, s=1, nlv=(4, 3), il=0), dict(t=2, s=1, nlv=(5,), il=0, openm=1), dict(t=6, s=1, nlv=(3,), enc=8, nd=2, ibw=1, il=0)] + ([] if tier == 'quick' else [dict(t=2, s=1, nlv=(5,), il=0), dict(t=5, s=1, nlv=(2, 2, 2), il=0), dict(t=1, s=1, nlv=(4,), il=0, codec=1), dict(t=1, s=1, nlv=(4,), il=0, openm=1)]):
        out.append(c06.shape(damage=1, damage_prefix=1, timeout=600, max_paths=400000, **sh))
    for sh in shapes:
        if tier == 'quick':
            for d0 in range(0, 96, 4):       # page regions of these shapes are 48..90 bytes long (positions wrap at the footer)
                out.append(c06.shape(damage=4, damage0=d0, timeout=150, max_paths=400000, **sh))
        else:
            for d0 in range(0, 192, 4):      # four positions per obligation
                out.append(c06.shape(damage=4, damage0=d0, timeout=900, max_paths=400000, **sh))
    return out


def obligations(tier):
    q = tier == 'quick'
    o = mixed_pages(tier)
    from props import C08
    sd = C08.skip_depth(); sd.name = 'metadata/' + sd.name     # a footer / page header nesting containers one level per byte (stack exhaustion)
    o.append(sd)
    if q:
        # the quick tier must finish well inside 15 minutes: every second byte position of skeleton 0's footer (every position at the
        # chunks' offset/size/codec fields), every second of the first 48 bytes of the data region (page header + body of the first pages), strided samples for the
        # stdio/mmap paths and skeleton 1; everything else is in the thorough tier
        for w0 in range(0, 192, 8):
            if w0 in HEAVY0:      # windows over the chunk's page offsets: one position per obligation
                for k in range(8):
                    if w0 + k in HEAVY0_BYTES:   # one byte whose values steer the page loaders through the whole file: 8 value-range slices
                        for s in range(1, 8):
                            o.append(win(0, 0, w0 + k, 1, 1, 1, 0, 400, wslice=s))
                        for v in range(32):
                            if v not in STUB_CODEC_VALUES:
                                o.append(win(0, 0, w0 + k, 1, 1, 1, 0, 400, wvalue=v))
                    else:
                        o.append(win(0, 0, w0 + k, 1, 1, 1, 0, 400))
            else:
                o.append(win(0, 0, w0, 4, 2, 1, 0, 400))      # the even positions w0, w0+2, w0+4, w0+6 (the odd ones are in the thorough tier)
        for w0 in range(0, 48, 8):
            o.append(win(0, 1, w0, 4, 2, 1, 0, 400))
        o.append(win(0, 0, 0, 6, 31, 1, 1, 400)); o.append(win(0, 0, 0, 6, 31, 1, 2, 400))
        o.append(win(0, 1, 0, 6, 13, 1, 2, 400))
        o.append(win(1, 0, 0, 8, 29, 1, 0, 400)); o.append(win(1, 1, 0, 8, 11, 1, 0, 400))
    else:
        for b in HEAVY0_BYTES:
            for v in STUB_CODEC_VALUES:
                o.append(win(0, 0, b, 1, 1, 1, 0, 2400, wvalue=v))
        # every byte position of both skeletons (8 per obligation), strided samples through stdio / mmap, 2-byte windows at every
        # third position; the per-obligation caps are sized so that the whole tier fits its 3600 s budget on 16 cores
        for skel in (0, 1):
            for w0 in range(0, 320, 8):
                o.append(win(skel, 0, w0, 8, 1, 1, 0, 1200))
            for w0 in range(0, 208, 8):
                o.append(win(skel, 1, w0, 8, 1, 1, 0, 1200))
            for om in (1, 2):
                for part in range(4):
                    o.append(win(skel, 0, 7 * 8 * part, 8, 7, 1, om, 1200)); o.append(win(skel, 1, 6 * 6 * part, 6, 6, 1, om, 1200))
            for w0 in range(0, 240, 24):
                o.append(win(skel, 0, w0, 4, 3, 2, 0, 1200)); o.append(win(skel, 0, w0 + 12, 4, 3, 2, 0, 1200))
    return o
