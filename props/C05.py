"""C05 — every file the writer reports complete is structurally valid Parquet (independent reference reader)."""
from e2 import E2
from props.C01 import shapes, STUBS, CODECS
FILES = ['src/writer/file_writer.c', 'src/writer/row_group_writer.c', 'src/writer/column_writer.c', 'src/writer/page_writer.c', 'src/thrift/parquet_types.c',
         'src/thrift/thrift_encode.c', 'src/util/crc32.c', 'src/compression/snappy.c', 'src/compression/lz4.c']
BUDGET = {'quick': 840, 'thorough': 3600}


def obligations(tier):
    o = shapes(tier, ref=True)
    # concrete content: stored page CRC == bitwise IEEE CRC-32 of the stored page bytes (no CRC summary in these runs)
    from props.C01 import shape
    for ct in (1, 5, 0):
        for codec in ('unc', 'snappy', 'lz4'):
            o.append(shape(ct, 1, 6, 3, 1, 4, codec, ref=True, concrete=True, timeout=600))
    # determinism: same table, same options, written twice -> byte-identical files
    for ct, codec in ((1, 'unc'), (5, 'unc'), (2, 'snappy'), (0, 'lz4')):
        o.append(shape(ct, 1, 2 if ct == 5 else 4, 2, 1, 0, codec, extra=['-DTWICE'] + (['-DNULLS_ONLY'] if codec != 'unc' else []), tag='/twice', ref=False, timeout=900))
    return o
