"""C05 — every file the writer reports complete is structurally valid Parquet (independent reference reader)."""
from e2 import E2
from props.C01 import shapes, STUBS, CODECS, shape, wides, deep, tab
FILES = ['src/writer/file_writer.c', 'src/writer/row_group_writer.c', 'src/writer/column_writer.c', 'src/writer/page_writer.c', 'src/thrift/parquet_types.c',
         'src/thrift/thrift_encode.c', 'src/util/crc32.c', 'src/compression/snappy.c', 'src/compression/lz4.c']
BUDGET = {'quick': 840, 'thorough': 3600}


def obligations(tier):
    o = shapes(tier, ref=True)
    # concrete content: stored page CRC == bitwise IEEE CRC-32 of the stored page bytes (no CRC summary in these runs)
    for ct in (1, 5, 0):
        for codec in ('unc', 'snappy', 'lz4'):
            o.append(shape(ct, 1, 6, 3, 1, 4, codec, ref=True, concrete=True, timeout=600))
    # determinism: same table, same options, written twice -> byte-identical files
    for ct, codec in ((1, 'unc'), (5, 'unc'), (2, 'snappy'), (0, 'lz4')):
        o.append(shape(ct, 1, 2 if ct == 5 else 4, 2, 1, 0, codec, extra=['-DTWICE'] + (['-DNULLS_ONLY'] if codec != 'unc' else []), tag='/twice', ref=False, timeout=900))
    # footer lists around the Thrift list-header switch at 15 elements
    o += wides(tier, ref=True)
    if tier == 'quick':
        return o
    # deep tier: tables of up to 3 columns, every file validated by the reference reader (incl. page statistics as true bounds)
    o += deep(ref=True)
    # determinism on multi-column tables: symbolic content and concrete content under every codec / page size
    PS3 = (1, 80, 1048576); C3 = ('unc', 'snappy', 'lz4')
    o.append(tab('twice/conc/int32-ba-bool/r12-rg5.0.7', [(1, 1, 0, [2, 1]), (5, 1, 0, [3]), (0, 0, 0, [1, 4])], 12, rg=[5, 0, 7], ps=PS3, codec=C3, read=1, via=1, twice=True))
    o.append(tab('twice/conc/double-flba16-int64/r12/roundrobin', [(4, 1, 0, [4, 0, 3]), (6, 0, 0, [12], 16), (2, 1, 0, [1])], 12, rg=[1, 11], order=2, ps=PS3, codec=C3, read=1, via=1, twice=True))
    o.append(tab('twice/conc/float-allnull-ba/r9/filewriter', [(3, 0, 0, [1, 2]), (2, 1, 4, [3, 1]), (5, 0, 0, [2])], 9, wfile=True, trail0=True, ps=PS3, codec=C3, read=1, via=1, twice=True))
    o.append(tab('twice/sym-int64/2col/r4', [(2, 1, 3, [1, 3]), (5, 1, 0, [4])], 4, ps=(1,), read=1, via=1, twice=True, timeout=3000))
    o.append(tab('twice/sym-ba/2col/r3', [(0, 0, 0, [3]), (5, 1, 3, [2, 1])], 3, ps=(1048576,), read=1, via=1, twice=True, timeout=3000))
    o.append(tab('twice/nulls-double-snappy/2col/r6', [(4, 1, 1, [3, 3]), (1, 0, 0, [6])], 6, ps=(1,), codec=('snappy',), read=1, via=1, twice=True, timeout=3000))
    return o
