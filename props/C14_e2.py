"""C14 (E2 half) — page damage is always detected with checksum verification on, never reported on undamaged files, handled
memory-safely with verification off (harness/e2/c14_damage.c).  The REAL carquet_crc32 runs: no CRC summary."""
from e2 import E2
FILES = ['src/reader/page_reader.c', 'src/reader/column_reader.c', 'src/reader/file_reader.c', 'src/util/crc32.c', 'src/writer/page_writer.c', 'src/thrift/parquet_types.c']
BUDGET = {'quick': 700, 'thorough': 2700}
H = 'harness/e2/c14_damage.c'
REF = ['ref_parquet_read.c', 'ref_parquet_meta.c', 'ref_thrift.c', 'ref_rle.c', 'ref_snappy.c', 'ref_lz4.c', 'ref_hash.c', 'ref_plain_bss.c']
REFDEFS = ['-DREF_MAX_VALUES=32', '-DREF_MAX_PAGES=4', '-DREF_MAX_ROW_GROUPS=1', '-DREF_MAX_COLUMNS=2', '-DREF_MAX_SCHEMA=4']
STUBS = ['stdio / mmap: in-memory model file system', 'cpuid: no SIMD features (scalar dispatch)', 'OpenMP pragmas: sequential schedule']
SK = {0: 'carquet writer, INT32 OPTIONAL (one null) + INT64 REQUIRED, 4 rows, 2 pages per chunk, UNCOMPRESSED', 1: 'the same, SNAPPY', 2: 'the same, LZ4',
      3: 'reference writer, REQUIRED INT32, dictionary page + RLE_DICTIONARY data page, UNCOMPRESSED'}
IO = ['buffer', 'stdio', 'mmap']


def dmg(skel, io, w=1, damage=1, verify=1, stride=1, pos0=0, page=-1, timeout=600, special=None):
    nm = 'damage/%s/%s/%s/w%d%s%s%s' % ('skel%d' % skel if special is None else 'crc-%08x' % special, IO[io], ('verify' if verify else 'noverify') if damage else 'undamaged', w,
                                     '/stride%d+%d' % (stride, pos0) if stride > 1 else '', '/page%d' % page if page >= 0 else '', '')
    d = ['-DVSKEL=%d' % skel, '-DVIO=%d' % io, '-DVW=%d' % w, '-DVDAMAGE=%d' % damage, '-DVVERIFY=%d' % verify, '-DVSTRIDE=%d' % stride, '-DVPOS0=%d' % pos0, '-DVPAGE=%d' % page] + REFDEFS
    ref = list(REF)
    if skel == 3: ref.append('ref_parquet_write.c')
    if special is not None: d += ['-DVSPECIAL', '-DVCRCVAL=0x%08xu' % special]
    return E2(nm, H, defines=d, all_lib=True, ref=ref, timeout=timeout, stubs=STUBS, max_paths=400000, fork_max=256,
              bounds='file: %s; %s; %s bytes XORed with %s at %s position of the body of %s; opened via %s, verify_checksums %s' % (
                  SK[skel] if special is None else 'carquet writer, one REQUIRED INT32 page whose stored CRC is 0x%08x (value found by the solver through the real CRC code)' % special,
                  'real carquet_crc32 (no summary)', w, 'any non-zero mask (every burst of <= %d bits)' % (8 * w) if damage else 'a zero mask (no damage)',
                  'every' if stride == 1 else 'every %dth (from %d)' % (stride, pos0), 'every page (symx_choice)' if page < 0 else 'page %d' % page, IO[io], 'on' if verify else 'off'))


NPAGES = {0: 4, 1: 4, 2: 4, 3: 2}


def obligations(tier):
    q = tier == 'quick'
    o = []
    # ---- verify on, one damaged byte (any non-zero mask = every single-bit flip and every burst inside a byte), every position of every page
    for skel in (0, 1, 2, 3):
        for io in (0, 1, 2):
            if q and skel in (1, 2) and io != (skel % 3): continue          # codecs: one I/O mode each in the quick tier
            for pg in range(NPAGES[skel]):
                o.append(dmg(skel, io, page=pg, timeout=900))
    # ---- stored checksums with special values
    for i, v in enumerate((0x00000000, 0xFFFFFFFF, 0x00000001, 0x80000000)):
        for io in ([i % 3] if q else [0, 1, 2]):
            o.append(dmg(0, io, special=v, timeout=900))
    # ---- undamaged files never report an error
    for skel in (0, 1, 2, 3):
        for io in (0, 1, 2):
            o.append(dmg(skel, io, damage=0))
    # ---- verification off: memory safety only; bursts of 1 and 4 bytes (no CRC is computed, the bytes reach the decoders)
    for skel in (0, 1, 2, 3):
        for io in ([skel % 3] if q else [0, 1, 2]):
            o.append(dmg(skel, io, verify=0, w=1, timeout=900))
            o.append(dmg(skel, io, verify=0, w=4, timeout=900))
    # ---- verify on, two adjacent damaged bytes (every burst of <= 16 bits) at chosen positions: 65535 masks per position
    if not q:
        for skel, pg, pos in ((0, 0, 0), (0, 3, 7), (0, 3, 14), (3, 0, 3)):
            o.append(dmg(skel, 0, w=2, page=pg, stride=64, pos0=pos, timeout=2400))
    return o
