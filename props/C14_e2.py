"""C14 (E2 half) — page damage is always detected with checksum verification on, never reported on undamaged files, handled
memory-safely with verification off (harness/e2/c14_damage.c).  The REAL carquet_crc32 runs: no CRC summary."""
from e2 import E2
FILES = ['src/reader/page_reader.c', 'src/reader/column_reader.c', 'src/reader/file_reader.c', 'src/util/crc32.c', 'src/writer/page_writer.c', 'src/thrift/parquet_types.c']
BUDGET = {'quick': 700, 'thorough': 2700}
H = 'harness/e2/c14_damage.c'
REF = ['ref_parquet_read.c', 'ref_parquet_meta.c', 'ref_thrift.c', 'ref_rle.c', 'ref_snappy.c', 'ref_lz4.c', 'ref_hash.c', 'ref_plain_bss.c']
REFDEFS = ['-DREF_MAX_VALUES=32', '-DREF_MAX_PAGES=4', '-DREF_MAX_ROW_GROUPS=1', '-DREF_MAX_COLUMNS=2', '-DREF_MAX_SCHEMA=4']
STUBS = ['stdio / mmap: in-memory model file system', 'cpuid: no SIMD features (scalar dispatch)', 'OpenMP pragmas: sequential schedule']
SK = {0: 'carquet writer, INT32 OPTIONAL (one null) + INT64 REQUIRED, 4 rows, 2 pages per chunk, UNCOMPRESSED', 1: 'the same, SNAPPY', 2: 'the same, LZ4',
      3: 'reference writer, REQUIRED INT32, dictionary page + RLE_DICTIONARY data page, UNCOMPRESSED'}
IO = ['buffer', 'stdio', 'mmap']


def dmg(skel, io, w=1, damage=1, verify=1, stride=1, pos0=0, page=-1, timeout=600, special=None):
    nm = 'damage/%s/%s/%s/w%d%s%s%s' % ('skel%d' % skel if special is None else 'crc-%08x' % special, IO[io], ('verify' if verify else 'noverify') if damage else 'undamaged', w,
                                     '/stride%d+%d' % (stride, pos0) if stride > 1 else '', '/page%d' % page if page >= 0 else '', '')
    d = ['-DVSKEL=%d' % skel, '-DVIO=%d' % io, '-DVW=%d' % w, '-DVDAMAGE=%d' % damage, '-DVVERIFY=%d' % verify, '-DVSTRIDE=%d' % stride, '-DVPOS0=%d' % pos0, '-DVPAGE=%d' % page] + REFDEFS
    ref = list(REF)
    if skel == 3: ref.append('ref_parquet_write.c')
    if special is not None: d += ['-DVSPECIAL', '-DVCRCVAL=0x%08xu' % special]
    return E2(nm, H, defines=d, all_lib=True, ref=ref, timeout=timeout, stubs=STUBS, max_paths=100000,
              bounds='file: %s; %s; %s bytes XORed with %s at %s position of the body of %s; opened via %s, verify_checksums %s' % (
                  SK[skel] if special is None else 'carquet writer, one REQUIRED INT32 page whose stored CRC is 0x%08x (value found by the solver through the real CRC code)' % special,
                  'real carquet_crc32 (no summary)', w, 'any non-zero mask (every burst of <= %d bits)' % (8 * w) if damage else 'a zero mask (no damage)',
                  'every' if stride == 1 else 'every %dth (from %d)' % (stride, pos0), 'every page (symx_choice)' if page < 0 else 'page %d' % page, IO[io], 'on' if verify else 'off'))


def obligations(tier):
    q = tier == 'quick'
    o = []
    return o
