"""C03 — file, mmap and in-memory-buffer reading are observationally equivalent."""
from e2 import E2
FILES = ['src/reader/page_reader.c', 'src/reader/batch_reader.c', 'src/reader/mmap_reader.c', 'src/reader/file_reader.c']
BUDGET = {'quick': 840, 'thorough': 3600}
H = 'harness/e2/c02_hist.c'
STUBS = ['stdio and open/fstat/mmap/munmap over ONE in-memory model file system (same bytes for the three open paths)', 'cpuid: no SIMD features (scalar dispatch)',
         'file content produced in the same run by the real writer', 'OpenMP pragmas: sequential schedule of the _OPENMP-enabled code']
TYPES = {0: 'INT32 OPTIONAL', 1: 'INT64 REQUIRED', 2: 'BYTE_ARRAY OPTIONAL', 3: 'BOOLEAN OPTIONAL', 4: 'DOUBLE OPTIONAL'}
CODECS = [('unc', 'CARQUET_COMPRESSION_UNCOMPRESSED'), ('snappy', 'CARQUET_COMPRESSION_SNAPPY'), ('lz4', 'CARQUET_COMPRESSION_LZ4')]


def obligations(tier):
    q = tier == 'quick'
    o = []
    for ct in ([0, 1, 2] if q else [0, 1, 2, 3, 4]):
        for cn, cd in (CODECS[:2] if q else CODECS):
            if q and cn != 'unc' and ct == 2: continue
            o.append(E2('three-modes/batch/%s/%s' % (TYPES[ct].replace(' ', '-'), cn), H,
                        defines=['-DMODE=2', '-DCOLTYPE=%d' % ct, '-DOPENMODE=3', '-DN=9', '-DBATCH=3', '-DCODEC=' + cd], all_lib=True, timeout=1100, stubs=STUBS, fork_max=16,
                        bounds='2 columns (%s + INT32 REQUIRED zero-copy-eligible when uncompressed), 9 rows in 3 pages, %s; batch_size 1..10 symbolic x 3 projections; buffer, stdio and mmap in ONE path, batch boundaries / bitmaps compared pairwise' % (TYPES[ct], cn)))
            o.append(E2('three-modes/column/%s/%s' % (TYPES[ct].replace(' ', '-'), cn), H,
                        defines=['-DMODE=3', '-DCOLTYPE=%d' % ct, '-DN=9', '-DBATCH=3', '-DCODEC=' + cd], all_lib=True, timeout=1100, stubs=STUBS, fork_max=16,
                        bounds='same file, %s; metadata + column-reader content with symbolic read size 1..10, verify_checksums on/off, in all three I/O modes; batch data dereferenced after further reads (lifetime)' % cn))
    for ct in ([1, 0] if q else [1, 0, 2]):
        o.append(E2('three-modes/batch-uneven-pages/%s' % TYPES[ct].replace(' ', '-'), H,
                    defines=['-DMODE=2', '-DCOLTYPE=%d' % ct, '-DOPENMODE=3', '-DN=9', '-DPAGEPATTERN=1,2,3,2,1'], all_lib=True, timeout=1100, stubs=STUBS, fork_max=16,
                    bounds='2 columns (%s + INT32 REQUIRED), 9 rows in pages of 1,2,3,2,1 rows, uncompressed (zero-copy eligible); batch_size 1..10 symbolic x 3 projections; buffer, stdio and mmap in one path' % TYPES[ct]))
    return o
