"""C03 — file, mmap and in-memory-buffer reading are observationally equivalent."""
from e2 import E2
from props.C02 import tname, layout_defs, layout_txt, layout_tag, TN, big_batch
FILES = ['src/reader/page_reader.c', 'src/reader/batch_reader.c', 'src/reader/mmap_reader.c', 'src/reader/file_reader.c']
BUDGET = {'quick': 840, 'thorough': 3600}
H = 'harness/e2/c02_hist.c'
STUBS = ['stdio and open/fstat/mmap/munmap over ONE in-memory model file system (same bytes for the three open paths)', 'cpuid: no SIMD features (scalar dispatch)',
         'file content produced in the same run by the real writer', 'OpenMP pragmas: sequential schedule of the _OPENMP-enabled code']
TYPES = {0: 'INT32 OPTIONAL', 1: 'INT64 REQUIRED', 2: 'BYTE_ARRAY OPTIONAL', 3: 'BOOLEAN OPTIONAL', 4: 'DOUBLE OPTIONAL'}
CODECS = [('unc', 'CARQUET_COMPRESSION_UNCOMPRESSED'), ('snappy', 'CARQUET_COMPRESSION_SNAPPY'), ('lz4', 'CARQUET_COMPRESSION_LZ4')]
CD = dict(CODECS)
OUTSIDE = '; outside: symbolic file content, dictionary/delta encoded pages (the writer emits PLAIN only), nested/repeated columns, GZIP/ZSTD (library models), more rows/pages than stated'


def legacy(tier):
    """the obligations of the first round (thorough list = today's quick tier)"""
    q = tier == 'legacy-quick'
    o = []
    for ct in ([0, 1, 2] if q else [0, 1, 2, 3, 4]):
        for cn, cd in (CODECS[:2] if q else CODECS):
            if q and cn != 'unc' and ct == 2: continue
            o.append(E2('three-modes/batch/%s/%s' % (TYPES[ct].replace(' ', '-'), cn), H,
                        defines=['-DMODE=2', '-DCOLTYPE=%d' % ct, '-DOPENMODE=3', '-DN=9', '-DBATCH=3', '-DCODEC=' + cd], all_lib=True, timeout=1100, stubs=STUBS, fork_max=16,
                        bounds='2 columns (%s + INT32 REQUIRED zero-copy-eligible when uncompressed; concrete content), 9 rows in 3 pages, %s; batch_size 1..10 symbolic x 3 projections; buffer, stdio and mmap in ONE path, everything a consumer observes (batch boundaries, values, bitmaps) compared byte-for-byte' % (TYPES[ct], cn) + OUTSIDE))
            o.append(E2('three-modes/column/%s/%s' % (TYPES[ct].replace(' ', '-'), cn), H,
                        defines=['-DMODE=3', '-DCOLTYPE=%d' % ct, '-DN=9', '-DBATCH=3', '-DCODEC=' + cd], all_lib=True, timeout=1100, stubs=STUBS, fork_max=16,
                        bounds='same file, %s; metadata (counts, schema nodes, row group metadata) + column-reader content of every column with symbolic read size 1..10, verify_checksums on/off, in all three I/O modes, compared byte-for-byte; batch data dereferenced after further reads and after the batch reader was freed (lifetime)' % cn + OUTSIDE))
    for ct in ([1, 0] if q else [1, 0, 2]):
        o.append(E2('three-modes/batch-uneven-pages/%s' % TYPES[ct].replace(' ', '-'), H,
                    defines=['-DMODE=2', '-DCOLTYPE=%d' % ct, '-DOPENMODE=3', '-DN=9', '-DPAGEPATTERN=1,2,3,2,1'], all_lib=True, timeout=1100, stubs=STUBS, fork_max=16,
                    bounds='2 columns (%s + INT32 REQUIRED; concrete content), 9 rows in pages of 1,2,3,2,1 rows, uncompressed (zero-copy eligible); batch_size 1..10 symbolic x 3 projections; buffer, stdio and mmap in one path' % TYPES[ct] + OUTSIDE))
    return o


def batch3(ct, opt, yt, yopt, n, pages, rgs, codec='unc', verify=False, timeout=2000):
    d = ['-DMODE=2', '-DH_CT=%d' % ct, '-DH_OPT=%d' % opt, '-DH_NCOLS=3', '-DH_YT=%d' % yt, '-DH_YOPT=%d' % yopt, '-DH_PROJ=1', '-DH_BSCHOICE', '-DOPENMODE=3', '-DCODEC=' + CD[codec]] + layout_defs(n, pages, rgs)
    if verify: d.append('-DH_VERIFYCHOICE')
    nm = 'three-modes/batch3/%s+%s/%s/%s%s' % (tname(ct, opt), tname(yt, yopt), layout_tag(n, pages, rgs), codec, '/verify01' if verify else '')
    return E2(nm, H, defines=d, all_lib=True, timeout=timeout, stubs=STUBS, max_paths=400000, fork_max=32,
              bounds='3 columns (x %s %s, id INT32 REQUIRED, y %s %s; concrete content; REQUIRED fixed-width columns are zero-copy eligible when uncompressed), %s, %s; every batch_size 1..%d (one per path) x 79 projections (all columns; every index list of length 1..3 incl. repeated / reordered; the same by name)%s; buffer, stdio and mmap in ONE path: every batch checked against the table and the three transcripts (row counts, values, null bitmaps) compared byte-for-byte'
                     % (TN[ct], 'OPTIONAL' if opt else 'REQUIRED', TN[yt], 'OPTIONAL' if yopt else 'REQUIRED', layout_txt(n, pages, rgs), codec, n + 1, ' x verify_checksums on/off' if verify else '') + OUTSIDE)


def column3(ct, opt, yt, yopt, n, pages, rgs, codec='unc', timeout=1500):
    d = ['-DMODE=3', '-DH_CT=%d' % ct, '-DH_OPT=%d' % opt, '-DH_NCOLS=3', '-DH_YT=%d' % yt, '-DH_YOPT=%d' % yopt, '-DH_BSCHOICE', '-DCODEC=' + CD[codec]] + layout_defs(n, pages, rgs)
    nm = 'three-modes/column3/%s+%s/%s/%s' % (tname(ct, opt), tname(yt, yopt), layout_tag(n, pages, rgs), codec)
    return E2(nm, H, defines=d, all_lib=True, timeout=timeout, stubs=STUBS, max_paths=100000, fork_max=32,
              bounds='3 columns (x %s %s, id INT32 REQUIRED, y %s %s; concrete content), %s, %s; metadata (row/row-group/column counts, schema nodes, row group metadata) and the content of every column chunk through column readers with every read size 1..%d (one per path), verify_checksums on/off, in all three I/O modes, transcripts compared byte-for-byte; data of the first batch dereferenced after two further batches and after the batch reader was freed'
                     % (TN[ct], 'OPTIONAL' if opt else 'REQUIRED', TN[yt], 'OPTIONAL' if yopt else 'REQUIRED', layout_txt(n, pages, rgs), codec, n + 1) + OUTSIDE)


def deep():
    o = []
    ALL = [(ct, opt) for ct in range(7) for opt in (1, 0)]
    Y = [(5, 1), (4, 0), (0, 1), (6, 1), (2, 0), (1, 1), (3, 1)]
    # metadata + column readers: every type, three codecs, three layouts
    for i, (ct, opt) in enumerate(ALL):
        yt, yopt = Y[i % 7]
        o.append(column3(ct, opt, yt, yopt, 9, [1, 2, 3, 2, 1], None, codec=('unc', 'snappy', 'lz4')[i % 3]))
        o.append(column3(ct, opt, yt, yopt, 10, [2, 3], [5, 1, 4], codec=('snappy', 'lz4', 'unc')[i % 3]))
        o.append(column3(ct, opt, yt, yopt, 12, [5, 1, 1, 5], [7, 5], codec=('lz4', 'unc', 'snappy')[i % 3]))
    o.append(column3(1, 0, 5, 1, 8, 3, [4, 0, 4]))
    o.append(column3(5, 1, 0, 1, 8, 3, [4, 0, 4], codec='snappy'))
    o.append(column3(2, 1, 4, 0, 17, [8, 9], None))
    o.append(column3(0, 1, 5, 1, 17, [9, 8], [9, 8], codec='lz4'))
    # batch reader: zero-copy-eligible x column next to nullable / variable-length ones, all projections and batch sizes
    for i, (ct, opt) in enumerate(ALL):
        yt, yopt = Y[(i + 2) % 7]
        o.append(batch3(ct, opt, yt, yopt, 9, [2, 1, 3, 2, 1] if i % 2 else [3, 1, 2, 2, 1], None, verify=(i % 4 == 0)))       # zero-copy applies to the FIRST page of a chunk: first page of 2 / 3 rows vs every batch size
    for i, (ct, opt) in enumerate(ALL):
        yt, yopt = Y[(i + 4) % 7]
        o.append(batch3(ct, opt, yt, yopt, 10, [2, 3], [5, 1, 4]))
    for i, (ct, opt) in enumerate(ALL):
        yt, yopt = Y[(i + 5) % 7]
        o.append(batch3(ct, opt, yt, yopt, 9, 3, [6, 3], codec=('snappy', 'lz4')[i % 2]))
    for i, (ct, opt) in enumerate(ALL):
        yt, yopt = Y[(i + 1) % 7]
        o.append(batch3(ct, opt, yt, yopt, 12, [5, 1, 1, 5], None))
    o.append(batch3(1, 0, 5, 1, 8, 3, [4, 0, 4]))
    o.append(batch3(5, 1, 2, 0, 8, 3, [4, 0, 4]))
    o.append(batch3(4, 0, 1, 1, 17, [8, 9], None))
    o.append(batch3(0, 1, 6, 0, 17, [9, 8], [9, 8]))
    # files of a few thousand rows (reader-internal chunk sizes), the three modes in one path
    o.append(big_batch(1, 0, 3, prefix='three-modes/large-batch'))
    o.append(big_batch(2, 1, 3, rows=2100, batch=300, ps=1, rgs=[1030, 1070], prefix='three-modes/large-batch'))
    o.append(big_batch(1, 1, 3, rows=2600, batch=1024, ps=1, bslist=[0, 1000, 1024, 1025, 2600], prefix='three-modes/large-batch'))
    return o


def obligations(tier):
    if tier == 'quick':
        return legacy('thorough')
    return legacy('thorough') + deep()
