"""C06 — spec-valid files from another writer decode to the values stored in them.
The independent reference writer (/verif/ref, driven by a description struct) emits the file inside the harness; carquet reads it."""
from e2 import E2
FILES = ['src/reader/page_reader.c', 'src/reader/file_reader.c', 'src/reader/column_reader.c', 'src/encoding/rle.c', 'src/encoding/plain.c', 'src/encoding/dictionary.c',
         'src/thrift/parquet_types.c', 'src/thrift/thrift_decode.c', 'src/simd/dispatch.c', 'src/compression/snappy.c', 'src/compression/lz4.c', 'src/reader/mmap_reader.c']
BUDGET = {'quick': 840, 'thorough': 3600}
H = 'harness/e2/c06_interop.c'
REF = ['ref_parquet_write.c', 'ref_parquet_read.c', 'ref_parquet_meta.c', 'ref_thrift.c', 'ref_rle.c', 'ref_snappy.c', 'ref_lz4.c', 'ref_hash.c', 'ref_plain_bss.c']
# reference tables shrunk to the shapes used here (struct sizes of the description and of the writer's stack frames)
REFDEFS = ['-DREF_MAX_ROW_GROUPS=1', '-DREF_MAX_COLUMNS=2', '-DREF_MAX_PAGES=4', '-DREF_MAX_SCHEMA=6', '-DREF_MAX_VALUES=32', '-DREF_MAX_PAGE_BYTES=384', '-DREF_MAX_DICT=4', '-DREF_MAX_KV=1']
STUBS = ['stdio / mmap: in-memory model file system (mapped objects are read-only)', 'cpuid: no SIMD features (scalar dispatch)',
         'file produced in the same path by the independent reference writer (ref_pq_write)']
TN = {0: 'BOOLEAN', 1: 'INT32', 2: 'INT64', 3: 'INT96', 4: 'FLOAT', 5: 'DOUBLE', 6: 'BYTE_ARRAY', 7: 'FLBA5'}
SN = {0: 'v', 1: 'v?', 2: 'g?.v?', 3: 'g*.v?', 4: 'a?.b*.v', 5: 'a*.v*', 6: 'v*', 7: 'a.b?.v', 8: 'a?.b*.v?'}
SLEV = {0: (0, 0), 1: (1, 0), 2: (2, 0), 3: (2, 1), 4: (2, 1), 5: (2, 2), 6: (1, 1), 7: (1, 0), 8: (3, 1)}
EN = {0: 'PLAIN', 2: 'PDICT', 8: 'RDICT'}
ENL = {0: 'PLAIN', 2: 'PLAIN_DICTIONARY', 8: 'RLE_DICTIONARY'}
CN = {0: 'unc', 1: 'snappy', 7: 'lz4raw'}
LN = {-1: 'any', 0: 'bp', 1: '2rle', 2: 'rle+bp', 3: 'rle1s', 4: 'bp8+rle', 5: 'bp8+bp', 6: 'rle', 7: 'zrle+bp', 8: 'rle+zrle+bp+zrle', 9: 'bp0+bp', 10: 'bpN'}
OM = {0: 'buffer', 1: 'stdio', 2: 'mmap', 3: 'buffer|mmap'}
NEGN = {1: 'data-page-v2', 2: 'other-encoding', 3: 'unknown-codec'}
BN = {0: 'one read_batch call for the chunk', -3: 'fork: one read_batch call for the chunk / calls of k levels with a fresh symbolic k in 1..3 per call', -4: 'fork: one read_batch call for the chunk / calls of k levels, k in 1..3 symbolic', -1: 'read_batch calls of k levels, k in 1..3 symbolic', -2: 'read_batch calls of k levels, a fresh symbolic k in 1..3 for every call'}


def shape(t=1, s=1, nlv=(4,), sym=None, enc=0, nd=3, ibw=2, dictmode=0, codec=0, dl=0, rl=0, il=0, crc=0, stats=0, thrift=0, openm=0, batch=0, extra=0,
          nbalen=1, neg=0, v2raw=0, timeout=600, tag='', fork_max=8, exclude=None, expect_paths_min=1, max_paths=60000, damage=0, damage0=0, batchrd=0, damage_prefix=0):
    """nlv: levels per data page (tuple, 1..3 pages); enc: one encoding for all data pages or a tuple with one per page"""
    md, mr = SLEV[s]
    nlv = tuple(nlv); npages = len(nlv)
    encs = tuple(enc) if isinstance(enc, (tuple, list)) else (enc,) * npages
    assert len(encs) == npages
    anyd = any(e != 0 for e in encs)
    mx = max(nlv)
    if sym is None:
        sym = (1 << mx) - 1
    nsym = sum(bin(sym & ((1 << n) - 1)).count('1') for n in nlv)
    ntot = sum(nlv)
    es = EN[encs[0]] if len(set(encs)) == 1 else '+'.join(EN[e] for e in encs)
    parts = [TN[t], SN[s], es + ('' if not anyd else '-nd%d-w%d%s' % (nd, ibw, '-atdata' if dictmode == 2 else '')),
             'x'.join(str(n) for n in nlv) + ('' if nsym == ntot or md + mr == 0 else 's%d' % nsym), CN.get(codec, 'codec%d' % codec)]
    lay = []
    if md: lay.append('def:' + LN[dl])
    if mr: lay.append('rep:' + LN[rl])
    if anyd or neg == 2: lay.append('idx:' + LN[il])
    if lay: parts.append(','.join(lay))
    opts = []
    if crc: opts.append('crc%d' % crc)
    if stats: opts.append('stats%d' % stats)
    if thrift: opts.append('thrift%d' % thrift)
    if openm: opts.append(OM[openm])
    if batch: opts.append('batch%s' % ({-1: 'K', -2: 'Kcall', -3: 'all|Kcall', -4: 'all|K'}.get(batch, batch)))
    if extra: opts.append('2cols')
    if v2raw: opts.append('is_compressed=false')
    if opts: parts.append('+'.join(opts))
    nm = ('reject/%s/' % NEGN[neg] if neg else 'damaged/' if damage else 'batch-reader/' if batchrd else 'read/') + '/'.join(parts) + tag + ('/level-prefix' if damage_prefix else '/pos%d+%d' % (damage0, damage) if damage else '')
    pn = list(nlv) + [nlv[-1]] * (3 - npages); pe = list(encs) + [encs[-1]] * (3 - npages)
    d = ['-DVQ_TYPE=%d' % t, '-DVQ_SCHEMA=%d' % s, '-DVQ_NPAGES=%d' % npages, '-DVQ_NLV0=%d' % pn[0], '-DVQ_NLV1=%d' % pn[1], '-DVQ_NLV2=%d' % pn[2], '-DVQ_SYMMASK=%du' % sym,
         '-DVQ_ENC0=%d' % pe[0], '-DVQ_ENC1=%d' % pe[1], '-DVQ_ENC2=%d' % pe[2], '-DVQ_ND=%d' % nd, '-DVQ_IBW=%d' % ibw,
         '-DVQ_DICTMODE=%d' % dictmode, '-DVQ_CODEC=%d' % codec, '-DVQ_DEFLAY=%d' % dl, '-DVQ_REPLAY=%d' % rl, '-DVQ_IDXLAY=%d' % il, '-DVQ_CRC=%d' % crc, '-DVQ_STATS=%d' % stats,
         '-DVQ_THRIFT=%d' % thrift, '-DVQ_OPEN=%d' % openm, '-DVQ_BATCH=%d' % batch, '-DVQ_EXTRA=%d' % extra, '-DVQ_NBALEN=%d' % nbalen, '-DVQ_NEG=%d' % neg, '-DVQ_V2RAW=%d' % v2raw, '-DVQ_DAMAGE=%d' % damage, '-DVQ_DAMAGE0=%d' % damage0, '-DVQ_BATCHRD=%d' % batchrd, '-DVQ_DAMAGE_PREFIX=%d' % damage_prefix] + REFDEFS
    b = ('leaf %s in schema %s (max def %d, max rep %d)%s; data pages of %s levels, %d of the %d levels symbolic (definition and repetition levels, mutually consistent); '
         'values: every bit symbolic%s; encoding per data page %s%s; codec %s; run layouts %s; %s%s%s; open via %s%s; %s'
         % (TN[t], SN[s], md, mr, ' + leading REQUIRED INT32 column' if extra else '', '+'.join(str(n) for n in nlv), nsym if md + mr else 0, ntot,
            ' (BYTE_ARRAY: lengths 0..2 symbolic for the first %d values / dictionary entries, 1..2 fixed for the others)' % nbalen if t == 6 else '',
            '+'.join(ENL.get(e, str(e)) for e in encs), (', dictionary page of %d symbolic entries, symbolic indices, index bit width %d, %s' % (nd, ibw, 'data_page_offset -> dictionary page, no dictionary_page_offset' if dictmode == 2 else 'dictionary_page_offset present')) if anyd else '',
            CN.get(codec, str(codec)) + (' (reference literal-only encoder)' if codec else ''), ', '.join(lay) or 'n/a',
            {0: 'no CRC', 1: 'correct CRC on the first data page', 2: 'correct CRC on every page'}[crc], {0: '', 1: ', statistics in page headers and chunk metadata', 2: ', page statistics with 120-byte min/max (page header > 256 bytes)'}[stats],
            {0: '', 1: ', every Thrift field header in long form, long list sizes', 2: ', unknown Thrift fields (i32, binary, struct, list, map, i64, double, set, bool, byte, i16) injected in footer structs and page headers', 3: ', unknown Thrift fields + mixed long-form headers'}[thrift],
            OM[openm], ' (input buffer compared with a pristine copy after close)' if openm in (0, 3) else '', BN.get(batch, 'read_batch calls of %d levels' % batch)))
    if neg:
        b += '; NEGATIVE: ' + {1: 'all data pages are DATA_PAGE_V2' + (' with is_compressed = false (values stored raw under the chunk codec)' if v2raw else ''), 2: 'encoding tag in {DELTA_BINARY_PACKED, DELTA_LENGTH_BYTE_ARRAY, DELTA_BYTE_ARRAY, BYTE_STREAM_SPLIT, RLE, BIT_PACKED} (fork)', 3: 'codec id in {LZO, BROTLI, 8, 100} (fork), bytes stored raw'}[neg]
    if damage:
        b += ('; DAMAGED: one byte at one of %d positions (offset 4 + %d.. of the page region, wrapping at the footer) is symbolic; only memory safety, termination and '
              'leaks are judged; reads of never-written malloc\'d bytes yield arbitrary bytes (heap garbage)' % (damage, damage0))
    return E2(nm, H, defines=d, all_lib=True, ref=REF, timeout=timeout, stubs=STUBS + (['heap garbage: never-written malloc\'d bytes read as fresh symbolic bytes; native replay fills malloc\'d blocks with 0x7f'] if damage else []),
              summaries=['crc32'] if (crc or damage) else [], fork_max=fork_max, max_paths=max_paths,
              bounds=b + ('; read through the BATCH READER with 2 modelled OpenMP workers: every iteration order, one interfering seek at every unlocked fread of the shared stream' if batchrd else ''),
              exclude=exclude, expect_paths_min=expect_paths_min, uninit_symbolic=bool(damage), leaks=bool(damage), openmp=bool(batchrd))


def evidence_extra(tier):
    return {'outside_the_bounds': [
        'GZIP and ZSTD payloads: the engine runs carquet\'s wrappers against library CONTRACT stubs, a value round trip through them proves nothing about the real libraries (C09 covers the wrappers)',
        'Snappy / LZ4_RAW streams with copies: the reference encoders emit literal-only streams (the decompressors on arbitrary streams are C08 / C10)',
        'pages with more than 17 levels / 8 symbolic levels, dictionaries with more than 4 entries, index bit widths above 3, BYTE_ARRAY values longer than 2 bytes, more than 3 data pages or 2 columns, several row groups',
        'DATA_PAGE_V2 misreads that need a page of several hundred bytes (a garbage level-length prefix is then in range): only rejection is demanded, see F-PAGE-V2',
        'the SIMD kernels behind the dispatcher (cpuid reports no SIMD: scalar dispatch; C15 relates the kernels to the scalar code)',
        'the batch reader API (C02/C03) — C06 reads through carquet_reader_get_column + carquet_column_read_batch'],
        'engine': 'E2/symx'}


def obligations(tier):
    q = tier == 'quick'
    o = []
    big = (3, 3) if q else (4, 4)
    # ---- A. all eight physical types, PLAIN, flat OPTIONAL, 2 pages, every null pattern; definition-level layouts and read sizes vary with the type
    o.append(shape(t=0, s=1, nlv=(3, 2) if q else (3, 3), dl=0))
    o.append(shape(t=1, s=1, nlv=(4, 4), dl=2))
    o.append(shape(t=2, s=1, nlv=big, dl=3, batch=-1))
    o.append(shape(t=3, s=1, nlv=big, dl=0, batch=5))
    o.append(shape(t=4, s=1, nlv=big, dl=1))
    o.append(shape(t=5, s=1, nlv=big, dl=6))
    o.append(shape(t=6, s=1, nlv=(2, 2) if q else (3, 2), dl=0, batch=3, nbalen=1 if q else 2))
    o.append(shape(t=7, s=1, nlv=big, dl=2))
    # REQUIRED (no level blocks at all)
    o.append(shape(t=0, s=0, nlv=(4, 3) if q else (5, 4)))
    o.append(shape(t=3, s=0, nlv=(5, 5)))
    o.append(shape(t=6, s=0, nlv=(3, 2), nbalen=2 if q else 3))
    if not q:
        for t in (1, 2, 4, 5, 7):
            o.append(shape(t=t, s=0, nlv=(8, 8), batch=-1))
    # ---- B. dictionary encodings (both tags), dictionary page + 1..2 data pages, index layouts; loads through the symbolic index stay if-then-else (fork_max 2)
    o.append(shape(t=1, s=1, nlv=big, enc=8, nd=3, ibw=2, il=0, fork_max=2))
    o.append(shape(t=2, s=1, nlv=(4,), enc=2, nd=4, ibw=2, il=3, fork_max=2))
    o.append(shape(t=3, s=1, nlv=(4,), enc=8, nd=2, ibw=1, il=2))
    # one-entry dictionary: index bit width 0 (runs without payload bytes; the final run ends exactly at the end of the page)
    o.append(shape(t=1, s=1, nlv=(4,), enc=8, nd=1, ibw=0, il=0)); o.append(shape(t=2, s=0, nlv=(5,), enc=2, nd=1, ibw=0, il=2)); o.append(shape(t=6, s=1, nlv=(3,), enc=8, nd=1, ibw=0, il=6))
    o.append(shape(t=4, s=1, nlv=(4,), enc=2, nd=3, ibw=3, il=0, fork_max=2))
    o.append(shape(t=5, s=1, nlv=(4,), enc=8, nd=4, ibw=3, il=1, fork_max=2))
    o.append(shape(t=6, s=1, nlv=(3,), enc=8, nd=2, ibw=1, il=0))
    o.append(shape(t=7, s=1, nlv=(3, 3), enc=2, nd=3, ibw=2, il=6, fork_max=2))
    o.append(shape(t=1, s=0, nlv=(5,), enc=2, nd=4, ibw=2, il=2, fork_max=2, batch=2))
    o.append(shape(t=6, s=0, nlv=(3,), enc=2, nd=3, ibw=2, il=0, nbalen=1))
    # the readable old-writer mode: data_page_offset points at the dictionary page, dictionary_page_offset absent
    o.append(shape(t=1, s=1, nlv=(3,), enc=8, nd=3, ibw=2, dictmode=2, fork_max=2))
    o.append(shape(t=5, s=0, nlv=(3, 2), enc=2, nd=3, ibw=2, dictmode=2, fork_max=2, openm=1))
    # ---- C. nested schemas: optional / repeated ancestors, depth <= 3, max_rep > 0
    o.append(shape(t=1, s=2, nlv=(4, 3), dl=0))
    o.append(shape(t=2, s=3, nlv=(4, 3), dl=0, rl=0))
    o.append(shape(t=5, s=4, nlv=(4, 3), dl=3, rl=1))
    o.append(shape(t=1, s=5, nlv=(4, 3), dl=2, rl=3, batch=-1))
    o.append(shape(t=4, s=6, nlv=(4, 3), dl=0, rl=2))
    o.append(shape(t=3, s=7, nlv=(4, 3), dl=1))
    o.append(shape(t=1, s=8, nlv=(4, 3), dl=0, rl=0))
    o.append(shape(t=1, s=3, nlv=(4,), enc=8, nd=3, ibw=2, dl=0, rl=3, il=3, fork_max=2))
    o.append(shape(t=6, s=5, nlv=(3,), dl=0, rl=0, nbalen=1))
    # ---- D. run layouts: multi-group bit-packed runs, bit-packed + RLE, two bit-packed runs, padded final group (11 levels, 4 of them symbolic)
    M = 0x581
    o.append(shape(t=1, s=1, nlv=(11,), sym=M, dl=4))
    o.append(shape(t=1, s=1, nlv=(11,), sym=M, dl=5))
    o.append(shape(t=2, s=2, nlv=(11,), sym=M, dl=10))
    o.append(shape(t=1, s=6, nlv=(11,), sym=M, dl=0, rl=4))
    o.append(shape(t=1, s=3, nlv=(11,), sym=M, dl=5, rl=5))
    o.append(shape(t=1, s=5, nlv=(17,), sym=0x10181, dl=10, rl=10))
    o.append(shape(t=1, s=0, nlv=(11,), enc=8, nd=4, ibw=3, il=4, fork_max=2))
    o.append(shape(t=2, s=0, nlv=(11,), enc=2, nd=3, ibw=2, il=5, fork_max=2))
    o.append(shape(t=1, s=0, nlv=(17,), enc=8, nd=4, ibw=2, il=10, fork_max=2))
    # any legal layout (fork over the list) for each of the three streams
    o.append(shape(t=1, s=1, nlv=(4,), dl=-1))
    o.append(shape(t=1, s=6, nlv=(4,), dl=0, rl=-1))
    o.append(shape(t=1, s=0, nlv=(4,), enc=8, nd=3, ibw=2, il=-1, fork_max=2))
    o.append(shape(t=1, s=1, nlv=(9,), sym=0x107, dl=-1, tag='/n9'))
    # empty bit-packed run (0 groups) in front: legal, carries nothing
    o.append(shape(t=1, s=3, nlv=(4,), dl=9, rl=9))
    o.append(shape(t=1, s=0, nlv=(4,), enc=8, nd=3, ibw=2, il=9, fork_max=2))
    # ---- E. zero-length RLE runs (legal; each carries its value bytes)
    o.append(shape(t=1, s=2, nlv=(4,), dl=7))
    o.append(shape(t=1, s=5, nlv=(4,), dl=0, rl=8))
    o.append(shape(t=1, s=0, nlv=(4,), enc=8, nd=3, ibw=2, il=7, fork_max=2))
    if not q:
        o.append(shape(t=1, s=8, nlv=(4,), dl=8))
        o.append(shape(t=1, s=0, nlv=(4,), enc=2, nd=3, ibw=2, il=8, fork_max=2))
    # ---- F. optional CRC (correct, verified), statistics, unknown Thrift fields, long-form headers
    o.append(shape(t=1, s=1, nlv=(3, 3), crc=1))
    o.append(shape(t=2, s=1, nlv=(3,), enc=8, nd=3, ibw=2, crc=2, fork_max=2))
    o.append(shape(t=1, s=1, nlv=(3, 3), stats=1))
    o.append(shape(t=1, s=1, nlv=(3,), stats=2))
    o.append(shape(t=2, s=1, nlv=(2, 2), enc=8, nd=2, ibw=1, stats=2, openm=1))
    o.append(shape(t=1, s=3, nlv=(3, 2), enc=8, nd=3, ibw=2, thrift=1, stats=1, fork_max=2))
    o.append(shape(t=6, s=1, nlv=(3,), enc=8, nd=2, ibw=1, thrift=2, stats=1))
    o.append(shape(t=5, s=2, nlv=(3, 3), thrift=3, extra=1))
    o.append(shape(t=1, s=1, nlv=(3, 3), enc=2, nd=3, ibw=2, thrift=3, crc=1, extra=1, fork_max=2))
    # ---- G. codecs through the reference literal-only encoders
    o.append(shape(t=1, s=1, nlv=(3, 3), codec=1))
    o.append(shape(t=6, s=1, nlv=(3, 2), codec=1, batch=2))
    o.append(shape(t=2, s=1, nlv=(3, 2), enc=8, nd=3, ibw=2, codec=1, fork_max=2))
    o.append(shape(t=5, s=3, nlv=(3, 3), codec=7))
    o.append(shape(t=7, s=1, nlv=(3, 2), enc=2, nd=3, ibw=2, codec=7, fork_max=2))
    o.append(shape(t=0, s=0, nlv=(4, 3), codec=7))
    o.append(shape(t=1, s=0, nlv=(4, 4), codec=1, crc=2))
    # ---- H. stdio and mmap
    o.append(shape(t=1, s=1, nlv=(3, 3), openm=1))
    o.append(shape(t=6, s=1, nlv=(3, 2), enc=8, nd=2, ibw=1, openm=1))
    o.append(shape(t=2, s=0, nlv=(4, 4), openm=2, batch=3))
    o.append(shape(t=5, s=1, nlv=(3, 3), openm=2))
    o.append(shape(t=6, s=1, nlv=(3, 2), codec=1, openm=2))
    o.append(shape(t=1, s=3, nlv=(3, 2), enc=8, nd=3, ibw=2, openm=1, crc=1, fork_max=2))
    # ---- I. encodings MIXED across the data pages of one chunk, both orders, growing and shrinking pages; buffer and mmap; one big read and reads of
    #         k in 1..3 levels (fresh symbolic k per call) so that page transitions fall inside and between calls
    for encs, nl in [((0, 8, 0), (3, 2, 3)), ((0, 2, 0), (2, 3, 2)), ((8, 0, 8), (2, 3, 2)), ((2, 0, 2), (3, 2, 3))]:
        o.append(shape(t=1, s=0, nlv=nl, enc=encs, nd=3, ibw=2, fork_max=2, openm=3, batch=-3))
        o.append(shape(t=2 if encs[0] else 5, s=1, nlv=nl, sym=0x1 if q else 0x5, enc=encs, nd=3, ibw=2, fork_max=2, openm=3, batch=-4))
    # dictionary page + compression + CRC on every page, buffer | mmap and stdio (the dictionary loaders verify the checksum over the COMPRESSED bytes;
    # added after seeded C03-dict-crc-uncompressed-size)
    o.append(shape(t=1, s=1, nlv=(3,), sym=0x1, enc=8, nd=3, ibw=2, codec=1, crc=2, openm=3))
    o.append(shape(t=2, s=0, nlv=(3,), enc=2, nd=2, ibw=1, codec=7, crc=2, openm=1))
    # BYTE_ARRAY chunks that fall back from dictionary to PLAIN pages (the parquet-mr pattern) with the page bytes in a heap buffer
    # (stdio, or a compressed chunk via buffer/mmap): the returned byte arrays must stay readable until the next read call
    # (added after seeded C06-bytearray-dict-plain-retention)
    o.append(shape(t=6, s=0, nlv=(2, 2), enc=(8, 0), nd=2, ibw=1, openm=1))
    o.append(shape(t=6, s=1, nlv=(2, 2), sym=0x1, enc=(8, 0), nd=2, ibw=1, codec=1, openm=3))
    if not q:
        o.append(shape(t=6, s=1, nlv=(2, 2, 2), sym=0x1, enc=(0, 8, 0), nd=2, ibw=1, openm=1, batch=2, timeout=1500))
        o.append(shape(t=6, s=1, nlv=(2, 2, 2), sym=0x1, enc=(8, 0, 0), nd=2, ibw=1, codec=1, openm=3, batch=-4, timeout=1500))
        o.append(shape(t=6, s=0, nlv=(2, 2, 2), enc=(8, 0, 8), nd=2, ibw=1, codec=7, openm=3, batch=-3))
        o.append(shape(t=6, s=0, nlv=(3, 2), enc=(2, 0), nd=2, ibw=1, codec=1, openm=1))
    if not q:
        for t in (3, 7, 4):
            o.append(shape(t=t, s=0, nlv=(3, 2, 3), enc=(0, 8, 0), nd=3, ibw=2, fork_max=2 if t == 4 else 8, openm=3, batch=-3 if t == 4 else -4))
            o.append(shape(t=t, s=0, nlv=(2, 3, 2), enc=(8, 0, 8), nd=3, ibw=2, fork_max=2 if t == 4 else 8, openm=3, batch=-3 if t == 4 else -4))
        o.append(shape(t=6, s=0, nlv=(2, 2, 2), enc=(0, 8, 0), nd=2, ibw=1, openm=3, batch=-3))
    # ---- K. three data pages, leading column
    o.append(shape(t=1, s=1, nlv=(2, 3, 2), dl=0, extra=1))
    o.append(shape(t=4, s=3, nlv=(2, 2, 2), dl=3, rl=0, batch=-1))
    # ---- J. features carquet does not implement must be rejected, never decoded
    o.append(shape(t=1, s=1, nlv=(3,), neg=1))
    o.append(shape(t=2, s=0, nlv=(3,), neg=1, codec=1))
    o.append(shape(t=1, s=3, nlv=(3,), neg=1, openm=1))
    o.append(shape(t=1, s=1, nlv=(4,), neg=1, codec=1))
    o.append(shape(t=6, s=2, nlv=(3,), neg=1, codec=7))
    o.append(shape(t=1, s=0, nlv=(4,), neg=1, codec=1, v2raw=1))
    o.append(shape(t=1, s=1, nlv=(3,), neg=2, ibw=1))
    o.append(shape(t=6, s=0, nlv=(3,), neg=2, ibw=1, openm=2))
    o.append(shape(t=1, s=0, nlv=(3,), neg=3))
    o.append(shape(t=5, s=1, nlv=(3,), neg=3, openm=1))
    if not q:
        # ---- thorough: systematic sweeps
        for t in range(8):                                   # every type: larger PLAIN pages, 3 pages, every codec
            o.append(shape(t=t, s=1, nlv=(3, 2, 3) if t in (0, 6) else (4, 3, 4), dl=t % 4, tag='/3pages'))
            for codec in (1, 7):
                o.append(shape(t=t, s=1, nlv=(3, 2) if t in (0, 6) else (4, 3), codec=codec, dl=(t + codec) % 4, tag='/sweep'))
        for t in range(1, 8):                                # every dictionary-capable type x both tags x both modes of announcing... (AT_DATA is the open finding)
            for enc in (2, 8):
                gather = t in (1, 2, 4, 5)          # typed gather: loads through the symbolic index stay if-then-else; memcpy-based types fork on the index
                o.append(shape(t=t, s=1 + (t % 2), nlv=(3, 3) if gather else (2, 2), enc=enc, nd=4 if gather else 2 + (t == 7), ibw=3 if enc == 8 else 2, il=t % 4, fork_max=2 if gather else 8, tag='/sweep'))
        for sch in range(2, 9):                              # every nested schema x three types
            for t in (1, 5, 6):
                o.append(shape(t=t, s=sch, nlv=(4, 4) if t != 6 else (3, 2), dl=sch % 4, rl=(sch + 1) % 4, tag='/sweep'))
        for lay in (0, 1, 2, 3, 4, 5, 6, 7, 8, 9, 10):        # every layout kind for each of the three streams
            big = lay in (4, 5, 10)
            o.append(shape(t=1, s=8, nlv=(11,) if big else (5,), sym=0x581 if big else None, dl=lay, tag='/layout-sweep'))
            o.append(shape(t=1, s=5, nlv=(11,) if big else (5,), sym=0x581 if big else None, dl=0, rl=lay, tag='/layout-sweep'))
            o.append(shape(t=2, s=0, nlv=(11,) if big else (5,), enc=8, nd=4, ibw=3, il=lay, fork_max=2, tag='/layout-sweep'))
        for th in (1, 2, 3):                                 # Thrift variants x (plain, dictionary) x open modes
            for om in (0, 1, 2):
                o.append(shape(t=1, s=3, nlv=(3, 2), thrift=th, stats=1, openm=om, crc=1 if th == 2 else 0, tag='/sweep'))
                o.append(shape(t=7, s=1, nlv=(3, 2), enc=8, nd=3, ibw=2, thrift=th, stats=1, openm=om, fork_max=2, tag='/sweep'))
        for t in (0, 3, 6):                                  # negatives for more types
            o.append(shape(t=t, s=1, nlv=(3,), neg=2, ibw=1, tag='/sweep'))
            o.append(shape(t=t, s=0, nlv=(3,), neg=3, openm=2, tag='/sweep'))
            o.append(shape(t=t, s=0, nlv=(3,), neg=1, tag='/sweep'))
    return o
