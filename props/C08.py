"""C08 — component decoders are safe on arbitrary bytes and respect capacities."""
from e2 import E2
from e1 import E1
FILES = ['src/thrift/thrift_decode.c', 'src/thrift/parquet_types.c', 'src/encoding/rle.c', 'src/encoding/plain.c', 'src/encoding/delta.c',
         'src/encoding/delta_length.c', 'src/encoding/delta_strings.c', 'src/encoding/dictionary.c', 'src/encoding/byte_stream_split.c',
         'src/core/bitpack.c', 'src/core/buffer.h', 'src/compression/snappy.c', 'src/compression/lz4.c', 'src/compression/gzip.c', 'src/compression/zstd.c']
BUDGET = {'quick': 840, 'thorough': 3000}
H = 'harness/e2/c08_dec.c'
ENC = ['src/encoding/rle.c', 'src/core/bitpack.c', 'src/core/buffer.c']


def dec(name, mode, L, srcs, extra=(), bounds='', timeout=300, **kw):
    kw.setdefault('leaks', True)
    return E2('%s/L%d' % (name, L), H, srcs, ['-DMODE=%d' % mode, '-DL=%d' % L] + list(extra), timeout=timeout,
              bounds='every input of %d byte(s); %s' % (L, bounds), **kw)


DELTA = ['src/encoding/delta.c', 'src/core/bitpack.c', 'src/core/buffer.c']
THRIFT = ['src/thrift/thrift_decode.c', 'src/thrift/parquet_types.c', 'src/core/arena.c', 'src/core/buffer.c', 'src/core/error.c']


def skip_depth():
    """shared with C04: recursion depth of thrift_skip on containers of containers (one byte per level)"""
    return E2('thrift-skip-container-nesting', 'harness/e2/c08_skipdepth.c', THRIFT, [], timeout=600, max_depth=120, max_steps=80_000_000,
              bounds='4 MiB input: unknown field 15 = list of list of ... (0x19 / 0x1A per level; one variant through a map value), last 2 bytes symbolic; '
                     'parquet_parse_page_header and parquet_parse_file_metadata; the call depth must stay below 120 frames (native replay: the real stack)',
              functions=['thrift_skip', 'parquet_parse_page_header', 'parquet_parse_file_metadata'])


def obligations(tier):
    q = tier == 'quick'
    o = []
    for L in ([0, 1, 2, 3] if q else [0, 1, 2, 3, 4, 5]):
        o.append(dec('rle-decode-all', 1, L, ENC, ['-DBWLO=0', '-DBWHI=3'], 'bit width 0..3, capacity 0..12 symbolic', timeout=600))
        o.append(dec('rle-decode-levels', 2, L, ENC, ['-DBWLO=0', '-DBWHI=3'], 'bit width 0..3, capacity 0..12 symbolic', timeout=900))
        o.append(dec('rle-levels-prefixed', 3, L + 3, ENC, ['-DBWLO=0', '-DBWHI=2'], 'bit width 0..2, capacity 0..12 symbolic; 4-byte length prefix free', timeout=600))
    # wide / illegal bit widths: the width byte of a page is untrusted (0..255)
    for lo, hi in ([(4, 9), (30, 40), (250, 255)] if q else [(4, 16), (17, 33), (34, 70), (120, 130), (240, 255)]):
        o.append(dec('rle-decode-all/bw%d-%d' % (lo, hi), 1, 3, ENC, ['-DBWLO=%d' % lo, '-DBWHI=%d' % hi, '-DCAP=9'], 'bit width %d..%d, capacity 0..9 symbolic' % (lo, hi), timeout=600))
        o.append(dec('rle-decode-levels/bw%d-%d' % (lo, hi), 2, 3, ENC, ['-DBWLO=%d' % lo, '-DBWHI=%d' % hi, '-DCAP=9'], 'bit width %d..%d, capacity 0..9 symbolic' % (lo, hi), timeout=600))
    for L in ([2, 3] if q else [1, 2, 3, 4]):
        o.append(dec('rle-stream-ops', 4, L, ENC, ['-DBWLO=0', '-DBWHI=2', '-DCAP=5'], '3 symbolic operations from {get_batch(k), skip(k), get}, k 0..5, bit width 0..2', timeout=900, max_paths=400000))
    for pt, nm in enumerate(['boolean', 'int32', 'int64', 'int96', 'float', 'double', 'byte_array', 'flba']):
        for L in ([0, 5, 9] if q else [0, 1, 4, 5, 8, 9, 13]):
            o.append(dec('plain-%s' % nm, 5, L, ['src/encoding/plain.c', 'src/core/buffer.c'], ['-DPTYPE=%d' % pt, '-DCAP=3'], 'count 0..3 symbolic', timeout=300))
    for wide in (0, 1):
        for L in ([0, 3, 5] if q else [0, 1, 2, 3, 4, 5, 6, 7]):
            o.append(dec('delta-int%d' % (64 if wide else 32), 6, L, DELTA, ['-DWIDE=%d' % wide, '-DCAP=5'], 'declared count 0..5 symbolic', timeout=600))
    for L in ([4, 6] if q else [1, 3, 4, 5, 6, 7]):
        o.append(dec('delta-length', 7, L, DELTA + ['src/encoding/delta_length.c'], ['-DCAP=3'], 'declared count 0..3 symbolic', timeout=600))
        o.append(dec('delta-strings', 8, L, DELTA + ['src/encoding/delta_length.c', 'src/encoding/delta_strings.c'], ['-DCAP=3'], 'declared count 0..3, work buffer 0..8 symbolic', timeout=600))
    for dt, nm in enumerate(['int32', 'int64', 'float', 'double']):
        for L in ([1, 3, 6] if q else [0, 1, 2, 3, 4, 6, 7]):
            o.append(dec('dict-%s' % nm, 9, L, ['src/encoding/dictionary.c'] + ENC, ['-DDTYPE=%d' % dt, '-DCAP=%d' % (4 if L < 6 else 2), '-DDN=2'], 'dictionary of 0..2 symbolic entries, output count 0..4; indices = bit-width byte + hybrid runs', timeout=600))
    for b, nm in enumerate(['float', 'double', 'generic']):
        for L in ([0, 8] if q else [0, 4, 8, 12, 16]):
            o.append(dec('bss-%s' % nm, 10, L, [], ['-DBSS=%d' % b, '-DCAP=3'], 'count 0..3 (generic: width 0..5) symbolic; scalar dispatch (cpuid hook reports no SIMD)', timeout=600, all_lib=True))
    for L in ([1, 2, 3] if q else [1, 2, 3, 4]):
        o.append(dec('thrift-page-header', 11, L, THRIFT, [], 'all bytes free', timeout=900))
        o.append(dec('thrift-file-metadata', 12, L, THRIFT, [], 'all bytes free', timeout=900))
    for L in ([4, 9] if q else [1, 4, 8, 9, 12]):
        o.append(dec('bitunpack32', 13, L, ['src/core/bitpack.c'], ['-DCAP=9'], 'count 0..9, width 1..32 symbolic with ceil(count*width/8) <= L (documented precondition)', timeout=600))
    for c, nm in enumerate(['snappy', 'lz4']):
        for L in ([1, 2, 3, 4] if q else [1, 2, 3, 4, 5, 6]):
            o.append(dec('%s-decompress' % nm, 14, L, ['src/compression/%s.c' % nm], ['-DCODEC=%d' % c, '-DCAP=12'], 'capacity 0..12 symbolic', timeout=600,
                         ))
    for c, nm in enumerate(['snappy', 'lz4']):
        o.append(E2('%s-script/exact-capacity' % nm, H, ['src/compression/%s.c' % nm], ['-DMODE=16', '-DL=4', '-DCODEC=%d' % c], ref=['ref_%s.c' % nm, 'ref_rle.c'], leaks=True,
                    timeout=900, fork_max=16, max_paths=300000,
                    bounds='streams built by the reference encoder from a symbolic script: literal run 1..10, match (offset 1..literal length, length 4..%d), tail literals 0..13, '
                           'all literal bytes symbolic; output buffer of exactly the decoded size' % (11 if nm == 'snappy' else 16)))
    for c, nm in enumerate(['zstd', 'gzip']):
        if nm == 'gzip': continue      # zlib's streaming API (z_stream) is not modelled: outside the claim
        o.append(dec('%s-wrapper' % nm, 15, 4, ['src/compression/%s.c' % nm], ['-DCODEC=%d' % c, '-DCAP=8'], 'capacity 0..8 symbolic; libzstd = contract stub (arbitrary status, arbitrary output within capacity)', timeout=300,
                     stubs=['ZSTD_decompressDCtx/ZSTD_createDCtx/ZSTD_isError: contract stubs'], leaks=False,
                     assumptions=['the thread-local cached ZSTD_DCtx is a deliberate cache, not a leak (leak check off for this obligation)']))
    # E1 (CBMC) half: Snappy/LZ4 decompressors on all inputs of L bytes with symbolic capacity (longer inputs than E2 reaches)
    from props import C08_e1
    o += C08_e1.obligations(tier)
    # struct frames of the Thrift decoder on inputs nesting deeper than its frame array (an arbitrary-bytes input of >= 33 bytes that the
    # all-bytes-free windows above are too short for); the obligation is C13's, shared (added after seeded C08-thrift-nesting-guard)
    from props import C13_e1
    # DELTA_BINARY_PACKED decoder on specification streams CUT at every length (streams long enough to hold whole wide mini-blocks, which the
    # all-bytes-free windows cannot reach; added after seeded C08-delta-wide-bounds-merged): memory safety + consumed <= given
    from props import C12_e2
    cuts = [(1, 33, 7), (1, 33, 6), (0, 33, 5)] if q else [(1, 33, 7), (1, 33, 6), (1, 33, 8), (1, 34, 5), (1, 66, 7), (0, 33, 5), (0, 34, 4), (0, 66, 5), (1, 3, 7), (0, 3, 0)]
    for wide, n, ws in cuts:
        ob = C12_e2.delta(wide, n, wsel=ws, strict=0, timeout=900, tag='/cut-at-every-length')
        ob.name = 'delta-cut/' + ob.name[len('delta-dec/'):]
        ob.defines = list(ob.defines) + ['-DVCUT=1']; ob.fork_max = 1024; ob.max_paths = 400000
        ob.bounds += '; the stream is CUT at every length k <= its size (exact-size heap object; k = size is the complete stream); no value assertions'
        o.append(ob)
    o.append(skip_depth())
    # DELTA_BYTE_ARRAY / DELTA_LENGTH_BYTE_ARRAY on hostile length streams (well-formed length blocks carrying arbitrary int32 lengths)
    DSTR = DELTA + ['src/encoding/delta_length.c', 'src/encoding/delta_strings.c']
    for mode, nm in ((1, 'delta-byte-array'), (2, 'delta-length-byte-array')):
        for nv in ([2] if q else [1, 2, 3]):
            o.append(E2('%s-hostile-lengths/n%d' % (nm, nv), 'harness/e2/c08_dstr.c', DSTR, ['-DMODE=%d' % mode, '-DNV=%d' % nv], ref=['ref_delta.c', 'ref_rle.c'], leaks=True, timeout=600,
                        max_paths=200000, fork_max=16,
                        bounds='%d prefix / suffix length(s), each one of {0, 1, 2, -1, INT32_MAX, INT32_MIN, symbolic near INT32_MAX, symbolic 0..3}, in well-formed DELTA_BINARY_PACKED '
                               'blocks of the reference encoder; 3 symbolic data bytes; work buffer of 8 bytes; any status accepted; memory safety, leaks, consumed <= given' % nv))
    for ng in C13_e1.nesting_guard(tier):
        ng.name = 'thrift-' + ng.name
        o.append(ng)
    return o
