"""C08 — component decoders are safe on arbitrary bytes and respect capacities."""
from e2 import E2
FILES = ['src/thrift/thrift_decode.c', 'src/thrift/parquet_types.c', 'src/encoding/rle.c', 'src/encoding/plain.c', 'src/encoding/delta.c',
         'src/encoding/delta_length.c', 'src/encoding/delta_strings.c', 'src/encoding/dictionary.c', 'src/encoding/byte_stream_split.c',
         'src/core/bitpack.c', 'src/core/buffer.h', 'src/compression/snappy.c', 'src/compression/lz4.c', 'src/compression/gzip.c', 'src/compression/zstd.c']
BUDGET = {'quick': 900, 'thorough': 3000}
H = 'harness/e2/c08_dec.c'
ENC = ['src/encoding/rle.c', 'src/core/bitpack.c', 'src/core/buffer.c']


def dec(name, mode, L, srcs, extra=(), bounds='', timeout=300, **kw):
    return E2('%s/L%d' % (name, L), H, srcs, ['-DMODE=%d' % mode, '-DL=%d' % L] + list(extra), leaks=True, timeout=timeout,
              bounds='every input of %d byte(s); %s' % (L, bounds), **kw)


def obligations(tier):
    q = tier == 'quick'
    o = []
    Ls = [0, 1, 2, 3, 4] if q else [0, 1, 2, 3, 4, 5]
    for L in Ls:
        o.append(dec('rle-decode-all', 1, L, ENC, ['-DBWLO=0', '-DBWHI=3'], 'bit width 0..3, capacity 0..12 symbolic'))
        o.append(dec('rle-decode-levels', 2, L, ENC, ['-DBWLO=0', '-DBWHI=3'], 'bit width 0..3, capacity 0..12 symbolic'))
        o.append(dec('rle-levels-prefixed', 3, L + 2, ENC, ['-DBWLO=0', '-DBWHI=2'], 'bit width 0..2, capacity 0..12 symbolic; 4-byte length prefix free'))
    return o
