"""C07 — parallel reading is independent of thread count and scheduling."""
from e2 import E2
FILES = ['src/reader/batch_reader.c', 'src/reader/page_reader.c', 'src/compression/zstd.c', 'src/simd/dispatch.c', 'src/simd/detect.c', 'src/util/crc32.c']
BUDGET = {'quick': 840, 'thorough': 3600}
H = 'harness/e2/c07_par.c'
STUBS = ['libomp runtime (__kmpc_fork_call, dispatch_init/next, critical, ...): ONE worker executes each parallel region; dynamic-schedule iterations are run in every order (fork)',
         'shared FILE*: at every fread outside a critical section/flockfile another worker may have moved the stream to any offset the stream was ever at (one interference per path)',
         'stdio / mmap: in-memory model file system', 'cpuid: no SIMD features']
MODES = {0: 'buffer', 1: 'stdio', 2: 'mmap'}
CODECS = [('unc', 'CARQUET_COMPRESSION_UNCOMPRESSED'), ('snappy', 'CARQUET_COMPRESSION_SNAPPY')]


def obligations(tier):
    q = tier == 'quick'
    o = []
    for om in (1, 0, 2):
        for cn, cd in CODECS:
            o.append(E2('interleave/%s/%s' % (MODES[om], cn), H, defines=['-DMODE=1', '-DOPENMODE=%d' % om, '-DCODEC=' + cd], all_lib=True, openmp=True, timeout=1100, stubs=STUBS,
                        fork_max=16, native_replay=True,
                        bounds='2 REQUIRED columns x 2 pages of 3 rows (%s), batch_size 3, num_threads 1..3; every order of the per-column iterations of both OpenMP loops; '
                               'one interfering seek at every unlocked fread of the shared stream (%s mode)' % (cn, MODES[om])))
    # two modelled workers with preemption: data races between the per-column iterations of the parallel loops
    for om in (0, 1, 2):
        for nullable in (1, 0):
            o.append(E2('workers/%s/%s' % (MODES[om], 'nullable' if nullable else 'required'), H,
                        defines=['-DMODE=1', '-DOPENMODE=%d' % om, '-DTHREADS=2'] + (['-DNULLABLE'] if nullable else []), all_lib=True, openmp=True, timeout=1100, fork_max=16,
                        stubs=STUBS + ['two modelled OpenMP workers: dynamic hand-out of iterations; preemption points = iteration boundaries and accesses to bytes on which two iterations conflict (recording pass); at most one preemption per path'],
                        bounds='2 %s columns x 2 pages of 3 rows, batch_size 3, 2 workers, <= 1 preemption per parallel region path at every conflicting access (%s mode)' % ('OPTIONAL (different null patterns)' if nullable else 'REQUIRED', MODES[om])))
    H2 = 'harness/e2/c07_init.c'
    ISTUBS = ['lazy-init race: globals restarted from every prefix of the initialiser\'s store sequence (x86-TSO visibility order); real hardware reordering / compiler reordering of plain stores not modelled',
              'cpuid: no SIMD features']
    # crc32: 2048 table stores + flag = 2049 stores: all prefixes near the ends and table boundaries, every 16th in between
    for kb, ks, nk, tag in ([(0, 1, 24, 'first'), (2030, 1, 24, 'last'), (240, 1, 32, 'table-boundary'), (0, 64, 34, 'every64')] if q else
                            [(0, 1, 64, 'first'), (1990, 1, 64, 'last'), (224, 1, 64, 'table-boundary-1'), (480, 1, 64, 'table-boundary-2'), (0, 16, 130, 'every16')]):
        o.append(E2('lazy-init/crc32/%s' % tag, H2, defines=['-DWHICH=0', '-DKBASE=%d' % kb, '-DKSTEP=%d' % ks, '-DNK=%d' % nk], all_lib=True, timeout=900, stubs=ISTUBS,
                    bounds='carquet_crc32 first use; another thread k stores into crc32_init_tables for k = %d + %d*i, i < %d (of 2049 stores)' % (kb, ks, nk)))
    o.append(E2('lazy-init/dispatch', H2, defines=['-DWHICH=1', '-DKBASE=0', '-DKSTEP=1', '-DNK=80'], all_lib=True, timeout=900, stubs=ISTUBS,
                bounds='carquet_dispatch_* first use; another thread k stores into carquet_simd_dispatch_init / cpu detection for every k (<= 80 stores)'))
    o.append(E2('lazy-init/cpu-info', H2, defines=['-DWHICH=2', '-DKBASE=0', '-DKSTEP=1', '-DNK=64'], all_lib=True, timeout=900, stubs=ISTUBS,
                bounds='carquet_get_cpu_info / carquet_init first use; another thread k stores into the initialiser for every k'))
    return o
