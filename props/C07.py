"""C07 — parallel reading is independent of thread count and scheduling."""
from e2 import E2
FILES = ['src/reader/batch_reader.c', 'src/reader/page_reader.c', 'src/compression/zstd.c', 'src/simd/dispatch.c', 'src/simd/detect.c', 'src/util/crc32.c']
BUDGET = {'quick': 840, 'thorough': 3600}
H = 'harness/e2/c07_par.c'
STUBS = ['libomp runtime (__kmpc_fork_call, dispatch_init/next, critical, ...): ONE worker executes each parallel region; dynamic-schedule iterations are run in every order (fork)',
         'shared FILE*: at every fread outside a critical section/flockfile another worker may have moved the stream to any offset the stream was ever at (one interference per path)',
         'stdio / mmap: in-memory model file system', 'cpuid: no SIMD features']
WSTUB = ['two modelled OpenMP workers: dynamic hand-out of iterations; preemption points = iteration boundaries, lock acquisitions (omp critical) and accesses to bytes on which two iterations conflict (recording pass); at most one preemption per parallel region']
MODES = {0: 'buffer', 1: 'stdio', 2: 'mmap'}
CODECS = {'unc': 'CARQUET_COMPRESSION_UNCOMPRESSED', 'snappy': 'CARQUET_COMPRESSION_SNAPPY', 'lz4': 'CARQUET_COMPRESSION_LZ4'}
OUTSIDE = ('outside: more than 3 projected columns in the iteration-order model (loops of 2..3 iterations are permuted), more than two workers / more than one preemption per parallel region in the worker model, '
           'weak-memory reorderings, ZSTD/GZIP (contract stubs; the thread-local ZSTD contexts are not exercised), num_threads > 4')
PROJ = ('all columns', 'projection by index (reversed)', 'projection by name (reversed)')


def defs(spec, rows, nrg, page, flavour, codec, om, bs, proj, threads, model):
    return ['-DVP_SPEC="%s"' % spec, '-DVP_ROWS=%d' % rows, '-DVP_NRG=%d' % nrg, '-DVP_BATCH=%d' % page, '-DVP_FLAVOUR=%d' % flavour, '-DCODEC=' + CODECS[codec],
            '-DVP_OPEN=%d' % om, '-DVP_BS=%d' % bs, '-DVP_PROJ=%d' % proj, '-DVP_THREADS=%d' % threads, '-DVP_MODEL=%d' % model]


def shape_nm(spec, rows, nrg, page, flavour, bs, proj):
    return '%s/r%d-g%d-p%d-f%d/bs%d-proj%d' % (spec, rows, nrg, page, flavour, bs, proj)


def shape_txt(spec, rows, nrg, page, flavour, codec, om, bs, proj):
    return 'table %s (null pattern %d), %d rows in %d row group(s), pages of %d rows, %s, %s mode, batch_size %d, %s' % (spec, flavour & 7, rows, nrg, page, codec, MODES[om], bs, PROJ[proj])


def interleave(spec, rows, nrg, page, flavour, codec, om, bs, proj=0, threads=0, timeout=1100, max_paths=300000):
    return E2('interleave/%s/%s/%s/t%s' % (MODES[om], codec, shape_nm(spec, rows, nrg, page, flavour, bs, proj), threads or '1-4'), H,
              defines=defs(spec, rows, nrg, page, flavour, codec, om, bs, proj, threads, 1), all_lib=True, openmp=True, timeout=timeout, stubs=STUBS, fork_max=16, max_paths=max_paths,
              expect_paths_min=4,
              bounds='%s, num_threads %s; every order of the per-column iterations of both OpenMP loops of every carquet_batch_reader_next call; one interfering seek at every unlocked fread of the shared stream; '
                     'every call compared (status, batch boundaries, null bitmaps, values) with the num_threads=1 run of the same file; %s' % (
                         shape_txt(spec, rows, nrg, page, flavour, codec, om, bs, proj), threads or '1..4 (choice)', OUTSIDE))


def workers(spec, rows, nrg, page, flavour, codec, om, bs, proj=0, threads=2, timeout=1100):
    return E2('workers/%s/%s/%s/t%d' % (MODES[om], codec, shape_nm(spec, rows, nrg, page, flavour, bs, proj), threads), H,
              defines=defs(spec, rows, nrg, page, flavour, codec, om, bs, proj, threads, 2), all_lib=True, openmp=True, timeout=timeout, fork_max=16, stubs=STUBS + WSTUB, expect_paths_min=2, max_paths=300000,
              bounds='%s, num_threads %d, 2 modelled workers, <= 1 preemption per parallel region at every iteration boundary, every lock acquisition and every conflicting access; every call compared with the num_threads=1 run; %s' % (
                  shape_txt(spec, rows, nrg, page, flavour, codec, om, bs, proj), threads, OUTSIDE))


def handles(spec, rows, nrg, page, flavour, codec, om, bs, proj=0, timeout=1100):
    return E2('two-readers/%s/%s/%s' % (MODES[om], codec, shape_nm(spec, rows, nrg, page, flavour, bs, proj)), H,
              defines=defs(spec, rows, nrg, page, flavour, codec, om, bs, proj, 2, 3), all_lib=True, openmp=True, timeout=timeout, fork_max=16, stubs=STUBS[2:], expect_paths_min=6,
              bounds='%s; TWO independent readers on the same file, their carquet_batch_reader_next calls interleaved in every order (call granularity; finer interleavings of two handles are outside); '
                     'each returns what a reader returns when used alone' % shape_txt(spec, rows, nrg, page, flavour, codec, om, bs, proj))


def lazy_init(q):
    H2 = 'harness/e2/c07_init.c'
    ISTUBS = ['lazy-init race: globals restarted from every prefix of the initialiser\'s store sequence (x86-TSO visibility order); real hardware reordering / compiler reordering of plain stores not modelled',
              'cpuid: no SIMD features']
    o = []
    # crc32: 2048 table stores + flag = 2049 stores: all prefixes near the ends and table boundaries, every 16th in between
    for kb, ks, nk, tag in [(0, 1, 64, 'first'), (1990, 1, 64, 'last'), (224, 1, 64, 'table-boundary-1'), (480, 1, 64, 'table-boundary-2'), (0, 16, 130, 'every16')] + \
                           ([] if q else [(k, 1, 64, 'boundary-%d' % k) for k in (736, 992, 1248, 1504, 1760)] + [(o_, 16, 130, 'every16+%d' % o_) for o_ in (3, 7, 11)]):
        o.append(E2('lazy-init/crc32/%s' % tag, H2, defines=['-DWHICH=0', '-DKBASE=%d' % kb, '-DKSTEP=%d' % ks, '-DNK=%d' % nk], all_lib=True, timeout=900, stubs=ISTUBS,
                    bounds='carquet_crc32 first use; another thread k stores into crc32_init_tables for k = %d + %d*i, i < %d (of 2049 stores)' % (kb, ks, nk)))
    o.append(E2('lazy-init/dispatch', H2, defines=['-DWHICH=1', '-DKBASE=0', '-DKSTEP=1', '-DNK=80'], all_lib=True, timeout=900, stubs=ISTUBS,
                bounds='carquet_dispatch_* first use; another thread k stores into carquet_simd_dispatch_init / cpu detection for every k (<= 80 stores)'))
    o.append(E2('lazy-init/cpu-info', H2, defines=['-DWHICH=2', '-DKBASE=0', '-DKSTEP=1', '-DNK=64'], all_lib=True, timeout=900, stubs=ISTUBS,
                bounds='carquet_get_cpu_info / carquet_init first use; another thread k stores into the initialiser for every k'))
    return o


def legacy():
    """the shapes of the first version of this check: 2 columns x 2 pages of 3 rows, batch_size 3"""
    o = []
    for om in (1, 0, 2):
        for cn in ('unc', 'snappy'):
            o.append(interleave('IL', 6, 1, 3, 0, cn, om, 3))
    for om in (0, 1, 2):
        o.append(workers('il', 6, 1, 3, 0, 'unc', om, 3))
        o.append(workers('IL', 6, 1, 3, 0, 'unc', om, 3))
    return o


def obligations(tier):
    q = tier == 'quick'
    o = legacy()
    CN = ('unc', 'snappy', 'lz4')
    # (spec, rows, row groups, rows per page, flavour, batch size, projection)
    # iteration-order model: (projected columns)!^2 orders per call with a batch -> 2 columns: up to 5 calls, 3 columns: at most 2 calls
    TWO = [('is', 8, 2, 2, 0, 3, 0), ('Sb', 9, 1, 3, 1, 4, 0), ('xD', 10, 2, 2, 0, 5, 2), ('fl', 7, 1, 2, 1, 2, 1)]
    THREE = [('ilS', 6, 1, 2, 0, 4, 0), ('BsD', 8, 2, 2, 0, 4, 0), ('sIx', 6, 2, 3, 1, 6, 0), ('IlsB', 8, 1, 2, 0, 4, 1)]
    # worker model: every lock acquisition, iteration boundary and conflicting access of every parallel region is a preemption choice
    # (choices multiply per region, and the single-threaded reference run is repeated on every path): 1..2 calls with a batch
    W2 = [('is', 6, 2, 3, 0, 3, 0), ('Sb', 6, 1, 2, 1, 6, 0), ('xD', 8, 2, 2, 0, 4, 2), ('fl', 5, 1, 2, 1, 5, 1)]
    W34 = [('ilS', 4, 1, 2, 0, 4, 0), ('BsD', 6, 2, 3, 0, 3, 0), ('IlsB', 4, 1, 2, 0, 4, 0), ('bXdS', 3, 1, 3, 1, 4, 0)]
    for om in (0, 1, 2):
        for ci, cn in enumerate(CN):
            for si, (spec, rows, nrg, page, fl, bs, pj) in enumerate(TWO):
                if q and (si + om + ci) % 3: continue
                o.append(interleave(spec, rows, nrg, page, fl, cn, om, bs, pj))
                o.append(handles(spec, rows, nrg, page, fl, cn, om, bs, pj))
            for si, (spec, rows, nrg, page, fl, bs, pj) in enumerate(THREE):
                if q and (si + om + ci) % 4: continue
                o.append(interleave(spec, rows, nrg, page, fl, cn, om, bs, pj, threads=2 + (si + ci) % 3, timeout=1800))
                if not q: o.append(handles(spec, rows, nrg, page, fl, cn, om, bs, pj))
            for si, (spec, rows, nrg, page, fl, bs, pj) in enumerate(W2):
                if q and (si % 2 == 0 or (si + om + ci) % 3): continue          # quick: the one-call shapes only
                o.append(workers(spec, rows, nrg, page, fl, cn, om, bs, pj, threads=2 + (si + om) % 3, timeout=1800))
            for si, (spec, rows, nrg, page, fl, bs, pj) in enumerate(W34):
                if q and (si == 1 or (si + om + ci) % 4): continue
                o.append(workers(spec, rows, nrg, page, fl, cn, om, bs, pj, threads=2 + (si + om + ci) % 3, timeout=1800))
    # reference-writer files through the batch reader (page headers longer than the reader's first 256-byte header window, page statistics,
    # dictionary pages): the shared-stream model on code paths that files of carquet's own writer never reach
    # (added after seeded C07-header-window-continuation-unlocked)
    from props import C06
    refs = [dict(t=1, s=1, nlv=(3, 3), sym=0, stats=2, extra=1, openm=1), dict(t=6, s=0, nlv=(3,), sym=0, enc=8, nd=2, ibw=1, stats=2, extra=1, openm=1)]
    if not q:
        refs += [dict(t=2, s=1, nlv=(2, 2), sym=0, enc=(8, 0), nd=2, ibw=1, stats=2, extra=1, openm=1), dict(t=5, s=0, nlv=(4,), sym=0, stats=2, extra=1, openm=1, codec=1),
                 dict(t=1, s=1, nlv=(3, 3), sym=0, stats=2, extra=1, openm=2), dict(t=1, s=1, nlv=(3, 3), sym=0, stats=1, extra=1, openm=1, crc=2)]
    for sh in refs:
        ob = C06.shape(batchrd=1, timeout=600, **sh)
        ob.name = 'ref-writer/' + ob.name
        o.append(ob)
    return o + lazy_init(q)
