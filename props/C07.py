"""C07 — parallel reading is independent of thread count and scheduling."""
from e2 import E2
FILES = ['src/reader/batch_reader.c', 'src/reader/page_reader.c', 'src/compression/zstd.c', 'src/simd/dispatch.c', 'src/simd/detect.c', 'src/util/crc32.c']
BUDGET = {'quick': 1200, 'thorough': 3600}
H = 'harness/e2/c07_par.c'
STUBS = ['libomp runtime (__kmpc_fork_call, dispatch_init/next, critical, ...): ONE worker executes each parallel region; dynamic-schedule iterations are run in every order (fork)',
         'shared FILE*: at every fread outside a critical section/flockfile another worker may have moved the stream to any offset the stream was ever at (one interference per path)',
         'stdio / mmap: in-memory model file system', 'cpuid: no SIMD features']
MODES = {0: 'buffer', 1: 'stdio', 2: 'mmap'}
CODECS = [('unc', 'CARQUET_COMPRESSION_UNCOMPRESSED'), ('snappy', 'CARQUET_COMPRESSION_SNAPPY')]


def obligations(tier):
    q = tier == 'quick'
    o = []
    for om in (1, 0, 2):
        for cn, cd in CODECS:
            o.append(E2('interleave/%s/%s' % (MODES[om], cn), H, defines=['-DMODE=1', '-DOPENMODE=%d' % om, '-DCODEC=' + cd], all_lib=True, openmp=True, timeout=1100, stubs=STUBS,
                        fork_max=16, native_replay=True,
                        bounds='2 REQUIRED columns x 2 pages of 3 rows (%s), batch_size 3, num_threads 1..3; every order of the per-column iterations of both OpenMP loops; '
                               'one interfering seek at every unlocked fread of the shared stream (%s mode)' % (cn, MODES[om])))
    return o
