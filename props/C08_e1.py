"""C08 (E1 part) — Snappy and LZ4 decompressors are memory-safe on arbitrary bytes.  The obligations live in
props/C10_e1.py (same harness harness/e1/c10_decomp.c); this module re-exports them for props/C08.py."""
from props.C10_e1 import FILES, obligations_c08


def obligations(tier):
    return obligations_c08(tier)
