"""C02 — what a reader returns does not depend on how the caller consumes it."""
from e2 import E2
FILES = ['src/reader/column_reader.c', 'src/reader/page_reader.c', 'src/reader/batch_reader.c', 'src/reader/file_reader.c', 'src/metadata/schema.c']
BUDGET = {'quick': 840, 'thorough': 3600}
H = 'harness/e2/c02_hist.c'
STUBS = ['stdio / mmap: in-memory model file system', 'cpuid: no SIMD features (scalar dispatch)', 'file content produced in the same run by the real writer (concrete)']
TYPES = {0: 'INT32 OPTIONAL', 1: 'INT64 REQUIRED', 2: 'BYTE_ARRAY OPTIONAL', 3: 'BOOLEAN OPTIONAL', 4: 'DOUBLE OPTIONAL'}
MODES = {0: 'buffer', 1: 'stdio', 2: 'mmap'}


def obligations(tier):
    q = tier == 'quick'
    o = []
    for ct in ([0, 1, 2] if q else [0, 1, 2, 3, 4]):
        for om in ([0, 1] if q else [0, 1, 2]):
            nops = 2 if q else 3
            o.append(E2('history/%s/%s' % (TYPES[ct].replace(' ', '-'), MODES[om]), H,
                        defines=['-DMODE=1', '-DCOLTYPE=%d' % ct, '-DOPENMODE=%d' % om, '-DN=9', '-DBATCH=3', '-DNOPS=%d' % nops], all_lib=True, timeout=1100 if q else 3000,
                        stubs=STUBS, max_paths=300000, fork_max=16,
                        bounds='column %s, 9 rows in 3 pages; every history of %d operations from {read_batch(k), skip(k), has_next/remaining, re-create}, k in 0..10 symbolic, followed by a full read; open via %s' % (TYPES[ct], nops, MODES[om])))
    for ct in ([0, 2] if q else [0, 1, 2, 3, 4]):
        for om in ([0, 2] if q else [0, 1, 2]):
            o.append(E2('batch/%s/%s' % (TYPES[ct].replace(' ', '-'), MODES[om]), H,
                        defines=['-DMODE=2', '-DCOLTYPE=%d' % ct, '-DOPENMODE=%d' % om, '-DN=9', '-DBATCH=3'], all_lib=True, timeout=1100, stubs=STUBS, fork_max=16,
                        bounds='2 columns (%s + INT32 REQUIRED), 9 rows in 3 pages; every batch_size 1..10 (symbolic) x 3 projections (all, by index reversed, by name); open via %s' % (TYPES[ct], MODES[om])))
    # pages of different sizes (1,2,3,2,1): batch boundaries inside pages, batch size equal to a partly consumed page
    for ct in ([1, 0] if q else [1, 0, 2, 4]):
        for om in (0, 2):
            o.append(E2('batch-uneven-pages/%s/%s' % (TYPES[ct].replace(' ', '-'), MODES[om]), H,
                        defines=['-DMODE=2', '-DCOLTYPE=%d' % ct, '-DOPENMODE=%d' % om, '-DN=9', '-DPAGEPATTERN=1,2,3,2,1'], all_lib=True, timeout=1100, stubs=STUBS, fork_max=16,
                        bounds='2 columns (%s + INT32 REQUIRED), 9 rows in pages of 1,2,3,2,1 rows; every batch_size 1..10 (symbolic) x 3 projections; open via %s' % (TYPES[ct], MODES[om])))
    return o
