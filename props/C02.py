"""C02 — what a reader returns does not depend on how the caller consumes it."""
from e2 import E2
FILES = ['src/reader/column_reader.c', 'src/reader/page_reader.c', 'src/reader/batch_reader.c', 'src/reader/file_reader.c', 'src/metadata/schema.c']
BUDGET = {'quick': 840, 'thorough': 3600}
H = 'harness/e2/c02_hist.c'
STUBS = ['stdio / mmap: in-memory model file system', 'cpuid: no SIMD features (scalar dispatch)', 'file content produced in the same run by the real writer (concrete)']
TYPES = {0: 'INT32 OPTIONAL', 1: 'INT64 REQUIRED', 2: 'BYTE_ARRAY OPTIONAL', 3: 'BOOLEAN OPTIONAL', 4: 'DOUBLE OPTIONAL'}
MODES = {0: 'buffer', 1: 'stdio', 2: 'mmap', 4: 'buffer|stdio|mmap (one per path)'}
TN = ['BOOLEAN', 'INT32', 'INT64', 'FLOAT', 'DOUBLE', 'BYTE_ARRAY', 'FLBA5']
CODECS = {'unc': 'CARQUET_COMPRESSION_UNCOMPRESSED', 'snappy': 'CARQUET_COMPRESSION_SNAPPY', 'lz4': 'CARQUET_COMPRESSION_LZ4'}
OUTSIDE = '; outside: symbolic file content, dictionary/delta encoded pages (the writer emits PLAIN only), nested/repeated columns, GZIP/ZSTD (library models), more rows/pages than stated'


def tname(ct, opt):
    return '%s-%s' % (TN[ct], 'opt' if opt else 'req')


def layout_defs(n, pages, rgs):
    d = ['-DN=%d' % n]
    if isinstance(pages, int):
        d.append('-DBATCH=%d' % pages)
    else:
        d.append('-DPAGEPATTERN=' + ','.join(map(str, pages)))
    if rgs:
        d.append('-DH_RGS=' + ','.join(map(str, rgs)))
    return d


def layout_txt(n, pages, rgs):
    return '%d rows, %s, %s' % (n, ('pages of %d rows' % pages) if isinstance(pages, int) else ('pages of %s rows (pattern restarts in every column chunk)' % ','.join(map(str, pages))),
                                ('row groups of %s rows' % '+'.join(map(str, rgs))) if rgs else 'one row group')


def layout_tag(n, pages, rgs):
    return 'n%d-p%s%s' % (n, pages if isinstance(pages, int) else '.'.join(map(str, pages)), ('-rg' + '.'.join(map(str, rgs))) if rgs else '')


def legacy(tier):
    """the obligations of the first round (thorough list = today's quick tier)"""
    q = tier == 'legacy-quick'
    o = []
    for ct in ([0, 1, 2] if q else [0, 1, 2, 3, 4]):
        for om in ([0, 1] if q else [0, 1, 2]):
            nops = 2 if q else 3
            o.append(E2('history/%s/%s' % (TYPES[ct].replace(' ', '-'), MODES[om]), H,
                        defines=['-DMODE=1', '-DCOLTYPE=%d' % ct, '-DOPENMODE=%d' % om, '-DN=9', '-DBATCH=3', '-DNOPS=%d' % nops, '-DH_KMAX=10'], all_lib=True, timeout=1100 if q else 3000,
                        stubs=STUBS, max_paths=300000, fork_max=16,
                        bounds='column %s (concrete content), 9 rows in 3 pages; every history of %d operations from {read_batch(k), skip(k), has_next/remaining, re-create}, each k in 0..10 (every value, independent per operation, one per path), followed by a full read; open via %s' % (TYPES[ct], nops, MODES[om]) + OUTSIDE))
    for ct in ([0, 2] if q else [0, 1, 2, 3, 4]):
        for om in ([0, 2] if q else [0, 1, 2]):
            o.append(E2('batch/%s/%s' % (TYPES[ct].replace(' ', '-'), MODES[om]), H,
                        defines=['-DMODE=2', '-DCOLTYPE=%d' % ct, '-DOPENMODE=%d' % om, '-DN=9', '-DBATCH=3'], all_lib=True, timeout=1100, stubs=STUBS, fork_max=16,
                        bounds='2 columns (%s + INT32 REQUIRED, concrete content), 9 rows in 3 pages; every batch_size 1..10 (symbolic) x 3 projections (all, by index reversed, by name); open via %s' % (TYPES[ct], MODES[om]) + OUTSIDE))
    # pages of different sizes (1,2,3,2,1): batch boundaries inside pages, batch size equal to a partly consumed page
    for ct in ([1, 0] if q else [1, 0, 2, 4]):
        for om in (0, 2):
            o.append(E2('batch-uneven-pages/%s/%s' % (TYPES[ct].replace(' ', '-'), MODES[om]), H,
                        defines=['-DMODE=2', '-DCOLTYPE=%d' % ct, '-DOPENMODE=%d' % om, '-DN=9', '-DPAGEPATTERN=1,2,3,2,1'], all_lib=True, timeout=1100, stubs=STUBS, fork_max=16,
                        bounds='2 columns (%s + INT32 REQUIRED, concrete content), 9 rows in pages of 1,2,3,2,1 rows; every batch_size 1..10 (symbolic) x 3 projections; open via %s' % (TYPES[ct], MODES[om]) + OUTSIDE))
    return o


def hist(ct, opt, n, pages, rgs, nops, om=4, codec='unc', kmax=None, ops5=False, rw_only=False, timeout=1500):
    """column-reader history: nops operations; k symbolic in 0..n+1, or (kmax given) a concrete choice 0..kmax per path"""
    d = ['-DMODE=1', '-DH_CT=%d' % ct, '-DH_OPT=%d' % opt, '-DOPENMODE=%d' % om, '-DNOPS=%d' % nops, '-DCODEC=' + CODECS[codec]] + layout_defs(n, pages, rgs)
    kinds = '{read_batch(k), skip(k), has_next/remaining, re-create%s}' % (', read_batch(k) without level buffers' if ops5 else '')
    if ops5: d.append('-DH_OPS5')
    if rw_only:
        d.append('-DH_RW_ONLY'); kinds = '{read_batch(k), skip(k)}'
    if kmax is not None: d.append('-DH_KMAX=%d' % kmax)
    nm = 'hist%d/%s/%s/%s/%s%s%s%s' % (nops, tname(ct, opt), layout_tag(n, pages, rgs), codec, {0: 'buffer', 1: 'stdio', 2: 'mmap', 4: 'anyio'}[om],
                                      ('/k0-%d' % kmax) if kmax is not None else '', '/ops5' if ops5 else '', '/rw' if rw_only else '')
    return E2(nm, H, defines=d, all_lib=True, timeout=timeout, stubs=STUBS, max_paths=400000, fork_max=32,
              bounds='column %s %s (concrete content) + INT32 REQUIRED id, %s, %s; column reader of a symbolically chosen row group; every history of %d operations from %s, %s, followed by has_next/remaining and a full read of the rest; open via %s'
                     % (TN[ct], 'OPTIONAL' if opt else 'REQUIRED', layout_txt(n, pages, rgs), codec, nops, kinds,
                        ('each k in 0..%d (every value, one per path)' % kmax) if kmax is not None else ('each k symbolic in 0..%d, independent per operation' % (n + 1)), MODES[om]) + OUTSIDE)


def batch(ct, opt, yt, yopt, n, pages, rgs, om=4, codec='unc', timeout=1500):
    """batch reader over 3 columns: every batch size x every projection"""
    d = ['-DMODE=2', '-DH_CT=%d' % ct, '-DH_OPT=%d' % opt, '-DH_NCOLS=3', '-DH_YT=%d' % yt, '-DH_YOPT=%d' % yopt, '-DH_PROJ=1', '-DH_BSCHOICE', '-DOPENMODE=%d' % om, '-DCODEC=' + CODECS[codec]] + layout_defs(n, pages, rgs)
    nm = 'batch3/%s+%s/%s/%s/%s' % (tname(ct, opt), tname(yt, yopt), layout_tag(n, pages, rgs), codec, {0: 'buffer', 1: 'stdio', 2: 'mmap', 4: 'anyio'}[om])
    return E2(nm, H, defines=d, all_lib=True, timeout=timeout, stubs=STUBS, max_paths=400000, fork_max=32,
              bounds='3 columns (x %s %s, id INT32 REQUIRED, y %s %s; concrete content), %s, %s; every batch_size 1..%d (one per path) x 79 projections (all columns; every index list of length 1..3 over the 3 columns incl. repeated and reordered indices; the same lists by name); every batch: same row count in all columns, values, null bitmaps with one polarity across columns; open via %s'
                     % (TN[ct], 'OPTIONAL' if opt else 'REQUIRED', TN[yt], 'OPTIONAL' if yopt else 'REQUIRED', layout_txt(n, pages, rgs), codec, n + 1, MODES[om]) + OUTSIDE)


def deep():
    o = []
    ALL = [(ct, opt) for ct in range(7) for opt in (1, 0)]
    # ---- histories (k: every value, one per path)
    # every type x OPTIONAL/REQUIRED: 3 operations of the 4 kinds, uneven pages, each I/O mode
    for ct, opt in ALL:
        o.append(hist(ct, opt, 9, [1, 2, 3, 2, 1], None, 3, kmax=10))
    # 3 operations incl. reads without level buffers, several row groups (one of them a single row), every type nullable
    for ct in range(7):
        o.append(hist(ct, 1, 10, [2, 3], [5, 1, 4], 3, om=(0, 1, 2)[ct % 3], kmax=6, ops5=True))
    # long histories: 4 operations of all kinds / 5 and 6 read-skip operations
    for i, (ct, opt) in enumerate(ALL):
        o.append(hist(ct, opt, 7, [2, 1, 3, 1], None, 4, om=(0, 1, 2)[i % 3], kmax=4))
    for ct, opt, om in ((1, 1, 2), (5, 1, 0), (0, 1, 1), (3, 0, 2), (6, 0, 1), (2, 1, 0)):
        o.append(hist(ct, opt, 7, [1, 3, 2, 1], None, 5, om=om, kmax=3, rw_only=True, timeout=2400))
    o.append(hist(1, 1, 6, [1, 2, 1, 2], None, 6, om=2, kmax=2, rw_only=True, timeout=2400))
    o.append(hist(5, 1, 6, [2, 1, 2, 1], None, 6, om=1, kmax=2, rw_only=True, timeout=2400))
    # compressed pages (decompressed page buffers instead of views), two row groups
    for i, (ct, opt) in enumerate(ALL):
        o.append(hist(ct, opt, 9, [1, 2, 3, 2, 1], [6, 3], 3, om=(1, 2, 0)[i % 3], codec=('snappy', 'lz4')[(i // 3) % 2], kmax=7))
    # an empty row group in the middle of the file
    o.append(hist(1, 1, 8, 3, [4, 0, 4], 3, kmax=5))
    o.append(hist(5, 0, 8, 3, [4, 0, 4], 3, kmax=5))
    # more rows per page (bit-packed level groups of 8, RLE runs): 16 rows in pages of 5,1,7,3
    for ct, opt, om in ((1, 1, 0), (5, 1, 2), (0, 1, 1), (2, 0, 2)):
        o.append(hist(ct, opt, 16, [5, 1, 7, 3], None, 2, om=om, kmax=17, ops5=True))
    o.append(hist(4, 1, 16, [5, 1, 7, 3], None, 3, om=1, kmax=17, timeout=2400))
    # ---- batch reader: 3 columns, all projections, all batch sizes
    for i, (ct, opt) in enumerate(ALL):
        yt, yopt = [(5, 1), (4, 0), (0, 1), (6, 1), (2, 0), (1, 1), (3, 1)][i % 7]
        o.append(batch(ct, opt, yt, yopt, 9, [1, 2, 3, 2, 1] if i % 2 == 0 else [2, 3, 1, 2, 1], None))
    for i, (ct, opt) in enumerate(ALL[::2] + ALL[1::4]):
        yt, yopt = [(2, 1), (5, 0), (0, 0), (4, 1)][i % 4]
        o.append(batch(ct, opt, yt, yopt, 10, [2, 3], [5, 1, 4]))
    for ct, opt, yt, yopt, codec in ((1, 1, 5, 1, 'snappy'), (2, 0, 0, 1, 'lz4'), (5, 1, 4, 0, 'snappy'), (6, 1, 1, 0, 'lz4'), (0, 0, 3, 1, 'snappy')):
        o.append(batch(ct, opt, yt, yopt, 9, 3, [6, 3], codec=codec))
    o.append(batch(1, 1, 5, 1, 8, 3, [4, 0, 4]))
    for i, (ct, opt) in enumerate(ALL):
        yt, yopt = [(4, 1), (5, 0), (1, 1), (0, 1), (6, 0), (2, 1), (3, 0)][i % 7]
        o.append(batch(ct, opt, yt, yopt, 12, [5, 1, 1, 5], None, om=(2, 0, 1)[i % 3]))
    o.append(batch(0, 1, 6, 1, 17, [8, 9], None, om=2))
    o.append(batch(5, 1, 1, 0, 17, [9, 8], [9, 8], om=1))
    return o


def huge(ct, opt, n, pages, rgs, om, codec='unc'):
    """read_batch(k) / skip(k) with k >= rows up to INT64_MAX"""
    d = ['-DMODE=4', '-DH_CT=%d' % ct, '-DH_OPT=%d' % opt, '-DOPENMODE=%d' % om, '-DCODEC=' + CODECS[codec]] + layout_defs(n, pages, rgs)
    nm = 'huge-count/%s/%s/%s/%s' % (tname(ct, opt), layout_tag(n, pages, rgs), codec, {0: 'buffer', 1: 'stdio', 2: 'mmap', 4: 'anyio'}[om])
    return E2(nm, H, defines=d, all_lib=True, timeout=900, stubs=STUBS, max_paths=20000, fork_max=8,
              bounds='column %s %s (concrete content) + INT32 REQUIRED id, %s, %s; column reader of a symbolically chosen row group, optionally after a read of 2 rows: read_batch(k) or skip(k) with k in {2^31-1, 2^31, 2^31+3, 2^32, 2^32+2, INT64_MAX} and one SYMBOLIC 64-bit k in [rows, INT64_MAX] (the engine follows representative values where k reaches a size); the value / level buffers are sized for the rows that exist (rows+1), i.e. for min(k, remaining) values, which is all a correct implementation may write; asserted: return value == remaining, content, remaining() == 0, has_next false, a further read returns 0, termination (step bound); open via %s'
                     % (TN[ct], 'OPTIONAL' if opt else 'REQUIRED', layout_txt(n, pages, rgs), codec, MODES[om]) + OUTSIDE)


def huges(tier):
    o = [huge(1, 0, 9, [1, 2, 3, 2, 1], None, 0), huge(1, 1, 9, 3, None, 1)]
    if tier != 'quick':
        o += [huge(2, 1, 10, [2, 3], [5, 1, 4], 2), huge(5, 1, 9, [1, 2, 3, 2, 1], None, 4), huge(0, 1, 9, 3, [6, 3], 1, codec='snappy'), huge(6, 0, 9, [4, 1, 4], None, 2), huge(4, 0, 16, [5, 1, 7, 3], None, 0)]
    return o


HB = 'harness/e2/c02_big.c'
BIGOUT = '; outside: symbolic content, other types, compressed pages, more rows than stated'


def big_skip(ct, opt, om, rows=2300, batch=250, ps=2000, rgs=None, timeout=1500):
    """carquet_column_skip works in internal chunks of 1024 values: skip(n) around the chunk multiples on a file of a few thousand rows"""
    d = ['-DHB_MODE=1', '-DHB_CT=%d' % ct, '-DHB_OPT=%d' % opt, '-DOPENMODE=%d' % om, '-DHB_ROWS=%d' % rows, '-DHB_BATCH=%d' % batch, '-DHB_PS=%d' % ps]
    if rgs: d.append('-DHB_RGS=' + ','.join(map(str, rgs)))
    if not opt: d.append('-DHB_SYMN')          # a symbolic n reaches loop bounds over the definition levels of a nullable column (one fork per level): REQUIRED columns only
    nm = 'large-skip/%s/r%d-b%d-ps%d%s/%s' % (tname(ct, opt), rows, batch, ps, ('-rg' + '.'.join(map(str, rgs))) if rgs else '', {0: 'buffer', 1: 'stdio', 2: 'mmap', 4: 'anyio'}[om])
    return E2(nm, HB, defines=d, all_lib=True, timeout=timeout, stubs=STUBS, max_paths=100000, fork_max=8, max_steps=40_000_000,
              bounds='column %s %s, %d rows of CONCRETE content (%s), uncompressed, written in batches of %d rows with page_size %d (several pages per chunk), %s; column reader of a symbolically chosen row group: optional read of 3 / 1021 rows, then skip(n) for n in {0, 1, 2, 1022..1026, 2046..2050, rows-1, rows, rows+5}%s, read of 9 rows, optionally a second skip(1024|1025) + read, then the rest: return values, remaining()/has_next, values and null positions after each skip; open via %s'
                     % (TN[ct], 'OPTIONAL' if opt else 'REQUIRED', rows, 'null pattern: mixed, 900 present, 100 null, alternating' if opt else 'no nulls', batch, ps,
                        ('row groups of %s rows' % '+'.join(map(str, rgs))) if rgs else 'one row group',
                        '' if opt else ' and one SYMBOLIC n in 0..rows+10 (followed by the engine through representative values, see notes)', MODES[om]) + BIGOUT)


def big_batch(ct, opt, om, rows=2300, batch=250, ps=2000, rgs=None, bslist=None, ncols=2, timeout=1500, prefix='large-batch'):
    d = ['-DHB_MODE=2', '-DHB_CT=%d' % ct, '-DHB_OPT=%d' % opt, '-DOPENMODE=%d' % om, '-DHB_ROWS=%d' % rows, '-DHB_BATCH=%d' % batch, '-DHB_PS=%d' % ps, '-DHB_NCOLS=%d' % ncols]
    if rgs: d.append('-DHB_RGS=' + ','.join(map(str, rgs)))
    if bslist: d.append('-DHB_BSLIST=' + ','.join(map(str, bslist)))
    nm = '%s/%s/r%d-b%d-ps%d%s/%s' % (prefix, tname(ct, opt), rows, batch, ps, ('-rg' + '.'.join(map(str, rgs))) if rgs else '', {0: 'buffer', 1: 'stdio', 2: 'mmap', 3: 'three-modes', 4: 'anyio'}[om])
    return E2(nm, HB, defines=d, all_lib=True, timeout=timeout, stubs=STUBS, max_paths=100000, fork_max=8, max_steps=80_000_000,
              bounds='%d column(s): x %s %s%s, %d rows of CONCRETE content, uncompressed, batches of %d rows, page_size %d, %s; batch reader with batch_size in %s: row counts per column, values, null bitmaps, concatenation == file; open via %s'
                     % (ncols, TN[ct], 'OPTIONAL' if opt else 'REQUIRED', ' + id INT32 REQUIRED' if ncols > 1 else '', rows, batch, ps, ('row groups of %s rows' % '+'.join(map(str, rgs))) if rgs else 'one row group',
                        ('{%s} (0 = config NULL i.e. the default 65536, -1 = config_init default)' % ','.join(map(str, bslist))) if bslist else '{config NULL (default 65536), config_init default, 7, 8, 64, 1000, 1023, 1024, 1025, rows-1, rows, rows+1}',
                        {0: 'buffer', 1: 'stdio', 2: 'mmap', 3: 'buffer, stdio and mmap in one path (compared byte-for-byte)', 4: MODES[4]}[om]) + BIGOUT)


def big(tier):
    o = [big_skip(1, 0, 0), big_skip(1, 1, 1)]
    if tier == 'quick':
        return o
    o += [big_skip(2, 1, 0), big_skip(2, 0, 2), big_skip(1, 1, 4, rows=2600, batch=300, ps=1, rgs=[1500, 1100]), big_skip(1, 0, 1, rows=2100, batch=100, ps=4096),
          big_skip(2, 1, 1, rows=2500, batch=512, ps=1)]
    o += [big_batch(1, 1, 4), big_batch(2, 0, 4, rows=2100, batch=300, ps=1, rgs=[1030, 1070]), big_batch(2, 1, 4, rows=2600, batch=1024, ps=1),
          # the batch reader's default batch size (65536 rows): a chunk with more rows than one default batch
          big_batch(1, 0, 4, rows=65600, batch=8200, ps=1, bslist=[0, -1, 65535, 65536, 65537], ncols=1, timeout=2400, prefix='default-batch-size')]
    return o


def obligations(tier):
    if tier == 'quick':
        return legacy('thorough') + big('quick') + huges('quick')
    return legacy('thorough') + deep() + big('thorough') + huges('thorough')
