"""C13 (E1 half) — leaf codecs of carquet's Thrift compact protocol: varint, zig-zag ints, field header, list header,
binary/string, double, bool-in-header.  For ALL values: written bytes == reference encoding (specification), read back
equal, bytes consumed == bytes produced; the decoder on reference-encoded headers (short, long and padded-long form)."""
from e1 import E1
FILES = ['src/thrift/thrift_encode.c', 'src/thrift/thrift_decode.c', 'src/core/buffer.c', 'src/core/endian.h',
         'src/thrift/thrift_encode.h', 'src/thrift/thrift_decode.h', 'src/core/buffer.h']
H = 'harness/e1/c13_leaf.c'
SRC = ['src/thrift/thrift_encode.c', 'src/thrift/thrift_decode.c', 'src/core/buffer.c']
BE = ('minisat', 'kissat', 'cvc5', 'z3')
# loops: varint writer/reader <= 10 iterations, oracle ULEB <= 10, harness copy loops <= 40, strlen <= 4
UW = 42


def _e(name, defs, bounds, fn, timeout=300, ref=(), exclude=None, backends=BE, wrap=False):
    # wrap: the encoder appends into a 16-byte caller-provided (wrapped, non-owning) buffer instead of the growable one -- same append code,
    # no 4096-byte heap object in the formula (the growable path is exercised by the varint / zig-zag / double obligations)
    return E1(name, H, SRC, defs + (['-DWRAPBUF'] if wrap else []), unwind=UW, unwindset={'strncpy.0': 130}, backends=backends, timeout=timeout, bounds=bounds, functions=fn, ref=list(ref), exclude=exclude,
              assumptions=['growable buffer: the first allocation (4096 bytes) holds every output here, regrowth is cut'] if not wrap else
              ['encoder output buffer: 16 bytes of caller storage wrapped with carquet_buffer_init_wrap + clear (never regrown)'])


def obligations(tier):
    o = []
    o.append(_e('varint-u64', ['-DMODE=1'], 'every 64-bit value: bytes == ULEB128, read back, consumed == produced',
                ['thrift_write_varint', 'thrift_read_varint', 'carquet_buffer_append', 'carquet_buffer_reader_read_byte']))
    for w in (8, 16, 32, 64):
        o.append(_e('zigzag-i%d' % w, ['-DMODE=2', '-DW=%d' % w], 'every %d-bit value: bytes == ULEB128(zig-zag), read back, consumed == produced' % w,
                    ['thrift_write_byte', 'thrift_read_byte'] if w == 8 else ['thrift_write_i%d' % w, 'thrift_read_i%d' % w, 'thrift_write_zigzag', 'thrift_read_zigzag',
                                                                               'carquet_zigzag_encode64', 'carquet_zigzag_decode64']))
    o.append(_e('field-header-roundtrip', ['-DMODE=3'],
                'every (previous id, id) in int16 x int16 (deltas 1..15, > 15, 0, negative, decreasing), every wire type 1..13; bool values in the header',
                ['thrift_write_field_header', 'thrift_read_field_begin', 'thrift_read_bool', 'thrift_write_struct_begin', 'thrift_read_struct_begin'],
                exclude='F-THRIFT-DELTA-WRAP', wrap=True))
    o.append(_e('field-header-from-reference', ['-DMODE=4'],
                'reference-encoded header (ref_thrift.c and harness oracle, asserted identical): short form where legal, long form for every (previous id, id), '
                'long form with the id varint padded to 3..5 bytes; every wire type 1..13; STOP byte',
                ['thrift_read_field_begin', 'thrift_read_i16', 'thrift_read_varint', 'thrift_read_bool'], ref=['ref_thrift.c'], wrap=True))
    o.append(_e('list-header', ['-DMODE=5'],
                'list and set header, every size 0..2^31-1 (so 0..20 and every large size) and element type 1..13, 24 payload bytes follow: bytes == reference, '
                'reader returns the size iff size <= remaining bytes, else refuses (documented guard)',
                ['thrift_write_list_begin', 'thrift_write_set_begin', 'thrift_read_list_begin', 'thrift_read_set_begin'], wrap=True))
    for ln in range(4 if tier == 'quick' else 7):
        o.append(_e('binary-string/len%d' % ln, ['-DMODE=6', '-DLEN=%d' % ln],
                    'binary of %d symbolic bytes and string (bytes up to the first NUL): varint length + bytes, read_binary / read_string_alloc read back; NULL string' % ln,
                    ['thrift_write_binary', 'thrift_write_string', 'thrift_read_binary', 'thrift_read_string_alloc'], wrap=True))
    o.append(_e('double', ['-DMODE=7'], 'every non-NaN 64-bit pattern (CBMC does not keep NaN payloads bit-exact): 8 bytes little endian, read back; 7-byte input refused',
                ['thrift_write_double', 'thrift_read_double', 'carquet_buffer_append_f64_le', 'carquet_read_f64_le']))
    o.append(_e('bool-and-struct-frames', ['-DMODE=8'],
                'stand-alone bool; nested struct: begin resets / end restores the last field id (ids 1..15 symbolic), STOP bytes, exact byte image',
                ['thrift_write_bool', 'thrift_read_bool', 'thrift_write_struct_begin', 'thrift_write_struct_end', 'thrift_write_field_stop',
                 'thrift_read_struct_begin', 'thrift_read_struct_end', 'thrift_read_field_begin'], wrap=True))
    o += nesting_guard(tier)
    return o


def nesting_guard(tier):
    """Shared with C08: the decoder's struct-frame array on inputs that nest deeper than THRIFT_MAX_NESTING."""
    ks = (0, 1, 31, 32, 33, 34, 36) if tier == 'quick' else tuple(range(0, 37))
    return [_nest(k) for k in ks] + ([] if tier == 'quick' else [_nest(None)])


def _nest(k):
    return _e('struct-nesting-guard/%s' % ('depth%d' % k if k is not None else 'depth-symbolic'), ['-DMODE=9'] + (['-DKNEST=%d' % k] if k is not None else []),
              ('K = %d' % k if k is not None else 'K = 0..36 (symbolic)') + ' nested struct frames opened by the byte sequence 0x1C^K followed by symbolic bytes, one field read per frame, all frames '
              'closed again: nesting beyond THRIFT_MAX_NESTING is refused with an error, nesting within it accepted; every index into last_field_id[] is '
              'inside the array (CBMC array-bounds checks on the real decoder)',
              ['thrift_read_struct_begin', 'thrift_read_struct_end', 'thrift_read_field_begin'], timeout=600 if k is not None else 1500, wrap=True)
