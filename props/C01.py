"""C01 — write-then-read round trip returns exactly the table that was written."""
from e2 import E2
FILES = ['src/writer/file_writer.c', 'src/writer/row_group_writer.c', 'src/writer/column_writer.c', 'src/writer/page_writer.c', 'src/encoding/rle.c', 'src/encoding/plain.c',
         'src/metadata/schema.c', 'src/reader/file_reader.c', 'src/reader/page_reader.c', 'src/reader/column_reader.c', 'src/thrift/parquet_types.c']
BUDGET = {'quick': 840, 'thorough': 3600}
H = 'harness/e2/c01_rt.c'
STUBS = ['stdio: in-memory model file system', 'cpuid: no SIMD features (scalar dispatch)', 'summary: carquet_crc32 = uninterpreted function of the page bytes (the function itself is C14)',
         'OpenMP pragmas: sequential schedule of the _OPENMP-enabled code']
TN = ['BOOLEAN', 'INT32', 'INT64', 'FLOAT', 'DOUBLE', 'BYTE_ARRAY', 'FLBA3']
CODECS = {'unc': 'CARQUET_COMPRESSION_UNCOMPRESSED', 'snappy': 'CARQUET_COMPRESSION_SNAPPY', 'lz4': 'CARQUET_COMPRESSION_LZ4'}


def shape(ct, opt, r, b, ps, rg, codec='unc', extra=(), timeout=900, tag='', ref=False, concrete=False):
    nm = 'rt%s/%s-%s/r%d-b%d-ps%d-rg%d/%s%s' % ('+ref' if ref else '', TN[ct], 'opt' if opt else 'req', r, b, ps, rg, codec, tag)
    d = ['-DCT=%d' % ct, '-DOPT=%d' % opt, '-DR=%d' % r, '-DB=%d' % b, '-DPS=%d' % ps, '-DRG=%d' % rg, '-DCODEC=' + CODECS[codec]] + list(extra)
    kw = {'summaries': ['crc32']}
    if concrete:
        d.append('-DCONCRETE'); kw['summaries'] = []; nm += '/concrete'
    if ref:
        d += ['-DREFCHECK', '-DREF_MAX_VALUES=32', '-DREF_MAX_PAGES=8']
        kw['ref'] = ['ref_parquet_read.c', 'ref_parquet_meta.c', 'ref_thrift.c', 'ref_rle.c', 'ref_snappy.c', 'ref_lz4.c', 'ref_hash.c', 'ref_plain_bss.c']
    return E2(nm, H, defines=d, all_lib=True, timeout=timeout, stubs=STUBS if not concrete else [x for x in STUBS if 'crc32' not in x], fork_max=16, max_paths=60000, **kw,
              bounds='column %s %s + INT32 REQUIRED key, %d rows, %s rows per write_batch, page_size %d, row groups %s, %s; every value bit and every null pattern symbolic%s' % (
                  TN[ct], 'OPTIONAL' if opt else 'REQUIRED', r, b or 'all', ps, ('%d+%d' % (rg, r - rg)) if rg else '1', codec,
                  ('; file also checked by the independent reference reader' if ref else '') + ('; CONCRETE content, real CRC-32 computed by carquet and recomputed bitwise by the reference reader' if concrete else '')))


def shapes(tier, ref=False):
    q = tier == 'quick'
    o = []
    for ct in range(7):
        # one page per batch, nullable, 4 rows in 2 batches (byte arrays: 3 rows — every length 0..2 forks)
        o.append(shape(ct, 1, 2 if ct == 5 else 4, 1 if ct == 5 else 2, 1, 0, ref=ref))
        if not q:
            o.append(shape(ct, 0, 4, 2, 1, 0, ref=ref))
            o.append(shape(ct, 1, 5, 2, 1, 2, ref=ref))
    # several batches sharing ONE page (large page size)
    for ct in ([1, 0, 5] if q else range(7)):
        o.append(shape(ct, 1, 2 if ct == 5 else 4, 1 if ct == 5 else 2, 1048576, 0, ref=ref))
    # row-group split, zero rows, OPTIONAL without levels, codecs
    o.append(shape(1, 1, 4, 0, 1, 2, ref=ref))
    o.append(shape(2, 1, 0, 0, 1, 0, ref=ref))
    o.append(shape(1, 1, 3, 0, 1, 0, extra=['-DNOLEVELS'], tag='/nolevels', ref=ref))
    o.append(shape(2, 1, 6, 3, 1, 0, 'snappy', extra=['-DNULLS_ONLY'], tag='/nulls-only', ref=ref))
    o.append(shape(5, 1, 6, 3, 1, 0, 'lz4', extra=['-DNULLS_ONLY'], tag='/nulls-only', ref=ref))
    if not q:
        o.append(shape(1, 1, 9, 3, 1, 0, ref=ref, timeout=3000))          # long enough for RLE runs of 8 equal levels
        o.append(shape(4, 1, 8, 4, 1, 0, 'snappy', extra=['-DNULLS_ONLY'], tag='/nulls-only', ref=ref))
        o.append(shape(1, 1, 8, 4, 1048576, 3, 'lz4', extra=['-DNULLS_ONLY'], tag='/nulls-only', ref=ref))
        o.append(shape(0, 1, 9, 4, 1048576, 0, ref=ref, timeout=3000))
    return o


HT = 'harness/e2/c01_tab.c'
REFS = ['ref_parquet_read.c', 'ref_parquet_meta.c', 'ref_thrift.c', 'ref_rle.c', 'ref_snappy.c', 'ref_lz4.c', 'ref_hash.c', 'ref_plain_bss.c']
SYMTXT = {0: 'CONCRETE content rich in special values (INT_MIN/MAX, NaN, -0.0, infinities, denormals, empty strings, embedded NULs)', 1: 'null pattern SYMBOLIC (values concrete)',
          2: 'every value bit SYMBOLIC (null pattern concrete)', 3: 'every value bit and the null pattern SYMBOLIC', 4: 'all-null column (concrete)', 8: 'no-null column (concrete values)',
          5: 'null pattern SYMBOLIC', 6: 'every value bit SYMBOLIC, all rows null'}
READS = {1: 'buffer', 2: 'stdio', 4: 'mmap'}
VIAS = {1: 'column reader (one read per chunk)', 2: 'column reader in reads of k rows', 4: 'batch reader with batch_size k'}


def tab(name, cols, r, rg=None, order=0, ps=(1,), codec=('unc',), read=1, via=1, k=3, stats=1, rgsize=None, trail0=False, wfile=False, nsymlen=1, twice=False, ref=False, statcheck=False,
        timeout=1500, fork_max=16, max_paths=100000):
    """cols: list of (type 0..6, optional 0/1, symbolic bits, batch pattern list[, FLBA length])"""
    d = ['-DVT_NC=%d' % len(cols), '-DVT_R=%d' % r, '-DVT_ORDER=%d' % order, '-DVT_PS=' + ','.join(map(str, ps)), '-DVT_CODEC=' + ','.join(CODECS[c] for c in codec),
         '-DVT_READ=%d' % read, '-DVT_VIA=%d' % via, '-DVT_K=%d' % k, '-DVT_STATS=%d' % stats, '-DVT_NSYMLEN=%d' % nsymlen]
    if rg: d.append('-DVT_RG=' + ','.join(map(str, rg)))
    if rgsize is not None: d.append('-DVT_RGSIZE=%d' % rgsize)
    if trail0: d.append('-DVT_TRAIL0=1')
    if twice: d.append('-DVT_TWICE')
    if wfile: d.append('-DVT_WFILE')
    ctxt = []
    anysym = False
    for i, c in enumerate(cols):
        ct, opt, sym, pat = c[:4]
        fl = c[4] if len(c) > 4 else 3
        d += ['-DVT_T%d=%d' % (i, ct), '-DVT_O%d=%d' % (i, opt), '-DVT_S%d=%d' % (i, sym), '-DVT_B%d=%s' % (i, ','.join(map(str, pat))), '-DVT_L%d=%d' % (i, fl)]
        anysym |= bool(sym & 3)
        ctxt.append('%s%s %s [%s; write_batch sizes %s]' % (TN[ct].replace('FLBA3', 'FLBA'), ('(%d)' % fl) if ct == 6 else '', 'OPTIONAL' if opt else 'REQUIRED',
                                                        SYMTXT.get(sym if opt or not (sym & 1) else sym & ~1, SYMTXT[sym & 3]) + ((', byte-array lengths 0..3 symbolic for the first %d value(s)' % nsymlen) if ct == 5 and sym & 2 else ''),
                                                        '/'.join(map(str, pat)) + (' cycled' if sum(pat) < r else '')))
    kw = {'summaries': ['crc32'] if anysym else []}
    if ref:
        d += ['-DREFCHECK', '-DREF_MAX_VALUES=32', '-DREF_MAX_PAGES=12']
        if statcheck: d.append('-DVT_STATCHECK')
        kw['ref'] = REFS
    stubs = STUBS if anysym else [x for x in STUBS if 'crc32' not in x]
    b = ('%d column(s): %s; %d rows; row groups (explicit new_row_group) %s; call order %s%s; page_size %s; codec %s; write_statistics %s%s; read back via %s through %s%s'
         % (len(cols), '; '.join(ctxt), r, '+'.join(map(str, rg)) if rg else '1', {0: 'column by column', 1: 'columns in reverse order', 2: 'round robin'}[order],
            ', one extra empty write_batch per column and row group' if trail0 else '', ' | '.join(map(str, ps)) + (' (one per path)' if len(ps) > 1 else ''),
            ' | '.join(codec) + (' (one per path)' if len(codec) > 1 else ''), 'on' if stats else 'off', (', row_group_size %d' % rgsize) if rgsize is not None else '',
            ' + '.join(v for kk, v in VIAS.items() if via & kk).replace('k rows', '%d rows' % k).replace('batch_size k', 'batch_size %d' % k), ' + '.join(v for kk, v in READS.items() if read & kk),
            ('; writer created on a caller-owned FILE* (carquet_writer_create_file)' if wfile else '') + ('; written twice, files compared byte for byte' if twice else '')
            + ('; file also checked by the independent reference reader (structure, tiling, sizes, counts, CRC, codec tags, encodings lists, every column\'s content%s)' % (', page statistics are true bounds' if statcheck else '') if ref else '')
            + ('' if anysym else '; real CRC-32 computed (no CRC summary)')
            + '; outside: more than 3 columns / more rows, nested or repeated columns, GZIP/ZSTD (library models), dictionary encoding (the writer emits PLAIN only), INT96 (the writer refuses it)'))
    return E2(('tab+ref/' if ref else 'tab/') + name, HT, defines=d, all_lib=True, timeout=timeout, stubs=stubs, fork_max=fork_max, max_paths=max_paths, bounds=b, **kw)


def obligations(tier):
    return shapes(tier)
