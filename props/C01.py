"""C01 — write-then-read round trip returns exactly the table that was written."""
from e2 import E2
FILES = ['src/writer/file_writer.c', 'src/writer/row_group_writer.c', 'src/writer/column_writer.c', 'src/writer/page_writer.c', 'src/encoding/rle.c', 'src/encoding/plain.c',
         'src/metadata/schema.c', 'src/reader/file_reader.c', 'src/reader/page_reader.c', 'src/reader/column_reader.c', 'src/thrift/parquet_types.c']
BUDGET = {'quick': 840, 'thorough': 3600}
H = 'harness/e2/c01_rt.c'
STUBS = ['stdio: in-memory model file system', 'cpuid: no SIMD features (scalar dispatch)', 'summary: carquet_crc32 = uninterpreted function of the page bytes (the function itself is C14)',
         'OpenMP pragmas: sequential schedule of the _OPENMP-enabled code']
TN = ['BOOLEAN', 'INT32', 'INT64', 'FLOAT', 'DOUBLE', 'BYTE_ARRAY', 'FLBA3']
CODECS = {'unc': 'CARQUET_COMPRESSION_UNCOMPRESSED', 'snappy': 'CARQUET_COMPRESSION_SNAPPY', 'lz4': 'CARQUET_COMPRESSION_LZ4'}


def shape(ct, opt, r, b, ps, rg, codec='unc', extra=(), timeout=900, tag='', ref=False, concrete=False):
    nm = 'rt%s/%s-%s/r%d-b%d-ps%d-rg%d/%s%s' % ('+ref' if ref else '', TN[ct], 'opt' if opt else 'req', r, b, ps, rg, codec, tag)
    d = ['-DCT=%d' % ct, '-DOPT=%d' % opt, '-DR=%d' % r, '-DB=%d' % b, '-DPS=%d' % ps, '-DRG=%d' % rg, '-DCODEC=' + CODECS[codec]] + list(extra)
    kw = {'summaries': ['crc32']}
    if concrete:
        d.append('-DCONCRETE'); kw['summaries'] = []; nm += '/concrete'
    if ref:
        d += ['-DREFCHECK', '-DREF_MAX_VALUES=32', '-DREF_MAX_PAGES=8']
        kw['ref'] = ['ref_parquet_read.c', 'ref_parquet_meta.c', 'ref_thrift.c', 'ref_rle.c', 'ref_snappy.c', 'ref_lz4.c', 'ref_hash.c', 'ref_plain_bss.c']
    return E2(nm, H, defines=d, all_lib=True, timeout=timeout, stubs=STUBS if not concrete else [x for x in STUBS if 'crc32' not in x], fork_max=16, max_paths=60000, **kw,
              bounds='column %s %s + INT32 REQUIRED key, %d rows, %s rows per write_batch, page_size %d, row groups %s, %s; every value bit and every null pattern symbolic%s' % (
                  TN[ct], 'OPTIONAL' if opt else 'REQUIRED', r, b or 'all', ps, ('%d+%d' % (rg, r - rg)) if rg else '1', codec,
                  ('; file also checked by the independent reference reader' if ref else '') + ('; CONCRETE content, real CRC-32 computed by carquet and recomputed bitwise by the reference reader' if concrete else '')))


def shapes(tier, ref=False):
    q = tier == 'quick'
    o = []
    for ct in range(7):
        # one page per batch, nullable, 4 rows in 2 batches (byte arrays: 3 rows — every length 0..2 forks)
        o.append(shape(ct, 1, 2 if ct == 5 else 4, 1 if ct == 5 else 2, 1, 0, ref=ref))
        if not q:
            o.append(shape(ct, 0, 4, 2, 1, 0, ref=ref))
            o.append(shape(ct, 1, 5, 2, 1, 2, ref=ref))
    # several batches sharing ONE page (large page size)
    for ct in ([1, 0, 5] if q else range(7)):
        o.append(shape(ct, 1, 2 if ct == 5 else 4, 1 if ct == 5 else 2, 1048576, 0, ref=ref))
    # row-group split, zero rows, OPTIONAL without levels, codecs
    o.append(shape(1, 1, 4, 0, 1, 2, ref=ref))
    o.append(shape(2, 1, 0, 0, 1, 0, ref=ref))
    o.append(shape(1, 1, 3, 0, 1, 0, extra=['-DNOLEVELS'], tag='/nolevels', ref=ref))
    o.append(shape(2, 1, 6, 3, 1, 0, 'snappy', extra=['-DNULLS_ONLY'], tag='/nulls-only', ref=ref))
    o.append(shape(5, 1, 6, 3, 1, 0, 'lz4', extra=['-DNULLS_ONLY'], tag='/nulls-only', ref=ref))
    if not q:
        o.append(shape(1, 1, 9, 3, 1, 0, ref=ref, timeout=3000))          # long enough for RLE runs of 8 equal levels
        o.append(shape(4, 1, 8, 4, 1, 0, 'snappy', extra=['-DNULLS_ONLY'], tag='/nulls-only', ref=ref))
        o.append(shape(1, 1, 8, 4, 1048576, 3, 'lz4', extra=['-DNULLS_ONLY'], tag='/nulls-only', ref=ref))
        o.append(shape(0, 1, 9, 4, 1048576, 0, ref=ref, timeout=3000))
    return o


def obligations(tier):
    return shapes(tier)
