"""C01 — write-then-read round trip returns exactly the table that was written."""
from e2 import E2
FILES = ['src/writer/file_writer.c', 'src/writer/row_group_writer.c', 'src/writer/column_writer.c', 'src/writer/page_writer.c', 'src/encoding/rle.c', 'src/encoding/plain.c',
         'src/metadata/schema.c', 'src/reader/file_reader.c', 'src/reader/page_reader.c', 'src/reader/column_reader.c', 'src/thrift/parquet_types.c']
BUDGET = {'quick': 840, 'thorough': 3600}
H = 'harness/e2/c01_rt.c'
STUBS = ['stdio: in-memory model file system', 'cpuid: no SIMD features (scalar dispatch)', 'summary: carquet_crc32 = uninterpreted function of the page bytes (the function itself is C14)',
         'OpenMP pragmas: sequential schedule of the _OPENMP-enabled code']
TN = ['BOOLEAN', 'INT32', 'INT64', 'FLOAT', 'DOUBLE', 'BYTE_ARRAY', 'FLBA3']
CODECS = {'unc': 'CARQUET_COMPRESSION_UNCOMPRESSED', 'snappy': 'CARQUET_COMPRESSION_SNAPPY', 'lz4': 'CARQUET_COMPRESSION_LZ4'}


def shape(ct, opt, r, b, ps, rg, codec='unc', extra=(), timeout=900, tag='', ref=False, concrete=False):
    nm = 'rt%s/%s-%s/r%d-b%d-ps%d-rg%d/%s%s' % ('+ref' if ref else '', TN[ct], 'opt' if opt else 'req', r, b, ps, rg, codec, tag)
    d = ['-DCT=%d' % ct, '-DOPT=%d' % opt, '-DR=%d' % r, '-DB=%d' % b, '-DPS=%d' % ps, '-DRG=%d' % rg, '-DCODEC=' + CODECS[codec]] + list(extra)
    kw = {'summaries': ['crc32']}
    if concrete:
        d.append('-DCONCRETE'); kw['summaries'] = []; nm += '/concrete'
    if ref:
        d += ['-DREFCHECK', '-DREF_MAX_VALUES=32', '-DREF_MAX_PAGES=8']
        kw['ref'] = ['ref_parquet_read.c', 'ref_parquet_meta.c', 'ref_thrift.c', 'ref_rle.c', 'ref_snappy.c', 'ref_lz4.c', 'ref_hash.c', 'ref_plain_bss.c']
    return E2(nm, H, defines=d, all_lib=True, timeout=timeout, stubs=STUBS if not concrete else [x for x in STUBS if 'crc32' not in x], fork_max=16, max_paths=60000, **kw,
              bounds='column %s %s + INT32 REQUIRED key, %d rows, %s rows per write_batch, page_size %d, row groups %s, %s; every value bit and every null pattern symbolic%s' % (
                  TN[ct], 'OPTIONAL' if opt else 'REQUIRED', r, b or 'all', ps, ('%d+%d' % (rg, r - rg)) if rg else '1', codec,
                  ('; file also checked by the independent reference reader' if ref else '') + ('; CONCRETE content, real CRC-32 computed by carquet and recomputed bitwise by the reference reader' if concrete else '')))


def shapes(tier, ref=False):
    q = tier == 'quick'
    o = []
    for ct in range(7):
        # one page per batch, nullable, 4 rows in 2 batches (byte arrays: 3 rows — every length 0..2 forks)
        # quick: FLOAT / DOUBLE with 3 rows (the min/max statistics comparisons fork per ordering; 4 rows take > 10 min with the reference reader)
        rows = 2 if ct == 5 else (3 if q and ct in (3, 4) else 4)
        o.append(shape(ct, 1, rows, 1 if ct == 5 else 2, 1, 0, ref=ref))
        if not q:
            o.append(shape(ct, 0, 4, 2, 1, 0, ref=ref))
            o.append(shape(ct, 1, 5, 2, 1, 2, ref=ref))
    # several batches sharing ONE page (large page size)
    for ct in ([1, 0, 5] if q else range(7)):
        o.append(shape(ct, 1, 2 if ct == 5 else 4, 1 if ct == 5 else 2, 1048576, 0, ref=ref))
    # row-group split, zero rows, OPTIONAL without levels, codecs
    o.append(shape(1, 1, 4, 0, 1, 2, ref=ref))
    o.append(shape(2, 1, 0, 0, 1, 0, ref=ref))
    o.append(shape(1, 1, 3, 0, 1, 0, extra=['-DNOLEVELS'], tag='/nolevels', ref=ref))
    o.append(shape(2, 1, 6, 3, 1, 0, 'snappy', extra=['-DNULLS_ONLY'], tag='/nulls-only', ref=ref))
    o.append(shape(5, 1, 6, 3, 1, 0, 'lz4', extra=['-DNULLS_ONLY'], tag='/nulls-only', ref=ref))
    if not q:
        o.append(shape(1, 1, 9, 3, 1, 0, ref=ref, timeout=3000))          # long enough for RLE runs of 8 equal levels
        o.append(shape(4, 1, 8, 4, 1, 0, 'snappy', extra=['-DNULLS_ONLY'], tag='/nulls-only', ref=ref))
        o.append(shape(1, 1, 8, 4, 1048576, 3, 'lz4', extra=['-DNULLS_ONLY'], tag='/nulls-only', ref=ref))
        o.append(shape(0, 1, 9, 4, 1048576, 0, ref=ref, timeout=3000))
    return o


HT = 'harness/e2/c01_tab.c'
REFS = ['ref_parquet_read.c', 'ref_parquet_meta.c', 'ref_thrift.c', 'ref_rle.c', 'ref_snappy.c', 'ref_lz4.c', 'ref_hash.c', 'ref_plain_bss.c']
SYMTXT = {0: 'CONCRETE content rich in special values (INT_MIN/MAX, NaN, -0.0, infinities, denormals, empty strings, embedded NULs)', 1: 'null pattern SYMBOLIC (values concrete)',
          2: 'every value bit SYMBOLIC (null pattern concrete)', 3: 'every value bit and the null pattern SYMBOLIC', 4: 'all-null column (concrete)', 8: 'no-null column (concrete values)',
          5: 'null pattern SYMBOLIC', 6: 'every value bit SYMBOLIC, all rows null'}
READS = {1: 'buffer', 2: 'stdio', 4: 'mmap'}
VIAS = {1: 'column reader (one read per chunk)', 2: 'column reader in reads of k rows', 4: 'batch reader with batch_size k'}


def tab(name, cols, r, rg=None, order=0, ps=(1,), codec=('unc',), read=1, via=1, k=3, stats=1, rgsize=None, trail0=False, wfile=False, nsymlen=1, twice=False, ref=False, statcheck=False, window=None,
        timeout=1500, fork_max=16, max_paths=100000):
    """cols: list of (type 0..6, optional 0/1, symbolic bits, batch pattern list[, FLBA length])"""
    d = ['-DVT_NC=%d' % len(cols), '-DVT_R=%d' % r, '-DVT_ORDER=%d' % order, '-DVT_PS=' + ','.join(map(str, ps)), '-DVT_CODEC=' + ','.join(CODECS[c] for c in codec),
         '-DVT_READ=%d' % read, '-DVT_VIA=%d' % via, '-DVT_K=%d' % k, '-DVT_STATS=%d' % stats, '-DVT_NSYMLEN=%d' % nsymlen]
    if rg: d.append('-DVT_RG=' + ','.join(map(str, rg)))
    if rgsize is not None: d.append('-DVT_RGSIZE=%d' % rgsize)
    if trail0: d.append('-DVT_TRAIL0=1')
    if twice: d.append('-DVT_TWICE')
    if wfile: d.append('-DVT_WFILE')
    if window: d += ['-DVT_WLO=%d' % window[0], '-DVT_WHI=%d' % window[1]]
    ctxt = []
    anysym = False
    for i, c in enumerate(cols):
        ct, opt, sym, pat = c[:4]
        fl = c[4] if len(c) > 4 else 3
        d += ['-DVT_T%d=%d' % (i, ct), '-DVT_O%d=%d' % (i, opt), '-DVT_S%d=%d' % (i, sym), '-DVT_B%d=%s' % (i, ','.join(map(str, pat))), '-DVT_L%d=%d' % (i, fl)]
        anysym |= bool(sym & 3)
        ctxt.append('%s%s %s [%s; write_batch sizes %s]' % (TN[ct].replace('FLBA3', 'FLBA'), ('(%d)' % fl) if ct == 6 else '', 'OPTIONAL' if opt else 'REQUIRED',
                                                        SYMTXT.get(sym if opt or not (sym & 1) else sym & ~1, SYMTXT[sym & 3]) + ((', byte-array lengths 0..3 symbolic for the first %d value(s)' % nsymlen) if ct == 5 and sym & 2 else ''),
                                                        '/'.join(map(str, pat)) + (' cycled' if sum(pat) < r else '')))
    kw = {'summaries': ['crc32'] if anysym else []}
    if ref:
        d += ['-DREFCHECK', '-DREF_MAX_VALUES=32', '-DREF_MAX_PAGES=12']
        if statcheck: d.append('-DVT_STATCHECK')
        kw['ref'] = REFS
    stubs = STUBS if anysym else [x for x in STUBS if 'crc32' not in x]
    b = ('%d column(s): %s; %d rows%s; row groups (explicit new_row_group) %s; call order %s%s; page_size %s; codec %s; write_statistics %s%s; read back via %s through %s%s'
         % (len(cols), '; '.join(ctxt), r, (' (symbolic parts restricted to rows %d..%d, the other rows concrete)' % (window[0], window[1] - 1)) if window else '', '+'.join(map(str, rg)) if rg else '1', {0: 'column by column', 1: 'columns in reverse order', 2: 'round robin'}[order],
            ', one extra empty write_batch per column and row group' if trail0 else '', ' | '.join(map(str, ps)) + (' (one per path)' if len(ps) > 1 else ''),
            ' | '.join(codec) + (' (one per path)' if len(codec) > 1 else ''), 'on' if stats else 'off', (', row_group_size %d' % rgsize) if rgsize is not None else '',
            ' + '.join(v for kk, v in VIAS.items() if via & kk).replace('k rows', '%d rows' % k).replace('batch_size k', 'batch_size %d' % k), ' + '.join(v for kk, v in READS.items() if read & kk),
            ('; writer created on a caller-owned FILE* (carquet_writer_create_file)' if wfile else '') + ('; written twice, files compared byte for byte' if twice else '')
            + ('; file also checked by the independent reference reader (structure, tiling, sizes, counts, CRC, codec tags, encodings lists, every column\'s content%s)' % (', page statistics are true bounds' if statcheck else '') if ref else '')
            + ('' if anysym else '; real CRC-32 computed (no CRC summary)')
            + '; outside: more than 3 columns / more rows, nested or repeated columns, GZIP/ZSTD (library models), dictionary encoding (the writer emits PLAIN only), INT96 (the writer refuses it)'))
    return E2(('tab+ref/' if ref else 'tab/') + name, HT, defines=d, all_lib=True, timeout=timeout, stubs=stubs, fork_max=fork_max, max_paths=max_paths, bounds=b, **kw)


HW = 'harness/e2/c01_wide.c'


def wide(cols, rgs, rows=1, opt=0, codec='unc', ref=False):
    """footer lists (schema elements, chunks per row group, row groups) around the Thrift list-header switch at 15 elements; concrete content"""
    d = ['-DVW_COLS=%d' % cols, '-DVW_RGS=%d' % rgs, '-DVW_ROWS=%d' % rows, '-DVW_OPT=%d' % opt, '-DVW_CODEC=' + CODECS[codec]]
    kw = {}
    if ref:
        d += ['-DREFCHECK', '-DREF_MAX_COLUMNS=%d' % cols, '-DREF_MAX_ROW_GROUPS=%d' % rgs, '-DREF_MAX_SCHEMA=%d' % (cols + 1), '-DREF_MAX_VALUES=4', '-DREF_MAX_PAGES=2']
        kw['ref'] = REFS
    return E2('wide%s/c%d-rg%d-r%d-%s/%s' % ('+ref' if ref else '', cols, rgs, rows, 'opt' if opt else 'req', codec), HW, defines=d, all_lib=True, timeout=600, max_steps=40_000_000,
              stubs=[x for x in STUBS if 'crc32' not in x], bounds='%d INT32 %s columns, %d row group(s) (explicit new_row_group) of %d row(s), %s, CONCRETE content: footer lists of %d schema elements, %d column chunks per row group, %d row groups (Thrift list header: short form up to 14 elements, long form from 15); re-open, schema, partition, every value%s; outside: symbolic content, other types'
                     % (cols, 'OPTIONAL (concrete null pattern)' if opt else 'REQUIRED', rgs, rows, codec, cols + 1, cols, rgs, '; independent reference reader: structure, tiling, sizes, counts, real CRC-32, names, every value' if ref else ''), **kw)


def wides(tier, ref=False):
    o = [wide(14, 1, ref=ref), wide(15, 1, ref=ref), wide(2, 15, ref=ref)]
    if tier != 'quick':
        o += [wide(13, 1, ref=ref), wide(16, 1, ref=ref), wide(14, 1, rows=2, opt=1, ref=ref), wide(15, 2, rows=2, ref=ref), wide(16, 1, rows=2, opt=1, codec='snappy', ref=ref),
              wide(1, 14, ref=ref), wide(1, 15, ref=ref), wide(1, 16, ref=ref), wide(2, 14, rows=2, opt=1, ref=ref), wide(2, 16, rows=2, ref=ref), wide(15, 15, ref=ref)]
    return o


def deep(ref=False):
    """the deep thorough tier: tables of up to 3 columns (harness c01_tab.c).  With ref (C05) every file is also handed to the reference reader."""
    o = []
    k = dict(ref=ref, statcheck=ref)
    A = lambda **kw: dict(k, **kw)
    # ---- (1) every type x OPTIONAL/REQUIRED as the SYMBOLIC column of a 3-column table (the two others concrete), uneven
    #      batches, pages ending per batch or shared, read back through the three I/O paths, column readers and batch reader
    conc2 = {0: [(5, 1, 0, [3, 1]), (2, 0, 0, [4])], 1: [(5, 1, 0, [3, 1]), (0, 0, 0, [4])], 2: [(0, 1, 0, [1, 3]), (6, 0, 0, [4], 5)], 3: [(5, 0, 0, [2, 2]), (1, 1, 0, [4])],
             4: [(0, 1, 0, [3, 1]), (5, 1, 0, [4])], 5: [(1, 1, 0, [1, 3]), (4, 0, 0, [4])], 6: [(3, 1, 0, [2, 2]), (5, 1, 0, [4])]}
    for ct in range(7):
        for opt in (1, 0):
            r = 4 if opt or ct in (1, 2, 3, 4) else 6
            if ct in (3, 4) and opt and ref: r = 3
            cols = [(ct, opt, 3, [1, r - 1], 3)] + conc2[ct]
            cols = [c if i == 0 else tuple(list(c[:3]) + [[min(x, r) for x in c[3]] if sum(c[3]) <= r else [r]] + list(c[4:])) for i, c in enumerate(cols)]
            pos = ct % 3                       # position of the symbolic column in the schema
            cols = cols[1:1 + pos] + [cols[0]] + cols[1 + pos:]
            # OPTIONAL: both batches share ONE page; REQUIRED: every batch ends its page
            o.append(tab('sym-%s-%s/3col/r%d' % (TN[ct], 'opt' if opt else 'req', r), cols, r, ps=(1048576,) if opt else (1,), read=(1, 2, 4)[(ct + opt) % 3], via=(3, 5, 6)[ct % 3], k=3, **A(timeout=3000)))
    # ---- (2) symbolic window of 3-4 rows inside a longer table: across page and row-group boundaries, behind an empty batch
    for i, (ct, opt, sym) in enumerate(((1, 1, 3), (2, 1, 1), (5, 1, 1), (0, 1, 3), (4, 1, 2), (6, 1, 3), (3, 0, 2))):
        o.append(tab('window-%s/2col/r10-rg6.4' % TN[ct], [(ct, opt, sym, [2, 3, 1], 4), (5 if ct != 5 else 1, 1, 0, [4, 0, 2])], 10, rg=[6, 4], window=((4, 8) if sym == 1 or ct == 4 else (5, 8)) if not ref else ((5, 8) if sym == 1 or ct == 4 else (5, 7)), ps=(1,), read=(1, 2, 4)[i % 3], via=(1, 2, 4)[(i + 1) % 3], k=4, **A(timeout=3000)))
    for i, (ct, opt, sym) in enumerate(((1, 1, 1), (5, 1, 3 if not ref else 1), (0, 1, 1), (2, 0, 2))):
        o.append(tab('window-%s/3col/r12-ps80' % TN[ct], [(4, 1, 0, [5, 7]), (ct, opt, sym, [1, 2, 0, 3]), (6, 0, 0, [12], 1)], 12, window=(2, 6), ps=(80,), order=2, read=(4, 1, 2)[i % 3], via=(2, 4, 1)[i % 3], k=5, **A(timeout=3000)))
    # ---- (3) null patterns of longer columns (values concrete): RLE runs of >= 8 equal levels, several batches per page
    rn = 9 if ref else 10
    o.append(tab('nulls-INT32/1col/r%d' % rn, [(1, 1, 1, [3, 3, 4])], rn, ps=(1048576,), read=1, via=3, k=4, **A(timeout=3000)))
    o.append(tab('nulls-BOOLEAN/2col/r9', [(0, 1, 1, [4, 5]), (1, 0, 0, [9])], 9, ps=(1048576,), read=2, via=4, k=2, **A(timeout=3000)))
    o.append(tab('nulls-BYTE_ARRAY/1col/r7-rg3.4', [(5, 1, 1, [2, 2, 5])], 7, rg=[3, 4], ps=(1048576,), read=4, via=1, **A(timeout=3000)))
    # ---- (4) codecs with a symbolic null pattern (page bodies concrete per path), 3 columns
    for i, (codec, ct) in enumerate((('snappy', 1), ('lz4', 5), ('snappy', 0), ('lz4', 2), ('snappy', 6), ('lz4', 4))):
        rc = 6 if ref else 7
        o.append(tab('codec-%s-%s/3col/r%d' % (codec, TN[ct], rc), [(3, 0, 0, [rc]), (ct, 1, 1, [3, 4], 5), (5 if ct != 5 else 2, 1, 0, [2, 5])], rc, rg=None, ps=(1,), codec=(codec,), read=(1, 2, 4)[i % 3], via=(1, 4, 2)[i % 3], k=3, **A(timeout=3000)))
    # ---- (5) byte arrays with symbolic lengths 0..3, FLBA lengths 1 / 5 / 16
    o.append(tab('balen2/2col/r3', [(5, 1, 3, [1, 2]), (1, 0, 0, [3])], 3, nsymlen=2, ps=(1048576,), read=1, via=3, k=2, **A(timeout=3000)))
    o.append(tab('balen3-req/1col/r3', [(5, 0, 2, [3])], 3, nsymlen=3, ps=(1,), read=2, via=1, **A(timeout=3000)))
    for fl in (1, 5, 16):
        o.append(tab('flba%d/2col/r4' % fl, [(6, 1, 3, [3, 1], fl), (0, 1, 0, [2, 2])], 4, ps=(1,) if fl != 5 else (1048576,), read=(1, 2, 4)[fl % 3], via=3, k=3, **A()))
    # ---- (6) CONCRETE tables (special values), one path per combination of page size x codec: all types, call orders, empty batches,
    #      empty row groups, all-null / no-null columns, zero rows, statistics off, row_group_size, FILE* writer; every I/O path and reader
    PS3 = (1, 80, 1048576); C3 = ('unc', 'snappy', 'lz4')
    o.append(tab('conc/int32-ba-bool/r12-rg5.0.7', [(1, 1, 0, [2, 1]), (5, 1, 0, [3]), (0, 0, 0, [1, 4])], 12, rg=[5, 0, 7], ps=PS3, codec=C3, read=7, via=7, k=5, **k))
    o.append(tab('conc/double-flba16-int64/r12-rg1.11/reverse', [(4, 1, 0, [4, 0, 3]), (6, 0, 0, [12], 16), (2, 1, 0, [1])], 12, rg=[1, 11], order=1, ps=PS3, codec=C3, read=7, via=7, k=4, **k))
    o.append(tab('conc/float-bool-ba/r11-rg4.4.3/roundrobin', [(3, 0, 0, [1, 2]), (0, 1, 0, [3, 1]), (5, 0, 0, [2])], 11, rg=[4, 4, 3], order=2, ps=PS3, codec=C3, read=7, via=7, k=3, **k))
    o.append(tab('conc/ba-int32-flba1/r9/trail0', [(5, 1, 0, [0, 4, 0, 5]), (1, 0, 0, [9]), (6, 1, 0, [2], 1)], 9, trail0=True, ps=PS3, codec=C3, read=7, via=7, k=9, **k))
    o.append(tab('conc/allnull-nonull-bool/r8-rg3.5', [(2, 1, 4, [3, 5]), (4, 1, 8, [8]), (0, 1, 0, [1])], 8, rg=[3, 5], ps=PS3, codec=C3, read=7, via=7, k=2, **k))
    o.append(tab('conc/allnull-ba-flba/r6', [(5, 1, 4, [6]), (6, 1, 4, [2, 4], 5), (0, 1, 4, [3])], 6, ps=PS3, codec=C3, read=7, via=7, k=4, **k))
    o.append(tab('conc/zero-rows/3col', [(1, 1, 0, [1]), (5, 0, 0, [1]), (0, 1, 0, [1])], 0, rg=[0], ps=(1,), codec=C3, read=7, via=7, k=1, **k))
    o.append(tab('conc/zero-rows-2groups/2col', [(2, 0, 0, [1]), (5, 1, 0, [1])], 0, rg=[0, 0], ps=(1,), codec=C3, read=7, via=7, k=1, **k))
    o.append(tab('conc/stats-off/int64-double-int32/r8', [(2, 1, 0, [3, 5]), (4, 0, 0, [8]), (1, 1, 0, [4])], 8, stats=0, ps=PS3, codec=C3, read=7, via=7, k=3, **k))
    o.append(tab('conc/rgsize1/int32-ba/r8', [(1, 0, 0, [3]), (5, 1, 0, [8])], 8, rgsize=1, ps=PS3, codec=C3, read=7, via=7, k=3, **k))
    o.append(tab('conc/filewriter/int64-bool-float/r9-rg4.5', [(2, 1, 0, [2]), (0, 0, 0, [9]), (3, 1, 0, [4, 1])], 9, rg=[4, 5], wfile=True, ps=PS3, codec=C3, read=7, via=7, k=4, **k))
    o.append(tab('conc/24rows/int32-double-ba', [(1, 1, 0, [7, 1, 9]), (4, 1, 0, [24]), (5, 1, 0, [5])], 24, rg=[9, 15], ps=(1, 200, 1048576), codec=C3, read=7, via=7, k=7, **A(timeout=2400)))
    # ---- (7) symbolic content with options off the default: statistics off, FILE* writer, row_group_size, round robin + empty batches
    o.append(tab('sym-int64/stats-off/r4', [(2, 1, 3, [2, 2]), (5, 1, 0, [4])], 4, stats=0, ps=(1,), read=1, via=1, **A(timeout=3000)))
    o.append(tab('sym-double/filewriter/r3', [(4, 1, 3, [1, 2]), (0, 0, 0, [3])], 3, wfile=True, ps=(1048576,), read=2, via=1, **A(timeout=3000)))
    o.append(tab('sym-int32/rgsize1-roundrobin-trail0/r4', [(1, 1, 3, [0, 2]), (5, 1, 0, [1, 0])], 4, rgsize=1, order=2, trail0=True, ps=(1,), read=4, via=3, k=2, **A(timeout=3000)))
    return o


def empty_table():
    """create -> close without any write: no row group at all (added after seeded C01-empty-rowgroups-oom; the zero-row shapes above still
    write one row group)"""
    return [E2('empty-table/no-row-group|one-empty-row-group', 'harness/e2/c01_empty.c', all_lib=True, timeout=300, stubs=STUBS if 'STUBS' in globals() else [],
               bounds='schema of 1..3 columns, no write_batch call; with and without one explicit new_row_group; UNCOMPRESSED / SNAPPY / LZ4 (forks); re-opened via buffer, stdio and mmap')]


def obligations(tier):
    if tier == 'quick':
        return shapes(tier) + wides(tier) + empty_table()
    return shapes(tier) + wides(tier) + deep() + empty_table()
