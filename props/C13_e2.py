"""C13 (E2 half) — Thrift metadata round-trips and is genuine compact protocol (harness/e2/c13_meta.c + c13_ref.inc).
Shapes are concrete per obligation (or a symx_choice), the scalars / string bytes of ONE field group are symbolic over their whole
range (a symbolic varint forks by its encoded length, so the groups are enumerated here)."""
from e2 import E2
FILES = ['src/thrift/parquet_types.c', 'src/thrift/thrift_encode.c', 'src/thrift/thrift_decode.c', 'src/thrift/parquet_types.h', 'src/core/arena.c', 'src/core/buffer.c']
BUDGET = {'quick': 700, 'thorough': 2700}
H = 'harness/e2/c13_meta.c'
SRC = ['src/thrift/thrift_decode.c', 'src/thrift/thrift_encode.c', 'src/thrift/parquet_types.c', 'src/core/arena.c', 'src/core/buffer.c', 'src/core/error.c']
REF = ['ref_thrift.c', 'ref_parquet_meta.c']
FGROUPS = {0: 'nothing symbolic (shape only)', 1: 'version i32, num_rows i64', 2: 'created_by and key/value strings (length 0..3, every byte but NUL)',
           3: 'SchemaElement type, type_length (>= 0), repetition_type, root num_children (>= 0)', 4: 'SchemaElement converted_type, scale, precision, field_id',
           5: 'SchemaElement name bytes, LogicalType kind (all 14) and its parameters', 6: 'RowGroup total_byte_size, num_rows', 7: 'RowGroup file_offset, total_compressed_size',
           8: 'RowGroup ordinal i16, ColumnChunk file_offset, offset_index_length', 9: 'ColumnChunk offset_index_offset, column_index_offset',
           10: 'ColumnChunk file_path, column_index_length, ColumnMetaData type / codec / encodings[0] / bloom_filter_length', 11: 'ColumnMetaData num_values, total_uncompressed_size',
           12: 'ColumnMetaData total_compressed_size, data_page_offset', 13: 'ColumnMetaData index_page_offset, dictionary_page_offset', 14: 'ColumnMetaData bloom_filter_offset, Statistics null_count (0 included: presence must not depend on the value)',
           15: 'Statistics distinct_count, max_value, min_value (binary, length 0..3, every byte)', 16: 'Statistics deprecated max / min (binary), path_in_schema[0]',
           17: 'ColumnMetaData key/value strings and encoding_stats (written by the reference writer only)'}
PGROUPS = {0: 'nothing symbolic', 1: 'uncompressed_page_size, compressed_page_size', 2: 'crc over its whole range (0, -1, INT32_MIN included: has_crc must not depend on the value), num_values (0 included), encoding and level encodings', 3: 'num_nulls, num_rows, is_sorted',
           4: 'level byte lengths, is_compressed', 5: 'page Statistics deprecated max / min', 6: 'page Statistics null_count', 7: 'page Statistics distinct_count, max_value, min_value'}
OPTS = {0: 'canonical encoding', 1: 'every field header in long form, every list size in long form', 2: 'unknown scalar fields of every wire type (bool true/false, byte, i16, i32, i64, double, binary, uuid), ids with gaps > 15, negative id',
        3: 'unknown container fields: nested structs, lists of i32 / structs / lists / binaries, sets, maps', 4: 'unknown lists of booleans (one byte per element)',
        5: 'unknown fields placed before known ones (short-form delta from an unknown id, ids in gaps of parquet.thrift, id 32000)'}
REFDEFS = ['-DREF_MAX_KV=16', '-DREF_MAX_ENCODINGS=16', '-DREF_MAX_PATH=16', '-DREF_MAX_ROW_GROUPS=2', '-DREF_MAX_COLUMNS=2', '-DREF_MAX_SCHEMA=17']


def fm(mode, g, ns=2, nrg=1, ncol=1, nkv=1, pv=1, vlong=0, longstr=0, opt=0, timeout=600, tag=''):
    nm = '%s/g%d/ns%d-rg%dx%d-kv%d-pv%d%s%s%s%s' % ('file-meta-rt' if mode == 1 else 'file-meta-from-ref', g, ns, nrg, ncol, nkv, pv, '-long%d' % vlong if vlong else '',
                                               '-longstr%d' % longstr if longstr else '', '/opt%d' % opt if mode == 3 else '', tag)
    d = ['-DVMODE=%d' % mode, '-DVG=%d' % g, '-DVNS=%d' % ns, '-DVNRG=%d' % nrg, '-DVNCOL=%d' % ncol, '-DVNKV=%d' % nkv, '-DVPV=%d' % pv, '-DVLONG=%d' % vlong, '-DVLONGSTR=%d' % longstr, '-DVOPT=%d' % opt] + REFDEFS
    return E2(nm, H, SRC, d, ref=REF, timeout=timeout, max_paths=100000,
              bounds='FileMetaData: %d schema elements, %d row group(s) x %d column(s), %d key/value pair(s), optional-field presence variant %d%s%s; symbolic: %s; the other scalars fixed%s' % (
                  ns, nrg, ncol, nkv, pv, (', list %d with 15 elements' % vlong) if vlong else '', (', 300-byte string %d' % longstr) if longstr else '', FGROUPS[g],
                  ('; written by the reference writer: ' + OPTS[opt]) if mode == 3 else '; bytes also read by the independent reference parser'))


def ph(mode, g, pv=1, opt=0, pt=-1, timeout=600):
    nm = '%s/g%d/pv%d%s%s' % ('page-header-rt' if mode == 2 else 'page-header-from-ref', g, pv, '/opt%d' % opt if mode == 4 else '', '' if pt < 0 else '/type%d' % pt)
    return E2(nm, H, SRC, ['-DVMODE=%d' % mode, '-DVG=%d' % g, '-DVPV=%d' % pv, '-DVOPT=%d' % opt, '-DVPT=%d' % pt] + REFDEFS, ref=REF, timeout=timeout, max_paths=100000,
              bounds='PageHeader of type %s, presence variant %d; symbolic: %s%s' % ('DATA / DICTIONARY / DATA_V2 (symx_choice)' if pt < 0 else str(pt), pv, PGROUPS[g],
                                                                                    ('; written by the reference writer: ' + OPTS[opt]) if mode == 4 else '; bytes also read by the independent reference parser'))


def obligations(tier):
    q = tier == 'quick'
    o = []
    # ---- (1)+(2) carquet write -> carquet parse and reference parse: shapes
    for ns in (1, 2, 15, 16, 17):
        o.append(fm(1, 0, ns=ns))
    for pv in (0, 2, 3):
        o.append(fm(1, 0, pv=pv, nrg=2, ncol=2, nkv=2))
    o.append(fm(1, 0, nrg=0, nkv=0))
    o.append(fm(1, 0, nrg=2, ncol=2, ns=3))
    for vl in (1, 2, 3):
        o.append(fm(1, 0, vlong=vl))
    for ls in (1, 2, 3, 4):
        o.append(fm(1, 0, longstr=ls))
    # ---- field groups, everything present
    for g in range(1, 17):
        o.append(fm(1, g, timeout=900))
    if not q:
        for g in range(1, 17):
            o.append(fm(1, g, pv=2 + g % 2, nrg=2, ncol=2, ns=3, timeout=1500))
    # ---- (3) reference writer -> carquet parse
    for opt in range(0, 6):
        o.append(fm(3, 0, opt=opt, nrg=2, ncol=2, ns=3, nkv=2))
        if not q:
            o.append(fm(3, 0, opt=opt, pv=2)); o.append(fm(3, 0, opt=opt, pv=3)); o.append(fm(3, 0, opt=opt, ns=17, vlong=1))
    o.append(fm(3, 0, opt=1, ns=16)); o.append(fm(3, 0, opt=0, vlong=3)); o.append(fm(3, 0, opt=1, longstr=2))
    for g in range(1, 18):
        for opt in ([1 + g % 3] if q else [0, 1, 2, 3, 5]):
            o.append(fm(3, g, opt=opt, timeout=900))
    # ---- page headers (pv 3: crc present, no statistics; pv 0: neither; pv 1: DATA pages carry statistics)
    for g in range(0, 5):
        o.append(ph(2, g, pv=3))
    o.append(ph(2, 0, pv=0)); o.append(ph(2, 1, pv=0))
    for g in (0, 5, 6, 7):
        o.append(ph(2, g, pv=1, pt=0))          # data page statistics: known finding F-PAGEHDR-STATS
    for opt in range(0, 6):
        o.append(ph(4, 0, pv=3, opt=opt))
    for g in range(1, 5):
        for opt in ([1 + g % 3] if q else [0, 1, 2, 3, 5]):
            o.append(ph(4, g, pv=3, opt=opt))
    o.append(ph(4, 0, pv=1, opt=2, pt=0))
    return o
