"""C12 (encoded bytes follow the Parquet encoding specifications) — E1/CBMC half.

  carquet encoder -> reference (specification) decoder == v            obligations tagged 'C12' in props/C11_e1.py
  reference encoder -> carquet decoder == v, where the decoder's control flow does not depend on symbolic bytes:
      PLAIN, BYTE_STREAM_SPLIT, raw bit-unpack (props/C11_e1.py, tagged 'C12') and the hybrid RLE / level / dictionary-index
      decoders on specification streams with a CONCRETE run layout and symbolic values (rle_dec below), including the legal
      forms carquet's own encoder never emits.
Arbitrary layouts / arbitrary bytes, the DELTA_* decoders and the whole DELTA_BINARY_PACKED encoder beyond 3 values are the E2 half."""
from e1 import E1
from props import C11_e1
from props.C11_e1 import tag

FILES = C11_e1.FILES
BUDGET = {'quick': 900, 'thorough': 2700}


def stream_len(layout, bw, padmask=0):
    n = 0
    for d, x in enumerate(layout):
        k = x & 0x7f
        if x & 0x80:
            h = k << 1
            n += (bw + 7) // 8
        else:
            g = (k + 7) // 8
            h = (g << 1) | 1
            n += g * bw
        hb = 1
        while h >= 0x80:
            hb += 1; h >>= 7
        n += hb + (1 if (padmask >> d) & 1 else 0)
    return n


# name -> (layout, padmask): what the layout exercises
LAYOUTS = {
    'one-group':              ([0x08], 0),
    'padded-final-group':     ([0x03], 0),
    'multi-group-run':        ([0x10, 0x05], 0),                       # 2 groups in ONE run, then a padded final group
    'rle-then-literals':      ([0x89, 0x08], 0),
    'short-rle-runs':         ([0x81, 0x83, 0x82], 0),                  # RLE runs shorter than 8 (legal, never emitted by carquet)
    'zero-length-runs':       ([0x80, 0x00, 0x08, 0x80, 0x83, 0x00], 0),  # empty RLE and empty bit-packed runs between real ones
    'group-rle-group':        ([0x08, 0x8a, 0x03], 0),
    'padded-varint-headers':  ([0x08, 0x84], 3),                       # non-minimal header varints (0x83 0x00 / 0x88 0x00)
    'long-rle':               ([0xff, 0x04], 0),                       # 127 copies: 2-byte header, then a padded group
    'empty':                  ([], 0),
}
SCRIPTS = {
    'get-all':      lambda n: [(0, 0)] * (n + 1),
    'batch-1-3-rest': lambda n: [(1, 1), (1, 3), (1, n)],
    'skip-get-mix': lambda n: [(2, 2), (0, 0), (1, 4), (2, 3), (0, 0), (1, n), (0, 0)],
    'skip-all':     lambda n: [(2, n + 2), (1, 1)],
    'batch-0':      lambda n: [(1, 0), (2, 0), (1, n)],
}
RLE_DEC_FN = ['carquet_rle_decoder_init', 'carquet_rle_decoder_get_batch', 'start_new_run', 'fill_bitpack_buffer', 'read_varint', 'carquet_bitunpack8_32']


def rle_dec(tier):
    quick = tier == 'quick'
    H = 'harness/e1/c12_rle_dec.c'
    SRC = ['src/encoding/rle.c', 'src/core/bitpack.c']
    o = []
    def one(vt, lname, bw, script=None, ask=None, trail=0, kind=None, props=('C12',)):
        layout, pad = LAYOUTS[lname]
        n = sum(x & 0x7f for x in layout)
        ln = stream_len(layout, bw, pad)
        phys = sum((x & 0x7f) if x & 0x80 else ((x + 7) // 8 * 8) for x in layout)
        d = ['-DVT=%d' % vt, '-DVBW=%d' % bw, '-DVLAYOUT={%s}' % ','.join('0x%02x' % x for x in layout) if layout else '-DVLAYOUT={0}', '-DVLN=%d' % len(layout),
             '-DVN=%d' % n, '-DVPHYS=%d' % phys, '-DVLEN=%d' % ln, '-DVPADMASK=%d' % pad, '-DVTRAIL=%d' % trail]
        nm = {0: 'rle-dec/decode_all', 1: 'rle-dec/levels', 2: 'rle-dec/levels-prefixed', 3: 'rle-dec/stream', 4: 'dict-dec/int32', 5: 'dict-dec/int64'}[vt]
        nm += '/%s/bw%d' % (lname, bw)
        fn = list(RLE_DEC_FN)
        if script:
            sc = SCRIPTS[script](n)
            d += ['-DVSCRIPT={%s}' % ','.join('%d,%d' % s for s in sc), '-DVSN=%d' % len(sc)]
            nm += '/' + script
            fn += ['carquet_rle_decoder_get', 'carquet_rle_decoder_skip', 'carquet_rle_decoder_has_next']
        if ask is not None:
            d += ['-DVASK=%d' % ask]; nm += '/ask%d' % ask
        if trail:
            nm += '/trail%d' % trail
        if vt in (1, 2):
            fn = ['carquet_rle_decode_levels', 'carquet_rle_decode_levels_prefixed', 'carquet_bitunpack8_32', '_mm_set1_epi16/_mm_storeu_si128/_mm_packs_epi32 (model)']
        src = list(SRC)
        if vt >= 4:
            src += ['src/encoding/dictionary.c', 'src/core/buffer.c']; d += ['-DVD=3']
            fn += ['carquet_dictionary_decode_int%d' % (32 if vt == 4 else 64), 'carquet_rle_decode_all']
        o.append(tag(E1(nm, H, src, d, unwind=max(n, ln, 33) + 12, backends=('minisat', 'kissat'), timeout=300, models=True, ref=['ref_rle.c'],
                        stub_realloc=(vt >= 4), extra_cbmc=['--max-field-sensitivity-array-size', '1024'],
                        exclude='F-RLE-ZERORUN' if lname == 'zero-length-runs' else None,
                        bounds='run layout %s (%d values, %d stream bytes) concrete, every value < 2^%d symbolic; input = exact-size object' % (
                            '[' + ' '.join(('RLE*%d' % (x & 0x7f)) if x & 0x80 else ('BP*%d' % x) for x in layout) + ']', n, ln, bw) +
                               ('; reads ask for %d values' % ask if ask is not None else ''),
                        functions=fn), props))
    lay_q = ['one-group', 'padded-final-group', 'multi-group-run', 'short-rle-runs', 'zero-length-runs', 'group-rle-group', 'padded-varint-headers', 'empty']
    lay_t = list(LAYOUTS)
    for lname in (lay_q if quick else lay_t):
        for bw in ((3,) if quick else (1, 3, 8, 9, 32)):
            one(0, lname, bw)
    for bw in ((0, 1, 12, 32) if quick else (0, 2, 7, 12, 16, 31)):
        one(0, 'group-rle-group', bw)
    one(0, 'group-rle-group', 3, ask=13)          # stop inside the RLE run
    one(0, 'multi-group-run', 3, ask=9)           # stop inside the second group
    for lname in (('padded-final-group', 'group-rle-group', 'zero-length-runs') if quick else lay_t):
        for bw in ((1, 2) if quick else (0, 1, 2, 3, 8, 16)):
            one(1, lname, bw)
            if bw in (1, 2):
                one(2, lname, bw, trail=2)
    for sname in SCRIPTS:
        for lname in (('group-rle-group',) if quick else ('group-rle-group', 'multi-group-run', 'zero-length-runs', 'short-rle-runs')):
            one(3, lname, 3, script=sname, props=('C11', 'C12'))
    for vt in (4, 5):
        for lname in (('group-rle-group',) if quick else ('group-rle-group', 'multi-group-run', 'short-rle-runs', 'padded-final-group')):
            one(vt, lname, 2, props=('C11', 'C12'))
    return o


def table(tier):
    return [x for x in C11_e1.table(tier) if 'C12' in x.props] + rle_dec(tier)


def obligations(tier):
    return table(tier)
