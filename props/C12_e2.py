"""C12 (E2 half) — carquet's decoders return the original values for streams produced by an independent specification
encoder, including legal forms carquet's own encoders never emit (harness/e2/c12_dec.c).  The decoders branch on the input
bytes, so they are run in the path-forking executor; the stream LAYOUT (run structure, mini-block widths, block shape) is
concrete per path (symx_choice), every value bit is symbolic."""
from e2 import E2
FILES = ['src/encoding/rle.c', 'src/encoding/delta.c', 'src/encoding/delta_length.c', 'src/encoding/delta_strings.c', 'src/encoding/dictionary.c', 'src/core/bitpack.c']
BUDGET = {'quick': 600, 'thorough': 2700}
H = 'harness/e2/c12_dec.c'
RLE = ['src/encoding/rle.c', 'src/core/bitpack.c', 'src/core/buffer.c']
DICT = ['src/encoding/dictionary.c'] + RLE
DELTA = ['src/encoding/delta.c', 'src/core/bitpack.c', 'src/core/buffer.c']
DSTR = DELTA + ['src/encoding/delta_length.c', 'src/encoding/delta_strings.c']
DECN = ['decode-all', 'decode-levels', 'levels-prefixed', 'stream-get', 'dict-int32', 'dict-int64', 'dict-float', 'dict-double']
LAYDESC = {0: 'single / multi-group bit-packed runs, padded final groups, RLE runs of 1..23, zero-length bit-packed runs',
           1: 'zero-length RLE runs (header 0x00 + value bytes) between real runs',
           2: 'padded group, short RLE runs, zero-length bit-packed run; <= 4 values',
           3: 'zero-length RLE runs; <= 3 values'}
NLAY = {0: 12, 1: 4, 2: 4, 3: 2}


def rle(dec, bw, layset, pad=0, timeout=300):
    zero = layset in (1, 3)
    nm = 'rle-dec/%s/bw%d/%s%s' % (DECN[dec], bw, 'zero-length-rle-runs' if zero else 'layouts', '/padded-headers' if pad else '')
    return E2(nm, H, DICT if dec >= 4 else RLE, ['-DVMODE=1', '-DVDEC=%d' % dec, '-DVBW=%d' % bw, '-DVLAYSET=%d' % layset, '-DVPADHDR=%d' % pad],
              ref=['ref_rle.c'], timeout=timeout, leaks=True, expect_paths_min=NLAY[layset],
              bounds='reference hybrid stream, layout chosen among the %d concrete layouts of set %d (%s)%s, %s values of %d bits all symbolic%s' % (
                  NLAY[layset], layset, LAYDESC[layset], ', every run header as a non-minimal varint' if pad else '', '0..24' if layset < 2 else '3..4', bw,
                  '; dictionary of 3 symbolic entries, indices 0..2' if dec >= 4 else ''))


def delta(wide, n, wsel=None, bs=128, mb=4, strict=1, zz=-1, timeout=300, tag='', src=1):
    nm = 'delta-dec/int%d/n%d/%dx%d/%s%s%s' % (64 if wide else 32, n, bs, mb, 'widths-all' if wsel is None else 'w%d' % wsel, '/minimal-varints' if zz == 0 else '',
                                           '' if strict else '/error-or-right')
    d = ['-DVMODE=2', '-DVSRC=%d' % src, '-DVWIDE=%d' % wide, '-DVCNT=%d' % n, '-DVBS=%d' % bs, '-DVMB=%d' % mb, '-DVSTRICT=%d' % strict, '-DVZZ=%d' % zz]
    if wsel is not None: d.append('-DVWSEL=%d' % wsel)
    return E2(nm + tag, H, DELTA, d, ref=['ref_delta.c', 'ref_rle.c'], timeout=timeout, leaks=True,
              bounds='reference DELTA_BINARY_PACKED stream, %d values all symbolic (wrap-around included), block %d x %d mini-blocks, dictated mini-block widths %s, zig-zag varints %s, width byte of unused mini-blocks symbolic%s' % (
                  n, bs, mb, 'chosen among the concrete vectors of the harness' if wsel is None else 'vector %d' % wsel, 'minimal' if zz == 0 else 'padded to 5/10 bytes',
                  '' if strict else '; shape not documented by carquet: an error or the right values, never wrong values'))


def strings(mode, n, sl=2, timeout=600):
    return E2('%s/n%d-len%d' % ('delta-length-dec' if mode == 3 else 'delta-byte-array-dec', n, sl), H, DSTR, ['-DVMODE=%d' % mode, '-DVCNT=%d' % n, '-DVSL=%d' % sl],
              ref=['ref_delta.c', 'ref_rle.c'], timeout=timeout, leaks=True, fork_max=16,
              bounds='reference %s stream of %d strings, each length 0..%d and every byte symbolic%s' % (
                  'DELTA_LENGTH_BYTE_ARRAY' if mode == 3 else 'DELTA_BYTE_ARRAY', n, sl, '' if mode == 3 else '; prefixes longest-common or all zero'))


def obligations(tier):
    q = tier == 'quick'
    o = []
    for dec in (0, 1, 2, 3):
        # bit width 0 (runs without payload bytes: the indices of a one-entry dictionary, the levels of a max-level-0 stream) is legal
        for bw in ([0, 1, 3, 8] if q else [0, 1, 2, 3, 7, 8, 9, 16]) + ([] if dec in (1, 2) else ([17] if q else [17, 24, 32])):
            o.append(rle(dec, bw, 0))
            o.append(rle(dec, bw, 1))
    for dec in (0, 1, 3):
        for bw in ([0, 2, 9] if q else [0, 1, 2, 8, 9, 16]):
            o.append(rle(dec, bw, 0, pad=1))
    for dec in (4, 5, 6, 7):
        for bw in ([2] if q else [2, 3, 8]):
            o.append(rle(dec, bw, 2))
        o.append(rle(dec, 2, 3))
    for wide in (0, 1):
        # through the reference ENCODER (symbolic values): only tiny counts finish (the solver has to cancel v[i]-v[i-1] sums)
        for n in (0, 1, 2):
            o.append(delta(wide, n, src=0, tag='/via-encoder'))
        # every stream of the layout, reference decoder as the oracle
        for n in ([1, 2, 3, 9, 33, 34] if q else [1, 2, 3, 5, 9, 32, 33, 34, 65, 66]):
            o.append(delta(wide, n, timeout=600))
        # second block (129 values fill the first one): one width vector per obligation
        for n in ([130] if q else [97, 129, 130, 257]):
            for ws in ([4] if q else [0, 1, 2, 3, 4, 5] + ([6] if wide else [])):
                o.append(delta(wide, n, wsel=ws, timeout=900))
        for n in ([3] if q else [2, 3, 9]):
            o.append(delta(wide, n, zz=0, timeout=600))
        # legal block shapes carquet's decoder does not document: an error, never wrong values ...
        for bs, mb in ([(256, 8), (128, 1), (256, 4)] if q else [(256, 8), (128, 1), (128, 2), (256, 4), (256, 2), (1024, 4), (384, 4)]):
            o.append(delta(wide, 3 if q else 35, wsel=0, bs=bs, mb=mb, strict=0))
    # ... and the strict reading of the property (the shape must decode): known finding F-DELTA-BLOCKSHAPE
    o.append(delta(0, 3, wsel=4, bs=256, mb=8))
    o.append(delta(1, 3, wsel=4, bs=256, mb=4))
    # widths above 32 that are not byte multiples: known finding F-DELTA-WIDE
    for n in ([3, 66] if q else [2, 3, 34, 66]):
        o.append(delta(1, n, wsel=7))
    o.append(delta(1, 3, wsel=8))
    for n in ([1, 2, 3] if q else [1, 2, 3, 4]):
        o.append(strings(3, n, 2))
        o.append(strings(4, n, 2))
    return o
