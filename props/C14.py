"""C14 — checksums are IEEE CRC-32 and page damage is detected.
E1 half (props/C14_e1.py, CBMC): carquet_crc32 / update / slicing kernels against the bitwise IEEE definition, linearity lemmas.
E2 half (props/C14_e2.py, symx): files of the real writer with CRCs, symbolic damage to page bytes (every position, bursts <= 8 bits; 16 bits at
sampled positions), all three I/O paths, verification on/off, special stored CRC values (0, 0xFFFFFFFF, 1, 0x80000000)."""
from props import C14_e1 as _e1, C14_e2 as _e2
FILES = sorted(set(_e1.FILES) | set(_e2.FILES))
BUDGET = {'quick': 840, 'thorough': 3600}


def obligations(tier):
    return _e1.obligations(tier) + _e2.obligations(tier)


def evidence_extra(tier):
    out = {}
    for m in (_e1, _e2):
        for k, v in (getattr(m, 'evidence_extra', lambda t: {})(tier) or {}).items():
            if isinstance(v, list) and isinstance(out.get(k), list):
                out[k] = out[k] + v
            elif isinstance(v, dict) and isinstance(out.get(k), dict):
                out[k].update(v)
            else:
                out.setdefault(k, v)
    return out
