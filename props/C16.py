"""C16 — statistics are true bounds and pruning never discards matching data."""
from e1 import E1
FILES = ['src/reader/statistics.c', 'src/metadata/statistics.c', 'src/metadata/page_index.c', 'src/writer/page_writer.c',
         'src/thrift/parquet_types.c']
BUDGET = {'quick': 840, 'thorough': 2400}
TN = {0: 'bool', 1: 'i32', 2: 'i64', 3: 'i96', 4: 'float', 5: 'double', 6: 'bytes', 7: 'flba'}
# every obligation here is decided in seconds by the SAT back ends once symex is through; two back ends per obligation keep
# four obligations in flight with --jobs 8.  The arena/thrift queries (symbolic offsets) go to z3 first.
SAT = ('minisat', 'kissat')
SMT = ('z3', 'minisat')
HB = 'harness/e1/c16_builder.c'
SRC_B = ['src/metadata/statistics.c', 'src/core/arena.c']
FN_B = ['carquet_statistics_builder_create', 'carquet_statistics_add_nulls', 'carquet_statistics_add_values',
        'carquet_statistics_add_byte_arrays', 'carquet_statistics_build', 'carquet_statistics_builder_reset']


def builder(quick):
    o = []
    ns = [(1, 1), (3, 3), (3, 1)] if quick else [(1, 1), (2, 2), (2, 1), (3, 3), (3, 2), (4, 4), (4, 2)]
    for t in (0, 1, 2, 3, 4, 5, 7):
        for n, n1 in ns:
            for ln in ([3] if t == 7 and quick else [1, 3, 5] if t == 7 else [0]):
                nm = 'builder/%s%s/n%d%s' % (TN[t], ('-len%d' % ln) if t == 7 else '', n, '' if n1 == n else '-split%d' % n1)
                o.append(E1(nm, HB, SRC_B, ['-DMODE=1', '-DTYPE=%d' % t, '-DN=%d' % n, '-DN1=%d' % n1, '-DLEN=%d' % ln],
                            unwind=max(n, ln, 12) + 2, backends=SAT, timeout=200, stub_realloc=False, functions=FN_B,
                            bounds='%d symbolic %s value(s) (every bit pattern%s) added in %s, two symbolic add_nulls counts in [0,2^40]; '
                                   'build with malloc' % (n, TN[t], '; NaN = the canonical quiet NaN, chosen per value' if t in (4, 5) else '',
                                                          'one call' if n1 == n else 'two calls (%d+%d)' % (n1, n - n1))))
    # BYTE_ARRAY: unequal, symbolic lengths 0..L
    for n, n1, L in ([(2, 2, 3), (3, 3, 2), (3, 1, 3)] if quick else [(1, 1, 4), (2, 2, 5), (2, 1, 8), (3, 3, 4), (3, 2, 5), (4, 4, 3), (4, 2, 3)]):
        o.append(E1('builder/bytes/n%d%s-len<=%d' % (n, '' if n1 == n else '-split%d' % n1, L), HB, SRC_B,
                    ['-DMODE=2', '-DTYPE=6', '-DN=%d' % n, '-DN1=%d' % n1, '-DLEN=%d' % L], unwind=max(n, L) + 2, backends=SAT, timeout=240,
                    stub_realloc=False, functions=FN_B,
                    bounds='%d BYTE_ARRAY values, each of symbolic length 0..%d with symbolic bytes, every value its own exact-size heap object; '
                           'two symbolic add_nulls counts' % (n, L)))
    # reset + reuse, arena-backed build
    for t in ([1, 4] if quick else [0, 1, 2, 3, 4, 5, 7]):
        o.append(E1('builder-reset/%s' % TN[t], HB, SRC_B, ['-DMODE=3', '-DTYPE=%d' % t, '-DN=2', '-DN1=2', '-DLEN=3'], unwind=14, backends=SAT,
                    timeout=200, stub_realloc=False, functions=FN_B, bounds='2 symbolic values, build, reset, 1 symbolic value, build'))
        o.append(E1('builder-arena/%s' % TN[t], HB, SRC_B, ['-DMODE=1', '-DUSE_ARENA', '-DTYPE=%d' % t, '-DN=2', '-DN1=2', '-DLEN=3'], unwind=14,
                    backends=SMT, timeout=200, stub_realloc=False, functions=FN_B + ['carquet_arena_memdup'],
                    bounds='2 symbolic values, min/max copied into a carquet arena'))
    # values longer than the builder's 256-byte min/max storage
    for big in ([257] if quick else [257, 300]):
        o.append(E1('builder/bytes-long%d' % big, HB, SRC_B, ['-DMODE=4', '-DTYPE=6', '-DN=2', '-DN1=2', '-DLEN=2', '-DBIGLEN=%d' % big],
                    unwind=8, unwindset={'memcmp.0': big + 2, 'o_cmp_lex.0': big + 2}, backends=SAT, timeout=240, stub_realloc=False, functions=FN_B,
                    exclude='F-STATSB-LONG',
                    bounds='one BYTE_ARRAY value of length 2 (symbolic bytes) and one of length %d (4 symbolic leading bytes, zero tail)' % big))
        o.append(E1('builder/flba-long%d' % big, HB, SRC_B, ['-DMODE=1', '-DOPTIONAL_STATS', '-DTYPE=7', '-DN=1', '-DN1=1', '-DLEN=%d' % big],
                    unwind=8, unwindset={'memcmp.0': big + 2, 'o_cmp_lex.0': big + 2}, backends=SAT, timeout=240, stub_realloc=False, functions=FN_B,
                    exclude='F-STATSB-FLBA256', bounds='1 FIXED_LEN_BYTE_ARRAY value of type_length %d, symbolic bytes' % big))
    return o


HP = 'harness/e1/c16_pagewriter.c'
SRC_P = ['src/writer/page_writer.c', 'src/core/buffer.c', 'src/core/endian.c', 'src/encoding/plain.c', 'src/encoding/rle.c', 'src/core/bitpack.c',
         'src/thrift/thrift_encode.c']
FLT_NOTE = '; NaN = the canonical quiet NaN chosen per value, all other bit patterns symbolic'


def pagewriter(quick):
    o = []
    for t in (1, 2, 4, 5):
        fn = 'update_statistics_%s' % {1: 'i32', 2: 'i64', 4: 'float', 5: 'double'}[t]
        for n, n1 in ([(1, 1), (3, 3), (3, 1)] if quick else [(1, 1), (2, 2), (2, 1), (3, 3), (3, 2), (4, 4), (4, 1), (4, 2)]):
            o.append(E1('pagewriter-update/%s/n%d%s' % (TN[t], n, '' if n1 == n else '-split%d' % n1), HP, [],
                        ['-DMODE=1', '-DINCLUDE_IMPL', '-DTYPE=%d' % t, '-DN=%d' % n, '-DN1=%d' % n1], includes_source=['src/writer/page_writer.c'],
                        unwind=14, backends=SAT, timeout=200, stub_realloc=False, functions=[fn], exclude='F-PW-NANFIRST' if t in (4, 5) else None,
                        bounds='static %s called directly on a zeroed page writer (the full writer path is the pagewriter-api family): %d symbolic '
                               'value(s) in %s%s' % (fn, n, 'one call' if n1 == n else 'two calls (%d+%d)' % (n1, n - n1), FLT_NOTE if t in (4, 5) else '')))
        # public path: OPTIONAL column, concrete null pattern (bit i = row i present), page header parsed back
        for n, pat in ([(3, 0b111), (3, 0b101), (2, 0b00)] if quick else [(1, 0b1), (2, 0b00), (2, 0b10), (3, 0b111), (3, 0b101), (3, 0b010), (4, 0b1111), (4, 0b0110), (4, 0b1011)]):
            o.append(E1('pagewriter-api/%s/rows%d-present%s' % (TN[t], n, format(pat, '0%db' % n)[::-1]), HP, SRC_P,
                        ['-DMODE=2', '-DTYPE=%d' % t, '-DN=%d' % n, '-DN1=%d' % n, '-DDEFPAT=%d' % pat] + (['-DNOFINALIZE'] if t in (4, 5) else []), ref=['ref_thrift.c'], models=True,
                        extra_cbmc=['--max-field-sensitivity-array-size', '4200'],  # the 4096-byte carquet_buffer must stay constant-propagated
                        unwind=14, backends=('minisat',), timeout=240, functions=['carquet_page_writer_add_values', 'carquet_page_writer_get_statistics',
                                                                          'carquet_page_writer_finalize', fn, 'thrift_write_binary', 'thrift_write_i64'],
                        exclude='F-PW-NANFIRST' if t in (4, 5) else None,
                        bounds='OPTIONAL %s column, %d rows with the concrete null pattern %s (1 = present), symbolic values%s; PLAIN, uncompressed, '
                               'CRC off; one add_values call; %s' % (TN[t], n, format(pat, '0%db' % n)[::-1], FLT_NOTE if t in (4, 5) else '',
                                                                   'statistics read with carquet_page_writer_get_statistics (no finalize: header layout would depend on the data)' if t in (4, 5)
                                                                   else 'finalize, header parsed by the reference Thrift reader')))
    return o


HR = 'harness/e1/c16_prune.c'
SRC_R = ['src/reader/statistics.c', 'src/reader/file_reader.c']
FN_R = ['carquet_reader_row_group_matches', 'carquet_reader_column_statistics', 'carquet_reader_filter_row_groups', 'carquet_reader_num_row_groups',
        'get_compare_fn', 'compare_int32', 'compare_int64', 'compare_float', 'compare_double', 'compare_bytes']
LAYOUTS = ('statistics per row group in a symbolic layout: new fields | deprecated fields | both | has_statistics=false | has_metadata=false | '
           'only min_value | min_value+deprecated max | no column chunk')


def tvariants(quick):
    """(type, LEN, label)"""
    v = [(1, 0, 'i32'), (2, 0, 'i64'), (4, 0, 'float'), (5, 0, 'double')]
    v += [(6, 2, 'bytes-len<=2'), (7, 2, 'flba-len2')] if quick else [(6, 1, 'bytes-len<=1'), (6, 3, 'bytes-len<=3'), (6, 5, 'bytes-len<=5'), (7, 1, 'flba-len1'), (7, 3, 'flba-len3'), (7, 6, 'flba-len6')]
    return v


def prune(quick):
    o = []
    def what(t, ln):
        return ('%s column; symbolic min, max, row value x (min <= x <= max assumed), probe and operator (all six)%s; %s' %
                (TN[t], '; NaN-free (IEEE order, -0.0 == +0.0)' if t in (4, 5) else '; every length symbolic in 0..%d, unequal lengths included' % ln if t == 6
                 else '; type_length %d' % ln if t == 7 else '', LAYOUTS))
    for t, ln, lab in tvariants(quick):
        for nrg in ([2] if quick else [1, 2]):
            o.append(E1('prune-match/%s/rg%d' % (lab, nrg), HR, SRC_R, ['-DMODE=1', '-DTYPE=%d' % t, '-DLEN=%d' % ln, '-DNRG=%d' % nrg], unwind=max(ln, 12) + 2,
                        backends=SAT, timeout=240, stub_realloc=False, functions=FN_R, bounds='%d row group(s), %s' % (nrg, what(t, ln))))
    # filter_row_groups: cap below, at and above the number of groups
    combos = [(1, 0, 'i32', 3, 0), (1, 0, 'i32', 3, 1), (1, 0, 'i32', 3, 2), (1, 0, 'i32', 3, 3), (1, 0, 'i32', 3, 4), (2, 0, 'i64', 2, 1), (4, 0, 'float', 2, 2),
              (5, 0, 'double', 3, 2), (6, 2, 'bytes-len<=2', 2, 1), (7, 2, 'flba-len2', 3, 2)]
    if not quick:
        combos = [(t, ln, lab, nrg, mx) for t, ln, lab in tvariants(False) if ln <= 3 for nrg in (1, 2, 3) for mx in range(0, nrg + 2)]
    for t, ln, lab, nrg, mx in combos:
        o.append(E1('prune-filter/%s/rg%d-max%d' % (lab, nrg, mx), HR, SRC_R, ['-DMODE=2', '-DTYPE=%d' % t, '-DLEN=%d' % ln, '-DNRG=%d' % nrg, '-DMAXI=%d' % mx],
                    unwind=max(ln, 12) + 2, backends=SAT, timeout=300, stub_realloc=False, functions=FN_R,
                    bounds='%d row groups, output array of exactly max_indices=%d entries, %s' % (nrg, mx, what(t, ln))))
    # NaN probe / NaN bounds (Parquet: a NaN min or max must be ignored; IEEE: x != NaN holds for every x)
    for t in (4, 5):
        o.append(E1('prune-nan/%s/probe' % TN[t], HR, SRC_R, ['-DMODE=1', '-DTYPE=%d' % t, '-DNRG=1', '-DNANMODE=1'], unwind=14, backends=SAT, timeout=240,
                    stub_realloc=False, functions=FN_R, exclude='F-PRUNE-NAN', bounds='1 row group, probe = canonical quiet NaN, NaN-free statistics and value, all operators'))
        o.append(E1('prune-nan/%s/bounds' % TN[t], HR, SRC_R, ['-DMODE=1', '-DTYPE=%d' % t, '-DNRG=1', '-DNANMODE=2'], unwind=14, backends=SAT, timeout=240,
                    stub_realloc=False, functions=FN_R, exclude='F-PRUNE-NAN',
                    bounds='1 row group, min and/or max may be the canonical quiet NaN (then that bound is not assumed), NaN-free value and probe, all operators'))
    # BOOLEAN is outside the property's reader-API quantifier; kept because the code accepts it (1-byte plain values)
    # statistics of the wrong size for a fixed-width column (hostile / malformed footer): exact-size heap objects of 1..W-1 bytes
    for t_, lab_ in ((1, 'i32'), (2, 'i64'), (4, 'float'), (5, 'double')) if True else ():
        o.append(E1('prune-match/%s/rg1/stats-of-wrong-size' % lab_, HR, SRC_R, ['-DMODE=1', '-DTYPE=%d' % t_, '-DLEN=0', '-DNRG=1', '-DBADLEN'], unwind=14, backends=SAT, timeout=240, stub_realloc=False,
                    bounds='one row group, min / max statistics of 1..W bytes (at least one shorter than the type width) in exact-size heap objects, every probe and operator: no access outside them, the group is kept',
                    functions=['carquet_reader_row_group_matches', 'carquet_reader_column_statistics']))
    o.append(E1('prune-match/bool/rg1', HR, SRC_R, ['-DMODE=1', '-DTYPE=0', '-DNRG=1'], unwind=14, backends=SAT, timeout=240, stub_realloc=False,
                functions=FN_R, exclude='F-PRUNE-BOOL4', bounds='BOOLEAN column (beyond the property quantifier): 1-byte min, max, value and probe in exact-size heap objects'))
    return o


HH = 'harness/e1/c16_helpers.c'


def helpers(quick):
    o = []
    allv = [(0, 0, 'bool'), (3, 0, 'i96')] + tvariants(quick)
    for t, ln, lab in allv:
        d = ['-DTYPE=%d' % t, '-DLEN=%d' % ln]
        nanb = '; NaN = canonical quiet NaN chosen per operand, ordered after every number' if t in (4, 5) else ''
        o.append(E1('helpers-compare/%s' % lab, HH, ['src/metadata/statistics.c'], d + ['-DMODE=1'], unwind=max(ln, 12) + 2, backends=SAT, timeout=200,
                    stub_realloc=False, functions=['carquet_statistics_compare'],
                    bounds='symbolic min, max (each present or absent) and value of type %s%s' % (lab, nanb)))
        o.append(E1('helpers-overlap/%s' % lab, HH, ['src/metadata/statistics.c'], d + ['-DMODE=2'], unwind=max(ln, 12) + 2, backends=SAT, timeout=200,
                    stub_realloc=False, functions=['carquet_statistics_range_overlaps'], exclude='F-RANGE-INT96' if t == 3 else None,
                    bounds='symbolic statistics min/max and query min/max (each present or absent/NULL), symbolic witness value, type %s%s' % (lab, nanb)))
    for t, ln, lab in [(0, 0, 'bool')] + tvariants(quick):
        for np_ in ([2] if quick else [1, 2, 3]):
            o.append(E1('helpers-page/%s/pages%d' % (lab, np_), HH, ['src/metadata/page_index.c'], ['-DTYPE=%d' % t, '-DLEN=%d' % ln, '-DMODE=3', '-DNP=%d' % np_],
                        unwind=max(ln, 12) + 2, backends=SAT, timeout=240, functions=['carquet_column_index_add_page', 'carquet_column_index_page_might_match'],
                        exclude='F-PAGEIDX-MEMCMP' if t in (1, 2, 4, 5) else None,
                        bounds='column index of %d page(s) built with add_page: symbolic null_count, null-page flag, min, max (present or absent) per page; '
                               'symbolic query min/max (present or NULL) and witness value per page; type %s%s' % (np_, lab, ', NaN-free' if t in (4, 5) else '')))
    return o


HT = 'harness/e1/c16_thrift.c'
SRC_T = ['src/thrift/thrift_decode.c', 'src/thrift/thrift_encode.c', 'src/core/buffer.c', 'src/core/endian.c']


def thrift(quick):
    o = []
    masks = [63, 7, 52, 33, 0] if quick else list(range(64))
    for m in masks:
        for ln in ([3] if quick else [3] if m not in (63, 51, 12) else [1, 3, 8]):
            fl = '+'.join(n for b, n in ((1, 'max'), (2, 'min'), (4, 'nulls'), (8, 'distinct'), (16, 'max_value'), (32, 'min_value')) if m & b) or 'empty'
            for mode, nm, fn in ((1, 'parse', 'parse_statistics'), (2, 'write', 'write_statistics')):
                o.append(E1('thrift-stats-%s/%s/len%d' % (nm, fl, ln), HT, SRC_T, ['-DMODE=%d' % mode, '-DFIELDS=%d' % m, '-DLEN=%d' % ln],
                            includes_source=['src/thrift/parquet_types.c'], unwind=ln + 12, unwindset={'harness.0': 4 * (ln + 4) + 12, 'same.0': 4 * (ln + 4) + 12}, backends=SMT, timeout=120, functions=[fn],
                            extra_cbmc=['--max-field-sensitivity-array-size', '4200'],
                            stubs=['carquet_arena_memdup: malloc+memcpy (the arena aligns on absolute addresses: symbolic offsets into a 64 KiB block)'] if mode == 1 else [],
                            bounds='Statistics struct with the fields {%s}; max binaries %d bytes, min binaries %d bytes, symbolic payload; null_count 37 and distinct_count -9 '
                                   'concrete (a symbolic varint makes the byte layout symbolic)' % (fl, ln, ln + 1)))
    return o


def obligations(tier):
    quick = tier == 'quick'
    o = []
    o += builder(quick)
    o += pagewriter(quick)
    o += prune(quick)
    o += helpers(quick)
    o += thrift(quick)
    return o
